package rules

import (
	"fmt"
	"go/ast"
	"go/constant"
	"go/token"
	"go/types"
	"os"
	"sort"
	"strings"

	"golang.org/x/tools/go/cfg"

	"lachk/core"
)

// ---------------------------------------------------------------------------
// The inlined, value-tracking view of a function (used by C13 and C31).
//
// A decision table ("condition C leads only to rejection, acceptance only behind not-C") must not depend on
// how the decision is distributed over helper functions, closures, result variables and single-exit
// rewrites. The view is a graph whose nodes are (activation frame, CFG block, start index, state):
//
//   - calls of functions with a body that the rule declares inlinable (same package helpers, local
//     closures) are spliced: the callee's CFG is walked in its own frame, with parameters bound to the
//     argument expressions, and its return value flows back into the caller (bounded depth, no recursion);
//   - the state records what is known about error/boolean locals and about the results of spliced calls
//     (nil, non-nil, "the error of opaque callee X", true/false, "the boolean condition E", "the value
//     with canonical name N"), so `err = f(); if err == nil {...}; return err` and
//     `if err := f(); err != nil { return err }; return nil` produce the same outcomes;
//   - a branch edge is split into the alternatives of its condition with short-circuit semantics
//     (`a || b` true is `a` or `!a && b`), each alternative carrying canonical atoms and refining the state;
//     alternatives contradicted by the state are not generated.
//
// Queries (reachability with avoided edges/nodes) then quantify over every path of the inlined program.

const (
	c13VUnknown = iota
	c13VNil
	c13VNonNil
	c13VCall // the error result of an opaque callee, nilness not yet tested
	c13VTrue
	c13VFalse
	c13VCond  // a boolean that stands for a condition
	c13VExpr  // a value with a canonical name
	c13VTuple // the results of a spliced call with several results, one value each
)

type c13Conj struct {
	atoms []string
	loops []*c13Loop
}

type c13CondVal struct {
	id       int
	pos, neg []c13Conj
}

// c13CondKey: a condition value belongs to one frame (the same helper spliced at two call sites binds
// its parameters differently).
type c13CondKey struct {
	fr *c13Frame
	e  ast.Expr
}

type c13Val struct {
	kind   int
	origin string // c13VNil/c13VNonNil/c13VCall: the opaque callee whose result this is; c13VExpr: canonical name
	cond   *c13CondVal
	elems  []c13Val // c13VTuple
}

func (v c13Val) key() string {
	if v.kind == c13VTuple {
		parts := make([]string, len(v.elems))
		for i, e := range v.elems {
			parts[i] = e.key()
		}
		return fmt.Sprintf("%d:(%s)", v.kind, strings.Join(parts, ","))
	}
	if v.cond != nil {
		return fmt.Sprintf("%d:c%d", v.kind, v.cond.id)
	}
	return fmt.Sprintf("%d:%s", v.kind, v.origin)
}

// c13State is immutable: every update copies.
type c13State struct {
	vars  map[*types.Var]c13Val
	calls map[*ast.CallExpr]c13Val
	key   string
}

func c13MkState(vars map[*types.Var]c13Val, calls map[*ast.CallExpr]c13Val) *c13State {
	var parts []string
	for v, x := range vars {
		parts = append(parts, fmt.Sprintf("v%d=%s", v.Pos(), x.key()))
	}
	for cl, x := range calls {
		parts = append(parts, fmt.Sprintf("c%d.%d=%s", cl.Pos(), cl.End(), x.key()))
	}
	sort.Strings(parts)
	return &c13State{vars: vars, calls: calls, key: strings.Join(parts, ";")}
}

func (s *c13State) withVar(v *types.Var, x c13Val) *c13State {
	vars := make(map[*types.Var]c13Val, len(s.vars)+1)
	for k, y := range s.vars {
		vars[k] = y
	}
	if x.kind == c13VUnknown {
		delete(vars, v)
	} else {
		vars[v] = x
	}
	return c13MkState(vars, s.calls)
}

func (s *c13State) withCall(cl *ast.CallExpr, x c13Val) *c13State {
	calls := make(map[*ast.CallExpr]c13Val, len(s.calls)+1)
	for k, y := range s.calls {
		calls[k] = y
	}
	calls[cl] = x
	return c13MkState(s.vars, calls)
}

// dropWithin forgets the evaluated calls located inside n (their value belongs to one evaluation of n),
// and with vars set also the locals declared inside n (the callee's locals when a frame is left).
func (s *c13State) dropWithin(n ast.Node, vars bool) *c13State {
	in := func(p token.Pos) bool { return n.Pos() <= p && p < n.End() }
	changed := false
	calls := map[*ast.CallExpr]c13Val{}
	for k, y := range s.calls {
		if in(k.Pos()) {
			changed = true
			continue
		}
		calls[k] = y
	}
	vs := s.vars
	if vars {
		vs = map[*types.Var]c13Val{}
		for k, y := range s.vars {
			if in(k.Pos()) {
				changed = true
				continue
			}
			vs[k] = y
		}
	}
	if !changed {
		return s
	}
	return c13MkState(vs, calls)
}

// c13Frame is one activation of a function in the view.
type c13Frame struct {
	id     int
	f      *core.FuncInfo
	parent *c13Frame
	site   *ast.CallExpr
	retB   *cfg.Block // where the caller resumes: the node that contains the call
	retI   int
	bind   map[*types.Var]ast.Expr // parameter / receiver -> argument expression of the calling frame
	depth  int
	env    *c13Env
	kids   map[*ast.CallExpr]*c13Frame
	aux    interface{} // rule-specific data of the frame (C31: its expression context)
}

// root frame of the activation chain
func (fr *c13Frame) isRoot() bool { return fr.parent == nil }

const (
	c13EdgeSeq = iota
	c13EdgeBranch
	c13EdgeCall
	c13EdgeRet
)

type c13VEdge struct {
	from, to *c13Node
	kind     int
	cond     ast.Expr
	succ     int
	atoms    []string
	loops    []*c13Loop
}

func (e *c13VEdge) has(atom string) bool {
	for _, a := range e.atoms {
		if a == atom {
			return true
		}
	}
	return false
}

func (e *c13VEdge) hasAny(set map[string]bool) bool {
	for _, a := range e.atoms {
		if set[a] {
			return true
		}
	}
	return false
}

// c13Outcome is how an execution of the root function ends.
type c13Outcome struct {
	fr    *c13Frame
	stmt  *ast.ReturnStmt // nil: panic
	val   c13Val          // value of the single result (c13VUnknown for several / none)
	st    *c13State       // state at the return (evaluated calls of the return statement included)
	what  string
	panic bool
	// split outcomes (views with splitBool): the root returns a boolean expression, read as
	// `if E { return true }; return false` - one outcome per disjoint alternative of E / !E
	split bool
	truth bool
	atoms []string // the atoms of the alternative, in evaluation order
}

type c13Node struct {
	id      int
	fr      *c13Frame
	b       *cfg.Block
	i       int
	st      *c13State
	out, in []*c13VEdge
	outcome *c13Outcome
}

func (n *c13Node) pos() token.Pos {
	if n.i < len(n.b.Nodes) {
		return n.b.Nodes[n.i].Pos()
	}
	if len(n.b.Nodes) > 0 {
		return n.b.Nodes[len(n.b.Nodes)-1].Pos()
	}
	return token.NoPos
}

type c13View struct {
	p      *core.Prog
	root   *c13Frame
	entry  *c13Node
	inline func(g *core.FuncInfo) bool
	mkEnv  func(vw *c13View, fr *c13Frame) *c13Env
	// valuer gives the canonical name of a non-boolean, non-error value (return values of spliced calls,
	// values assigned to tracked locals); "" = not nameable
	valuer func(fr *c13Frame, e ast.Expr) string
	// track: additional locals whose value is followed in the state (error and boolean locals, and locals
	// defined by a spliced call, always are)
	track func(fr *c13Frame, v *types.Var) bool
	// splitBool: a boolean result of the root that is a condition (`return a && b`, `return ok`) ends in
	// one outcome per alternative of the condition, behind a branch edge carrying the alternative's atoms -
	// exactly the outcomes of the if/return spelling of the same function
	splitBool bool
	// tuples: calls of helpers with several results are spliced too; `a, ok := g()` gives each tracked
	// local the value of the corresponding result (a sentinel result and an explicit boolean result read alike)
	tuples bool

	nodes    map[string]*c13Node
	order    []*c13Node
	frames   []*c13Frame
	cur      *c13State         // the state under which atoms are being named
	used     map[*c13Loop]bool // loops whose variables the atom being named mentions
	overflow bool
	conds    map[c13CondKey]*c13CondVal
	tracked  map[*types.Var]int8
	work     []*c13Node
}

const c13MaxNodes = 6000
const c13MaxDepth = 4

func c13NewView(f *core.FuncInfo, inline func(*core.FuncInfo) bool, mkEnv func(*c13View, *c13Frame) *c13Env) *c13View {
	vw := &c13View{p: f.P, inline: inline, mkEnv: mkEnv, nodes: map[string]*c13Node{}, used: map[*c13Loop]bool{}, conds: map[c13CondKey]*c13CondVal{}, tracked: map[*types.Var]int8{}}
	vw.root = &c13Frame{f: f, bind: map[*types.Var]ast.Expr{}, kids: map[*ast.CallExpr]*c13Frame{}}
	vw.frames = []*c13Frame{vw.root}
	return vw
}

// build expands the graph from the entry of the root function.
func (vw *c13View) build() {
	vw.root.env = vw.mkEnv(vw, vw.root)
	vw.entry = vw.node(vw.root, vw.root.f.CFG().Blocks[0], 0, vw.enter(vw.root, c13MkState(nil, nil)))
	for len(vw.work) > 0 {
		n := vw.work[0]
		vw.work = vw.work[1:]
		vw.expand(n)
	}
	vw.dump()
}

// namedResult: the single named result variable of the frame's function (nil if there is none).
func c13NamedResult(f *core.FuncInfo) *types.Var {
	if f.Type.Results == nil || len(f.Type.Results.List) != 1 || len(f.Type.Results.List[0].Names) != 1 {
		return nil
	}
	v, _ := f.Info().Defs[f.Type.Results.List[0].Names[0]].(*types.Var)
	return v
}

// c13ReturnedVar: the variable is the function's result variable - its named result, or a local that some
// return statement returns as such (`return y`).
func c13ReturnedVar(f *core.FuncInfo, v *types.Var) bool {
	if v == nil {
		return false
	}
	if v == c13NamedResult(f) {
		return true
	}
	for _, pt := range f.ReturnPoints() {
		if r, ok := pt.Node().(*ast.ReturnStmt); ok && len(r.Results) == 1 && varOf(f, r.Results[0]) == v {
			return true
		}
	}
	return false
}

// enter: the state at the entry of a frame - a named result starts with its zero value.
func (vw *c13View) enter(fr *c13Frame, st *c13State) *c13State {
	v := c13NamedResult(fr.f)
	if v == nil || !vw.isTracked(fr, v) {
		return st
	}
	switch t := v.Type().Underlying().(type) {
	case *types.Basic:
		if t.Info()&types.IsBoolean != 0 {
			return st.withVar(v, c13Val{kind: c13VFalse})
		}
	case *types.Interface:
		return st.withVar(v, c13Val{kind: c13VNil})
	}
	return st
}

func (vw *c13View) node(fr *c13Frame, b *cfg.Block, i int, st *c13State) *c13Node {
	key := fmt.Sprintf("%d|%d|%d|%s", fr.id, b.Index, i, st.key)
	if n, ok := vw.nodes[key]; ok {
		return n
	}
	n := &c13Node{id: len(vw.order), fr: fr, b: b, i: i, st: st}
	vw.nodes[key] = n
	vw.order = append(vw.order, n)
	if len(vw.order) > c13MaxNodes {
		vw.overflow = true
		return n
	}
	vw.work = append(vw.work, n)
	return n
}

func (vw *c13View) link(from, to *c13Node, e *c13VEdge) {
	e.from, e.to = from, to
	from.out = append(from.out, e)
	to.in = append(to.in, e)
}

// calleeOf: the function to splice for this call (nil: the call is opaque).
func (vw *c13View) calleeOf(fr *c13Frame, call *ast.CallExpr) *core.FuncInfo {
	f := fr.f
	if fr.depth >= c13MaxDepth {
		return nil
	}
	var g *core.FuncInfo
	obj, conv := vw.p.ResolveCallee(f.Info(), call)
	if conv {
		return nil
	}
	switch o := obj.(type) {
	case *types.Func:
		g = vw.p.FuncOf(o)
		if g == nil || g.Body == nil || vw.inline == nil || !vw.inline(g) {
			return nil
		}
	case *types.Var:
		// a local closure: `check := func(...) ... {...}` called by name
		if o.IsField() {
			return nil
		}
		lit, ok := ast.Unparen(c13SingleDefExpr(f, o)).(*ast.FuncLit)
		if !ok {
			return nil
		}
		g = vw.p.LitInfo(lit)
		if g == nil {
			return nil
		}
	default:
		return nil
	}
	if g.Type.Results != nil && g.Type.Results.NumFields() > 1 && !vw.tuples {
		return nil
	}
	if n := len(g.Type.Params.List); n > 0 {
		if _, variadic := g.Type.Params.List[n-1].Type.(*ast.Ellipsis); variadic {
			return nil
		}
	}
	for a := fr; a != nil; a = a.parent {
		if a.f == g {
			return nil
		}
	}
	return g
}

func c13SingleDefExpr(f *core.FuncInfo, v *types.Var) ast.Expr {
	if d := singleDef(f, v); d != nil {
		return d
	}
	return &ast.BadExpr{}
}

func (vw *c13View) frameFor(fr *c13Frame, call *ast.CallExpr, g *core.FuncInfo, b *cfg.Block, i int) *c13Frame {
	if k, ok := fr.kids[call]; ok {
		return k
	}
	k := &c13Frame{id: len(vw.frames), f: g, parent: fr, site: call, retB: b, retI: i, bind: map[*types.Var]ast.Expr{}, depth: fr.depth + 1, kids: map[*ast.CallExpr]*c13Frame{}}
	assigned := map[*types.Var]bool{}
	for _, a := range assignments(g) {
		if v := varOf(g, a.LHS); v != nil {
			assigned[v] = true
		}
	}
	if recv := g.Recv(); recv != nil && !assigned[recv] {
		if sel, ok := ast.Unparen(call.Fun).(*ast.SelectorExpr); ok {
			k.bind[recv] = sel.X
		}
	}
	for ai, arg := range call.Args {
		if p := g.Param(ai); p != nil && !assigned[p] {
			k.bind[p] = arg
		}
	}
	fr.kids[call] = k
	vw.frames = append(vw.frames, k)
	k.env = vw.mkEnv(vw, k)
	return k
}

// pendingCall: the first call inside nd (in evaluation order) that is to be spliced and has not been
// evaluated yet in this state.
func (vw *c13View) pendingCall(fr *c13Frame, nd ast.Node, st *c13State) (*ast.CallExpr, *core.FuncInfo) {
	switch nd.(type) {
	case *ast.DeferStmt, *ast.GoStmt:
		return nil, nil
	}
	var calls []*ast.CallExpr
	ast.Inspect(nd, func(n ast.Node) bool {
		switch x := n.(type) {
		case *ast.FuncLit:
			return false
		case *ast.CallExpr:
			calls = append(calls, x)
		}
		return true
	})
	sort.SliceStable(calls, func(i, j int) bool { return calls[i].End() < calls[j].End() })
	for _, cl := range calls {
		if _, done := st.calls[cl]; done {
			continue
		}
		if g := vw.calleeOf(fr, cl); g != nil {
			return cl, g
		}
	}
	return nil, nil
}

func (vw *c13View) expand(n *c13Node) {
	fr, b, st := n.fr, n.b, n.st
	f := fr.f
	for i := n.i; i < len(b.Nodes); i++ {
		nd := b.Nodes[i]
		if cl, g := vw.pendingCall(fr, nd, st); cl != nil {
			kid := vw.frameFor(fr, cl, g, b, i)
			vw.link(n, vw.node(kid, g.CFG().Blocks[0], 0, vw.enter(kid, st)), &c13VEdge{kind: c13EdgeCall})
			return
		}
		switch x := nd.(type) {
		case *ast.ReturnStmt:
			vw.doReturn(n, x, st)
			return
		case ast.Expr:
			if i == len(b.Nodes)-1 && len(b.Succs) == 2 {
				if cond := f.BranchCond(b); cond != nil {
					for s := 0; s < 2; s++ {
						for _, a := range vw.alts(fr, []c13Alt{{st: st}}, cond, s == 0) {
							vw.link(n, vw.node(fr, b.Succs[s], 0, a.st.dropWithin(nd, false)), &c13VEdge{kind: c13EdgeBranch, cond: cond, succ: s, atoms: a.atoms, loops: a.loops})
						}
					}
					return
				}
			}
		case *ast.AssignStmt, *ast.ValueSpec, *ast.IncDecStmt:
			st = vw.assign(fr, st, x)
		}
		st = st.dropWithin(nd, false)
	}
	if len(b.Succs) == 0 {
		// a block without successors that does not end in a return: a no-return call (panic)
		n.outcome = &c13Outcome{fr: fr, panic: true, st: st, what: "panic"}
		return
	}
	for s := range b.Succs {
		vw.link(n, vw.node(fr, b.Succs[s], 0, st), &c13VEdge{kind: c13EdgeSeq, succ: s})
	}
}

func (vw *c13View) doReturn(n *c13Node, r *ast.ReturnStmt, st *c13State) {
	fr := n.fr
	val := c13Val{}
	what := "return"
	if len(r.Results) == 1 {
		val = vw.evalVal(fr, st, r.Results[0])
		what = exprStr(r.Results[0])
	} else if v := c13NamedResult(fr.f); v != nil && len(r.Results) == 0 {
		// a bare return: the value of the named result
		val = st.vars[v]
		what = v.Name()
	} else if !fr.isRoot() && len(r.Results) > 1 {
		val = c13Val{kind: c13VTuple}
		for _, e := range r.Results {
			val.elems = append(val.elems, vw.evalVal(fr, st, e))
		}
	} else if !fr.isRoot() && len(r.Results) == 0 && fr.f.Type.Results != nil && fr.f.Type.Results.NumFields() > 1 {
		// a bare return of several named results: what the state knows about each
		val = c13Val{kind: c13VTuple}
		for _, fld := range fr.f.Type.Results.List {
			for _, nm := range fld.Names {
				rv, _ := fr.f.Info().Defs[nm].(*types.Var)
				val.elems = append(val.elems, st.vars[rv])
			}
		}
	}
	if fr.isRoot() {
		if vw.splitBool && len(r.Results) == 1 && val.kind == c13VCond {
			vw.splitReturn(n, r, st)
			return
		}
		n.outcome = &c13Outcome{fr: fr, stmt: r, val: val, st: st, what: what}
		return
	}
	body := ast.Node(fr.f.Body)
	if fr.f.Decl != nil {
		body = fr.f.Decl
	} else if fr.f.Lit != nil {
		body = fr.f.Lit
	}
	st2 := st.dropWithin(body, true).withCall(fr.site, val)
	vw.link(n, vw.node(fr.parent, fr.retB, fr.retI, st2), &c13VEdge{kind: c13EdgeRet})
}

// splitReturn ends the root in one outcome per alternative of the returned condition: `return E` is
// `if E { return true }; return false`, with && and || split by their short-circuit meaning (so the atoms
// of an alternative are listed in evaluation order).
func (vw *c13View) splitReturn(n *c13Node, r *ast.ReturnStmt, st *c13State) {
	fr := n.fr
	e := r.Results[0]
	for s, truth := range []bool{true, false} {
		k, word := c13VFalse, "false"
		if truth {
			k, word = c13VTrue, "true"
		}
		for _, a := range vw.alts(fr, []c13Alt{{st: st}}, e, truth) {
			t := &c13Node{id: len(vw.order), fr: fr, b: n.b, i: len(n.b.Nodes), st: a.st}
			t.outcome = &c13Outcome{fr: fr, stmt: r, val: c13Val{kind: k}, st: a.st, what: exprStr(e) + " (" + word + ")", split: true, truth: truth, atoms: a.atoms}
			vw.order = append(vw.order, t)
			kind := c13EdgeBranch
			if len(a.atoms) == 0 {
				kind = c13EdgeSeq
			}
			vw.link(n, t, &c13VEdge{kind: kind, cond: e, succ: s, atoms: a.atoms, loops: a.loops})
		}
	}
}

// isTracked: the value of the local is followed in the state. Only locals declared in the body whose
// every assignment the walk sees (none inside a nested literal, address never taken).
func (vw *c13View) isTracked(fr *c13Frame, v *types.Var) bool {
	if v == nil {
		return false
	}
	if t, ok := vw.tracked[v]; ok {
		return t > 0
	}
	f := fr.f
	ok := !v.IsField() && v.Pkg() != nil && v.Parent() != v.Pkg().Scope() && (f.Body.Pos() <= v.Pos() && v.Pos() < f.Body.End() || v == c13NamedResult(f))
	if ok {
		for _, l := range allLits(f) {
			for _, a := range assignments(l) {
				if varOfRaw(l, a.LHS) == v {
					ok = false
				}
			}
		}
		f.InspectAll(func(n ast.Node) bool {
			if u, isU := n.(*ast.UnaryExpr); isU && u.Op == token.AND && varOfRaw(f, u.X) == v {
				ok = false
			}
			return true
		})
	}
	if ok {
		ok = false
		switch t := v.Type().Underlying().(type) {
		case *types.Basic:
			ok = t.Info()&types.IsBoolean != 0
		case *types.Interface:
			ok = types.Identical(v.Type(), types.Universe.Lookup("error").Type())
		}
		if !ok {
			// defined by a spliced call
			if call, isCall := ast.Unparen(c13SingleDefExpr(f, v)).(*ast.CallExpr); isCall && vw.calleeOf(fr, call) != nil {
				ok = true
			} else if call, _ := c13TupleDef(f, v); call != nil && vw.calleeOf(fr, call) != nil {
				ok = true // one of the results of a spliced call: `v, found := g()`
			}
		}
		if !ok && vw.valuer != nil && c13ReturnedVar(f, v) {
			ok = true // a result variable (single-exit form): its value is the function's value
		}
		if !ok && vw.track != nil {
			ok = vw.track(fr, v)
		}
	}
	if ok {
		vw.tracked[v] = 1
	} else {
		vw.tracked[v] = -1
	}
	return ok
}

func (vw *c13View) assign(fr *c13Frame, st *c13State, stmt ast.Node) *c13State {
	f := fr.f
	type upd struct {
		v *types.Var
		x c13Val
	}
	var ups []upd
	switch x := stmt.(type) {
	case *ast.AssignStmt:
		for i, l := range x.Lhs {
			v := varOf(f, l)
			if !vw.isTracked(fr, v) {
				continue
			}
			val := c13Val{}
			if len(x.Lhs) == len(x.Rhs) && (x.Tok == token.ASSIGN || x.Tok == token.DEFINE) {
				val = vw.evalVal(fr, st, x.Rhs[i])
			} else if tup, isTup := vw.tupleOf(st, x); isTup {
				// a, ok := g() with g spliced: the value of the i-th result
				if i < len(tup.elems) {
					val = tup.elems[i]
				}
			} else if call, isCall := ast.Unparen(x.Rhs[0]).(*ast.CallExpr); isCall && len(x.Rhs) == 1 && i == len(x.Lhs)-1 && types.Identical(v.Type(), types.Universe.Lookup("error").Type()) {
				// v, err := g(): the error of an opaque callee
				if nm := calleeName(f, call); nm != "" {
					val = c13Val{kind: c13VCall, origin: nm}
				}
			}
			ups = append(ups, upd{v, val})
		}
	case *ast.ValueSpec:
		for i, id := range x.Names {
			v, _ := f.Info().Defs[id].(*types.Var)
			if !vw.isTracked(fr, v) {
				continue
			}
			val := c13Val{}
			switch {
			case len(x.Values) == len(x.Names):
				val = vw.evalVal(fr, st, x.Values[i])
			case len(x.Values) == 0:
				switch t := v.Type().Underlying().(type) {
				case *types.Basic:
					if t.Info()&types.IsBoolean != 0 {
						val = c13Val{kind: c13VFalse}
					}
				case *types.Interface:
					val = c13Val{kind: c13VNil}
				}
			}
			ups = append(ups, upd{v, val})
		}
	case *ast.IncDecStmt:
		if v := varOf(f, x.X); vw.isTracked(fr, v) {
			ups = append(ups, upd{v, c13Val{}})
		}
	}
	for _, u := range ups {
		st = st.withVar(u.v, u.x)
	}
	return st
}

// tupleOf: the statement assigns the results of a spliced call with several results, evaluated in this state.
func (vw *c13View) tupleOf(st *c13State, x *ast.AssignStmt) (c13Val, bool) {
	if len(x.Rhs) != 1 || len(x.Lhs) < 2 || x.Tok != token.ASSIGN && x.Tok != token.DEFINE {
		return c13Val{}, false
	}
	call, ok := ast.Unparen(x.Rhs[0]).(*ast.CallExpr)
	if !ok {
		return c13Val{}, false
	}
	v, ok := st.calls[call]
	return v, ok && v.kind == c13VTuple
}

// c13TupleDef: the local has exactly one definition, as the i-th target of `a, b := g()` / `a, b = g()`.
func c13TupleDef(f *core.FuncInfo, v *types.Var) (*ast.CallExpr, int) {
	if v == nil {
		return nil, 0
	}
	var call *ast.CallExpr
	at, n := 0, 0
	for _, a := range assignments(f) {
		if varOfRaw(f, a.LHS) != v {
			continue
		}
		n++
		as, ok := a.Stmt.(*ast.AssignStmt)
		if !ok || len(as.Rhs) != 1 || len(as.Lhs) < 2 || as.Tok != token.ASSIGN && as.Tok != token.DEFINE {
			return nil, 0
		}
		cl, ok := ast.Unparen(as.Rhs[0]).(*ast.CallExpr)
		if !ok {
			return nil, 0
		}
		for i, l := range as.Lhs {
			if l == a.LHS {
				call, at = cl, i
			}
		}
	}
	if n != 1 {
		return nil, 0
	}
	return call, at
}

// known: what the state says about the expression (a tracked local, an evaluated call, or the untested
// error of an opaque callee).
func (vw *c13View) known(fr *c13Frame, st *c13State, e ast.Expr) (c13Val, bool) {
	f := fr.f
	switch x := ast.Unparen(e).(type) {
	case *ast.Ident:
		if v := varOf(f, x); v != nil && st != nil {
			if val, ok := st.vars[v]; ok {
				return val, true
			}
		}
	case *ast.CallExpr:
		if st != nil {
			if val, ok := st.calls[x]; ok {
				return val, val.kind != c13VUnknown
			}
		}
		if tv, ok := f.Info().Types[x]; ok && tv.Type != nil && types.Identical(tv.Type, types.Universe.Lookup("error").Type()) {
			switch nm := calleeName(f, x); nm {
			case "":
			case "errors.New", "fmt.Errorf":
				return c13Val{kind: c13VNonNil}, true
			default:
				return c13Val{kind: c13VCall, origin: nm}, true
			}
		}
	}
	return c13Val{}, false
}

func (vw *c13View) evalVal(fr *c13Frame, st *c13State, e ast.Expr) c13Val {
	f := fr.f
	info := f.Info()
	e = ast.Unparen(e)
	if core.IsNil(info, e) {
		return c13Val{kind: c13VNil}
	}
	if tv, ok := info.Types[e]; ok && tv.Value != nil && tv.Value.Kind() == constant.Bool {
		if constant.BoolVal(tv.Value) {
			return c13Val{kind: c13VTrue}
		}
		return c13Val{kind: c13VFalse}
	}
	if v, ok := vw.known(fr, st, e); ok {
		return v
	}
	if v := varOf(f, e); v != nil && c13NonNilErrVar(f.P, v) {
		return c13Val{kind: c13VNonNil}
	}
	if c13IsBool(info, e) {
		cv, ok := vw.conds[c13CondKey{fr, e}]
		if !ok {
			cv = &c13CondVal{id: len(vw.conds)}
			for _, a := range vw.alts(fr, []c13Alt{{st: st}}, e, true) {
				cv.pos = append(cv.pos, c13Conj{a.atoms, a.loops})
			}
			for _, a := range vw.alts(fr, []c13Alt{{st: st}}, e, false) {
				cv.neg = append(cv.neg, c13Conj{a.atoms, a.loops})
			}
			vw.conds[c13CondKey{fr, e}] = cv
		}
		return c13Val{kind: c13VCond, cond: cv}
	}
	if vw.valuer != nil {
		vw.cur = st
		if s := vw.valuer(fr, e); s != "" {
			return c13Val{kind: c13VExpr, origin: s}
		}
	}
	return c13Val{}
}

// c13Alt is one alternative of a condition: a conjunction of atoms and the state refined by it.
type c13Alt struct {
	atoms []string
	loops []*c13Loop
	st    *c13State
}

func (a c13Alt) with(atoms []string, loops []*c13Loop, st *c13State) c13Alt {
	out := c13Alt{st: st}
	out.atoms = append(append([]string(nil), a.atoms...), atoms...)
	out.loops = append([]*c13Loop(nil), a.loops...)
	for _, l := range loops {
		dup := false
		for _, m := range out.loops {
			dup = dup || m == l
		}
		if !dup {
			out.loops = append(out.loops, l)
		}
	}
	return out
}

// alts extends every incoming alternative by "e has the given truth", splitting && and || with their
// short-circuit meaning so that the alternatives are disjoint and each refines the state precisely.
func (vw *c13View) alts(fr *c13Frame, in []c13Alt, e ast.Expr, truth bool) []c13Alt {
	e = ast.Unparen(e)
	switch x := e.(type) {
	case *ast.UnaryExpr:
		if x.Op == token.NOT {
			return vw.alts(fr, in, x.X, !truth)
		}
	case *ast.BinaryExpr:
		if x.Op == token.LAND || x.Op == token.LOR {
			if (x.Op == token.LAND) == truth {
				return vw.alts(fr, vw.alts(fr, in, x.X, truth), x.Y, truth)
			}
			a := vw.alts(fr, in, x.X, truth)
			b := vw.alts(fr, vw.alts(fr, in, x.X, !truth), x.Y, truth)
			return append(a, b...)
		}
	}
	var out []c13Alt
	for _, a := range in {
		out = append(out, vw.leaf(fr, a, e, truth)...)
	}
	return out
}

func (vw *c13View) leaf(fr *c13Frame, a c13Alt, e ast.Expr, truth bool) []c13Alt {
	f := fr.f
	info := f.Info()
	if tv, ok := info.Types[e]; ok && tv.Value != nil && tv.Value.Kind() == constant.Bool {
		if constant.BoolVal(tv.Value) == truth {
			return []c13Alt{a}
		}
		return nil
	}
	if v, ok := vw.known(fr, a.st, e); ok {
		switch v.kind {
		case c13VTrue, c13VFalse:
			if (v.kind == c13VTrue) == truth {
				return []c13Alt{a}
			}
			return nil
		case c13VCond:
			conjs := v.cond.pos
			if !truth {
				conjs = v.cond.neg
			}
			var out []c13Alt
			for _, cj := range conjs {
				out = append(out, a.with(cj.atoms, cj.loops, a.st))
			}
			return out
		}
	}
	if cm, ok := core.NormCmp(core.Fact{Expr: e, Truth: truth}); ok && cm.R != nil && (cm.Op == token.EQL || cm.Op == token.NEQ) {
		l, r := cm.L, cm.R
		if core.IsNil(info, l) {
			l, r = r, l
		}
		if core.IsNil(info, r) {
			if v, ok := vw.known(fr, a.st, l); ok {
				isNil := cm.Op == token.EQL
				switch v.kind {
				case c13VNil:
					if isNil {
						return []c13Alt{a}
					}
					return nil
				case c13VNonNil:
					if !isNil {
						return []c13Alt{a}
					}
					return nil
				case c13VCall:
					atom := c13Atom{"err:" + v.origin + " == nil", !isNil}.String()
					st := a.st
					if w := varOf(f, l); w != nil {
						if _, tracked := st.vars[w]; tracked {
							k := c13VNonNil
							if isNil {
								k = c13VNil
							}
							st = st.withVar(w, c13Val{kind: k, origin: v.origin})
						}
					}
					return []c13Alt{a.with([]string{atom}, nil, st)}
				}
			}
		}
	}
	vw.cur = a.st
	for l := range vw.used {
		delete(vw.used, l)
	}
	atom := fr.env.atomOf(core.Fact{Expr: e, Truth: truth}).String()
	var loops []*c13Loop
	for l := range vw.used {
		loops = append(loops, l)
	}
	sort.Slice(loops, func(i, j int) bool { return loops[i].stmt.Pos() < loops[j].stmt.Pos() })
	if len(loops) > 1 {
		atom = "?mixed-loops " + atom
	}
	return []c13Alt{a.with([]string{atom}, loops, a.st)}
}

// stateName: the canonical name the current state gives to the expression ("" if none).
func (vw *c13View) stateName(fr *c13Frame, e ast.Expr) string {
	if v, ok := vw.known(fr, vw.cur, e); ok && v.kind == c13VExpr {
		return v.origin
	}
	return ""
}

// stateCond: the current state knows the boolean expression as one atomic condition; returns its atom
// (and counts the loops whose variables the condition mentions as used).
func (vw *c13View) stateCond(fr *c13Frame, e ast.Expr) (string, bool) {
	v, ok := vw.known(fr, vw.cur, e)
	if !ok || v.kind != c13VCond || len(v.cond.pos) != 1 || len(v.cond.pos[0].atoms) != 1 {
		return "", false
	}
	for _, l := range v.cond.pos[0].loops {
		vw.used[l] = true
	}
	return v.cond.pos[0].atoms[0], true
}

// hasState: the current state knows the value of the identifier (it must not be read through to its
// defining expression).
func (vw *c13View) hasState(fr *c13Frame, id *ast.Ident) bool {
	if vw.cur == nil {
		return false
	}
	v := varOf(fr.f, id)
	if v == nil {
		return false
	}
	_, ok := vw.cur.vars[v]
	return ok
}

// ---------------------------------------------------------------------------
// queries

// search: breadth-first from the start nodes; edges and nodes can be avoided (start nodes are never
// avoided); returns the first node satisfying target and the edges leading to it.
func (vw *c13View) search(from []*c13Node, avoidEdge func(*c13VEdge) bool, avoidNode func(*c13Node) bool, target func(*c13Node) bool) (*c13Node, []*c13VEdge) {
	via := map[*c13Node]*c13VEdge{}
	seen := map[*c13Node]bool{}
	var work []*c13Node
	for _, n := range from {
		if !seen[n] {
			seen[n] = true
			work = append(work, n)
		}
	}
	for len(work) > 0 {
		n := work[0]
		work = work[1:]
		if target != nil && target(n) {
			var path []*c13VEdge
			for m := n; via[m] != nil; m = via[m].from {
				path = append([]*c13VEdge{via[m]}, path...)
			}
			return n, path
		}
		for _, e := range n.out {
			if seen[e.to] || avoidEdge != nil && avoidEdge(e) || avoidNode != nil && avoidNode(e.to) {
				continue
			}
			seen[e.to] = true
			via[e.to] = e
			work = append(work, e.to)
		}
	}
	return nil, nil
}

// reachSet: every node reachable from the start nodes under the same restrictions.
func (vw *c13View) reachSet(from []*c13Node, avoidEdge func(*c13VEdge) bool, avoidNode func(*c13Node) bool) map[*c13Node]bool {
	seen := map[*c13Node]bool{}
	vw.search(from, avoidEdge, avoidNode, func(n *c13Node) bool { seen[n] = true; return false })
	return seen
}

// nodesAt: the nodes that start block b of the frame (all states).
func (vw *c13View) nodesAt(fr *c13Frame, b *cfg.Block) []*c13Node {
	var out []*c13Node
	for _, n := range vw.order {
		if n.fr != fr || n.b != b || n.i != 0 {
			continue
		}
		// a node at which the block is resumed after a spliced call of its first statement is not an entry
		resumed := false
		for _, e := range n.in {
			resumed = resumed || e.kind == c13EdgeRet
		}
		if !resumed {
			out = append(out, n)
		}
	}
	return out
}

func (vw *c13View) atBlock(fr *c13Frame, b *cfg.Block) func(*c13Node) bool {
	return func(n *c13Node) bool { return n.fr == fr && n.b == b }
}

// describe renders a witness path as line numbers ("L12 -> L15 -> L20").
func (vw *c13View) describe(path []*c13VEdge, end *c13Node) string {
	var parts []string
	last := ""
	add := func(p token.Pos) {
		if p == token.NoPos {
			return
		}
		s := fmt.Sprintf("L%d", vw.p.Fset.Position(p).Line)
		if s != last {
			parts = append(parts, s)
			last = s
		}
	}
	for _, e := range path {
		if e.kind == c13EdgeBranch && e.cond != nil {
			add(e.cond.Pos())
		} else {
			add(e.from.pos())
		}
	}
	if end != nil {
		if end.outcome != nil && end.outcome.stmt != nil {
			add(end.outcome.stmt.Pos())
		} else {
			add(end.pos())
		}
	}
	return strings.Join(parts, " -> ")
}

// dump prints the view (debugging aid, enabled by LACHK_C13_DUMP=1).
func (vw *c13View) dump() {
	if os.Getenv("LACHK_C13_DUMP") == "" {
		return
	}
	fmt.Fprintf(os.Stderr, "view of %s: %d nodes, %d frames\n", vw.root.f.Name, len(vw.order), len(vw.frames))
	for _, n := range vw.order {
		oc := ""
		if n.outcome != nil {
			oc = " OUTCOME " + n.outcome.what
		}
		fmt.Fprintf(os.Stderr, " n%d fr%d(%s) b%d.%d L%d st{%s}%s\n", n.id, n.fr.id, short(n.fr.f.Name), n.b.Index, n.i, vw.p.Fset.Position(n.pos()).Line, n.st.key, oc)
		for _, e := range n.out {
			fmt.Fprintf(os.Stderr, "    -> n%d kind%d succ%d atoms=%q loops=%d\n", e.to.id, e.kind, e.succ, e.atoms, len(e.loops))
		}
	}
}

// outcomes lists the terminal nodes.
func (vw *c13View) outcomes() []*c13Node {
	var out []*c13Node
	for _, n := range vw.order {
		if n.outcome != nil {
			out = append(out, n)
		}
	}
	return out
}

// branchEdges lists the conditional edges (one per feasible alternative).
func (vw *c13View) branchEdges() []*c13VEdge {
	var out []*c13VEdge
	for _, n := range vw.order {
		for _, e := range n.out {
			if e.kind == c13EdgeBranch {
				out = append(out, e)
			}
		}
	}
	return out
}

// ctxAtoms: the atoms that hold when the edge is taken - its own and those of the edges that every
// path to it passes through as the only way in (a chain of single predecessors), so that nested ifs read
// like a conjunction.
func (vw *c13View) ctxAtoms(e *c13VEdge) []string {
	atoms := append([]string(nil), e.atoms...)
	n := e.from
	for depth := 0; depth < 16 && len(n.in) == 1; depth++ {
		p := n.in[0]
		if p.kind == c13EdgeBranch {
			atoms = append(atoms, p.atoms...)
		}
		n = p.from
	}
	return atoms
}

// loopBlocks of a loop statement in the frame's function.
func c13LoopBlocks(f *core.FuncInfo, loop ast.Stmt) (head, done, body *cfg.Block) {
	head, done = f.LoopOf(loop)
	body = c13LoopBody(f, loop)
	return
}

// c13IterationOf reads a loop as an iteration like core.IterationOf, and additionally accepts counted
// loops whose init clause defines several variables (`for i, n := 0, len(xs); i < n; i++`): the index is
// the variable compared in the condition, the bound variable stands for its initial value when nothing
// else assigns it.
func c13IterationOf(f *core.FuncInfo, loop ast.Stmt, resolve func(ast.Expr) ast.Expr) (*core.Iteration, bool) {
	if it, ok := core.IterationOf(f, loop, resolve); ok {
		return it, true
	}
	fs, ok := loop.(*ast.ForStmt)
	if !ok || fs.Cond == nil {
		return nil, false
	}
	as, ok := fs.Init.(*ast.AssignStmt)
	if !ok || len(as.Lhs) != len(as.Rhs) || len(as.Lhs) < 2 {
		return nil, false
	}
	info := f.Info()
	cm, ok := core.NormCmp(core.Fact{Expr: fs.Cond, Truth: true})
	if !ok || cm.R == nil || cm.Op != token.LSS {
		return nil, false
	}
	iv := varOf(f, cm.L)
	if iv == nil {
		return nil, false
	}
	inc, ok := fs.Post.(*ast.IncDecStmt)
	if !ok || inc.Tok != token.INC || varOf(f, inc.X) != iv {
		return nil, false
	}
	initOf := func(v *types.Var) ast.Expr {
		for i, l := range as.Lhs {
			if varOf(f, l) == v {
				return as.Rhs[i]
			}
		}
		return nil
	}
	init := initOf(iv)
	if init == nil {
		return nil, false
	}
	it := &core.Iteration{F: f, Stmt: loop, Body: fs.Body, Index: iv, Counted: true}
	it.Head, it.Done = f.LoopOf(loop)
	_, it.Complete = loopDone(f, loop)
	it.FromZero = core.IsConstInt(info, core.StripConv(info, init), 0)
	bound := ast.Unparen(cm.R)
	if bv := varOf(f, bound); bv != nil {
		if bi := initOf(bv); bi != nil && len(assignsToVar(f, bv)) == 1 {
			bound = ast.Unparen(bi)
		}
	}
	it.Bound = bound
	b := core.StripConv(info, bound)
	if resolve != nil {
		b = core.StripConv(info, resolve(b))
	}
	if call, ok := b.(*ast.CallExpr); ok && calleeName(f, call) == "builtin.len" && len(call.Args) == 1 {
		it.Coll = call.Args[0]
		if resolve != nil {
			it.Coll = resolve(call.Args[0])
		}
	}
	return it, true
}

// c13LoopInit: the initial value of the index variable of a counted loop (nil if the init clause does
// not define it).
func c13LoopInit(f *core.FuncInfo, loop ast.Stmt, iv *types.Var) ast.Expr {
	fs, ok := loop.(*ast.ForStmt)
	if !ok {
		return nil
	}
	as, ok := fs.Init.(*ast.AssignStmt)
	if !ok || len(as.Lhs) != len(as.Rhs) {
		return nil
	}
	for i, l := range as.Lhs {
		if varOf(f, l) == iv {
			return as.Rhs[i]
		}
	}
	return nil
}
