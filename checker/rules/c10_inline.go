package rules

// C10/C15 — inlined views of functions.
//
// A rule that decides a fact of "what ProcessRoot does" must not depend on how that work is split over
// helper functions. c10Inlined(f, keep...) gives a synthetic *core.FuncInfo whose body is f's body with
// the calls of declared functions of the same package replaced by (a fresh copy of) the callee's body:
// parameters are bound to the arguments (substituted when the argument is a stable expression, otherwise
// assigned to a fresh local), every local of the callee gets a fresh variable object per instance, the
// callee's `return X` becomes an assignment to the call's targets (and a jump to the end of the inlined
// body when it is not the last statement). When the call's error result is tested right after the call
// (`v, err := g(); if err != nil { return … }`) the test is resolved per return site of the callee where
// the returned error is syntactically nil or non-nil (jump threading), so that "this edge only leads to
// an error return" stays decidable across the call. Function literals of the view are views themselves
// (c10Lits). The view has its own types.Info (a copy of the package's, extended with the copied nodes),
// so every core query (CFG, paths, facts, call sites) works on it unchanged.
//
// The callees named in keep are never inlined: they are the anchors the rule itself talks about.
// Candidates for promotion to core (FuncInfo has no way to attach literals to a synthetic function:
// c10Lits / c10LitArg stand in for Lits / LitInfo).

import (
	"fmt"
	"go/ast"
	"go/printer"
	"go/token"
	"go/types"
	"os"
	"reflect"
	"sort"
	"strings"

	"golang.org/x/tools/go/packages"

	"lachk/core"
)

// c10ShadowDelta gives the offset by which the positions of a second or later instance of g in one view
// are moved: into a shadow copy of g's file in the file set (same name, same line table), so that the
// instances do not overlap in position space and reports still show the source line.
func c10ShadowDelta(p *core.Prog, g *core.FuncInfo, inst int) token.Pos {
	if inst == 0 {
		return 0
	}
	of := p.Fset.File(g.Decl.Pos())
	if of == nil {
		return 0
	}
	key := fmt.Sprintf("%p|%s#%d", p.Fset, of.Name(), inst)
	if d, ok := c10Shadows[key]; ok {
		return d
	}
	nf := p.Fset.AddFile(of.Name(), -1, of.Size())
	nf.SetLines(of.Lines())
	d := token.Pos(nf.Base() - of.Base())
	c10Shadows[key] = d
	return d
}

var c10Shadows = map[string]token.Pos{}

// ---------------------------------------------------------------------------
// extended package information

var c10ExtPkgs = map[*packages.Package]*packages.Package{}

func c10ExtPkg(pk *packages.Package) *packages.Package {
	if e, ok := c10ExtPkgs[pk]; ok {
		return e
	}
	src := pk.TypesInfo
	info := &types.Info{
		Types:        make(map[ast.Expr]types.TypeAndValue, len(src.Types)+256),
		Instances:    make(map[*ast.Ident]types.Instance, len(src.Instances)),
		Defs:         make(map[*ast.Ident]types.Object, len(src.Defs)+64),
		Uses:         make(map[*ast.Ident]types.Object, len(src.Uses)+256),
		Implicits:    make(map[ast.Node]types.Object, len(src.Implicits)),
		Selections:   make(map[*ast.SelectorExpr]*types.Selection, len(src.Selections)+128),
		Scopes:       src.Scopes,
		FileVersions: src.FileVersions,
	}
	for k, v := range src.Types {
		info.Types[k] = v
	}
	for k, v := range src.Instances {
		info.Instances[k] = v
	}
	for k, v := range src.Defs {
		info.Defs[k] = v
	}
	for k, v := range src.Uses {
		info.Uses[k] = v
	}
	for k, v := range src.Implicits {
		info.Implicits[k] = v
	}
	for k, v := range src.Selections {
		info.Selections[k] = v
	}
	e := &packages.Package{
		ID: pk.ID, Name: pk.Name, PkgPath: pk.PkgPath, GoFiles: pk.GoFiles, CompiledGoFiles: pk.CompiledGoFiles,
		Imports: pk.Imports, Module: pk.Module, Types: pk.Types, Fset: pk.Fset, Syntax: pk.Syntax,
		TypesInfo: info, TypesSizes: pk.TypesSizes,
	}
	c10ExtPkgs[pk] = e
	c10ExtPkgs[e] = e
	return e
}

// ---------------------------------------------------------------------------
// deep copy of syntax with type information

type c10Cloner struct {
	src, dst *types.Info
	ren      map[types.Object]types.Object // objects that get a fresh identity in the copy
	subst    map[*types.Var]ast.Expr       // parameters replaced by the argument expression (a node of dst)
	suffix   string                        // appended to label names
	delta    token.Pos
	at       token.Pos             // when set: every position of the copy (an expression moved into another function's text takes the place it is moved to)
	origOf   map[ast.Node]ast.Node // copy -> the source node it ultimately stems from
}

var (
	c10TObject  = reflect.TypeOf((*ast.Object)(nil))
	c10TScope   = reflect.TypeOf((*ast.Scope)(nil))
	c10TComment = reflect.TypeOf((*ast.CommentGroup)(nil))
	c10TPos     = reflect.TypeOf(token.NoPos)
)

func (cl *c10Cloner) obj(o types.Object) types.Object {
	if o == nil {
		return nil
	}
	if r, ok := cl.ren[o]; ok {
		return r
	}
	return o
}

func (cl *c10Cloner) val(v reflect.Value) reflect.Value {
	switch v.Kind() {
	case reflect.Interface:
		if v.IsNil() {
			return v
		}
		if id, ok := v.Interface().(*ast.Ident); ok && len(cl.subst) > 0 {
			if pv, ok := cl.src.Uses[id].(*types.Var); ok {
				if arg, ok := cl.subst[pv]; ok {
					same := &c10Cloner{src: cl.dst, dst: cl.dst, origOf: cl.origOf, at: id.Pos() + cl.delta}
					out := reflect.New(v.Type()).Elem()
					out.Set(reflect.ValueOf(same.expr(arg)))
					return out
				}
			}
		}
		out := reflect.New(v.Type()).Elem()
		out.Set(cl.val(v.Elem()))
		return out
	case reflect.Ptr:
		if v.IsNil() {
			return v
		}
		switch v.Type() {
		case c10TObject, c10TScope, c10TComment:
			return reflect.Zero(v.Type())
		}
		if v.Elem().Kind() != reflect.Struct {
			return v
		}
		nv := reflect.New(v.Type().Elem())
		for i := 0; i < v.Elem().NumField(); i++ {
			nv.Elem().Field(i).Set(cl.val(v.Elem().Field(i)))
		}
		cl.record(v.Interface(), nv.Interface())
		return nv
	case reflect.Slice:
		if v.IsNil() {
			return v
		}
		nv := reflect.MakeSlice(v.Type(), v.Len(), v.Len())
		for i := 0; i < v.Len(); i++ {
			nv.Index(i).Set(cl.val(v.Index(i)))
		}
		return nv
	case reflect.Struct:
		nv := reflect.New(v.Type()).Elem()
		for i := 0; i < v.NumField(); i++ {
			nv.Field(i).Set(cl.val(v.Field(i)))
		}
		return nv
	default:
		if v.Type() == c10TPos && v.Int() != 0 && (cl.delta != 0 || cl.at != 0) {
			nv := reflect.New(v.Type()).Elem()
			if cl.at != 0 {
				nv.SetInt(int64(cl.at))
			} else {
				nv.SetInt(v.Int() + int64(cl.delta))
			}
			return nv
		}
		return v
	}
}

func (cl *c10Cloner) record(o, n interface{}) {
	on, ok := o.(ast.Node)
	if !ok {
		return
	}
	nn := n.(ast.Node)
	if orig, ok := cl.origOf[on]; ok {
		cl.origOf[nn] = orig
	} else {
		cl.origOf[nn] = on
	}
	if oe, ok := o.(ast.Expr); ok {
		if tv, ok := cl.src.Types[oe]; ok {
			cl.dst.Types[n.(ast.Expr)] = tv
		}
	}
	if ob, ok := cl.src.Implicits[on]; ok {
		cl.dst.Implicits[nn] = cl.obj(ob)
	}
	switch x := o.(type) {
	case *ast.Ident:
		y := n.(*ast.Ident)
		if ob, ok := cl.src.Defs[x]; ok {
			cl.dst.Defs[y] = cl.obj(ob)
		}
		if ob, ok := cl.src.Uses[x]; ok {
			cl.dst.Uses[y] = cl.obj(ob)
		}
		if in, ok := cl.src.Instances[x]; ok {
			cl.dst.Instances[y] = in
		}
	case *ast.SelectorExpr:
		if s, ok := cl.src.Selections[x]; ok {
			cl.dst.Selections[n.(*ast.SelectorExpr)] = s
		}
	case *ast.LabeledStmt:
		if cl.suffix != "" {
			n.(*ast.LabeledStmt).Label.Name += cl.suffix
		}
	case *ast.BranchStmt:
		if cl.suffix != "" && x.Label != nil {
			n.(*ast.BranchStmt).Label.Name += cl.suffix
		}
	}
}

func (cl *c10Cloner) expr(e ast.Expr) ast.Expr {
	if e == nil {
		return nil
	}
	return cl.val(reflect.ValueOf(e)).Interface().(ast.Expr)
}

func (cl *c10Cloner) stmt(s ast.Stmt) ast.Stmt {
	if s == nil {
		return nil
	}
	return cl.val(reflect.ValueOf(s)).Interface().(ast.Stmt)
}

// ---------------------------------------------------------------------------
// views

// c10View is the inlined view of one function (declaration or literal).
type c10View struct {
	F    *core.FuncInfo // the synthetic function
	Orig *core.FuncInfo // the source function it is a view of (nil for literals that came with an inlined callee)
	Lits []*c10View     // views of the literals directly nested in F
	in   *c10Inliner
}

var (
	c10ViewOfF   = map[*core.FuncInfo]*c10View{} // synthetic function -> view
	c10ViewCache = map[string]*c10View{}
)

// c10Inliner builds one root view.
type c10Inliner struct {
	p       *core.Prog
	root    *core.FuncInfo
	pkg     *packages.Package
	info    *types.Info
	keep    map[string]bool
	origOf  map[ast.Node]ast.Node
	stack   []*core.FuncInfo
	count   map[*core.FuncInfo]int
	inlined map[*ast.CallExpr]*core.FuncInfo // source call expression -> callee whose body replaced it
	skip    map[*ast.CallExpr]bool           // calls (of the view) that cannot be inlined where they stand
	tail    map[*ast.CallExpr]bool           // calls (of the view) that are the last statement of a function body
	nLabel  int
}

// markTail notes a call that is the whole last statement of a function body (results dropped): nothing
// of the enclosing function runs after it, so the callee's deferred calls run at the same moment whether
// they are registered by the callee or, in the view, by the enclosing function itself.
func (in *c10Inliner) markTail(list []ast.Stmt) {
	if len(list) == 0 {
		return
	}
	if es, ok := list[len(list)-1].(*ast.ExprStmt); ok {
		if call, ok := ast.Unparen(es.X).(*ast.CallExpr); ok {
			if in.tail == nil {
				in.tail = map[*ast.CallExpr]bool{}
			}
			in.tail[call] = true
		}
	}
}

// c10Inlined returns the inlined view of f (see the file comment). keep lists callees (canonical names)
// that stay calls.
func c10Inlined(f *core.FuncInfo, keep ...string) *core.FuncInfo {
	if f == nil {
		return nil
	}
	if v, ok := c10ViewOfF[f]; ok {
		return v.F
	}
	ks := append([]string(nil), keep...)
	sort.Strings(ks)
	key := fmt.Sprintf("%p|%s", f, strings.Join(ks, ","))
	if v, ok := c10ViewCache[key]; ok {
		return v.F
	}
	in := &c10Inliner{p: f.P, root: f, pkg: c10ExtPkg(f.Pkg), keep: map[string]bool{}, origOf: map[ast.Node]ast.Node{},
		count: map[*core.FuncInfo]int{}, inlined: map[*ast.CallExpr]*core.FuncInfo{}, skip: map[*ast.CallExpr]bool{}}
	in.info = in.pkg.TypesInfo
	for _, k := range ks {
		in.keep[k] = true
	}
	cl := &c10Cloner{src: f.Info(), dst: in.info, origOf: in.origOf}
	body := cl.stmt(f.Body).(*ast.BlockStmt)
	if f.Type.Results == nil || len(f.Type.Results.List) == 0 {
		in.markTail(body.List)
	}
	body.List = in.list(body.List, 3)
	vf := &core.FuncInfo{P: f.P, Pkg: in.pkg, Obj: f.Obj, Decl: f.Decl, Lit: f.Lit, Parent: f.Parent, Name: f.Name, Body: body, Type: f.Type}
	v := &c10View{F: vf, Orig: f, in: in}
	c10ViewOfF[vf] = v
	c10ViewCache[key] = v
	in.lits(v)
	// safety net: every call and assignment of the view must have its place in the view's CFG (a node the
	// CFG does not know would make path queries about it vacuous); otherwise the source function is used
	if len(in.inlined) > 0 && !c10ViewLocated(vf) {
		delete(c10ViewOfF, vf)
		for _, l := range c10AllLits(vf) {
			delete(c10ViewOfF, l)
		}
		in.inlined = map[*ast.CallExpr]*core.FuncInfo{}
		c10ViewCache[key] = &c10View{F: f, Orig: f, in: in}
		return f
	}
	if os.Getenv("LACHK_DUMP_VIEWS") != "" {
		fmt.Fprintf(os.Stderr, "---- view of %s\n", f.Name)
		_ = printer.Fprint(os.Stderr, token.NewFileSet(), body)
		fmt.Fprintln(os.Stderr)
	}
	return vf
}

// c10ViewLocated: every call site and assignment of the view and its literals has a CFG point.
func c10ViewLocated(vf *core.FuncInfo) bool {
	for _, g := range append([]*core.FuncInfo{vf}, c10AllLits(vf)...) {
		for _, cs := range g.Calls() {
			if !cs.Pt.Valid() {
				return false
			}
		}
		for _, a := range assignments(g) {
			if !a.Pt.Valid() {
				return false
			}
		}
	}
	return true
}

// lits creates the views of the literals nested in v.
func (in *c10Inliner) lits(v *c10View) {
	n := 0
	ast.Inspect(v.F.Body, func(nd ast.Node) bool {
		lit, ok := nd.(*ast.FuncLit)
		if !ok {
			return true
		}
		n++
		name := fmt.Sprintf("%s$%d", v.F.Name, n)
		var orig *core.FuncInfo
		if ol, ok := in.origOf[lit].(*ast.FuncLit); ok {
			if li := in.p.LitInfo(ol); li != nil {
				name, orig = li.Name, li
			}
		}
		in.stack = nil
		if lit.Type.Results == nil || len(lit.Type.Results.List) == 0 {
			in.markTail(lit.Body.List)
		}
		lit.Body.List = in.list(lit.Body.List, 3)
		lf := &core.FuncInfo{P: in.p, Pkg: in.pkg, Lit: lit, Parent: v.F, Name: name, Body: lit.Body, Type: lit.Type}
		lv := &c10View{F: lf, Orig: orig, in: in}
		c10ViewOfF[lf] = lv
		v.Lits = append(v.Lits, lv)
		in.lits(lv)
		return false
	})
}

// c10Lits: the literals directly nested in f (views for a view).
func c10Lits(f *core.FuncInfo) []*core.FuncInfo {
	if v, ok := c10ViewOfF[f]; ok {
		out := make([]*core.FuncInfo, 0, len(v.Lits))
		for _, l := range v.Lits {
			out = append(out, l.F)
		}
		return out
	}
	return f.Lits()
}

// c10AllLits: every literal nested in f, at any depth.
func c10AllLits(f *core.FuncInfo) []*core.FuncInfo {
	var out []*core.FuncInfo
	for _, l := range c10Lits(f) {
		out = append(out, l)
		out = append(out, c10AllLits(l)...)
	}
	return out
}

// c10LitInfo finds the function of a literal node that occurs in f (view or source function).
func c10LitInfo(f *core.FuncInfo, lit *ast.FuncLit) *core.FuncInfo {
	if lit == nil {
		return nil
	}
	if _, ok := c10ViewOfF[f]; ok {
		top := f
		for top.Parent != nil && c10ViewOfF[top.Parent] != nil {
			top = top.Parent
		}
		for _, l := range append([]*core.FuncInfo{top}, c10AllLits(top)...) {
			if l.Lit == lit {
				return l
			}
		}
		return nil
	}
	return f.P.LitInfo(lit)
}

// c10LitArg: the function literal passed as argument i of call (nil if it is not a literal).
func c10LitArg(f *core.FuncInfo, call *ast.CallExpr, i int) *core.FuncInfo {
	if i >= len(call.Args) {
		return nil
	}
	lit, _ := ast.Unparen(call.Args[i]).(*ast.FuncLit)
	return c10LitInfo(f, lit)
}

// c10Orig: the source function a view stands for (f itself for a source function).
func c10Orig(f *core.FuncInfo) *core.FuncInfo {
	if v, ok := c10ViewOfF[f]; ok && v.Orig != nil {
		return v.Orig
	}
	return f
}

// c10Absorbed: g's body is analysed as part of the given views and nowhere else: every reference to g
// in the module is a call that one of the views replaced by g's body (and there is at least one).
func c10Absorbed(p *core.Prog, g *core.FuncInfo, views ...*core.FuncInfo) bool {
	if g == nil || g.Obj == nil {
		return false
	}
	calls := map[*ast.CallExpr]bool{}
	seen := map[*c10Inliner]bool{}
	for _, vf := range views {
		v := c10ViewOfF[vf]
		if v == nil || seen[v.in] {
			continue
		}
		seen[v.in] = true
		for call, callee := range v.in.inlined {
			if callee == g {
				calls[call] = true
			}
		}
	}
	if len(calls) == 0 {
		return false
	}
	uses := 0
	for _, pk := range p.All {
		if pk.TypesInfo == nil {
			continue
		}
		for _, o := range pk.TypesInfo.Uses {
			if o == types.Object(g.Obj) {
				uses++
			}
		}
	}
	return uses == len(calls)
}

// c10PkgView lists the functions and literals of a package as the rules should see them: the given
// views stand for their source functions, and helpers absorbed by those views are left out (their
// bodies are part of the views).
func c10PkgView(p *core.Prog, rel string, views ...*core.FuncInfo) []*core.FuncInfo {
	var out []*core.FuncInfo
	for _, f := range p.FuncsInPkg(rel) {
		var use *core.FuncInfo
		for _, v := range views {
			if c10Orig(v) == f {
				use = v
			}
		}
		if use == nil {
			if c10Absorbed(p, f, views...) {
				continue
			}
			use = f
		}
		out = append(out, use)
		out = append(out, c10AllLits(use)...)
	}
	return out
}

// ---------------------------------------------------------------------------
// the transformation

func (in *c10Inliner) label() string {
	in.nLabel++
	return fmt.Sprintf("c10inl%d", in.nLabel)
}

func (in *c10Inliner) ident(name string, pos token.Pos, obj types.Object, def bool) *ast.Ident {
	id := &ast.Ident{NamePos: pos, Name: name}
	if obj != nil {
		if def {
			in.info.Defs[id] = obj
		} else {
			in.info.Uses[id] = obj
		}
		in.info.Types[id] = types.TypeAndValue{Type: obj.Type()}
	}
	return id
}

// sameAt copies an expression of the view, placing the copy at the given position.
func (in *c10Inliner) sameAt(e ast.Expr, at token.Pos) ast.Expr {
	return (&c10Cloner{src: in.info, dst: in.info, origOf: in.origOf, at: at}).expr(e)
}

func (in *c10Inliner) sameStmt(s ast.Stmt) ast.Stmt {
	return (&c10Cloner{src: in.info, dst: in.info, origOf: in.origOf}).stmt(s)
}

// callee resolves a call to a declared function of the module that may be inlined here.
func (in *c10Inliner) callee(call *ast.CallExpr, depth int) *core.FuncInfo {
	if depth <= 0 || in.skip[call] {
		return nil
	}
	obj, conv := in.p.ResolveCallee(in.info, call)
	fn, ok := obj.(*types.Func)
	if !ok || conv {
		return nil
	}
	g := in.p.FuncOf(fn)
	if g == nil || g.Decl == nil || g.Body == nil || g == in.root || in.keep[g.Name] {
		return nil
	}
	if core.RelPkg(g.Pkg.PkgPath) != core.RelPkg(in.root.Pkg.PkgPath) {
		return nil
	}
	for _, s := range in.stack {
		if s == g {
			return nil
		}
	}
	sig, _ := fn.Type().(*types.Signature)
	if sig == nil || sig.TypeParams().Len() > 0 || sig.RecvTypeParams().Len() > 0 {
		return nil
	}
	if sig.Variadic() {
		if !call.Ellipsis.IsValid() {
			return nil
		}
	}
	if len(call.Args) != sig.Params().Len() {
		return nil
	}
	// the callee expression: a plain function name, or a method selected directly on a receiver expression
	switch fun := ast.Unparen(call.Fun).(type) {
	case *ast.Ident:
	case *ast.SelectorExpr:
		if sel, ok := in.info.Selections[fun]; ok {
			if sel.Kind() != types.MethodVal || len(sel.Index()) != 1 {
				return nil
			}
		}
	default:
		return nil
	}
	// a deferred call of the callee would run at another time in the view (unless the call is the last
	// thing the enclosing function does); recover() changes meaning
	bad := false
	g.InspectOwn(func(n ast.Node) bool {
		switch x := n.(type) {
		case *ast.DeferStmt:
			if !in.tail[call] {
				bad = true
			}
		case *ast.CallExpr:
			if id, ok := ast.Unparen(x.Fun).(*ast.Ident); ok && id.Name == "recover" {
				bad = true
			}
		}
		return !bad
	})
	if bad {
		return nil
	}
	return g
}

// list processes a statement list.
func (in *c10Inliner) list(list []ast.Stmt, depth int) []ast.Stmt {
	var out []ast.Stmt
	for i := 0; i < len(list); i++ {
		var next ast.Stmt
		if i+1 < len(list) {
			next = list[i+1]
		}
		repl, dropNext := in.stmt(list[i], next, depth)
		out = append(out, repl...)
		if dropNext {
			i++
		}
	}
	return out
}

func (in *c10Inliner) block(b *ast.BlockStmt, depth int) {
	if b != nil {
		b.List = in.list(b.List, depth)
	}
}

// hasCandidate: does the expression / simple statement contain a call that could be inlined?
func (in *c10Inliner) hasCandidate(n ast.Node, depth int) bool {
	found := false
	if n == nil || reflect.ValueOf(n).IsNil() {
		return false
	}
	ast.Inspect(n, func(m ast.Node) bool {
		if _, ok := m.(*ast.FuncLit); ok || found {
			return false
		}
		if call, ok := m.(*ast.CallExpr); ok && in.callee(call, depth) != nil {
			found = true
		}
		return !found
	})
	return found
}

// stmt processes one statement; it returns its replacement and whether the following statement of the
// list was consumed (jump threading of an error test).
func (in *c10Inliner) stmt(s ast.Stmt, next ast.Stmt, depth int) ([]ast.Stmt, bool) {
	// nested statement lists first
	switch x := s.(type) {
	case *ast.BlockStmt:
		in.block(x, depth)
		return []ast.Stmt{x}, false
	case *ast.LabeledStmt:
		repl, drop := in.stmt(x.Stmt, next, depth)
		if len(repl) == 0 {
			x.Stmt = &ast.EmptyStmt{Semicolon: x.Pos(), Implicit: true}
			return []ast.Stmt{x}, drop
		}
		// a loop keeps its label; statements hoisted in front of it come first
		x.Stmt = repl[len(repl)-1]
		return append(repl[:len(repl)-1:len(repl)-1], x), drop
	case *ast.IfStmt:
		if x.Init != nil && in.hasCandidate(x.Init, depth) {
			init := x.Init
			x.Init = nil
			blk := &ast.BlockStmt{Lbrace: x.Pos(), List: []ast.Stmt{init, x}, Rbrace: x.End()}
			in.block(blk, depth)
			return []ast.Stmt{blk}, false
		}
		in.block(x.Body, depth)
		switch e := x.Else.(type) {
		case *ast.BlockStmt:
			in.block(e, depth)
		case *ast.IfStmt:
			repl, _ := in.stmt(e, nil, depth)
			if len(repl) == 1 {
				if _, isIf := repl[0].(*ast.IfStmt); isIf {
					x.Else = repl[0]
					break
				}
				if b, isB := repl[0].(*ast.BlockStmt); isB {
					x.Else = b
					break
				}
			}
			x.Else = &ast.BlockStmt{Lbrace: e.Pos(), List: repl, Rbrace: e.End()}
		}
	case *ast.ForStmt:
		in.block(x.Body, depth)
		return []ast.Stmt{x}, false
	case *ast.RangeStmt:
		in.block(x.Body, depth)
	case *ast.SwitchStmt:
		if x.Init != nil && in.hasCandidate(x.Init, depth) {
			init := x.Init
			x.Init = nil
			blk := &ast.BlockStmt{Lbrace: x.Pos(), List: []ast.Stmt{init, x}, Rbrace: x.End()}
			in.block(blk, depth)
			return []ast.Stmt{blk}, false
		}
		for _, c := range x.Body.List {
			cc := c.(*ast.CaseClause)
			cc.Body = in.list(cc.Body, depth)
		}
	case *ast.TypeSwitchStmt:
		for _, c := range x.Body.List {
			cc := c.(*ast.CaseClause)
			cc.Body = in.list(cc.Body, depth)
		}
		return []ast.Stmt{x}, false
	case *ast.SelectStmt:
		for _, c := range x.Body.List {
			cc := c.(*ast.CommClause)
			cc.Body = in.list(cc.Body, depth)
		}
		return []ast.Stmt{x}, false
	case *ast.GoStmt, *ast.DeferStmt, *ast.BranchStmt, *ast.EmptyStmt:
		return []ast.Stmt{s}, false
	}
	// calls in the statement's own expressions, in evaluation order
	var pre []ast.Stmt
	for round := 0; round < 16; round++ {
		slot := in.findCall(s, depth)
		if slot == nil {
			break
		}
		call := ast.Unparen(*slot).(*ast.CallExpr)
		g := in.callee(call, depth)
		mode, lhs, tok := c10ModeExpr, []ast.Expr(nil), token.ILLEGAL
		switch x := s.(type) {
		case *ast.ExprStmt:
			if ast.Unparen(x.X) == ast.Expr(call) {
				mode = c10ModeDiscard
			}
		case *ast.AssignStmt:
			if len(x.Rhs) == 1 && ast.Unparen(x.Rhs[0]) == ast.Expr(call) && (x.Tok == token.ASSIGN || x.Tok == token.DEFINE) {
				mode, lhs, tok = c10ModeAssign, x.Lhs, x.Tok
			}
		case *ast.ReturnStmt:
			if len(x.Results) == 1 && ast.Unparen(x.Results[0]) == ast.Expr(call) {
				mode = c10ModeReturn
			}
		}
		res := in.inline(call, g, mode, lhs, tok, next, depth)
		if res == nil {
			// cannot be inlined in this position: leave the call and stop looking at this statement
			in.skip[call] = true
			continue
		}
		pre = append(pre, res.stmts...)
		switch mode {
		case c10ModeExpr:
			*slot = res.value
		default:
			return pre, res.dropNext
		}
	}
	return append(pre, s), false
}

const (
	c10ModeExpr    = iota // the call is an operand: it is replaced by the callee's result
	c10ModeDiscard        // the call is a statement: results are dropped
	c10ModeAssign         // the call is the only right-hand side of an assignment / definition
	c10ModeReturn         // the call is the only operand of a return: the callee's returns stay returns
)

// c10Inlining is the outcome of replacing one call.
type c10Inlining struct {
	stmts    []ast.Stmt
	value    ast.Expr // c10ModeExpr: the expression that stands for the call's result
	dropNext bool     // the statement following the call was consumed
}

// findCall returns the slot of the first call, in evaluation order, among the statement's own operands
// that is evaluated unconditionally and can be inlined.
func (in *c10Inliner) findCall(s ast.Stmt, depth int) *ast.Expr {
	var slots []*ast.Expr
	switch x := s.(type) {
	case *ast.ExprStmt:
		slots = append(slots, &x.X)
	case *ast.AssignStmt:
		// the operands of index expressions, selections and indirections on the left are evaluated first, then
		// the right-hand sides (`m[newKey(a, b)] = v`: the key constructor is an operand like any other); a
		// plain identifier on the left has no operand
		if x.Tok != token.DEFINE {
			for i := range x.Lhs {
				slots = append(slots, &x.Lhs[i])
			}
		}
		for i := range x.Rhs {
			slots = append(slots, &x.Rhs[i])
		}
	case *ast.IncDecStmt:
		slots = append(slots, &x.X)
	case *ast.ReturnStmt:
		for i := range x.Results {
			slots = append(slots, &x.Results[i])
		}
	case *ast.IfStmt:
		slots = append(slots, &x.Cond)
	case *ast.SwitchStmt:
		if x.Tag != nil {
			slots = append(slots, &x.Tag)
		}
	case *ast.RangeStmt:
		slots = append(slots, &x.X)
	case *ast.SendStmt:
		slots = append(slots, &x.Chan, &x.Value)
	case *ast.DeclStmt:
		if gd, ok := x.Decl.(*ast.GenDecl); ok && gd.Tok == token.VAR {
			for _, sp := range gd.Specs {
				if vs, ok := sp.(*ast.ValueSpec); ok {
					for i := range vs.Values {
						slots = append(slots, &vs.Values[i])
					}
				}
			}
		}
	}
	for _, sl := range slots {
		if r := in.findIn(sl, depth); r != nil {
			return r
		}
	}
	return nil
}

func (in *c10Inliner) findIn(slot *ast.Expr, depth int) *ast.Expr {
	if slot == nil || *slot == nil {
		return nil
	}
	first := func(slots ...*ast.Expr) *ast.Expr {
		for _, s := range slots {
			if r := in.findIn(s, depth); r != nil {
				return r
			}
		}
		return nil
	}
	switch x := (*slot).(type) {
	case *ast.ParenExpr:
		return in.findIn(&x.X, depth)
	case *ast.CallExpr:
		if r := in.findIn(&x.Fun, depth); r != nil {
			return r
		}
		for i := range x.Args {
			if r := in.findIn(&x.Args[i], depth); r != nil {
				return r
			}
		}
		if in.callee(x, depth) != nil {
			return slot
		}
	case *ast.SelectorExpr:
		return in.findIn(&x.X, depth)
	case *ast.UnaryExpr:
		return in.findIn(&x.X, depth)
	case *ast.StarExpr:
		return in.findIn(&x.X, depth)
	case *ast.BinaryExpr:
		if x.Op == token.LAND || x.Op == token.LOR {
			return in.findIn(&x.X, depth) // the right operand is evaluated conditionally
		}
		return first(&x.X, &x.Y)
	case *ast.IndexExpr:
		return first(&x.X, &x.Index)
	case *ast.SliceExpr:
		return first(&x.X, &x.Low, &x.High, &x.Max)
	case *ast.TypeAssertExpr:
		return in.findIn(&x.X, depth)
	case *ast.KeyValueExpr:
		return in.findIn(&x.Value, depth)
	case *ast.CompositeLit:
		for i := range x.Elts {
			if r := in.findIn(&x.Elts[i], depth); r != nil {
				return r
			}
		}
	}
	return nil
}

// stable: the expression denotes the same value during the whole execution of a callee that is a
// declared function: constants, local variables and parameters of the caller (a declared function
// cannot assign them), fields of local struct values, and arithmetic over those.
func (in *c10Inliner) stable(e ast.Expr) bool {
	switch x := ast.Unparen(e).(type) {
	case *ast.BasicLit:
		return true
	case *ast.Ident:
		switch o := in.info.ObjectOf(x).(type) {
		case *types.Const, *types.Nil:
			return true
		case *types.Var:
			return !o.IsField() && o.Pkg() != nil && o.Parent() != o.Pkg().Scope()
		}
	case *ast.SelectorExpr:
		if sel, ok := in.info.Selections[x]; ok {
			return sel.Kind() == types.FieldVal && !sel.Indirect() && in.stable(x.X)
		}
		_, isConst := in.info.Uses[x.Sel].(*types.Const)
		return isConst
	case *ast.CallExpr:
		if tv, ok := in.info.Types[x.Fun]; ok && tv.IsType() && len(x.Args) == 1 {
			return in.stable(x.Args[0])
		}
	case *ast.BinaryExpr:
		return x.Op != token.LAND && x.Op != token.LOR && in.stable(x.X) && in.stable(x.Y)
	case *ast.UnaryExpr:
		switch x.Op {
		case token.SUB, token.ADD, token.NOT, token.XOR:
			return in.stable(x.X)
		}
	}
	return false
}

func c10HasCall(e ast.Expr) bool {
	found := false
	ast.Inspect(e, func(n ast.Node) bool {
		switch n.(type) {
		case *ast.FuncLit:
			return false
		case *ast.CallExpr:
			found = true
		}
		return !found
	})
	return found
}

// c10Written: the variables of g (parameters included) that are assigned, stepped, ranged into or have
// their address taken anywhere in g, literals included, or that a literal of g refers to.
func c10Written(g *core.FuncInfo) map[*types.Var]bool {
	out := map[*types.Var]bool{}
	mark := func(e ast.Expr) {
		if id, ok := ast.Unparen(e).(*ast.Ident); ok {
			if v, ok := g.Info().ObjectOf(id).(*types.Var); ok {
				out[v] = true
			}
		}
	}
	// a variable used inside a literal may be read after g has returned: it is not replaced by the
	// caller's expression either
	ast.Inspect(g.Body, func(n ast.Node) bool {
		if lit, ok := n.(*ast.FuncLit); ok {
			ast.Inspect(lit.Body, func(m ast.Node) bool {
				if id, ok := m.(*ast.Ident); ok {
					if v, ok := g.Info().Uses[id].(*types.Var); ok && !v.IsField() {
						out[v] = true
					}
				}
				return true
			})
			return false
		}
		return true
	})
	ast.Inspect(g.Body, func(n ast.Node) bool {
		switch x := n.(type) {
		case *ast.AssignStmt:
			if x.Tok != token.DEFINE {
				for _, l := range x.Lhs {
					mark(l)
				}
			} else {
				for _, l := range x.Lhs {
					if id, ok := l.(*ast.Ident); ok && g.Info().Defs[id] == nil {
						mark(l) // redeclaration in a := with a new sibling: an assignment
					}
				}
			}
		case *ast.IncDecStmt:
			mark(x.X)
		case *ast.RangeStmt:
			if x.Tok == token.ASSIGN {
				if x.Key != nil {
					mark(x.Key)
				}
				if x.Value != nil {
					mark(x.Value)
				}
			}
		case *ast.UnaryExpr:
			if x.Op == token.AND {
				mark(x.X)
			}
		}
		return true
	})
	return out
}

func c10IsErrorType(t types.Type) bool {
	n, ok := t.(*types.Named)
	return ok && n.Obj().Pkg() == nil && n.Obj().Name() == "error"
}

// errKind classifies a returned error expression: 1 = nil, 2 = certainly not nil, 0 = unknown.
func (in *c10Inliner) errKind(e ast.Expr) int {
	e = ast.Unparen(e)
	if core.IsNil(in.info, e) {
		return 1
	}
	switch x := e.(type) {
	case *ast.CallExpr:
		obj, _ := in.p.ResolveCallee(in.info, x)
		switch in.p.ObjName(obj) {
		case "errors.New", "fmt.Errorf":
			return 2
		}
	case *ast.UnaryExpr:
		if x.Op == token.AND {
			return 2
		}
	}
	return 0
}

// c10Thread is the error test that follows the call, `if err != nil { …; return … }`.
type c10Thread struct {
	ifs       *ast.IfStmt
	join      string // label of the test itself (used by returns whose error is unknown)
	cont      string // label of what follows the test
	needJoin  bool
	needCont  bool
	firstUsed bool
}

// threadOf recognises the statement after `…, err = g()` as a test of that error whose body leaves the
// function.
func (in *c10Inliner) threadOf(lhs []ast.Expr, next ast.Stmt) *c10Thread {
	ifs, ok := next.(*ast.IfStmt)
	if !ok || ifs.Init != nil || ifs.Else != nil || len(lhs) == 0 || len(ifs.Body.List) == 0 {
		return nil
	}
	id, ok := ast.Unparen(lhs[len(lhs)-1]).(*ast.Ident)
	if !ok {
		return nil
	}
	ev, _ := in.info.ObjectOf(id).(*types.Var)
	if ev == nil || !c10IsErrorType(ev.Type()) {
		return nil
	}
	cm, ok := core.NormCmp(core.Fact{Expr: ifs.Cond, Truth: true})
	if !ok || cm.R == nil || cm.Op != token.NEQ || !core.IsNil(in.info, cm.R) {
		return nil
	}
	cid, ok := ast.Unparen(cm.L).(*ast.Ident)
	if !ok || in.info.ObjectOf(cid) != types.Object(ev) {
		return nil
	}
	if _, isRet := ifs.Body.List[len(ifs.Body.List)-1].(*ast.ReturnStmt); !isRet {
		return nil
	}
	plain := true
	ast.Inspect(ifs.Body, func(n ast.Node) bool {
		switch n.(type) {
		case *ast.BranchStmt, *ast.LabeledStmt, *ast.FuncLit, *ast.DeferStmt:
			plain = false
		}
		return plain
	})
	if !plain {
		return nil
	}
	return &c10Thread{ifs: ifs}
}

// inline replaces one call of g. nil means: not possible in this form.
func (in *c10Inliner) inline(call *ast.CallExpr, g *core.FuncInfo, mode int, lhs []ast.Expr, tok token.Token, next ast.Stmt, depth int) *c10Inlining {
	sig := g.Obj.Type().(*types.Signature)
	nres := sig.Results().Len()
	if mode == c10ModeExpr && nres != 1 {
		return nil
	}
	if mode == c10ModeAssign && len(lhs) != nres {
		return nil
	}
	pos := call.Lparen
	ginfo := g.Info()
	// result variables
	var resVars []*types.Var
	named := false
	if g.Type.Results != nil {
		for _, fl := range g.Type.Results.List {
			if len(fl.Names) == 0 {
				resVars = append(resVars, nil)
				continue
			}
			for _, nm := range fl.Names {
				v, _ := ginfo.Defs[nm].(*types.Var)
				if nm.Name == "_" {
					v = nil
				}
				resVars = append(resVars, v)
				named = true
			}
		}
	}
	// own return statements of g
	bare := false
	g.InspectOwn(func(n ast.Node) bool {
		if r, ok := n.(*ast.ReturnStmt); ok && len(r.Results) == 0 && nres > 0 {
			bare = true
		}
		return true
	})
	if bare {
		for _, v := range resVars {
			if v == nil {
				return nil // a bare return of an unnamed / blank result: no expression to hand on
			}
		}
	}
	// parameters and their arguments
	type bind struct {
		v   *types.Var
		arg ast.Expr
	}
	var binds []bind
	if g.Decl.Recv != nil && len(g.Decl.Recv.List) == 1 {
		sel, ok := ast.Unparen(call.Fun).(*ast.SelectorExpr)
		if !ok {
			return nil
		}
		arg := sel.X
		want, have := sig.Recv().Type(), in.info.TypeOf(sel.X)
		switch {
		case have == nil:
			return nil
		case types.Identical(have, want):
		default:
			hp, hIsPtr := have.Underlying().(*types.Pointer)
			wp, wIsPtr := want.Underlying().(*types.Pointer)
			switch {
			case hIsPtr && types.Identical(hp.Elem(), want):
				star := &ast.StarExpr{Star: sel.X.Pos(), X: sel.X}
				in.info.Types[star] = types.TypeAndValue{Type: want}
				arg = star
			case wIsPtr && types.Identical(wp.Elem(), have):
				amp := &ast.UnaryExpr{OpPos: sel.X.Pos(), Op: token.AND, X: sel.X}
				in.info.Types[amp] = types.TypeAndValue{Type: want}
				arg = amp
			default:
				return nil
			}
		}
		binds = append(binds, bind{g.Recv(), arg})
	}
	k := 0
	for _, fl := range g.Type.Params.List {
		if len(fl.Names) == 0 {
			binds = append(binds, bind{nil, call.Args[k]})
			k++
			continue
		}
		for _, nm := range fl.Names {
			v, _ := ginfo.Defs[nm].(*types.Var)
			if nm.Name == "_" {
				v = nil
			}
			binds = append(binds, bind{v, call.Args[k]})
			k++
		}
	}
	// a fresh identity for everything g declares
	inst := in.count[g]
	in.count[g]++
	in.nLabel++
	cl := &c10Cloner{src: ginfo, dst: in.info, ren: map[types.Object]types.Object{}, subst: map[*types.Var]ast.Expr{}, origOf: in.origOf,
		suffix: fmt.Sprintf("_i%d", in.nLabel), delta: c10ShadowDelta(in.p, g, inst)}
	ast.Inspect(g.Decl, func(n ast.Node) bool {
		if n == nil {
			return true
		}
		if id, ok := n.(*ast.Ident); ok {
			if v, ok := ginfo.Defs[id].(*types.Var); ok && !v.IsField() {
				cl.ren[v] = types.NewVar(pos, v.Pkg(), v.Name(), v.Type())
			}
		}
		if v, ok := ginfo.Implicits[n].(*types.Var); ok {
			cl.ren[v] = types.NewVar(pos, v.Pkg(), v.Name(), v.Type())
		}
		return true
	})
	written := c10Written(g)
	var glue []ast.Stmt
	for _, b := range binds {
		switch {
		case b.v == nil:
			if c10HasCall(b.arg) {
				glue = append(glue, &ast.AssignStmt{Lhs: []ast.Expr{in.ident("_", b.arg.Pos(), nil, false)}, TokPos: b.arg.Pos(), Tok: token.ASSIGN, Rhs: []ast.Expr{b.arg}})
			}
		case !written[b.v] && in.stable(b.arg):
			cl.subst[b.v] = b.arg
		default:
			nv := cl.ren[b.v]
			glue = append(glue, &ast.AssignStmt{Lhs: []ast.Expr{in.ident(b.v.Name(), b.arg.Pos(), nv, true)}, TokPos: b.arg.Pos(), Tok: token.DEFINE, Rhs: []ast.Expr{b.arg}})
		}
	}
	// named results start at their zero value
	if named {
		for _, fl := range g.Type.Results.List {
			for _, nm := range fl.Names {
				v, _ := ginfo.Defs[nm].(*types.Var)
				if v == nil || nm.Name == "_" {
					continue
				}
				spec := &ast.ValueSpec{Names: []*ast.Ident{in.ident(nm.Name, pos, cl.ren[v], true)}, Type: cl.expr(fl.Type)}
				glue = append(glue, &ast.DeclStmt{Decl: &ast.GenDecl{TokPos: pos, Tok: token.VAR, Specs: []ast.Spec{spec}}})
			}
		}
	}
	body := cl.stmt(g.Body).(*ast.BlockStmt)
	if in.tail[call] && mode == c10ModeDiscard && nres == 0 {
		in.markTail(body.List)
	}
	in.stack = append(in.stack, g)
	body.List = in.list(body.List, depth-1)
	in.stack = in.stack[:len(in.stack)-1]
	if oc, ok := in.origOf[call].(*ast.CallExpr); ok {
		in.inlined[oc] = g
	} else {
		in.inlined[call] = g
	}

	// the returns of this instance
	var rets []*ast.ReturnStmt
	ast.Inspect(body, func(n ast.Node) bool {
		switch x := n.(type) {
		case *ast.FuncLit:
			return false
		case *ast.ReturnStmt:
			rets = append(rets, x)
		}
		return true
	})
	values := func(r *ast.ReturnStmt) []ast.Expr {
		if len(r.Results) > 0 || nres == 0 {
			return r.Results
		}
		var out []ast.Expr
		for _, v := range resVars {
			out = append(out, in.ident(v.Name(), r.Pos(), cl.ren[v], false))
		}
		return out
	}
	var last *ast.ReturnStmt
	if n := len(body.List); n > 0 {
		last, _ = body.List[n-1].(*ast.ReturnStmt)
	}
	res := &c10Inlining{}
	if mode == c10ModeReturn {
		for _, r := range rets {
			r.Results = values(r)
		}
		res.stmts = append(glue, body.List...)
		return res
	}
	var th *c10Thread
	if mode == c10ModeAssign && nres > 0 {
		th = in.threadOf(lhs, next)
	}
	kinds := map[*ast.ReturnStmt]int{}
	if th != nil {
		for _, r := range rets {
			vals := values(r)
			kd := 0
			if len(vals) == nres {
				kd = in.errKind(vals[nres-1])
			}
			kinds[r] = kd
			switch kd {
			case 0:
				th.needJoin = true
			case 1:
				th.needCont = true
			}
		}
		th.join, th.cont = in.label(), in.label()
	}
	endLabel := in.label()
	endUsed := false
	gotoStmt := func(label string, at token.Pos) ast.Stmt {
		return &ast.BranchStmt{TokPos: at, Tok: token.GOTO, Label: &ast.Ident{NamePos: at, Name: label}}
	}
	labeled := func(label string, s ast.Stmt, at token.Pos) ast.Stmt {
		if s == nil {
			s = &ast.EmptyStmt{Semicolon: at, Implicit: true}
		}
		return &ast.LabeledStmt{Label: &ast.Ident{NamePos: at, Name: label}, Colon: at, Stmt: s}
	}
	var tmp *types.Var
	single := mode == c10ModeExpr && len(rets) == 1 && rets[0] == last
	if mode == c10ModeExpr && !single {
		tmp = types.NewVar(pos, g.Obj.Pkg(), "res"+cl.suffix, sig.Results().At(0).Type())
	}
	firstSite := true
	repl := map[ast.Stmt][]ast.Stmt{}
	for _, r := range rets {
		vals := values(r)
		var seq []ast.Stmt
		switch mode {
		case c10ModeAssign:
			if nres > 0 {
				// the targets move into the callee's text, to the place of the return
				var l []ast.Expr
				for _, e := range lhs {
					l = append(l, in.sameAt(e, r.Pos()))
				}
				seq = append(seq, &ast.AssignStmt{Lhs: l, TokPos: r.Pos(), Tok: tok, Rhs: vals})
			}
		case c10ModeDiscard:
			for _, v := range vals {
				if !c10HasCall(v) {
					continue
				}
				if _, isCall := ast.Unparen(v).(*ast.CallExpr); isCall {
					seq = append(seq, &ast.ExprStmt{X: v})
				} else {
					seq = append(seq, &ast.AssignStmt{Lhs: []ast.Expr{in.ident("_", v.Pos(), nil, false)}, TokPos: v.Pos(), Tok: token.ASSIGN, Rhs: []ast.Expr{v}})
				}
			}
		case c10ModeExpr:
			if single {
				res.value = in.sameAt(vals[0], call.Pos()) // the result moves into the caller's statement
			} else {
				seq = append(seq, &ast.AssignStmt{Lhs: []ast.Expr{in.ident(tmp.Name(), r.Pos(), tmp, firstSite)}, TokPos: r.Pos(), Tok: token.DEFINE, Rhs: []ast.Expr{vals[0]}})
				firstSite = false
			}
		}
		target := ""
		if th != nil {
			switch kinds[r] {
			case 2:
				for _, s := range th.ifs.Body.List {
					if th.firstUsed {
						seq = append(seq, in.sameStmt(s))
					} else {
						seq = append(seq, s)
					}
				}
				th.firstUsed = true
			case 1:
				target = th.cont
			default:
				target = th.join
			}
			// falling off the end of the inlined body reaches the first label that follows it
			if r == last && (target == th.join && th.needJoin || target == th.cont && !th.needJoin) {
				target = ""
			}
		} else if r != last {
			target = endLabel
			endUsed = true
		}
		if target != "" {
			seq = append(seq, gotoStmt(target, r.Pos()))
		}
		repl[r] = seq
	}
	c10ReplaceStmts(body, repl)
	res.stmts = append(glue, body.List...)
	switch {
	case th != nil:
		res.dropNext = true
		if th.needJoin {
			if !th.firstUsed {
				res.stmts = append(res.stmts, labeled(th.join, th.ifs, th.ifs.Pos()))
			} else {
				res.stmts = append(res.stmts, labeled(th.join, in.sameStmt(th.ifs), th.ifs.Pos()))
			}
		}
		if th.needCont {
			res.stmts = append(res.stmts, labeled(th.cont, nil, th.ifs.End()))
		}
	case endUsed:
		res.stmts = append(res.stmts, labeled(endLabel, nil, call.End()))
	}
	if mode == c10ModeExpr && !single {
		res.value = in.ident(tmp.Name(), call.Pos(), tmp, false)
	}
	return res
}

// c10ReplaceStmts splices the replacement sequences into the statement lists of n (literals excluded).
func c10ReplaceStmts(n ast.Node, repl map[ast.Stmt][]ast.Stmt) {
	if len(repl) == 0 {
		return
	}
	splice := func(list []ast.Stmt) []ast.Stmt {
		hit := false
		for _, s := range list {
			if _, ok := repl[s]; ok {
				hit = true
			}
		}
		if !hit {
			return list
		}
		var out []ast.Stmt
		for _, s := range list {
			if seq, ok := repl[s]; ok {
				out = append(out, seq...)
			} else {
				out = append(out, s)
			}
		}
		return out
	}
	ast.Inspect(n, func(m ast.Node) bool {
		switch x := m.(type) {
		case *ast.FuncLit:
			return false
		case *ast.BlockStmt:
			x.List = splice(x.List)
		case *ast.CaseClause:
			x.Body = splice(x.Body)
		case *ast.CommClause:
			x.Body = splice(x.Body)
		case *ast.LabeledStmt:
			if seq, ok := repl[x.Stmt]; ok {
				switch len(seq) {
				case 0:
					x.Stmt = &ast.EmptyStmt{Semicolon: x.Colon, Implicit: true}
				case 1:
					x.Stmt = seq[0]
				default:
					x.Stmt = &ast.BlockStmt{Lbrace: x.Colon, List: seq, Rbrace: x.Colon}
				}
			}
		}
		return true
	})
}
