package rules

import (
	"go/ast"
	"go/token"
	"go/types"

	"lachk/core"
)

// Helpers of C22 that follow a value from the place it is read to the place it is tested, also when a
// maintainer moved the test (and the statements that depend on it) into a helper function.

// c22Callee: the module function a call site statically resolves to (nil for interface methods,
// func-valued variables, builtins and functions outside the module).
func c22Callee(cs *core.CallSite) *core.FuncInfo {
	fn, ok := cs.Callee.(*types.Func)
	if !ok {
		return nil
	}
	g := cs.F.P.FuncOf(fn)
	if g == nil || g == cs.F {
		return nil
	}
	return g
}

// c22NilCmp brings the fact to the form "x == nil" / "x != nil" (either operand order, negations
// folded by NormCmp) and returns x.
func c22NilCmp(info *types.Info, ft core.Fact) (x ast.Expr, isNil bool, ok bool) {
	cm, k := core.NormCmp(ft)
	if !k || cm.R == nil || (cm.Op != token.EQL && cm.Op != token.NEQ) {
		return nil, false, false
	}
	l, r := cm.L, cm.R
	if core.IsNil(info, l) {
		l, r = r, l
	}
	if !core.IsNil(info, r) {
		return nil, false, false
	}
	return ast.Unparen(l), cm.Op == token.EQL, true
}

// c22ParamArgs pairs the parameters of the callee g with the argument expressions of the call
// (variadic tails and unnamed parameters are left out).
func c22ParamArgs(cs *core.CallSite, g *core.FuncInfo) map[*types.Var]ast.Expr {
	out := map[*types.Var]ast.Expr{}
	sig, _ := g.Obj.Type().(*types.Signature)
	for i, a := range cs.Call.Args {
		if sig != nil && sig.Variadic() && i >= sig.Params().Len()-1 {
			break
		}
		if pv := g.Param(i); pv != nil {
			out[pv] = a
		}
	}
	return out
}

// c22NilTested: is a value denoted by isVal compared with nil somewhere in f, or handed to a module
// function that compares the receiving parameter with nil (bounded depth)?
func c22NilTested(f *core.FuncInfo, isVal func(ast.Expr) bool, depth int) bool {
	found := false
	// branch conditions in normal form: if / for conditions and the cases of a tagged switch
	// (`switch v { case nil: … }` is the test v == nil, as the CFG sees it)
	for _, b := range f.CFG().Blocks {
		cond := f.BranchCond(b)
		if cond == nil || found {
			continue
		}
		for _, alt := range core.Disjuncts(cond, true) {
			for _, ft := range alt {
				if x, _, ok := c22NilCmp(f.Info(), ft); ok && isVal(x) {
					found = true
				}
			}
		}
	}
	// comparisons outside branch conditions (a returned or stored boolean)
	f.InspectOwn(func(nd ast.Node) bool {
		if found {
			return false
		}
		be, ok := nd.(*ast.BinaryExpr)
		if !ok || (be.Op != token.EQL && be.Op != token.NEQ) {
			return true
		}
		l, r := ast.Unparen(be.X), ast.Unparen(be.Y)
		if core.IsNil(f.Info(), l) {
			l, r = r, l
		}
		if core.IsNil(f.Info(), r) && isVal(l) {
			found = true
		}
		return true
	})
	if found || depth <= 0 {
		return found
	}
	for _, cs := range f.Calls() {
		g := c22Callee(cs)
		if g == nil {
			continue
		}
		for pv, arg := range c22ParamArgs(cs, g) {
			if !isVal(ast.Unparen(arg)) {
				continue
			}
			pv := pv
			if c22NilTested(g, func(e ast.Expr) bool { return canonVar(g, varOf(g, e)) == pv }, depth-1) {
				return true
			}
		}
	}
	return false
}

// c22Stage is one place where flush hands an overlay entry to the batch of the underlying store: a
// batch.Put / batch.Delete call in flush itself, or in a helper that flush calls with the entry's value.
type c22Stage struct {
	Host  *core.FuncInfo        // function that contains the batch call
	Site  *core.CallSite        // the batch.Put / batch.Delete call
	IsDel bool                  // Delete (else Put)
	IsVal func(e ast.Expr) bool // does e denote the current entry's overlay value inside Host
}

// c22Stages lists the staging sites of f: direct ones, and those of module functions that f calls with
// an overlay value (an Iterator.Value() read, possibly held in a single-definition local) as argument.
func c22Stages(f *core.FuncInfo) []c22Stage {
	valueIn := func(e ast.Expr) bool { return isCallTo(f, e, rbtP+"Iterator.Value") != nil }
	var out []c22Stage
	for _, cs := range f.CallsTo(kvPut, kvDelete) {
		out = append(out, c22Stage{Host: f, Site: cs, IsDel: cs.Name == kvDelete, IsVal: valueIn})
	}
	for _, cs := range f.Calls() {
		g := c22Callee(cs)
		if g == nil {
			continue
		}
		sites := g.CallsTo(kvPut, kvDelete)
		if len(sites) == 0 {
			continue
		}
		vals := map[*types.Var]bool{}
		for pv, arg := range c22ParamArgs(cs, g) {
			if valueIn(arg) {
				vals[pv] = true
			}
		}
		isVal := func(e ast.Expr) bool {
			v := varOf(g, e)
			return v != nil && (vals[v] || vals[canonVar(g, v)])
		}
		for _, s := range sites {
			out = append(out, c22Stage{Host: g, Site: s, IsDel: s.Name == kvDelete, IsVal: isVal})
		}
	}
	return out
}

// c22TombFact matches "value == nil" (want) / "value != nil" (!want) for the stage's notion of value.
func (s c22Stage) tombFact(want bool) func(core.Fact) bool {
	return func(ft core.Fact) bool {
		x, isNil, ok := c22NilCmp(s.Host.Info(), ft)
		return ok && s.IsVal(x) && isNil == want
	}
}

// c22VerbatimCopy: every overlay value read in f (the read expressions, and the locals in vals that hold
// one) is used only as the value argument of a Tree.Put — f copies entries from one tree into another
// and never interprets a value, so a nil tombstone stays a nil tombstone.
func c22VerbatimCopy(f *core.FuncInfo, reads []ast.Expr, vals map[*types.Var]bool) bool {
	okUse := map[ast.Expr]bool{}
	for _, cs := range f.CallsTo(rbtP + "Tree.Put") {
		if len(cs.Call.Args) == 2 {
			okUse[ast.Unparen(cs.Call.Args[1])] = true
		}
	}
	if len(okUse) == 0 {
		return false
	}
	defRHS := map[ast.Expr]bool{}
	for _, a := range assignments(f) {
		if a.RHS != nil && vals[varOf(f, a.LHS)] {
			defRHS[ast.Unparen(a.RHS)] = true
		}
	}
	for _, r := range reads {
		if !okUse[r] && !defRHS[r] {
			return false
		}
	}
	lhs := lhsIdents(f)
	ok := true
	f.InspectOwn(func(n ast.Node) bool {
		if id, isID := n.(*ast.Ident); isID && !lhs[id] && !okUse[ast.Expr(id)] {
			if v, _ := f.Info().ObjectOf(id).(*types.Var); v != nil && vals[v] {
				ok = false
			}
		}
		return ok
	})
	return ok
}
