package rules

import (
	"go/ast"
	"go/types"

	"lachk/core"
)

// C20.median on the inlined view.
//
// The per-subject median computation of recacheState may live in a helper method, and what the helper
// is handed is a matter of taste: the subject's validator index, the subject's matrix row
// (h.globalMatrix.Row(subject), computed once by the caller), the number of validators read once into a
// local, a comparison function built by a small constructor (bySeqDesc(pairs)) … The provenance facts of
// the clause are therefore decided relative to frames (c21Frame: parameters and receivers of a helper
// stand for the caller's argument expressions, a parameter captured by a returned function literal for
// the argument of the constructor call, single-definition locals are looked through): "this expression
// is the subject of the current iteration" means that it resolves, through the frames, to the counter of
// recacheState's full loop over validators.

// c20FrStrip resolves e in frame fr, dropping conversions between the steps.
func c20FrStrip(fr *c21Frame, e ast.Expr) (*c21Frame, ast.Expr) {
	for i := 0; i < 8 && e != nil; i++ {
		s := core.StripConv(fr.F.Info(), e)
		fr2, r := c21Resolve(fr, s)
		r = core.StripConv(fr2.F.Info(), r)
		if fr2 == fr && r == e {
			break
		}
		fr, e = fr2, r
	}
	return fr, e
}

// c20FrCall: e denotes a call of the named function; returns the call and the frame it is written in.
func c20FrCall(fr *c21Frame, e ast.Expr, name string) (*c21Frame, *ast.CallExpr) {
	if e == nil {
		return nil, nil
	}
	fr2, r := c20FrStrip(fr, e)
	call, ok := r.(*ast.CallExpr)
	if !ok || calleeName(fr2.F, call) != name {
		return nil, nil
	}
	return fr2, call
}

// c20FrRootField: e denotes <root receiver>.<field>.
func c20FrRootField(fr *c21Frame, e ast.Expr, field string) bool {
	fr2, r := c20FrStrip(fr, e)
	sel, ok := r.(*ast.SelectorExpr)
	if !ok {
		return false
	}
	s, ok := fr2.F.Info().Selections[sel]
	if !ok {
		return false
	}
	fv, ok := s.Obj().(*types.Var)
	return ok && fv.IsField() && fr2.F.P.FieldName(fv) == field && c20RootRecv(fr2, sel.X)
}

// c20FrValLen: e denotes <root receiver>.validators.Len() (possibly read once into a local of the caller
// and handed down as a parameter; the validators field is written by no function of the view, see
// c20NoStoresInto).
func c20FrValLen(fr *c21Frame, e ast.Expr) bool {
	fr2, call := c20FrCall(fr, e, c20ValLen)
	if call == nil {
		return false
	}
	sel, ok := ast.Unparen(call.Fun).(*ast.SelectorExpr)
	return ok && c20FrRootField(fr2, sel.X, c20Vals)
}

// c20FrVarAt: e, read in frame fr, denotes variable v of the root frame's function (for an expression
// of the root frame itself this is c20VarAt).
func c20FrVarAt(fr *c21Frame, e ast.Expr, v *types.Var) bool {
	if v == nil || e == nil {
		return false
	}
	for i := 0; i < 8 && fr.Up != nil; i++ {
		s := core.StripConv(fr.F.Info(), e)
		fr2, r := c21Resolve(fr, s)
		if fr2 == fr && r == e {
			return false // the value is made inside the helper
		}
		fr, e = fr2, r
	}
	return fr.Up == nil && c20VarAt(fr.F, e) == v
}

// c20FrIsVar: e denotes the variable v itself (not a copy), wherever v is declared.
func c20FrIsVar(fr *c21Frame, e ast.Expr, v *types.Var) bool {
	fr2, r := c21Resolve(fr, e)
	id, ok := r.(*ast.Ident)
	return ok && v != nil && fr2.F.Info().ObjectOf(id) == types.Object(v)
}

// c20NoStoresInto: none of the functions stores into (or through) the given indexer field.
func c20NoStoresInto(field string, fs ...*core.FuncInfo) bool {
	for _, g := range fs {
		for _, h := range append([]*core.FuncInfo{g}, allLits(g)...) {
			for _, s := range c20Stores(h) {
				if s.Field == field {
					return false
				}
			}
		}
	}
	return true
}

// c20Less describes the comparison function handed to sort.Slice in the inlined view.
type c20Less struct {
	Fr    *c21Frame      // frame of the function literal (Up: the activation it is written in)
	Maker *c21Frame      // activation of the constructor that returns the literal (nil: written in place)
	Kind  string         // use kind of the sorted slice as the constructor's argument ("" if none)
	In    *types.Var     // the variable that denotes the sorted slice inside the literal
	Call  *ast.CallExpr  // the constructor call
	Lit   *core.FuncInfo // the literal
}

// c20LessOf resolves the less argument of a sort call: a function literal written in place or held by a
// single-definition local, or the result of a constructor (declared function or local closure) whose
// only return yields a function literal; pairs is the sorted slice of frame fr.
func c20LessOf(fr *c21Frame, arg ast.Expr, pairs *types.Var) *c20Less {
	fr2, r := c21Resolve(fr, arg)
	switch x := r.(type) {
	case *ast.FuncLit:
		li := fr2.F.P.LitInfo(x)
		if li == nil {
			return nil
		}
		return &c20Less{Fr: &c21Frame{F: li, Up: fr2, Bind: map[*types.Var]ast.Expr{}}, In: pairs, Lit: li}
	case *ast.CallExpr:
		sub := c21EnterCall(fr2, x)
		if sub == nil {
			return nil
		}
		rets := sub.F.ReturnPoints()
		if len(rets) != 1 {
			return nil
		}
		rs := rets[0].Node().(*ast.ReturnStmt)
		if len(rs.Results) != 1 {
			return nil
		}
		lfr, lr := c21Resolve(sub, rs.Results[0])
		lit, ok := lr.(*ast.FuncLit)
		if !ok || lfr != sub {
			return nil
		}
		li := sub.F.P.LitInfo(lit)
		if li == nil {
			return nil
		}
		out := &c20Less{Fr: &c21Frame{F: li, Up: sub, Bind: map[*types.Var]ast.Expr{}}, Maker: sub, Call: x, Lit: li}
		for i, a := range x.Args {
			if c20FrIsVar(fr2, a, pairs) {
				if out.In != nil {
					return nil // the slice is handed over twice
				}
				out.In = sub.F.Param(i)
				out.Kind = "arg:" + calleeName(fr2.F, x) + ":" + string(rune('0'+i))
			}
		}
		if out.In == nil {
			// the constructor does not take the slice: a literal of a local closure may still capture it
			out.In = pairs
		}
		return out
	}
	return nil
}

// c20LessReadsOnly: the sorted slice is only indexed inside the comparison function, and a constructor
// uses its parameter nowhere else.
func (l *c20Less) readsOnly() bool {
	n := 0
	for _, u := range c19UsesOf(l.Lit, l.In) {
		n++
		if u.Kind != "index" {
			return false
		}
	}
	if l.Maker != nil && l.Kind != "" {
		if cnt, addr := c19AssignCount(l.Maker.F, l.In); cnt != 0 || addr {
			return false
		}
		if len(c19UsesOf(l.Maker.F, l.In)) != n {
			return false
		}
	}
	return true
}
