package rules

import (
	"go/ast"
	"go/constant"
	"go/token"
	"go/types"

	"lachk/core"
)

// ---------------------------------------------------------------------------
// struct value view (c09 prefix; candidate for core): what a locally built struct object holds at a use,
// whether it was filled in by a composite literal (keyed or positional), by field stores, or by both.

// c09fval is one value a field may hold at the use.
type c09fval struct {
	E       ast.Expr // the stored expression; nil with Zero or Unknown
	Zero    bool     // the field was left at its zero value
	Unknown bool     // written in a way that is not followed (compound assignment, nested path, multi-value)
}

// c09structAt describes the struct object that the expression arg denotes at point at of f:
// `&T{…}` / `T{…}` in place, or a local (`x := &T{…}`, `x := T{…}`, `x := new(T)`, `var x T`, handed over
// as x or &x) together with the field stores `x.f = v` that reach the use. The result maps the canonical
// field name to every value the field may hold at the use. ok is false when the object is not built
// locally or may have been changed behind the function's back (address handed to another call before
// the use, written by a nested literal, address of a field taken, several definitions).
func c09structAt(f *core.FuncInfo, arg ast.Expr, at core.Point) (fields map[string][]c09fval, st *types.Struct, ok bool) {
	if f == nil || arg == nil {
		return nil, nil, false
	}
	structOf := func(t types.Type) *types.Struct {
		if t == nil {
			return nil
		}
		if pt, isP := t.Underlying().(*types.Pointer); isP {
			t = pt.Elem()
		}
		s, _ := t.Underlying().(*types.Struct)
		return s
	}
	// the initial value of the object: a literal, or all fields zero
	initOf := func(e ast.Expr) (map[string]ast.Expr, bool) {
		e = ast.Unparen(e)
		if u, isU := e.(*ast.UnaryExpr); isU && u.Op == token.AND {
			e = ast.Unparen(u.X)
		}
		switch x := e.(type) {
		case *ast.CompositeLit:
			out := map[string]ast.Expr{}
			c33litFields(f, x, out)
			return out, true
		case *ast.CallExpr:
			if id, isId := ast.Unparen(x.Fun).(*ast.Ident); isId && len(x.Args) == 1 {
				if b, isB := f.Info().ObjectOf(id).(*types.Builtin); isB && b.Name() == "new" {
					return map[string]ast.Expr{}, true
				}
			}
		}
		return nil, false
	}
	fill := func(init map[string]ast.Expr) map[string][]c09fval {
		out := map[string][]c09fval{}
		for i := 0; i < st.NumFields(); i++ {
			nm := f.P.FieldName(st.Field(i))
			if nm == "" {
				continue
			}
			if e, has := init[nm]; has {
				out[nm] = []c09fval{{E: e}}
			} else {
				out[nm] = []c09fval{{Zero: true}}
			}
		}
		return out
	}
	st = structOf(f.Info().TypeOf(arg))
	if st == nil {
		return nil, nil, false
	}
	if init, isLit := initOf(arg); isLit {
		return fill(init), st, true
	}
	e := ast.Unparen(arg)
	if u, isU := e.(*ast.UnaryExpr); isU && u.Op == token.AND {
		e = ast.Unparen(u.X)
	}
	argId, isId := e.(*ast.Ident)
	if !isId {
		return nil, nil, false
	}
	v, _ := f.Info().ObjectOf(argId).(*types.Var)
	if v == nil || v.IsField() || v.Pkg() == nil || v.Parent() == v.Pkg().Scope() || !(f.Body.Pos() <= v.Pos() && v.Pos() < f.Body.End()) {
		return nil, nil, false // a parameter, a captured or a package-level variable
	}
	// exactly one definition
	var def *assignment
	var init map[string]ast.Expr
	allowed := map[*ast.Ident]bool{argId: true}
	for _, a := range assignsToVar(f, v) {
		a := a
		if id, isI := ast.Unparen(a.LHS).(*ast.Ident); isI {
			allowed[id] = true
		}
		if a.RHS == nil {
			if _, isSpec := a.Stmt.(*ast.ValueSpec); isSpec {
				if _, isPtr := v.Type().Underlying().(*types.Pointer); !isPtr && def == nil {
					def, init = &a, map[string]ast.Expr{}
				}
				continue
			}
			return nil, nil, false
		}
		if def != nil && def.RHS != nil {
			return nil, nil, false
		}
		in, isLit := initOf(a.RHS)
		if !isLit {
			return nil, nil, false
		}
		def, init = &a, in
	}
	if def == nil {
		return nil, nil, false
	}
	// the field stores through the variable; every other mention of the variable from which the use can be
	// reached (or inside a nested literal) may change the object
	stores := map[string][]assignment{}
	for _, a := range assignments(f) {
		lhs := ast.Unparen(a.LHS)
		depth := 0
		var last *ast.SelectorExpr
		for {
			switch x := lhs.(type) {
			case *ast.SelectorExpr:
				lhs, depth, last = ast.Unparen(x.X), depth+1, x
				continue
			case *ast.IndexExpr:
				lhs, depth, last = ast.Unparen(x.X), depth+1, nil
				continue
			case *ast.StarExpr:
				lhs = ast.Unparen(x.X)
				if depth == 0 {
					depth, last = 100, nil // `*x = T{…}` replaces the whole object
				}
				continue
			}
			break
		}
		if depth == 0 || varOfRaw(f, lhs) != v {
			continue
		}
		if depth >= 100 || last == nil {
			return nil, nil, false
		}
		sel, isSel := f.Info().Selections[last]
		if !isSel || sel.Kind() != types.FieldVal || len(sel.Index()) != 1 {
			return nil, nil, false
		}
		nm := f.P.FieldName(sel.Obj().(*types.Var))
		if nm == "" {
			return nil, nil, false
		}
		if depth > 1 || a.RHS == nil || a.Tok != token.ASSIGN {
			a.RHS = nil
		} else if as, isAs := a.Stmt.(*ast.AssignStmt); isAs && len(as.Lhs) != len(as.Rhs) {
			a.RHS = nil
		}
		if a.Pt.B == nil {
			return nil, nil, false
		}
		stores[nm] = append(stores[nm], a)
	}
	bad := false
	own := map[*ast.Ident]bool{}
	f.InspectOwn(func(n ast.Node) bool {
		switch x := n.(type) {
		case *ast.Ident:
			if f.Info().ObjectOf(x) == v {
				own[x] = true
			}
		case *ast.SelectorExpr:
			if id, isI := ast.Unparen(x.X).(*ast.Ident); isI && f.Info().ObjectOf(id) == v {
				if s, has := f.Info().Selections[x]; has && s.Kind() == types.FieldVal {
					allowed[id] = true
				}
			}
		case *ast.UnaryExpr:
			// the address of (a part of) a field escapes
			if x.Op == token.AND {
				e, depth := ast.Unparen(x.X), 0
				for {
					if s, isS := e.(*ast.SelectorExpr); isS {
						e, depth = ast.Unparen(s.X), depth+1
						continue
					}
					if ix, isX := e.(*ast.IndexExpr); isX {
						e, depth = ast.Unparen(ix.X), depth+1
						continue
					}
					break
				}
				if depth > 0 && varOfRaw(f, e) == v {
					bad = true
				}
			}
		}
		return true
	})
	f.InspectAll(func(n ast.Node) bool {
		id, isI := n.(*ast.Ident)
		if !isI || f.Info().ObjectOf(id) != v {
			return true
		}
		if !own[id] {
			bad = true // mentioned by a nested literal
			return true
		}
		if allowed[id] {
			return true
		}
		pt, has := f.PointOf(id)
		if !has || pt.B == nil || pt == at {
			bad = true // (handed over twice in the same statement)
			return true
		}
		if _, reach := (core.PathQuery{F: f, From: pt, FromAfter: true, Target: core.PointSet(at)}).Find(); reach {
			bad = true
		}
		return true
	})
	if bad || def.Pt.B == nil || at.B == nil {
		return nil, nil, false
	}
	fields = fill(init)
	for nm, ss := range stores {
		var pts []core.Point
		for _, a := range ss {
			pts = append(pts, a.Pt)
		}
		var vals []c09fval
		if _, reach := (core.PathQuery{F: f, From: def.Pt, FromAfter: true, Target: core.PointSet(at), Avoid: core.PointSet(pts...)}).Find(); reach {
			vals = append(vals, fields[nm]...)
		}
		for _, a := range ss {
			var others []core.Point
			for _, q := range pts {
				if q != a.Pt {
					others = append(others, q)
				}
			}
			if a.Pt == at {
				continue
			}
			if _, reach := (core.PathQuery{F: f, From: a.Pt, FromAfter: true, Target: core.PointSet(at), Avoid: core.PointSet(others...)}).Find(); !reach {
				continue
			}
			if a.RHS == nil {
				vals = append(vals, c09fval{Unknown: true})
			} else {
				vals = append(vals, c09fval{E: a.RHS})
			}
		}
		fields[nm] = vals
	}
	return fields, st, true
}

// c09fieldAll: the field holds at least one value at the use and every one of them satisfies pred.
func c09fieldAll(fields map[string][]c09fval, name string, pred func(c09fval) bool) bool {
	vals := fields[name]
	if len(vals) == 0 {
		return false
	}
	for _, fv := range vals {
		if fv.Unknown || !pred(fv) {
			return false
		}
	}
	return true
}

// c09paramOfType: the only named parameter of f whose type satisfies match (nil if none or several), so
// that a parameter is identified by its type and reordering the parameter list does not matter.
func c09paramOfType(f *core.FuncInfo, match func(types.Type) bool) *types.Var {
	var out *types.Var
	n := 0
	for i := 0; i < c09numParams(f); i++ {
		v := f.Param(i)
		if v == nil {
			continue // unnamed
		}
		if match(v.Type()) {
			out = v
			n++
		}
	}
	if n != 1 {
		return nil
	}
	return out
}

func c09numParams(f *core.FuncInfo) int {
	k := 0
	if f == nil || f.Type == nil || f.Type.Params == nil {
		return 0
	}
	for _, fl := range f.Type.Params.List {
		if len(fl.Names) == 0 {
			k++
		} else {
			k += len(fl.Names)
		}
	}
	return k
}

// c09constIntOf: the integer value of the package-level constant that name denotes in f's package.
func c09constIntOf(f *core.FuncInfo, name string) (int64, bool) {
	if f == nil || f.Pkg == nil || f.Pkg.Types == nil {
		return 0, false
	}
	cst, ok := f.Pkg.Types.Scope().Lookup(name).(*types.Const)
	if !ok || cst.Val().Kind() != constant.Int {
		return 0, false
	}
	return constant.Int64Val(cst.Val())
}
