package rules

import (
	"fmt"
	"go/ast"
	"go/token"
	"go/types"
	"sort"
	"strings"

	"golang.org/x/tools/go/cfg"

	"lachk/core"
)

const (
	c13BasicT   = "eventcheck/basiccheck.Checker"
	c13EpochT   = "eventcheck/epochcheck.Checker"
	c13ParentsT = "eventcheck/parentscheck.Checker"
	c13AllT     = "eventcheck.Checkers"
	c13EventI   = "inter/dag.Event"
	c13BaseT    = "inter/dag.BaseEvent"
	c13Reader   = "eventcheck/epochcheck.Reader.GetEpochValidators"
	c13Exists   = "inter/pos.Validators.Exists"
	c13SetFn    = "hash.Events.Set"
	c13MaxFn    = "inter/idx.MaxLamport"
	// the property's bound, written from its text: values must be below 2^31-2
	c13Bound = "2147483646"
)

func init() {
	register("C13", "other", "T8 DecisionTable (normalised guards, field coverage), T4 GuardedBy, T2 Dominates (loop-aware), T7 Pairing (fold on every iteration)",
		"Decides the decision tables of the event checkers, written from the property text and compared with the code up to comparison normalisation: "+
			"checkLimits rejects each of Seq, Epoch, Frame, Lamport at >= 2^31-2 and checkInited rejects each at zero and rejects Seq > 1 without parents; basiccheck.Validate propagates both and rejects len(Parents().Set()) != len(Parents()) (Events.Set inserts every element); "+
			"epochcheck rejects Epoch != current epoch and then a creator that is not in the current validators, both taken from one GetEpochValidators call; "+
			"parentscheck folds the maximum Lamport time from 0 over every element of the parents list (idx.MaxLamport returns the larger argument) and rejects Lamport != max+1, evaluates 'created by the event's creator xor IsSelfParent' for every parent, rejects (Seq == 1) xor (SelfParent == nil), and when a self-parent exists rejects parents[0] not being it and Seq != parents[0].Seq+1; "+
			"Checkers.Validate passes its own arguments to all three checkers and propagates each error. For every row: the edge on which the bad condition holds reaches only returns of a non-nil error (or a panic), and every accepting return is reachable only through the complementary edge (for per-parent rows: on every iteration of a complete range over all parents, whose exit dominates the accepting return). Rejecting guards that are not in the table are reported as undecided (they may narrow acceptance). "+
			"BaseEvent.SelfParent is nil exactly on seq <= 1 or no parents and otherwise &parents[0]; IsSelfParent compares with it; the getters return their own fields. "+
			"Loops over the parents are read as iterations (a range, or a counted loop from 0 to len of either parents list whose index is not modified in the body); temporaries defined at their declaration (`sp := e.SelfParent()`, `first := parents[0]`) stand for their defining expression. "+
			"Not decided: the enumeration of boundary inputs itself, uint32 wrap of max+1 / Seq+1 (excluded by the limits check only for the event's own fields), Event implementations other than BaseEvent, the caller contract that the parents argument lists the events of e.Parents() in order, pos.Validators.Exists being a membership test (C12).",
		[]string{"the parents argument of parentscheck lists exactly the events named by e.Parents(), in the same order (caller contract, enforced only by length)", "errors.New / fmt.Errorf return non-nil errors", "pos.Validators.Exists is a membership test of the current validator group"},
		runC13)
}

// ---------------------------------------------------------------------------
// atoms and keys

// c13Atom is one atomic condition in canonical form: base, possibly negated.
type c13Atom struct {
	base string
	neg  bool
}

func (a c13Atom) String() string {
	if a.neg {
		return "!(" + a.base + ")"
	}
	return a.base
}

// c13LinAtom renders a normalised linear comparison; a != b is the negation of a == b.
func c13LinAtom(lc core.LinCmp) c13Atom {
	keys := make([]string, 0, len(lc.Form.Coef))
	for k := range lc.Form.Coef {
		keys = append(keys, k)
	}
	sort.Strings(keys)
	var sb strings.Builder
	for _, k := range keys {
		fmt.Fprintf(&sb, "%+d*%s ", lc.Form.Coef[k], k)
	}
	fmt.Fprintf(&sb, "%+d", lc.Form.C)
	if lc.Op == "!=" {
		return c13Atom{sb.String() + " == 0", true}
	}
	return c13Atom{sb.String() + " " + lc.Op + " 0", false}
}

// c13L turns a table entry over role names ("2 - seq <= 0") into its atom string.
func c13L(s string) string { return c13LinAtom(core.ParseLinCmp(s)).String() }

// c13Not negates an atom string.
func c13Not(a string) string {
	if strings.HasPrefix(a, "!(") && strings.HasSuffix(a, ")") {
		return a[2 : len(a)-1]
	}
	return "!(" + a + ")"
}

// c13Xor is the table form of "a xor b" over positive atoms.
func c13Xor(a, b string) string {
	if b < a {
		a, b = b, a
	}
	return "xor(" + a + ", " + b + ")"
}

// c13And is a conjunction of atoms (one alternative of a guard).
func c13And(atoms ...string) string {
	s := append([]string(nil), atoms...)
	sort.Strings(s)
	return strings.Join(s, " && ")
}

// c13Loop is an iteration over the parents, however it is written (core.IterationOf): a range over the
// list, or a counted loop `for i := 0; i < len(list); i++` whose elements are list[i].
type c13Loop struct {
	stmt     ast.Stmt
	body     *ast.BlockStmt
	kind     string // "events": iterates the parents argument; "ids": iterates e.Parents()
	key, val *types.Var
	partial  string // non-empty: why the loop does not visit every element exactly once
	from     int    // first index visited: 0, or 1 for `for i := 1; i < len(list); i++` (element 0 is skipped)
}

// c13Iteration recognises loop as an iteration over a collection accepted by isColl (which returns the
// kind, "" = not that collection). Counted loops must start at 0, step by 1 up to len(collection), and
// must not assign their index in the body; otherwise the loop is returned with `partial` set.
func c13Iteration(f *core.FuncInfo, loop ast.Stmt, isColl func(ast.Expr) string) *c13Loop {
	if rs, ok := loop.(*ast.RangeStmt); ok && rs.Tok != token.DEFINE && (rs.Key != nil || rs.Value != nil) {
		return nil
	}
	it, ok := core.IterationOf(f, loop, func(e ast.Expr) ast.Expr { return resolveLocal(f, e) })
	if !ok || it.Coll == nil || it.Body == nil {
		return nil
	}
	kind := isColl(it.Coll)
	if kind == "" {
		return nil
	}
	l := &c13Loop{stmt: loop, body: it.Body, kind: kind, key: it.Index, val: it.Value}
	if it.Counted {
		if !it.FromZero {
			l.partial = "the counted loop does not start at index 0"
			if fs, ok := loop.(*ast.ForStmt); ok {
				if as, ok := fs.Init.(*ast.AssignStmt); ok && len(as.Rhs) == 1 && core.IsConstInt(f.Info(), core.StripConv(f.Info(), as.Rhs[0]), 1) {
					l.partial, l.from = "", 1
				}
			}
		}
		for _, a := range assignsToVar(f, it.Index) {
			if it.Body.Pos() <= a.Stmt.Pos() && a.Stmt.End() <= it.Body.End() {
				l.partial = "the loop index is modified inside the body"
			}
		}
	}
	return l
}

// c13Loops lists the iterations over accepted collections in f's own body.
func c13Loops(f *core.FuncInfo, isColl func(ast.Expr) string) []*c13Loop {
	var out []*c13Loop
	f.InspectOwn(func(n ast.Node) bool {
		switch n.(type) {
		case *ast.RangeStmt, *ast.ForStmt:
			if l := c13Iteration(f, n.(ast.Stmt), isColl); l != nil {
				out = append(out, l)
			}
		}
		return true
	})
	return out
}

func (l *c13Loop) contains(n ast.Node) bool {
	return l.body.Pos() <= n.Pos() && n.End() <= l.body.End()
}

// c13Env resolves expressions of one checker function to role names (through objects, never text).
type c13Env struct {
	f       *core.FuncInfo
	ev      *types.Var // the event under validation (parameter, or receiver for BaseEvent methods)
	parents *types.Var // the parents argument (parentscheck only)
	self    bool       // ev is a *BaseEvent receiver: fields and BaseEvent methods count
	vars    map[*types.Var]string
	loops   []*c13Loop
	used    map[ast.Stmt]bool   // loops whose variables the current fact mentions
	alias   map[*types.Var]bool // single-assignment local copies of ev
	custom  core.AtomNamer      // additional role names (used by C31, which shares the table machinery)
	retMsg  string              // what an unclassified return means for this table (default: the checkers' wording)
}

var c13Getters = map[string]string{"Seq": "seq", "Epoch": "epoch", "Frame": "frame", "Lamport": "lamport", "Creator": "creator"}

func c13NewEnv(f *core.FuncInfo, ev, parents *types.Var, self bool, errCallees ...string) *c13Env {
	env := &c13Env{f: f, ev: ev, parents: parents, self: self, vars: map[*types.Var]string{}, used: map[ast.Stmt]bool{}, alias: map[*types.Var]bool{}}
	{
		count := map[*types.Var]int{}
		for _, a := range assignments(f) {
			if v := varOf(f, a.LHS); v != nil {
				count[v]++
			}
		}
		for _, a := range assignments(f) {
			if v := varOf(f, a.LHS); v != nil && count[v] == 1 && a.RHS != nil && ev != nil && varOf(f, a.RHS) == ev {
				env.alias[v] = true
			}
		}
	}
	// iterations over the parents argument or over e.Parents(), written as a range or as a counted loop
	// (the two lists have the same length behind the arity guard, so either bound visits every index)
	env.loops = c13Loops(f, func(coll ast.Expr) string {
		switch {
		case parents != nil && varOf(f, coll) == parents:
			return "events"
		case env.isParentsCall(coll):
			return "ids"
		}
		return ""
	})
	// single-assignment locals
	count := map[*types.Var]int{}
	all := assignments(f)
	for _, a := range all {
		if v := varOf(f, a.LHS); v != nil {
			count[v]++
		}
	}
	for _, a := range all {
		v := varOf(f, a.LHS)
		if v == nil || count[v] != 1 || a.RHS == nil {
			continue
		}
		rhs := ast.Unparen(a.RHS)
		if call, ok := rhs.(*ast.CallExpr); ok {
			nm := calleeName(f, call)
			if nm == c13Reader {
				if as, ok := a.Stmt.(*ast.AssignStmt); ok && len(as.Lhs) == 2 && len(as.Rhs) == 1 {
					if as.Lhs[0] == a.LHS {
						env.vars[v] = "validators"
					} else {
						env.vars[v] = "cur"
					}
				}
			}
			for _, ec := range errCallees {
				if nm == ec {
					env.vars[v] = "err:" + ec
				}
			}
		}
		if ix, ok := rhs.(*ast.IndexExpr); ok && parents != nil && varOf(f, ix.X) == parents && core.IsConstInt(f.Info(), ix.Index, 0) {
			env.vars[v] = "p0"
		}
	}
	// the running maximum: an integer local declared outside, assigned inside, a range over the parents
	nMax := 0
	for _, a := range all {
		v := varOf(f, a.LHS)
		if v == nil || env.vars[v] != "" || c13IsRange(a.Stmt) {
			continue
		}
		b, ok := v.Type().Underlying().(*types.Basic)
		if !ok || b.Info()&types.IsInteger == 0 {
			continue
		}
		for _, l := range env.loops {
			if l.contains(a.Stmt) && v.Pos() < l.stmt.Pos() && v != l.key && env.vars[v] == "" {
				nMax++
				if nMax == 1 {
					env.vars[v] = "max"
				} else {
					env.vars[v] = fmt.Sprintf("max#%d", nMax)
				}
			}
		}
	}
	return env
}

func c13IsRange(n ast.Node) bool { _, ok := n.(*ast.RangeStmt); return ok }

// res looks through temporaries: an identifier that reads a local with exactly one plain definition
// (and no role of its own) stands for its defining expression, e.g. `sp := e.SelfParent(); if sp == nil`.
// Locals that snapshot a location written in the function are left alone (helpers: resolveLocal rules).
func (env *c13Env) res(e ast.Expr) ast.Expr {
	f := env.f
	e = ast.Unparen(e)
	for depth := 0; depth < 5; depth++ {
		id, ok := e.(*ast.Ident)
		if !ok {
			return e
		}
		v, _ := f.Info().ObjectOf(id).(*types.Var)
		if v == nil || env.vars[v] != "" || v == env.ev || env.alias[v] || lhsIdents(f)[id] {
			return e
		}
		d := singleDef(f, v)
		if d == nil || readsWrittenLocation(f, d) || !c13DefinedAtDecl(f, v, d) {
			return e
		}
		e = ast.Unparen(d)
	}
	return e
}

// c13DefinedAtDecl: the single definition d of v is its declaration (`v := d` / `var v = d`), so every
// use of v is dominated by it (a `var v T` followed by a conditional `v = d` is not looked through).
func c13DefinedAtDecl(f *core.FuncInfo, v *types.Var, d ast.Expr) bool {
	for _, a := range assignments(f) {
		if a.RHS != d {
			continue
		}
		if id, ok := ast.Unparen(a.LHS).(*ast.Ident); ok && f.Info().Defs[id] == types.Object(v) {
			return true
		}
	}
	return false
}

// isEv: the expression is the event under validation.
func (env *c13Env) isEv(e ast.Expr) bool {
	v := varOf(env.f, e)
	return env.ev != nil && v != nil && (v == env.ev || env.alias[v])
}

// evCall: e is a call of the named dag.Event method (or the BaseEvent method, for receivers) with no
// arguments; returns the receiver expression.
func (env *c13Env) evCall(e ast.Expr, method string) ast.Expr {
	call, ok := env.res(e).(*ast.CallExpr)
	if !ok || len(call.Args) != 0 {
		return nil
	}
	nm := calleeName(env.f, call)
	if nm != c13EventI+"."+method && !(env.self && nm == c13BaseT+"."+method) {
		return nil
	}
	sel, ok := ast.Unparen(call.Fun).(*ast.SelectorExpr)
	if !ok {
		return nil
	}
	return sel.X
}

// isParentsCall: e is ev.Parents() (or the receiver's parents field).
func (env *c13Env) isParentsCall(e ast.Expr) bool {
	if r := env.evCall(e, "Parents"); r != nil && env.isEv(r) {
		return true
	}
	if env.self {
		if sel, ok := env.res(e).(*ast.SelectorExpr); ok && fieldNameOf(env.f, sel) == c13BaseT+".parents" && env.isEv(sel.X) {
			return true
		}
	}
	return false
}

// parentElem: role of an expression denoting a parent event: "p" (the current element of a range over
// all parents), "p0" (the first element of the parents argument).
func (env *c13Env) parentElem(e ast.Expr) string {
	f := env.f
	switch x := env.res(e).(type) {
	case *ast.Ident:
		v := varOf(f, x)
		if v == nil {
			return ""
		}
		if env.vars[v] == "p0" {
			return "p0"
		}
		for _, l := range env.loops {
			if l.kind == "events" && l.val == v {
				env.used[l.stmt] = true
				return "p"
			}
		}
	case *ast.IndexExpr:
		if env.parents == nil || varOf(f, env.res(x.X)) != env.parents {
			return ""
		}
		if core.IsConstInt(f.Info(), x.Index, 0) {
			return "p0"
		}
		if kv := varOf(f, x.Index); kv != nil {
			for _, l := range env.loops {
				if l.key == kv {
					env.used[l.stmt] = true
					return "p"
				}
			}
		}
	}
	return ""
}

// parentID: role of an expression denoting the hash of a parent: "pid" / "p0id".
func (env *c13Env) parentID(e ast.Expr) string {
	f := env.f
	if r := env.evCall(e, "ID"); r != nil {
		if role := env.parentElem(r); role != "" {
			return role + "id"
		}
		return ""
	}
	switch x := env.res(e).(type) {
	case *ast.IndexExpr:
		if !env.isParentsCall(x.X) {
			return ""
		}
		if core.IsConstInt(f.Info(), x.Index, 0) {
			return "p0id"
		}
		if kv := varOf(f, x.Index); kv != nil {
			for _, l := range env.loops {
				if l.key == kv {
					env.used[l.stmt] = true
					return "pid"
				}
			}
		}
	case *ast.Ident:
		v := varOf(f, x)
		for _, l := range env.loops {
			if l.kind == "ids" && v != nil && l.val == v {
				env.used[l.stmt] = true
				return "pid"
			}
		}
	}
	return ""
}

// atom is the AtomNamer of the linear normaliser.
func (env *c13Env) atom(e ast.Expr) string {
	f := env.f
	if env.custom != nil {
		if s := env.custom(e); s != "" {
			return s
		}
	}
	switch x := ast.Unparen(e).(type) {
	case *ast.CallExpr:
		nm := calleeName(f, x)
		if nm == "builtin.len" && len(x.Args) == 1 {
			arg := env.res(x.Args[0])
			switch {
			case env.parents != nil && varOf(f, arg) == env.parents:
				return "nargs"
			case env.isParentsCall(arg):
				return "nparents"
			}
			if call, ok := arg.(*ast.CallExpr); ok && calleeName(f, call) == c13SetFn && len(call.Args) == 0 {
				if sel, ok := ast.Unparen(call.Fun).(*ast.SelectorExpr); ok && env.isParentsCall(sel.X) {
					return "nset"
				}
			}
			return ""
		}
		for meth, role := range c13Getters {
			if r := env.evCall(x, meth); r != nil {
				if env.isEv(r) {
					return role
				}
				if pr := env.parentElem(r); pr != "" {
					return pr + "." + role
				}
			}
		}
	case *ast.Ident:
		if v := varOf(f, x); v != nil {
			if env.vars[v] != "" {
				return env.vars[v]
			}
			// a temporary holding a nameable value (`seq := e.Seq()`, `first := parents[0]` ...)
			if r := env.res(x); r != ast.Expr(x) {
				return env.atom(r)
			}
		}
	case *ast.SelectorExpr:
		if env.self && env.isEv(x.X) {
			if fn := fieldNameOf(f, x); strings.HasPrefix(fn, c13BaseT+".") {
				return strings.TrimPrefix(fn, c13BaseT+".")
			}
		}
	}
	return ""
}

func (env *c13Env) boolAtom(e ast.Expr) string {
	f := env.f
	if call, ok := env.res(e).(*ast.CallExpr); ok {
		nm := calleeName(f, call)
		sel, _ := ast.Unparen(call.Fun).(*ast.SelectorExpr)
		if nm == c13Exists && sel != nil && len(call.Args) == 1 {
			if v := varOf(f, sel.X); v != nil && env.vars[v] == "validators" && env.atom(call.Args[0]) == "creator" {
				return "exists(creator)"
			}
		}
		if (nm == c13EventI+".IsSelfParent" || env.self && nm == c13BaseT+".IsSelfParent") && sel != nil && len(call.Args) == 1 && env.isEv(sel.X) {
			if r := env.parentID(call.Args[0]); r != "" {
				return "isSelfParent(" + r + ")"
			}
		}
	}
	return "?" + exprStr(e)
}

func (env *c13Env) ptrAtom(e ast.Expr) string {
	if r := env.evCall(e, "SelfParent"); r != nil && env.isEv(r) {
		return "selfParent"
	}
	if v := varOf(env.f, e); v != nil && env.vars[v] != "" {
		return env.vars[v]
	}
	return "?" + exprStr(e)
}

func c13IsBool(info *types.Info, e ast.Expr) bool {
	tv, ok := info.Types[e]
	if !ok || tv.Type == nil {
		return false
	}
	b, ok := tv.Type.Underlying().(*types.Basic)
	return ok && b.Info()&types.IsBoolean != 0
}

// atomOf canonicalises one fact.
func (env *c13Env) atomOf(ft core.Fact) c13Atom {
	info := env.f.Info()
	cm, ok := core.NormCmp(ft)
	if !ok {
		return c13Atom{base: "?" + exprStr(ft.Expr)}
	}
	if cm.R == nil {
		// a boolean temporary stands for the comparison it was defined as
		if r := env.res(cm.L); r != ast.Unparen(cm.L) {
			if _, isCall := r.(*ast.CallExpr); !isCall {
				a := env.atomOf(core.Fact{Expr: r, Truth: true})
				return c13Atom{a.base, a.neg != (cm.Op == token.NEQ)}
			}
		}
		return c13Atom{env.boolAtom(cm.L), cm.Op == token.NEQ}
	}
	if cm.Op == token.EQL || cm.Op == token.NEQ {
		l, r := cm.L, cm.R
		if core.IsNil(info, l) {
			l, r = r, l
		}
		if core.IsNil(info, r) {
			return c13Atom{env.ptrAtom(l) + " == nil", cm.Op == token.NEQ}
		}
		if c13IsBool(info, cm.L) && c13IsBool(info, cm.R) {
			a := env.atomOf(core.Fact{Expr: cm.L, Truth: true})
			b := env.atomOf(core.Fact{Expr: cm.R, Truth: true})
			return c13Atom{c13Xor(a.base, b.base), (a.neg != b.neg) != (cm.Op == token.EQL)}
		}
	}
	if lc, ok := core.NormLinCmp(info, ft, env.atom); ok {
		return c13LinAtom(lc)
	}
	return c13Atom{base: "?" + exprStr(ft.Expr)}
}

// altKey canonicalises one alternative (a conjunction of facts); facts mentioning the variables of two
// different loops cannot be given a per-parent meaning.
func (env *c13Env) altKey(facts []core.Fact) string {
	env.used = map[ast.Stmt]bool{}
	var atoms []string
	for _, ft := range facts {
		atoms = append(atoms, env.atomOf(ft).String())
	}
	if len(env.used) > 1 {
		return "?mixed-loops " + c13And(atoms...)
	}
	return c13And(atoms...)
}

// ---------------------------------------------------------------------------
// returns

const (
	c13Accept = iota
	c13Reject
	c13Delegate
	c13Unknown
	c13Skip // a return that is the subject of another table: owes nothing here
)

type c13Ret struct {
	pt     core.Point
	stmt   *ast.ReturnStmt
	kind   int
	callee string
	what   string
}

var c13AssignedGlobals map[types.Object]bool

// c13NonNilErrVar: a package-level error variable initialised by errors.New / fmt.Errorf and never reassigned.
func c13NonNilErrVar(p *core.Prog, v *types.Var) bool {
	if v == nil || v.Pkg() == nil || v.Parent() != v.Pkg().Scope() {
		return false
	}
	pk := p.Pkg(core.RelPkg(v.Pkg().Path()))
	if pk == nil {
		return false
	}
	if c13AssignedGlobals == nil {
		c13AssignedGlobals = map[types.Object]bool{}
		for _, g := range p.Funcs() {
			for _, a := range assignments(g) {
				if o, ok := g.ObjOf(a.LHS).(*types.Var); ok && o.Pkg() != nil && o.Parent() == o.Pkg().Scope() {
					c13AssignedGlobals[o] = true
				}
			}
		}
	}
	if c13AssignedGlobals[v] {
		return false
	}
	for _, file := range pk.Syntax {
		for _, d := range file.Decls {
			gd, ok := d.(*ast.GenDecl)
			if !ok || gd.Tok != token.VAR {
				continue
			}
			for _, sp := range gd.Specs {
				vs := sp.(*ast.ValueSpec)
				for i, nm := range vs.Names {
					if pk.TypesInfo.Defs[nm] != types.Object(v) || i >= len(vs.Values) || len(vs.Values) != len(vs.Names) {
						continue
					}
					call, ok := ast.Unparen(vs.Values[i]).(*ast.CallExpr)
					if !ok {
						return false
					}
					obj, _ := p.ResolveCallee(pk.TypesInfo, call)
					n := p.ObjName(obj)
					return n == "errors.New" || n == "fmt.Errorf"
				}
			}
		}
	}
	return false
}

// c13ErrReturns classifies the returns of a checker: nil accepts, a non-nil error object or a
// propagated err (established non-nil on every path) rejects, a tail call of a checker delegates.
func c13ErrReturns(env *c13Env, delegates ...string) []c13Ret {
	f := env.f
	var out []c13Ret
	for _, pt := range f.ReturnPoints() {
		r := pt.Node().(*ast.ReturnStmt)
		ret := c13Ret{pt: pt, stmt: r, kind: c13Unknown}
		if len(r.Results) == 1 {
			e := ast.Unparen(r.Results[0])
			ret.what = exprStr(e)
			switch {
			case core.IsNil(f.Info(), e):
				ret.kind = c13Accept
			case varOf(f, e) != nil:
				v := varOf(f, e)
				if c13NonNilErrVar(f.P, v) {
					ret.kind = c13Reject
				} else if strings.HasPrefix(env.vars[v], "err:") {
					if ok, _ := f.GuardedBy(pt, varNilFact(f, v, false)); ok {
						ret.kind = c13Reject
					}
				}
			default:
				if call := isCallTo(f, e, delegates...); call != nil {
					ret.kind, ret.callee = c13Delegate, calleeName(f, call)
				}
			}
		}
		out = append(out, ret)
	}
	return out
}

// ---------------------------------------------------------------------------
// decision table

type c13Row struct {
	name    string
	alts    []string // accepted canonical forms of the rejected condition (one alternative of a guard each)
	breaks  string   // what is wrongly accepted when the row is missing
	unless  []string // atoms under which the row is not owed (escape edges)
	loop    bool     // owed for every parent: guard on every iteration of a complete range over all parents
	fromOne bool     // loop rows: owed only for elements 1.. (a relation between neighbours), so a loop from index 1 suffices
	callee  string   // call rows: the checker whose error must be propagated
	how     string   // pass text override (tables whose "rejecting" returns are not errors)
	args    []*types.Var
	tag     string
}

type c13Edge struct {
	b    *cfg.Block
	s    int
	cond ast.Expr
	alts []string
	hit  []bool
}

type c13Result struct {
	guards int
	byTag  map[string]int
	edges  []*c13Edge
	rets   []c13Ret
	rowHit map[string][]*c13Edge
}

// c13BlocksFrom: blocks reachable from `from` (inclusive) without taking an avoided edge or entering an avoided block.
func c13BlocksFrom(from *cfg.Block, avoidEdge func(*cfg.Block, int) bool, avoidBlock *cfg.Block) map[*cfg.Block]bool {
	seen := map[*cfg.Block]bool{}
	if from == avoidBlock {
		return seen
	}
	work := []*cfg.Block{from}
	seen[from] = true
	for len(work) > 0 {
		b := work[0]
		work = work[1:]
		for i, s := range b.Succs {
			if avoidEdge != nil && avoidEdge(b, i) {
				continue
			}
			if s == avoidBlock || seen[s] {
				continue
			}
			seen[s] = true
			work = append(work, s)
		}
	}
	return seen
}

func c13LoopBody(f *core.FuncInfo, loop ast.Stmt) *cfg.Block {
	for _, b := range f.CFG().Blocks {
		if b.Stmt == loop && (b.Kind == cfg.KindRangeBody || b.Kind == cfg.KindForBody) {
			return b
		}
	}
	return nil
}

func (env *c13Env) loopOfStmt(s ast.Stmt) *c13Loop {
	for _, l := range env.loops {
		if l.stmt == s {
			return l
		}
	}
	return nil
}

// c13Table compares the function with the table. rejectKind is the return kind that the bad edges must
// lead to exclusively (c13Reject for the checkers).
func c13Table(c *core.Ctx, env *c13Env, rets []c13Ret, rows []c13Row) *c13Result {
	f := env.f
	who := short(f.Name)
	res := &c13Result{byTag: map[string]int{}, rets: rets, rowHit: map[string][]*c13Edge{}}
	kindOf := map[*ast.ReturnStmt]int{}
	unknown := false
	for _, r := range rets {
		kindOf[r.stmt] = r.kind
		if r.kind == c13Unknown {
			unknown = true
			msg := "is neither nil, a never-reassigned non-nil error object, an error variable established non-nil, nor a delegated checker call: accept/reject cannot be classified"
			if env.retMsg != "" {
				msg = env.retMsg
			}
			c.Undecided(who+"|return shape", "T8 DecisionTable", r.stmt.Pos(), "return of `"+r.what+"` "+msg)
		}
	}
	isReject := func(r *ast.ReturnStmt) bool { return kindOf[r] == c13Reject }
	for _, b := range f.CFG().Blocks {
		if !b.Live {
			continue
		}
		cond := f.BranchCond(b)
		if cond == nil {
			continue
		}
		for s := 0; s < 2; s++ {
			if ok, _ := edgeLeadsOnlyTo(f, b, s, isReject); !ok {
				continue
			}
			e := &c13Edge{b: b, s: s, cond: cond}
			for _, alt := range core.Disjuncts(cond, s == 0) {
				e.alts = append(e.alts, env.altKey(alt))
			}
			e.hit = make([]bool, len(e.alts))
			res.edges = append(res.edges, e)
		}
	}
	for _, row := range rows {
		var hits []*c13Edge
		for _, e := range res.edges {
			for i, a := range e.alts {
				for _, want := range row.alts {
					if a == want {
						e.hit[i] = true
						hits = append(hits, e)
					}
				}
			}
		}
		// call rows: arguments and tail calls
		delegated := false
		if row.callee != "" {
			for _, cs := range f.CallsTo(row.callee) {
				okArgs := len(cs.Call.Args) == len(row.args)
				for i := 0; okArgs && i < len(row.args); i++ {
					okArgs = row.args[i] != nil && varOf(f, cs.Call.Args[i]) == row.args[i]
				}
				c.Check(okArgs, who+"|"+row.name+" arguments", "provenance", cs.Pos(), "the checker is applied to this function's own event (and parents) argument", "the checker is applied to something other than the event (and parents) being validated: the verdict is about a different event")
			}
			for _, r := range rets {
				if r.kind == c13Delegate && r.callee == row.callee {
					delegated = true
				}
			}
		}
		construct := who + "|" + row.name
		if len(hits) == 0 && !delegated {
			detail := "no guard of this function rejects this condition (no edge carrying it leads only to rejecting exits): " + row.breaks
			if unknown {
				c.Undecided(construct, "T8 DecisionTable", f.Pos(), detail)
			} else {
				c.Fail(construct, "T8 DecisionTable", f.Pos(), detail)
			}
			continue
		}
		// the accepting returns owe the complementary edge
		comp := map[*cfg.Block]int{}
		for _, e := range hits {
			comp[e.b] = e.s
		}
		escape := f.GuardEdges(func(ft core.Fact) bool {
			a := env.atomOf(ft).String()
			for _, u := range row.unless {
				if a == u {
					return true
				}
			}
			return false
		})
		ok := true
		pos := f.Pos()
		if len(hits) > 0 {
			pos = hits[0].cond.Pos()
		}
		fail := func(detail string) {
			ok = false
			c.Fail(construct, "T8 DecisionTable", pos, detail+": "+row.breaks)
		}
		for _, r := range rets {
			if !ok {
				break
			}
			if r.kind == c13Reject || r.kind == c13Skip || r.kind == c13Delegate && r.callee == row.callee && row.callee != "" {
				continue
			}
			if row.loop {
				for _, e := range hits {
					ls := enclosingLoop(f, e.cond.Pos())
					l := env.loopOfStmt(ls)
					if l == nil {
						fail("the guard is not inside an iteration over the whole parents list, so it is not evaluated once per parent")
						break
					}
					if l.partial != "" {
						fail("the loop around the guard does not visit every element (" + l.partial + ")")
						break
					}
					if l.from > 0 && !row.fromOne {
						fail("the loop around the guard starts at index 1: the first element is never tested")
						break
					}
					done, complete := loopDone(f, l.stmt)
					head, _ := f.LoopOf(l.stmt)
					body := c13LoopBody(f, l.stmt)
					if done == nil || head == nil || body == nil {
						fail("loop structure not recognised")
						break
					}
					if !complete {
						fail("the loop over the parents can be left early (break), later parents are not checked")
						break
					}
					reach := c13BlocksFrom(body, func(b *cfg.Block, s int) bool { return b == e.b && s == 1-e.s }, nil)
					if reach[head] || reach[done] {
						fail("an iteration can reach the next parent without evaluating the guard (some parents are skipped)")
						break
					}
					if dom, path := mustPassBlockBefore(f, done, r.pt); !dom {
						fail("the accepting return is reachable before the loop over the parents has finished: " + f.DescribePath(path))
						break
					}
				}
				continue
			}
			path, found := core.PathQuery{F: f, From: f.Entry(), Target: core.PointSet(r.pt), AvoidEdge: func(b *cfg.Block, s int) bool {
				if rs, isHit := comp[b]; isHit && s == 1-rs {
					return true
				}
				return escape(b, s)
			}}.Find()
			if found {
				fail("the accepting `return " + r.what + "` is reachable without the guard having passed, path " + f.DescribePath(path))
			}
		}
		if ok {
			how := "the edge on which it holds reaches only non-nil error returns, and every accepting return lies behind the complementary edge"
			if row.loop {
				how = "evaluated on every iteration of a complete range over all parents whose exit dominates the accepting return; the bad edge reaches only non-nil error returns"
			}
			if len(hits) == 0 && delegated {
				how = "the checker's verdict is returned directly (tail call) and no other accepting return bypasses it"
			}
			if row.how != "" {
				c.Pass(construct, "T8 DecisionTable", row.how)
			} else {
				c.Pass(construct, "T8 DecisionTable", "rejected: "+how)
			}
			res.guards++
			res.byTag[row.tag]++
			res.rowHit[row.name] = hits
		}
	}
	// rejecting alternatives outside the table narrow acceptance (or are in a form the rule cannot read)
	for _, e := range res.edges {
		for i, a := range e.alts {
			if !e.hit[i] {
				c.Undecided(who+"|extra rejecting guard", "T8 DecisionTable", e.cond.Pos(), "an edge that only rejects carries the condition `"+a+"`, which is not a row of the property's table (or is written in a form the rule cannot normalise): well-formed inputs may be rejected, or a required row is written differently")
			}
		}
	}
	return res
}

// ---------------------------------------------------------------------------

func runC13(c *core.Ctx) {
	guards := 0
	fieldsUpper, fieldsZero := 0, 0
	fields := []string{"seq", "epoch", "frame", "lamport"}

	c.Clause("C13.limits", func() {
		f := c.Fn(c13BasicT + ".checkLimits")
		ev := f.Param(0)
		c.Need(ev != nil, "checkLimits has a named event parameter")
		env := c13NewEnv(f, ev, nil, false)
		var rows []c13Row
		for _, fld := range fields {
			rows = append(rows, c13Row{name: fld + " >= 2^31-2", tag: "upper", alts: []string{c13L(c13Bound + " - " + fld + " <= 0")},
				breaks: "an event whose " + fld + " is 2^31-2 or larger (or, with a shifted bound, a different range than the property's) is accepted/rejected wrongly"})
		}
		r := c13Table(c, env, c13ErrReturns(env), rows)
		guards += r.guards
		fieldsUpper = r.byTag["upper"]
	})

	c.Clause("C13.inited", func() {
		f := c.Fn(c13BasicT + ".checkInited")
		ev := f.Param(0)
		c.Need(ev != nil, "checkInited has a named event parameter")
		env := c13NewEnv(f, ev, nil, false)
		var rows []c13Row
		for _, fld := range fields {
			rows = append(rows, c13Row{name: fld + " == 0", tag: "zero", alts: []string{c13L(fld + " <= 0"), c13L(fld + " == 0")},
				breaks: "an event with " + fld + " = 0 is accepted"})
		}
		rows = append(rows, c13Row{name: "seq > 1 without parents", tag: "guard",
			alts:   []string{c13And(c13L("2 - seq <= 0"), c13L("nparents == 0")), c13And(c13L("2 - seq <= 0"), c13L("nparents <= 0"))},
			breaks: "a non-first event without parents is accepted (or first events without parents are rejected)"})
		r := c13Table(c, env, c13ErrReturns(env), rows)
		guards += r.guards
		fieldsZero = r.byTag["zero"]
	})

	c.Clause("C13.basic", func() {
		f := c.Fn(c13BasicT + ".Validate")
		ev := f.Param(0)
		c.Need(ev != nil, "basiccheck.Validate has a named event parameter")
		lim, ini := c13BasicT+".checkLimits", c13BasicT+".checkInited"
		env := c13NewEnv(f, ev, nil, false, lim, ini)
		rows := []c13Row{
			{name: "checkLimits error propagated", tag: "call", callee: lim, args: []*types.Var{ev}, alts: []string{c13Not("err:" + lim + " == nil")}, breaks: "events with huge field values are accepted"},
			{name: "checkInited error propagated", tag: "call", callee: ini, args: []*types.Var{ev}, alts: []string{c13Not("err:" + ini + " == nil")}, breaks: "events with zero fields or missing parents are accepted"},
			{name: "duplicate parents", tag: "guard", alts: []string{c13L("nparents - nset != 0"), c13L("nset - nparents + 1 <= 0")}, breaks: "an event naming the same parent twice is accepted"},
		}
		r := c13Table(c, env, c13ErrReturns(env, lim, ini), rows)
		guards += r.guards
		// the set really holds every parent: Events.Set ranges over the whole receiver and inserts each element
		sf := c.Fn(c13SetFn)
		recv := sf.Recv()
		c.Need(recv != nil, "Events.Set has a named receiver")
		okSet := false
		var where token.Pos = sf.Pos()
		sf.InspectOwn(func(n ast.Node) bool {
			rs, ok := n.(*ast.RangeStmt)
			if !ok || varOf(sf, rs.X) != recv || rs.Value == nil {
				return true
			}
			val := varOf(sf, rs.Value)
			for _, a := range assignments(sf) {
				ix, ok := ast.Unparen(a.LHS).(*ast.IndexExpr)
				if !ok || varOf(sf, ix.Index) != val || val == nil {
					continue
				}
				m := varOf(sf, ix.X)
				if m == nil {
					continue
				}
				if _, isMap := m.Type().Underlying().(*types.Map); !isMap {
					continue
				}
				_, complete := loopDone(sf, rs)
				head, _ := sf.LoopOf(rs)
				body := c13LoopBody(sf, rs)
				if !complete || head == nil || body == nil {
					continue
				}
				if reach := c13BlocksFrom(body, nil, a.Pt.B); reach[head] {
					continue
				}
				returned := len(sf.ReturnPoints()) > 0
				for _, rp := range sf.ReturnPoints() {
					rr := rp.Node().(*ast.ReturnStmt)
					if len(rr.Results) != 1 || varOf(sf, rr.Results[0]) != m {
						returned = false
					}
				}
				if returned {
					okSet, where = true, rs.Pos()
				}
			}
			return true
		})
		c.Check(okSet, "Events.Set holds every element", "T7 Pairing (loop)", where, "Set ranges over the whole slice without break, inserts the element into the returned map on every iteration: len(Set()) is the number of distinct parents", "Events.Set does not insert every element of the slice into the map it returns: the duplicate test compares with a wrong count")
	})

	c.Clause("C13.epoch", func() {
		f := c.Fn(c13EpochT + ".Validate")
		ev := f.Param(0)
		c.Need(ev != nil, "epochcheck.Validate has a named event parameter")
		env := c13NewEnv(f, ev, nil, false)
		rows := []c13Row{
			{name: "epoch != current epoch", tag: "guard", alts: []string{c13L("epoch - cur != 0")}, breaks: "an event of another epoch is accepted (or the comparison is not with the reader's current epoch)"},
			{name: "creator not a current validator", tag: "guard", alts: []string{c13Not("exists(creator)")}, breaks: "an event whose creator is not in the current validator group is accepted"},
		}
		r := c13Table(c, env, c13ErrReturns(env), rows)
		guards += r.guards
		// order: the membership test is meaningful only for the current epoch's group
		for _, cs := range f.CallsTo(c13Exists) {
			ok, path := f.GuardedBy(cs.Pt, func(ft core.Fact) bool { return env.atomOf(ft).String() == c13L("epoch - cur == 0") })
			c.Check(ok, "Validate|epoch test before membership test", "T4 GuardedBy", cs.Pos(), "validators.Exists is consulted only on the edge where the event's epoch is the current one", "the validator group of the current epoch is consulted for an event of another epoch: such an event is reported as unauthorised (ErrAuth) instead of not relevant, path "+f.DescribePath(path))
		}
		c.ExpectAtLeast("validators.Exists call in epochcheck", len(f.CallsTo(c13Exists)), 1)
		c.ExpectAtLeast("GetEpochValidators call in epochcheck", len(f.CallsTo(c13Reader)), 1)
	})

	c.Clause("C13.parents", func() {
		f := c.Fn(c13ParentsT + ".Validate")
		ev, ps := f.Param(0), f.Param(1)
		c.Need(ev != nil && ps != nil, "parentscheck.Validate has named event and parents parameters")
		env := c13NewEnv(f, ev, ps, false)
		seq1, spNil := c13L("seq - 1 == 0"), "selfParent == nil"
		noSelf := []string{spNil, seq1}
		rows := []c13Row{
			{name: "parents argument length", tag: "arity", alts: []string{c13L("nargs - nparents != 0")}, breaks: "the per-index pairing of e.Parents()[i] with parents[i] (and parents[0]) is applied to lists of different length"},
			{name: "lamport != max(parent lamports)+1", tag: "guard", alts: []string{c13L("lamport - max - 1 != 0")}, breaks: "an event whose Lamport time is not one more than the largest parent Lamport time is accepted"},
			{name: "same creator xor self-parent, every parent", tag: "guard", loop: true,
				alts:   []string{c13Xor(c13L("creator - p.creator == 0"), "isSelfParent(pid)")},
				breaks: "an event with a second parent by its own creator, or whose self-parent is by another creator, is accepted"},
			{name: "seq == 1 with a self-parent", tag: "guard", alts: []string{c13Xor(seq1, spNil), c13And(seq1, c13Not(spNil))}, breaks: "a first event that names a self-parent is accepted"},
			{name: "seq != 1 without a self-parent", tag: "guard", alts: []string{c13Xor(seq1, spNil), c13And(c13Not(seq1), spNil)}, breaks: "a non-first event without self-parent is accepted"},
			{name: "self-parent is not parents[0]", tag: "guard", unless: noSelf, alts: []string{c13Not("isSelfParent(p0id)")}, breaks: "an event whose self-parent is not its first parent is accepted (the sequence test is then applied to the wrong parent)"},
			{name: "seq != self-parent seq + 1", tag: "guard", unless: noSelf, alts: []string{c13L("seq - p0.seq - 1 != 0")}, breaks: "an event whose sequence is not one more than its self-parent's is accepted"},
		}
		r := c13Table(c, env, c13ErrReturns(env), rows)
		guards += r.guards - r.byTag["arity"]

		// the maximum is folded from 0 over every parent before the Lamport guard
		var maxV *types.Var
		nMax := 0
		for v, role := range env.vars {
			if strings.HasPrefix(role, "max") {
				nMax++
				if role == "max" {
					maxV = v
				}
			}
		}
		c.Need(nMax == 1 && maxV != nil, "exactly one running-maximum variable assigned inside a range over the parents")
		var init, fold *assignment
		as := assignsToVar(f, maxV)
		for i := range as {
			a := &as[i]
			if l := env.loopOfStmt(enclosingLoop(f, a.Stmt.Pos())); l != nil && l.contains(a.Stmt) {
				fold = a
			} else {
				init = a
			}
		}
		c.Need(len(as) == 2 && init != nil && fold != nil, "the running maximum has one initialisation and one update inside the loop")
		zero := init.RHS == nil && c13IsValueSpec(init.Stmt) || init.RHS != nil && core.IsConstInt(f.Info(), init.RHS, 0)
		okInit, _ := f.MustPassBefore([]core.Point{init.Pt}, fold.Pt)
		c.Check(zero && okInit && enclosingLoop(f, init.Stmt.Pos()) == nil, "Validate|maximum starts at 0", "T8 (fold)", init.Stmt.Pos(), "the running maximum is initialised to 0 once, before the loop", "the running maximum does not start at 0 before the loop: the Lamport guard then compares with a value that is not the largest parent time (an event without parents must carry Lamport time 1)")
		l := env.loopOfStmt(enclosingLoop(f, fold.Stmt.Pos()))
		done, complete := loopDone(f, l.stmt)
		head, _ := f.LoopOf(l.stmt)
		body := c13LoopBody(f, l.stmt)
		c.Need(done != nil && head != nil && body != nil, "range loop structure of the Lamport fold")
		// form of the update
		formOK, everyIter := false, false
		env.used = map[ast.Stmt]bool{}
		if call := isCallTo(f, fold.RHS, c13MaxFn); call != nil && len(call.Args) == 2 && fold.Tok == token.ASSIGN {
			a0, a1 := env.atom(core.StripConv(f.Info(), call.Args[0])), env.atom(core.StripConv(f.Info(), call.Args[1]))
			formOK = a0 == "max" && a1 == "p.lamport" || a0 == "p.lamport" && a1 == "max"
			everyIter = !c13BlocksFrom(body, nil, fold.Pt.B)[head]
		} else if fold.RHS != nil && fold.Tok == token.ASSIGN && env.atom(core.StripConv(f.Info(), fold.RHS)) == "p.lamport" {
			// if p.Lamport() > max { max = p.Lamport() }
			want := map[string]bool{c13L("max - p.lamport + 1 <= 0"): true, c13L("max - p.lamport <= 0"): true}
			es := edgesWithFact(f, func(ft core.Fact) bool { return want[env.atomOf(ft).String()] })
			if len(es) == 1 && es[0].B.Succs[es[0].Succ] == fold.Pt.B {
				formOK = true
				everyIter = !c13BlocksFrom(body, nil, es[0].B)[head]
			}
		}
		c.Check(formOK, "Validate|maximum update", "T8 (fold)", fold.Stmt.Pos(), "the update is max = MaxLamport(max, p.Lamport()) (or the equivalent guarded assignment) for the current parent p", "the loop does not fold the maximum of the running value and the current parent's Lamport time: the Lamport guard compares with something other than the largest parent time")
		if l.from > 0 {
			l.partial = "the loop starts at index 1"
		}
		c.Check(everyIter && complete && l.partial == "", "Validate|maximum over every parent", "T7 Pairing (loop)", l.stmt.Pos(), "the update runs on every iteration of a loop over the whole parents list (from the first to the last element), which has no early exit", "some parent can be skipped by the maximum (continue/break, or a partial iteration"+c13Why(l.partial)+"): an event with Lamport time not above that parent's is accepted")
		for _, e := range r.rowHit["lamport != max(parent lamports)+1"] {
			dom, path := mustPassBlockBefore(f, done, core.Point{B: e.b, I: len(e.b.Nodes) - 1})
			c.Check(dom, "Validate|Lamport guard after the fold", "T2 Dominates (loop)", e.cond.Pos(), "the Lamport guard is evaluated only after the loop over all parents has finished", "the Lamport guard can be evaluated before all parents are folded: "+f.DescribePath(path))
		}
		// idx.MaxLamport returns the larger argument
		mf := c.Fn(c13MaxFn)
		x, y := mf.Param(0), mf.Param(1)
		c.Need(x != nil && y != nil, "MaxLamport has two named parameters")
		namer := func(e ast.Expr) string {
			switch varOf(mf, e) {
			case x:
				return "x"
			case y:
				return "y"
			}
			return ""
		}
		seen := map[*types.Var]bool{}
		okMax := len(mf.ReturnPoints()) >= 2
		for _, rp := range mf.ReturnPoints() {
			rr := rp.Node().(*ast.ReturnStmt)
			if len(rr.Results) != 1 {
				okMax = false
				continue
			}
			v := varOf(mf, rr.Results[0])
			var want []core.LinCmp
			switch v {
			case x:
				want = []core.LinCmp{core.ParseLinCmp("y - x + 1 <= 0"), core.ParseLinCmp("y - x <= 0")}
			case y:
				want = []core.LinCmp{core.ParseLinCmp("x - y + 1 <= 0"), core.ParseLinCmp("x - y <= 0")}
			default:
				okMax = false
				continue
			}
			seen[v] = true
			g, _ := mf.GuardedBy(rp, func(ft core.Fact) bool {
				lc, ok := core.NormLinCmp(mf.Info(), ft, namer)
				return ok && (lc.Equal(want[0]) || lc.Equal(want[1]))
			})
			okMax = okMax && g
		}
		c.Check(okMax && seen[x] && seen[y], "MaxLamport|returns the larger argument", "T4 GuardedBy", mf.Pos(), "each argument is returned only on the edge where it is not smaller than the other", "idx.MaxLamport is not recognisably the maximum of its arguments: the fold does not compute the largest parent Lamport time")
	})

	c.Clause("C13.all", func() {
		f := c.Fn(c13AllT + ".Validate")
		ev, ps := f.Param(0), f.Param(1)
		c.Need(ev != nil && ps != nil, "Checkers.Validate has named event and parents parameters")
		names := []string{c13BasicT + ".Validate", c13EpochT + ".Validate", c13ParentsT + ".Validate"}
		env := c13NewEnv(f, ev, ps, false, names...)
		var rows []c13Row
		for i, n := range names {
			args := []*types.Var{ev}
			if i == 2 {
				args = append(args, ps)
			}
			what := []string{"basic (limits, zero fields, duplicate parents)", "epoch and creator", "Lamport, self-parent and sequence"}[i]
			rows = append(rows, c13Row{name: []string{"basiccheck", "epochcheck", "parentscheck"}[i] + " error propagated", tag: "call", callee: n, args: args, alts: []string{c13Not("err:" + n + " == nil")},
				breaks: "events failing the " + what + " checks are accepted by the combined Validate"})
			c.ExpectAtLeast("calls of "+[]string{"basiccheck", "epochcheck", "parentscheck"}[i]+".Validate in Checkers.Validate", len(f.CallsTo(n)), 1)
		}
		r := c13Table(c, env, c13ErrReturns(env, names...), rows)
		guards += r.guards
	})

	c.Clause("C13.event", func() {
		// SelfParent: nil on seq <= 1 or no parents, otherwise &parents[0]
		f := c.Fn(c13BaseT + ".SelfParent")
		recv := f.Recv()
		c.Need(recv != nil, "BaseEvent.SelfParent has a named receiver")
		env := c13NewEnv(f, recv, nil, true)
		var rets []c13Ret
		for _, pt := range f.ReturnPoints() {
			r := pt.Node().(*ast.ReturnStmt)
			ret := c13Ret{pt: pt, stmt: r, kind: c13Unknown}
			if len(r.Results) == 1 {
				e := env.res(r.Results[0])
				ret.what = exprStr(r.Results[0])
				if core.IsNil(f.Info(), e) {
					ret.kind = c13Reject // "no self-parent"
				} else if u, ok := e.(*ast.UnaryExpr); ok && u.Op == token.AND {
					if ix, ok := ast.Unparen(u.X).(*ast.IndexExpr); ok && env.isParentsCall(ix.X) && core.IsConstInt(f.Info(), ix.Index, 0) {
						ret.kind = c13Accept
					}
				}
			}
			rets = append(rets, ret)
		}
		rows := []c13Row{
			{name: "no self-parent when seq <= 1", tag: "event", how: "the edge seq <= 1 reaches only `return nil`, and &parents[0] is returned only behind the complementary edge", alts: []string{c13L("seq - 1 <= 0")}, breaks: "SelfParent() is nil for the wrong sequence numbers, so parentscheck's (Seq == 1) <=> (SelfParent == nil) test rejects well-formed events or accepts first events with a self-parent"},
			{name: "no self-parent without parents", tag: "event", how: "the edge len(parents) == 0 reaches only `return nil`, and &parents[0] is returned only behind the complementary edge", alts: []string{c13L("nparents == 0"), c13L("nparents <= 0")}, breaks: "SelfParent() indexes an empty parents list"},
		}
		c13Table(c, env, rets, rows)
		nFirst := 0
		for _, r := range rets {
			if r.kind == c13Accept {
				nFirst++
			}
		}
		c.ExpectAtLeast("returns of &parents[0] in BaseEvent.SelfParent", nFirst, 1)

		// IsSelfParent: false without self-parent, otherwise equality with *SelfParent()
		g := c.Fn(c13BaseT + ".IsSelfParent")
		grecv, hp := g.Recv(), g.Param(0)
		c.Need(grecv != nil && hp != nil, "BaseEvent.IsSelfParent has named receiver and parameter")
		genv := c13NewEnv(g, grecv, nil, true)
		var grets []c13Ret
		nCmp := 0
		for _, pt := range g.ReturnPoints() {
			r := pt.Node().(*ast.ReturnStmt)
			ret := c13Ret{pt: pt, stmt: r, kind: c13Unknown}
			if len(r.Results) == 1 {
				e := genv.res(r.Results[0])
				ret.what = exprStr(r.Results[0])
				if tv, ok := g.Info().Types[e]; ok && tv.Value != nil && tv.Value.String() == "false" {
					ret.kind = c13Reject
				} else if be, ok := e.(*ast.BinaryExpr); ok && be.Op == token.EQL {
					// either operand order; the dereferenced pointer may be held in a temporary
					l, rr := genv.res(be.X), genv.res(be.Y)
					if varOf(g, l) == hp {
						l, rr = rr, l
					}
					if st, ok := l.(*ast.StarExpr); ok && varOf(g, rr) == hp {
						if genv.ptrAtom(st.X) == "selfParent" {
							ret.kind = c13Accept
							nCmp++
						}
					}
				}
			}
			grets = append(grets, ret)
		}
		c13Table(c, genv, grets, []c13Row{{name: "false without a self-parent", tag: "event", how: "the edge SelfParent() == nil reaches only `return false`, and the comparison with *SelfParent() lies behind the complementary edge", alts: []string{"selfParent == nil"}, breaks: "IsSelfParent dereferences a nil self-parent or claims a self-parent for an event that has none"}})
		c.ExpectAtLeast("returns of *SelfParent() == hash in BaseEvent.IsSelfParent", nCmp, 1)

		// getters return their own field
		nGet := 0
		for meth, fld := range map[string]string{"Seq": "seq", "Epoch": "epoch", "Frame": "frame", "Lamport": "lamport", "Creator": "creator", "Parents": "parents"} {
			gf := c.Fn(c13BaseT + "." + meth)
			want := c.Fld(c13BaseT + "." + fld)
			ok := len(gf.ReturnPoints()) == 1
			for _, rp := range gf.ReturnPoints() {
				rr := rp.Node().(*ast.ReturnStmt)
				ok = ok && len(rr.Results) == 1 && fieldNameOf(gf, rr.Results[0]) == want
			}
			if ok {
				nGet++
			}
			c.Check(ok, "BaseEvent."+meth+" returns "+fld, "provenance", gf.Pos(), "the getter returns its own field", "the getter does not return the field of the same name: the checkers test a different value than the one the event carries")
		}
		c.ExpectAtLeast("BaseEvent getters", nGet, 6)
	})

	c.Clause("C13.coverage", func() {
		c.ExpectAtLeast("fields with an upper-bound guard", fieldsUpper, 4)
		c.ExpectAtLeast("fields with a zero guard", fieldsZero, 4)
		c.ExpectAtLeast("discharged table rows (guards and propagated checker errors)", guards, 14)
	})
}

func c13IsValueSpec(n ast.Node) bool { _, ok := n.(*ast.ValueSpec); return ok }

func c13Why(s string) string {
	if s == "" {
		return ""
	}
	return ": " + s
}
