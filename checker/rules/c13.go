package rules

import (
	"fmt"
	"go/ast"
	"go/token"
	"go/types"
	"math/big"
	"sort"
	"strings"

	"golang.org/x/tools/go/cfg"

	"lachk/core"
)

const (
	c13BasicT   = "eventcheck/basiccheck.Checker"
	c13EpochT   = "eventcheck/epochcheck.Checker"
	c13ParentsT = "eventcheck/parentscheck.Checker"
	c13AllT     = "eventcheck.Checkers"
	c13EventI   = "inter/dag.Event"
	c13BaseT    = "inter/dag.BaseEvent"
	c13Reader   = "eventcheck/epochcheck.Reader.GetEpochValidators"
	c13Exists   = "inter/pos.Validators.Exists"
	c13SetFn    = "hash.Events.Set"
	c13MaxFn    = "inter/idx.MaxLamport"
	// the property's bound, written from its text: values must be below 2^31-2
	c13Bound = "2147483646"
)

func init() {
	register("C13", "other", "T8 DecisionTable (normalised guards, field coverage) over an inlined, value-tracking view, T4 GuardedBy, T2 Dominates (loop-aware), T7 Pairing (fold on every iteration)",
		"Decides the decision tables of the event checkers, written from the property text and compared with the code up to comparison normalisation. "+
			"Each table is decided on an inlined view of the checker's entry point: helpers of the same package and local closures are spliced at their call sites (parameters bound to the arguments, bounded depth), error/boolean locals and helper results are followed as values (nil, non-nil, the verdict of another checker, a condition), and a branch is read as the disjoint alternatives of its condition - so it does not matter whether a test lives in the entry point, in a helper or in a predicate, whether errors are returned early or through one result variable, or whether a chain is written with if, switch or ||. "+
			"basiccheck.Validate rejects each of Seq, Epoch, Frame, Lamport at >= 2^31-2 and at zero, rejects Seq > 1 without parents and rejects len(Parents().Set()) != len(Parents()) (Events.Set inserts every element); "+
			"epochcheck rejects Epoch != current epoch and then a creator that is not in the current validators, both taken from one GetEpochValidators call; "+
			"parentscheck folds the maximum Lamport time from 0 over every element of the parents list (idx.MaxLamport returns the larger argument) and rejects Lamport != max+1, evaluates 'created by the event's creator xor IsSelfParent' for every parent, rejects (Seq == 1) xor (SelfParent == nil), and when a self-parent exists rejects parents[0] not being it and Seq != parents[0].Seq+1; "+
			"Checkers.Validate passes its own arguments to all three checkers and propagates each error. For every row: some edge on which the bad condition holds reaches only non-nil error results (or a panic), and every accepting result is reachable only through an edge implying the negated condition (for per-parent rows: on every iteration of a complete loop over all parents, whose exit every accepting path passes). Rejecting guards that are not in the table are reported as undecided (they may narrow acceptance). "+
			"BaseEvent.SelfParent is nil exactly on seq <= 1 or no parents and otherwise &parents[0]; IsSelfParent compares with it; the getters return their own fields. "+
			"Loops over the parents are read as iterations (a range, or a counted loop from 0 to len of either parents list, the length possibly hoisted, whose index is not modified in the body); temporaries defined at their declaration (`sp := e.SelfParent()`, `first := parents[0]`) stand for their defining expression. "+
			"Not decided: the enumeration of boundary inputs itself, uint32 wrap of max+1 / Seq+1 (excluded by the limits check only for the event's own fields), Event implementations other than BaseEvent, the caller contract that the parents argument lists the events of e.Parents() in order, pos.Validators.Exists being a membership test (C12).",
		[]string{"the parents argument of parentscheck lists exactly the events named by e.Parents(), in the same order (caller contract, enforced only by length)", "errors.New / fmt.Errorf return non-nil errors", "pos.Validators.Exists is a membership test of the current validator group", "helpers spliced into the view have no effect on the verdict other than through their result (they are read as pure)"},
		runC13)
}

// ---------------------------------------------------------------------------
// atoms and keys

// c13Atom is one atomic condition in canonical form: base, possibly negated.
type c13Atom struct {
	base string
	neg  bool
}

func (a c13Atom) String() string {
	if a.neg {
		return "!(" + a.base + ")"
	}
	return a.base
}

// c13LinAtom renders a normalised linear comparison; a != b is the negation of a == b.
func c13LinAtom(lc core.LinCmp) c13Atom {
	keys := make([]string, 0, len(lc.Form.Coef))
	for k := range lc.Form.Coef {
		keys = append(keys, k)
	}
	sort.Strings(keys)
	var sb strings.Builder
	for _, k := range keys {
		fmt.Fprintf(&sb, "%+d*%s ", lc.Form.Coef[k], k)
	}
	fmt.Fprintf(&sb, "%+d", lc.Form.C)
	if lc.Op == "!=" {
		return c13Atom{sb.String() + " == 0", true}
	}
	return c13Atom{sb.String() + " " + lc.Op + " 0", false}
}

// c13NegOf records the canonical negation of the table atoms that are inequalities: not (F <= 0) is
// -F + 1 <= 0 over the integers (other atoms are negated by c13Not).
var c13NegOf = map[string]string{}

// c13L turns a table entry over role names ("2 - seq <= 0") into its atom string.
func c13L(s string) string {
	lc := core.ParseLinCmp(s)
	a := c13LinAtom(lc).String()
	if lc.Op == "<=" {
		n := &core.Lin{Coef: map[string]*big.Int{}, Atom: map[string]ast.Expr{}, C: new(big.Int)}
		for k, cf := range lc.Form.Coef {
			n.Coef[k] = new(big.Int).Neg(cf)
		}
		n.C.Neg(lc.Form.C)
		n.C.Add(n.C, big.NewInt(1))
		c13NegOf[a] = c13LinAtom(core.LinCmp{Form: n, Op: "<="}).String()
	}
	return a
}

// c13Not negates an atom string.
func c13Not(a string) string {
	if strings.HasPrefix(a, "!(") && strings.HasSuffix(a, ")") {
		return a[2 : len(a)-1]
	}
	return "!(" + a + ")"
}

// c13NegAtom: the canonical atom that holds exactly when a does not.
func c13NegAtom(a string) string {
	if n, ok := c13NegOf[a]; ok {
		return n
	}
	return c13Not(a)
}

// c13Xor is the table form of "a xor b" over positive atoms.
func c13Xor(a, b string) string {
	if b < a {
		a, b = b, a
	}
	return "xor(" + a + ", " + b + ")"
}

// c13And is a conjunction of atoms (one alternative of a guard).
func c13And(atoms ...string) string {
	s := append([]string(nil), atoms...)
	sort.Strings(s)
	return strings.Join(s, " && ")
}

// c13Atoms splits a conjunction built by c13And.
func c13Atoms(alt string) []string { return strings.Split(alt, " && ") }

// c13Loop is an iteration over the parents, however it is written (core.IterationOf): a range over the
// list, or a counted loop `for i := 0; i < len(list); i++` whose elements are list[i].
type c13Loop struct {
	stmt     ast.Stmt
	body     *ast.BlockStmt
	kind     string // "events": iterates the parents argument; "ids": iterates e.Parents()
	key, val *types.Var
	partial  string  // non-empty: why the loop does not visit every element exactly once
	from     int     // first index visited: 0, or 1 for `for i := 1; i < len(list); i++` (element 0 is skipped)
	env      *c13Env // the frame the loop belongs to
}

// c13Iteration recognises loop as an iteration over a collection accepted by isColl (which returns the
// kind, "" = not that collection). Counted loops must start at 0, step by 1 up to len(collection), and
// must not assign their index in the body; otherwise the loop is returned with `partial` set.
func c13Iteration(f *core.FuncInfo, loop ast.Stmt, isColl func(ast.Expr) string) *c13Loop {
	if rs, ok := loop.(*ast.RangeStmt); ok && rs.Tok != token.DEFINE && (rs.Key != nil || rs.Value != nil) {
		return nil
	}
	it, ok := c13IterationOf(f, loop, func(e ast.Expr) ast.Expr { return resolveLocal(f, e) })
	if !ok || it.Coll == nil || it.Body == nil {
		return nil
	}
	kind := isColl(it.Coll)
	if kind == "" {
		return nil
	}
	l := &c13Loop{stmt: loop, body: it.Body, kind: kind, key: it.Index, val: it.Value}
	if it.Counted {
		if !it.FromZero {
			l.partial = "the counted loop does not start at index 0"
			if init := c13LoopInit(f, loop, it.Index); init != nil && core.IsConstInt(f.Info(), core.StripConv(f.Info(), init), 1) {
				l.partial, l.from = "", 1
			}
		}
		for _, a := range assignsToVar(f, it.Index) {
			if it.Body.Pos() <= a.Stmt.Pos() && a.Stmt.End() <= it.Body.End() {
				l.partial = "the loop index is modified inside the body"
			}
		}
	}
	return l
}

// c13Loops lists the iterations over accepted collections in f's own body.
func c13Loops(f *core.FuncInfo, isColl func(ast.Expr) string) []*c13Loop {
	var out []*c13Loop
	f.InspectOwn(func(n ast.Node) bool {
		switch n.(type) {
		case *ast.RangeStmt, *ast.ForStmt:
			if l := c13Iteration(f, n.(ast.Stmt), isColl); l != nil {
				out = append(out, l)
			}
		}
		return true
	})
	return out
}

func (l *c13Loop) contains(n ast.Node) bool {
	return l.body.Pos() <= n.Pos() && n.End() <= l.body.End()
}

// c13Env resolves expressions of one frame of a view to role names (through objects, never text).
type c13Env struct {
	f       *core.FuncInfo
	vw      *c13View
	fr      *c13Frame
	up      *c13Env    // the calling frame's environment (nil for the root)
	ev      *types.Var // the event under validation (parameter, or receiver for BaseEvent methods)
	parents *types.Var // the parents argument (parentscheck only)
	self    bool       // ev is a *BaseEvent receiver: fields and BaseEvent methods count
	vars    map[*types.Var]string
	loops   []*c13Loop
	alias   map[*types.Var]bool // single-assignment local copies of ev
	custom  core.AtomNamer      // additional role names (used by C31, which shares the table machinery)
	// cmp names an equality between non-integer values (base of the atom "l == r", "" = not nameable); the
	// operands are passed as written, in either order
	cmp func(env *c13Env, l, r ast.Expr) string
	// expand replaces atoms of a linear form that stand for a whole linear form (a stable local defined as
	// `len(xs) - 1`, named by `custom` with a placeholder) by that form; nil = forms are final
	expand func(*core.Lin) *core.Lin
}

// c13ExpandCmp applies the environment's expansion to a normalised comparison and restores the canonical
// sign of equalities (first sorted term positive), exactly as core.NormLinCmp leaves them.
func c13ExpandCmp(lc core.LinCmp, expand func(*core.Lin) *core.Lin) core.LinCmp {
	f := expand(lc.Form)
	if f == nil || f == lc.Form {
		return lc
	}
	if lc.Op == "==" || lc.Op == "!=" {
		keys := make([]string, 0, len(f.Coef))
		for k := range f.Coef {
			keys = append(keys, k)
		}
		sort.Strings(keys)
		if len(keys) > 0 && f.Coef[keys[0]].Sign() < 0 || len(keys) == 0 && f.C.Sign() < 0 {
			n := &core.Lin{Coef: map[string]*big.Int{}, Atom: map[string]ast.Expr{}, C: new(big.Int).Neg(f.C)}
			for k, cf := range f.Coef {
				n.Coef[k], n.Atom[k] = new(big.Int).Neg(cf), f.Atom[k]
			}
			f = n
		}
	}
	return core.LinCmp{Form: f, Op: lc.Op}
}

var c13Getters = map[string]string{"Seq": "seq", "Epoch": "epoch", "Frame": "frame", "Lamport": "lamport", "Creator": "creator"}

// c13BareEnv: an environment without event roles (C31 names its atoms through `custom`).
func c13BareEnv(vw *c13View, fr *c13Frame) *c13Env {
	env := &c13Env{f: fr.f, vw: vw, fr: fr, vars: map[*types.Var]string{}, alias: map[*types.Var]bool{}}
	if fr.parent != nil {
		env.up = fr.parent.env
	}
	return env
}

// c13MkEnv builds the environments of a view whose root validates ev (with the parents argument ps):
// in a spliced frame the roles belong to the parameters bound to expressions that carry them in the
// calling frame (closures see the captured variables themselves).
func c13MkEnv(ev, ps *types.Var, self bool) func(*c13View, *c13Frame) *c13Env {
	return func(vw *c13View, fr *c13Frame) *c13Env {
		if fr.parent == nil {
			return c13NewEnv(vw, fr, ev, ps, self)
		}
		up := fr.parent.env
		var cev, cps *types.Var
		for p, arg := range fr.bind {
			if up.isEv(arg) {
				cev = p
			}
			if up.isParentsArg(arg) {
				cps = p
			}
		}
		cself := false
		if fr.f.Lit != nil {
			if cev == nil {
				cev, cself = up.ev, up.self
			}
			if cps == nil {
				cps = up.parents
			}
		} else if up.self && cev != nil && cev == fr.f.Recv() {
			cself = true
		}
		return c13NewEnv(vw, fr, cev, cps, cself)
	}
}

func c13NewEnv(vw *c13View, fr *c13Frame, ev, parents *types.Var, self bool) *c13Env {
	f := fr.f
	env := c13BareEnv(vw, fr)
	env.ev, env.parents, env.self = ev, parents, self
	all := assignments(f)
	count := map[*types.Var]int{}
	for _, a := range all {
		if v := varOf(f, a.LHS); v != nil {
			count[v]++
		}
	}
	for _, a := range all {
		if v := varOf(f, a.LHS); v != nil && count[v] == 1 && a.RHS != nil && ev != nil && varOf(f, a.RHS) == ev {
			env.alias[v] = true
		}
	}
	// iterations over the parents argument or over e.Parents(), written as a range or as a counted loop
	// (the two lists have the same length behind the arity guard, so either bound visits every index)
	env.loops = c13Loops(f, func(coll ast.Expr) string {
		switch {
		case env.isParentsArg(coll):
			return "events"
		case env.isParentsCall(coll):
			return "ids"
		}
		return ""
	})
	for _, l := range env.loops {
		l.env = env
	}
	// single-assignment locals
	for _, a := range all {
		v := varOf(f, a.LHS)
		if v == nil || count[v] != 1 || a.RHS == nil {
			continue
		}
		rhs := ast.Unparen(a.RHS)
		if call, ok := rhs.(*ast.CallExpr); ok {
			if calleeName(f, call) == c13Reader {
				if as, ok := a.Stmt.(*ast.AssignStmt); ok && len(as.Lhs) == 2 && len(as.Rhs) == 1 {
					if as.Lhs[0] == a.LHS {
						env.vars[v] = "validators"
					} else {
						env.vars[v] = "cur"
					}
				}
			}
		}
		if ix, ok := rhs.(*ast.IndexExpr); ok && env.isParentsArg(ix.X) && core.IsConstInt(f.Info(), ix.Index, 0) {
			env.vars[v] = "p0"
		}
	}
	// the running maximum: an integer local declared outside, assigned inside, a loop over the parents
	nMax := 0
	for _, a := range all {
		v := varOf(f, a.LHS)
		if v == nil || env.vars[v] != "" || c13IsRange(a.Stmt) {
			continue
		}
		b, ok := v.Type().Underlying().(*types.Basic)
		if !ok || b.Info()&types.IsInteger == 0 {
			continue
		}
		for _, l := range env.loops {
			if l.contains(a.Stmt) && v.Pos() < l.stmt.Pos() && v != l.key && env.vars[v] == "" {
				nMax++
				if nMax == 1 {
					env.vars[v] = "max"
				} else {
					env.vars[v] = fmt.Sprintf("max#%d", nMax)
				}
			}
		}
	}
	return env
}

func c13IsRange(n ast.Node) bool { _, ok := n.(*ast.RangeStmt); return ok }

// outer: the expression denotes a value of the calling frame - a parameter bound to an argument
// expression, or (function literals) a captured variable of the enclosing function.
func (env *c13Env) outer(e ast.Expr) (*c13Env, ast.Expr) {
	// a field of a struct value that groups values of this or a calling frame (c13_proj.go)
	if pe, elt := env.proj(e); pe != nil {
		return pe, elt
	}
	if env.up == nil {
		return nil, nil
	}
	v := varOf(env.f, e)
	if v == nil {
		return nil, nil
	}
	if arg, ok := env.fr.bind[v]; ok {
		return env.up, arg
	}
	if lit := env.f.Lit; lit != nil && !(lit.Pos() <= v.Pos() && v.Pos() < lit.End()) && v.Pkg() != nil && v.Parent() != v.Pkg().Scope() && !v.IsField() {
		return env.up, e
	}
	return nil, nil
}

// used marks a loop whose variables the atom being named mentions.
func (env *c13Env) used(l *c13Loop) {
	if env.vw != nil {
		env.vw.used[l] = true
	}
}

// res looks through temporaries: an identifier that reads a local with exactly one plain definition
// (and no role of its own) stands for its defining expression, e.g. `sp := e.SelfParent(); if sp == nil`.
// Locals that snapshot a location written in the function are left alone (helpers: resolveLocal rules),
// and so are locals whose value the view's state knows.
func (env *c13Env) res(e ast.Expr) ast.Expr {
	f := env.f
	e = ast.Unparen(e)
	for depth := 0; depth < 5; depth++ {
		id, ok := e.(*ast.Ident)
		if !ok {
			return e
		}
		v, _ := f.Info().ObjectOf(id).(*types.Var)
		if v == nil || env.vars[v] != "" || v == env.ev || env.alias[v] || lhsIdents(f)[id] {
			return e
		}
		if env.vw != nil && env.vw.hasState(env.fr, id) {
			return e
		}
		d := singleDef(f, v)
		if d == nil || readsWrittenLocation(f, d) || !c13DefinedAtDecl(f, v, d) {
			return e
		}
		e = ast.Unparen(d)
	}
	return e
}

// c13DefinedAtDecl: the single definition d of v is its declaration (`v := d` / `var v = d`), so every
// use of v is dominated by it (a `var v T` followed by a conditional `v = d` is not looked through).
func c13DefinedAtDecl(f *core.FuncInfo, v *types.Var, d ast.Expr) bool {
	for g := f; g != nil; g = g.Parent {
		for _, a := range assignments(g) {
			if a.RHS != d {
				continue
			}
			if id, ok := ast.Unparen(a.LHS).(*ast.Ident); ok && g.Info().Defs[id] == types.Object(v) {
				return true
			}
		}
	}
	return false
}

// isEv: the expression is the event under validation.
func (env *c13Env) isEv(e ast.Expr) bool {
	v := varOf(env.f, e)
	if v != nil && env.ev != nil && (v == env.ev || env.alias[v]) {
		return true
	}
	if up, arg := env.outer(e); up != nil {
		return up.isEv(arg)
	}
	return false
}

// isParentsArg: the expression is the parents argument of the checker.
func (env *c13Env) isParentsArg(e ast.Expr) bool {
	e = env.res(e)
	v := varOf(env.f, e)
	if v != nil && env.parents != nil && v == env.parents {
		return true
	}
	if up, arg := env.outer(e); up != nil {
		return up.isParentsArg(arg)
	}
	return false
}

// roleOf: the role name of a variable expression (through bound parameters).
func (env *c13Env) roleOf(e ast.Expr) string {
	if v := varOf(env.f, e); v != nil {
		if r := env.vars[v]; r != "" {
			return r
		}
	}
	if up, arg := env.outer(e); up != nil {
		return up.roleOf(arg)
	}
	return ""
}

// evCall: e is a call of the named dag.Event method (or the BaseEvent method, for receivers) with no
// arguments; returns the receiver expression.
func (env *c13Env) evCall(e ast.Expr, method string) ast.Expr {
	call, ok := env.res(e).(*ast.CallExpr)
	if !ok || len(call.Args) != 0 {
		return nil
	}
	nm := calleeName(env.f, call)
	if nm != c13EventI+"."+method && !(env.self && nm == c13BaseT+"."+method) {
		return nil
	}
	sel, ok := ast.Unparen(call.Fun).(*ast.SelectorExpr)
	if !ok {
		return nil
	}
	return sel.X
}

// isParentsCall: e is ev.Parents() (or the receiver's parents field).
func (env *c13Env) isParentsCall(e ast.Expr) bool {
	if r := env.evCall(e, "Parents"); r != nil && env.isEv(r) {
		return true
	}
	if env.self {
		if sel, ok := env.res(e).(*ast.SelectorExpr); ok && fieldNameOf(env.f, sel) == c13BaseT+".parents" && env.isEv(sel.X) {
			return true
		}
	}
	if up, arg := env.outer(env.res(e)); up != nil {
		return up.isParentsCall(arg)
	}
	return false
}

// parentElem: role of an expression denoting a parent event: "p" (the current element of a range over
// all parents), "p0" (the first element of the parents argument).
func (env *c13Env) parentElem(e ast.Expr) string {
	f := env.f
	switch x := env.res(e).(type) {
	case *ast.Ident:
		v := varOf(f, x)
		if v == nil {
			return ""
		}
		if env.vars[v] == "p0" {
			return "p0"
		}
		for _, l := range env.loops {
			if l.kind == "events" && l.val == v {
				env.used(l)
				return "p"
			}
		}
		if up, arg := env.outer(x); up != nil {
			return up.parentElem(arg)
		}
	case *ast.SelectorExpr:
		if up, arg := env.proj(x); up != nil {
			return up.parentElem(arg)
		}
	case *ast.IndexExpr:
		if !env.isParentsArg(x.X) {
			return ""
		}
		if core.IsConstInt(f.Info(), x.Index, 0) {
			return "p0"
		}
		if l := env.loopOfKey(x.Index); l != nil {
			l.env.used(l)
			return "p"
		}
	}
	return ""
}

// loopOfKey: the loop (of this or a calling frame) whose index variable the expression is.
func (env *c13Env) loopOfKey(e ast.Expr) *c13Loop {
	if kv := varOf(env.f, env.res(e)); kv != nil {
		for _, l := range env.loops {
			if l.key == kv {
				return l
			}
		}
	}
	if up, arg := env.outer(env.res(e)); up != nil {
		return up.loopOfKey(arg)
	}
	return nil
}

// parentID: role of an expression denoting the hash of a parent: "pid" / "p0id".
func (env *c13Env) parentID(e ast.Expr) string {
	f := env.f
	if r := env.evCall(e, "ID"); r != nil {
		if role := env.parentElem(r); role != "" {
			return role + "id"
		}
		return ""
	}
	switch x := env.res(e).(type) {
	case *ast.IndexExpr:
		if !env.isParentsCall(x.X) {
			return ""
		}
		if core.IsConstInt(f.Info(), x.Index, 0) {
			return "p0id"
		}
		if l := env.loopOfKey(x.Index); l != nil {
			l.env.used(l)
			return "pid"
		}
	case *ast.Ident:
		v := varOf(f, x)
		for _, l := range env.loops {
			if l.kind == "ids" && v != nil && l.val == v {
				env.used(l)
				return "pid"
			}
		}
		if up, arg := env.outer(x); up != nil {
			return up.parentID(arg)
		}
	case *ast.SelectorExpr:
		if up, arg := env.proj(x); up != nil {
			return up.parentID(arg)
		}
	}
	return ""
}

// atom is the AtomNamer of the linear normaliser.
func (env *c13Env) atom(e ast.Expr) string {
	f := env.f
	if env.vw != nil {
		if s := env.vw.stateName(env.fr, e); s != "" {
			return s
		}
	}
	if env.custom != nil {
		if s := env.custom(e); s != "" {
			return s
		}
	}
	switch x := ast.Unparen(e).(type) {
	case *ast.CallExpr:
		nm := calleeName(f, x)
		if nm == "builtin.len" && len(x.Args) == 1 {
			arg := env.res(x.Args[0])
			switch {
			case env.isParentsArg(arg):
				return "nargs"
			case env.isParentsCall(arg):
				return "nparents"
			}
			if call, ok := arg.(*ast.CallExpr); ok && calleeName(f, call) == c13SetFn && len(call.Args) == 0 {
				if sel, ok := ast.Unparen(call.Fun).(*ast.SelectorExpr); ok && env.isParentsCall(sel.X) {
					return "nset"
				}
			}
			return ""
		}
		for meth, role := range c13Getters {
			if r := env.evCall(x, meth); r != nil {
				if env.isEv(r) {
					return role
				}
				if pr := env.parentElem(r); pr != "" {
					return pr + "." + role
				}
			}
		}
	case *ast.Ident:
		if v := varOf(f, x); v != nil {
			if env.vars[v] != "" {
				return env.vars[v]
			}
			// a temporary holding a nameable value (`seq := e.Seq()`, `first := parents[0]` ...)
			if r := env.res(x); r != ast.Expr(x) {
				return env.atom(r)
			}
			if up, arg := env.outer(x); up != nil {
				return up.atom(c13StripSameRepr(up.f.Info(), arg))
			}
		}
	case *ast.SelectorExpr:
		if env.self && env.isEv(x.X) {
			if fn := fieldNameOf(f, x); strings.HasPrefix(fn, c13BaseT+".") {
				return strings.TrimPrefix(fn, c13BaseT+".")
			}
		}
		if up, arg := env.proj(x); up != nil {
			return up.atom(c13StripSameRepr(up.f.Info(), arg))
		}
	}
	return ""
}

// c13StripSameRepr removes conversions that keep the representation (T(x) where T and the type of x have
// the same underlying basic kind, e.g. uint32(idx.Event)); conversions that may truncate or change
// signedness are kept, so the value is not taken for the original.
func c13StripSameRepr(info *types.Info, e ast.Expr) ast.Expr {
	for {
		e = ast.Unparen(e)
		call, ok := e.(*ast.CallExpr)
		if !ok || len(call.Args) != 1 {
			return e
		}
		tv, ok := info.Types[call.Fun]
		if !ok || !tv.IsType() {
			return e
		}
		to, ok1 := tv.Type.Underlying().(*types.Basic)
		at, ok := info.Types[call.Args[0]]
		if !ok || at.Type == nil {
			return e
		}
		from, ok2 := at.Type.Underlying().(*types.Basic)
		if !ok1 || !ok2 || to.Kind() != from.Kind() {
			return e
		}
		e = call.Args[0]
	}
}

func (env *c13Env) boolAtom(e ast.Expr) string {
	f := env.f
	if call, ok := env.res(e).(*ast.CallExpr); ok {
		nm := calleeName(f, call)
		sel, _ := ast.Unparen(call.Fun).(*ast.SelectorExpr)
		if nm == c13Exists && sel != nil && len(call.Args) == 1 {
			if env.roleOf(sel.X) == "validators" && env.atom(call.Args[0]) == "creator" {
				return "exists(creator)"
			}
		}
		if (nm == c13EventI+".IsSelfParent" || env.self && nm == c13BaseT+".IsSelfParent") && sel != nil && len(call.Args) == 1 && env.isEv(sel.X) {
			if r := env.parentID(call.Args[0]); r != "" {
				return "isSelfParent(" + r + ")"
			}
		}
	}
	if up, arg := env.outer(env.res(e)); up != nil {
		return up.boolAtom(arg)
	}
	return "?" + exprStr(e)
}

func (env *c13Env) ptrAtom(e ast.Expr) string {
	if r := env.evCall(e, "SelfParent"); r != nil && env.isEv(r) {
		return "selfParent"
	}
	if r := env.roleOf(env.res(e)); r != "" {
		return r
	}
	if up, arg := env.outer(env.res(e)); up != nil {
		return up.ptrAtom(arg)
	}
	return "?" + exprStr(e)
}

func c13IsBool(info *types.Info, e ast.Expr) bool {
	tv, ok := info.Types[e]
	if !ok || tv.Type == nil {
		return false
	}
	b, ok := tv.Type.Underlying().(*types.Basic)
	return ok && b.Info()&types.IsBoolean != 0
}

// atomOf canonicalises one fact.
func (env *c13Env) atomOf(ft core.Fact) c13Atom {
	info := env.f.Info()
	cm, ok := core.NormCmp(ft)
	if !ok {
		return c13Atom{base: "?" + exprStr(ft.Expr)}
	}
	if cm.R == nil {
		// a boolean whose value the view's state knows as a single condition (a local assigned a comparison,
		// the result of a spliced predicate) stands for that condition
		if env.vw != nil {
			if s, ok := env.vw.stateCond(env.fr, cm.L); ok {
				a := c13Atom{base: s}
				if strings.HasPrefix(s, "!(") && strings.HasSuffix(s, ")") {
					a = c13Atom{base: s[2 : len(s)-1], neg: true}
				}
				return c13Atom{a.base, a.neg != (cm.Op == token.NEQ)}
			}
		}
		// a boolean temporary stands for the comparison it was defined as
		if r := env.res(cm.L); r != ast.Unparen(cm.L) {
			if _, isCall := r.(*ast.CallExpr); !isCall {
				a := env.atomOf(core.Fact{Expr: r, Truth: true})
				return c13Atom{a.base, a.neg != (cm.Op == token.NEQ)}
			}
		}
		return c13Atom{env.boolAtom(cm.L), cm.Op == token.NEQ}
	}
	if cm.Op == token.EQL || cm.Op == token.NEQ {
		l, r := cm.L, cm.R
		if core.IsNil(info, l) {
			l, r = r, l
		}
		if core.IsNil(info, r) {
			return c13Atom{env.ptrAtom(l) + " == nil", cm.Op == token.NEQ}
		}
		if c13IsBool(info, cm.L) && c13IsBool(info, cm.R) {
			a := env.atomOf(core.Fact{Expr: cm.L, Truth: true})
			b := env.atomOf(core.Fact{Expr: cm.R, Truth: true})
			return c13Atom{c13Xor(a.base, b.base), (a.neg != b.neg) != (cm.Op == token.EQL)}
		}
		if env.cmp != nil {
			if s := env.cmp(env, cm.L, cm.R); s != "" {
				return c13Atom{s, cm.Op == token.NEQ}
			}
		}
	}
	if lc, ok := core.NormLinCmp(info, ft, env.atom); ok {
		if env.expand != nil {
			lc = c13ExpandCmp(lc, env.expand)
		}
		return c13LinAtom(lc)
	}
	return c13Atom{base: "?" + exprStr(ft.Expr)}
}

// ---------------------------------------------------------------------------
// outcomes

const (
	c13Accept = iota
	c13Reject
	c13Delegate
	c13Unknown
	c13Skip  // a result that is the subject of another table: owes nothing here
	c13Panic // the execution ends in a no-return call
)

var c13AssignedGlobals map[types.Object]bool

// c13NonNilErrVar: a package-level error variable initialised by errors.New / fmt.Errorf and never reassigned.
func c13NonNilErrVar(p *core.Prog, v *types.Var) bool {
	if v == nil || v.Pkg() == nil || v.Parent() != v.Pkg().Scope() {
		return false
	}
	pk := p.Pkg(core.RelPkg(v.Pkg().Path()))
	if pk == nil {
		return false
	}
	if c13AssignedGlobals == nil {
		c13AssignedGlobals = map[types.Object]bool{}
		for _, g := range p.Funcs() {
			for _, a := range assignments(g) {
				if o, ok := g.ObjOf(a.LHS).(*types.Var); ok && o.Pkg() != nil && o.Parent() == o.Pkg().Scope() {
					c13AssignedGlobals[o] = true
				}
			}
		}
	}
	if c13AssignedGlobals[v] {
		return false
	}
	for _, file := range pk.Syntax {
		for _, d := range file.Decls {
			gd, ok := d.(*ast.GenDecl)
			if !ok || gd.Tok != token.VAR {
				continue
			}
			for _, sp := range gd.Specs {
				vs := sp.(*ast.ValueSpec)
				for i, nm := range vs.Names {
					if pk.TypesInfo.Defs[nm] != types.Object(v) || i >= len(vs.Values) || len(vs.Values) != len(vs.Names) {
						continue
					}
					call, ok := ast.Unparen(vs.Values[i]).(*ast.CallExpr)
					if !ok {
						return false
					}
					obj, _ := p.ResolveCallee(pk.TypesInfo, call)
					n := p.ObjName(obj)
					return n == "errors.New" || n == "fmt.Errorf"
				}
			}
		}
	}
	return false
}

// c13ErrKind classifies the result of a checker from its value in the view: nil accepts, a non-nil
// error rejects, the untested error of another checker delegates the verdict to it.
func c13ErrKind(o *c13Outcome) (int, string) {
	switch {
	case o.panic:
		return c13Panic, ""
	case o.val.kind == c13VNil:
		return c13Accept, ""
	case o.val.kind == c13VNonNil:
		return c13Reject, ""
	case o.val.kind == c13VCall:
		return c13Delegate, o.val.origin
	}
	return c13Unknown, ""
}

// ---------------------------------------------------------------------------
// decision table

type c13Row struct {
	name    string
	alts    []string // accepted canonical forms of the rejected condition (each a conjunction built by c13And; every form is implied by the condition)
	breaks  string   // what is wrongly accepted when the row is missing
	unless  []string // atoms under which the row is not owed (escape edges)
	loop    bool     // owed for every parent: guard on every iteration of a complete loop over all parents
	fromOne bool     // loop rows: owed only for elements 1.. (a relation between neighbours), so a loop from index 1 suffices
	callee  string   // call rows: the checker whose error must be propagated
	how     string   // pass text override (tables whose "rejecting" results are not errors)
	roles   []string // call rows: what the arguments must be ("ev", "parents")
	tag     string
	quiet   bool // the row belongs to another clause: used to explain rejecting edges, not reported here
}

type c13Result struct {
	guards int
	byTag  map[string]int
	rowHit map[string][]*c13VEdge
}

type c13TableOpt struct {
	kindOf func(*c13Outcome) (int, string)
	retMsg string // what an unclassified result means for this table (default: the checkers' wording)
	extras bool   // report rejecting guards that are not rows of the table
}

func c13LoopBody(f *core.FuncInfo, loop ast.Stmt) *cfg.Block {
	for _, b := range f.CFG().Blocks {
		if b.Stmt == loop && (b.Kind == cfg.KindRangeBody || b.Kind == cfg.KindForBody) {
			return b
		}
	}
	return nil
}

// c13BlocksFrom: blocks reachable from `from` (inclusive) without taking an avoided edge or entering an avoided block.
func c13BlocksFrom(from *cfg.Block, avoidEdge func(*cfg.Block, int) bool, avoidBlock *cfg.Block) map[*cfg.Block]bool {
	seen := map[*cfg.Block]bool{}
	if from == avoidBlock {
		return seen
	}
	work := []*cfg.Block{from}
	seen[from] = true
	for len(work) > 0 {
		b := work[0]
		work = work[1:]
		for i, s := range b.Succs {
			if avoidEdge != nil && avoidEdge(b, i) {
				continue
			}
			if s == avoidBlock || seen[s] {
				continue
			}
			seen[s] = true
			work = append(work, s)
		}
	}
	return seen
}

func (env *c13Env) loopOfStmt(s ast.Stmt) *c13Loop {
	for _, l := range env.loops {
		if l.stmt == s {
			return l
		}
	}
	return nil
}

func c13HasLoop(ls []*c13Loop, l *c13Loop) bool {
	for _, m := range ls {
		if m == l {
			return true
		}
	}
	return false
}

// c13Table compares the inlined view of a function with the table.
func c13Table(c *core.Ctx, vw *c13View, rows []c13Row, opt c13TableOpt) *c13Result {
	f := vw.root.f
	who := short(f.Name)
	res := &c13Result{byTag: map[string]int{}, rowHit: map[string][]*c13VEdge{}}
	if vw.overflow {
		c.Undecided(who+"|inlined view", "T8 DecisionTable", f.Pos(), "the inlined view of the function exceeds the node budget: the table cannot be compared")
		return res
	}
	kindOf := opt.kindOf
	if kindOf == nil {
		kindOf = c13ErrKind
	}
	outs := vw.outcomes()
	kind := map[*c13Node]int{}
	callee := map[*c13Node]string{}
	unknown := false
	seenRet := map[*ast.ReturnStmt]bool{}
	for _, n := range outs {
		kind[n], callee[n] = kindOf(n.outcome)
		if kind[n] == c13Unknown {
			unknown = true
			if n.outcome.stmt != nil && !seenRet[n.outcome.stmt] {
				seenRet[n.outcome.stmt] = true
				msg := "is neither nil, a never-reassigned non-nil error object, an error established non-nil, nor a delegated checker call: accept/reject cannot be classified"
				if opt.retMsg != "" {
					msg = opt.retMsg
				}
				c.Undecided(who+"|return shape", "T8 DecisionTable", n.outcome.stmt.Pos(), "return of `"+n.outcome.what+"` "+msg)
			}
		}
	}
	// nodes from which a result other than a rejection is reachable
	open := map[*c13Node]bool{}
	var work []*c13Node
	for _, n := range outs {
		if kind[n] != c13Reject && kind[n] != c13Panic {
			open[n] = true
			work = append(work, n)
		}
	}
	for len(work) > 0 {
		n := work[0]
		work = work[1:]
		for _, e := range n.in {
			if !open[e.from] {
				open[e.from] = true
				work = append(work, e.from)
			}
		}
	}
	// rejecting edges: the alternatives of a decision after which only rejections remain
	type rejEdge struct {
		e   *c13VEdge
		ctx map[string]bool
		hit bool
	}
	var rej []*rejEdge
	for _, e := range vw.branchEdges() {
		if len(e.atoms) == 0 || open[e.to] || !open[e.from] {
			continue
		}
		re := &rejEdge{e: e, ctx: map[string]bool{}}
		for _, a := range vw.ctxAtoms(e) {
			re.ctx[a] = true
		}
		rej = append(rej, re)
	}
	entry := []*c13Node{vw.entry}
	for _, row := range rows {
		var hits []*c13VEdge
		for _, re := range rej {
			for _, alt := range row.alts {
				all := true
				for _, a := range c13Atoms(alt) {
					all = all && re.ctx[a]
				}
				if all {
					re.hit = true
					hits = append(hits, re.e)
					break
				}
			}
		}
		if row.quiet {
			continue
		}
		// call rows: arguments and directly returned verdicts
		delegated := false
		if row.callee != "" {
			for _, fr := range vw.frames {
				for _, cs := range fr.f.CallsTo(row.callee) {
					okArgs := len(cs.Call.Args) == len(row.roles)
					for i := 0; okArgs && i < len(row.roles); i++ {
						switch row.roles[i] {
						case "ev":
							okArgs = fr.env.isEv(cs.Call.Args[i])
						case "parents":
							okArgs = fr.env.isParentsArg(cs.Call.Args[i])
						}
					}
					c.Check(okArgs, who+"|"+row.name+" arguments", "provenance", cs.Pos(), "the checker is applied to this function's own event (and parents) argument", "the checker is applied to something other than the event (and parents) being validated: the verdict is about a different event")
				}
			}
			for _, n := range outs {
				if kind[n] == c13Delegate && callee[n] == row.callee {
					delegated = true
				}
			}
		}
		construct := who + "|" + row.name
		if len(hits) == 0 && !delegated {
			detail := "no guard of this function rejects this condition (no edge carrying it leads only to rejecting exits): " + row.breaks
			if unknown {
				c.Undecided(construct, "T8 DecisionTable", f.Pos(), detail)
			} else {
				c.Fail(construct, "T8 DecisionTable", f.Pos(), detail)
			}
			continue
		}
		// the results that owe the row: everything but rejections, and the verdict of the row's own checker
		owes := func(n *c13Node) bool {
			if n.outcome == nil {
				return false
			}
			switch kind[n] {
			case c13Reject, c13Panic, c13Skip:
				return false
			case c13Delegate:
				return !(row.callee != "" && callee[n] == row.callee)
			}
			return true
		}
		// edges that imply the negated condition (or a condition under which the row is not owed)
		negs := map[string]bool{}
		for _, alt := range row.alts {
			for _, a := range c13Atoms(alt) {
				negs[c13NegAtom(a)] = true
			}
		}
		for _, u := range row.unless {
			negs[u] = true
		}
		pos := f.Pos()
		if len(hits) > 0 {
			pos = hits[0].cond.Pos()
		}
		failure := ""
		if row.loop {
			for _, e := range hits {
				failure = c13LoopRow(vw, row, e, negs, owes)
				if failure == "" {
					break
				}
			}
		} else {
			guard := func(e *c13VEdge) bool { return e.kind == c13EdgeBranch && e.hasAny(negs) }
			if n, path := vw.search(entry, guard, nil, owes); n != nil {
				failure = "the accepting `return " + n.outcome.what + "` is reachable without the guard having passed, path " + vw.describe(path, n)
			}
		}
		if failure != "" {
			c.Fail(construct, "T8 DecisionTable", pos, failure+": "+row.breaks)
			continue
		}
		how := "an edge on which it holds reaches only non-nil error results, and every accepting result lies behind an edge implying the opposite"
		if row.loop {
			how = "evaluated on every iteration of a complete loop over all parents whose exit every accepting path passes; the bad edge reaches only non-nil error results"
		}
		if len(hits) == 0 && delegated {
			how = "the checker's verdict is returned directly and no other accepting result bypasses it"
		}
		if row.how != "" {
			c.Pass(construct, "T8 DecisionTable", row.how)
		} else {
			c.Pass(construct, "T8 DecisionTable", "rejected: "+how)
		}
		res.guards++
		res.byTag[row.tag]++
		res.rowHit[row.name] = hits
	}
	// rejecting alternatives outside the table narrow acceptance (or are in a form the rule cannot read)
	if opt.extras {
		seen := map[string]bool{}
		for _, re := range rej {
			if re.hit {
				continue
			}
			k := fmt.Sprintf("%d/%d/%s", re.e.cond.Pos(), re.e.succ, strings.Join(re.e.atoms, " && "))
			if seen[k] {
				continue
			}
			seen[k] = true
			c.Undecided(who+"|extra rejecting guard", "T8 DecisionTable", re.e.cond.Pos(), "an edge that only rejects carries the condition `"+strings.Join(re.e.atoms, " && ")+"`, which is not a row of the property's table (or is written in a form the rule cannot normalise): well-formed inputs may be rejected, or a required row is written differently")
		}
	}
	return res
}

// c13LoopRow decides a per-element row for one rejecting edge: the edge tests the element of exactly one
// iteration over the whole collection, every iteration passes an edge implying the negated condition
// before it reaches the next element, and no accepting result is reachable without passing the loop's exit.
func c13LoopRow(vw *c13View, row c13Row, e *c13VEdge, negs map[string]bool, owes func(*c13Node) bool) string {
	if len(e.loops) != 1 {
		return "the guard does not test the element of one iteration over the whole list, so it is not evaluated once per element"
	}
	l := e.loops[0]
	if l.partial != "" {
		return "the loop around the guard does not visit every element (" + l.partial + ")"
	}
	if l.from > 0 && !row.fromOne {
		return "the loop around the guard starts at index 1: the first element is never tested"
	}
	lf, g := l.env.fr, l.env.f
	head, done, body := c13LoopBlocks(g, l.stmt)
	_, complete := loopDone(g, l.stmt)
	if head == nil || done == nil || body == nil {
		return "loop structure not recognised"
	}
	if !complete {
		return "the loop around the guard can be left early (break), later elements are not checked"
	}
	guard := func(x *c13VEdge) bool { return x.kind == c13EdgeBranch && x.hasAny(negs) && c13HasLoop(x.loops, l) }
	next := func(n *c13Node) bool { return n.fr == lf && n.i == 0 && (n.b == head || n.b == done) }
	if n, _ := vw.search(vw.nodesAt(lf, body), guard, nil, next); n != nil {
		return "an iteration can reach the next element without evaluating the guard (some elements are skipped)"
	}
	if n, path := vw.search([]*c13Node{vw.entry}, nil, vw.atBlock(lf, done), owes); n != nil {
		return "the accepting return is reachable before the loop around the guard has finished: " + vw.describe(path, n)
	}
	return ""
}

// ---------------------------------------------------------------------------

// c13SamePkg: splice the helpers of the root's own package.
func c13SamePkg(root *core.FuncInfo) func(*core.FuncInfo) bool {
	return func(g *core.FuncInfo) bool { return g.Pkg == root.Pkg }
}

func runC13(c *core.Ctx) {
	guards := 0
	fieldsUpper, fieldsZero := 0, 0
	fields := []string{"seq", "epoch", "frame", "lamport"}

	// the tables of basiccheck are decided on one inlined view of its entry point, whatever helpers
	// (checkLimits, checkInited, predicates) the tests are distributed over
	var limitRows, initedRows []c13Row
	for _, fld := range fields {
		limitRows = append(limitRows, c13Row{name: fld + " >= 2^31-2", tag: "upper", alts: []string{c13L(c13Bound + " - " + fld + " <= 0")},
			breaks: "an event whose " + fld + " is 2^31-2 or larger (or, with a shifted bound, a different range than the property's) is accepted/rejected wrongly"})
	}
	for _, fld := range fields {
		initedRows = append(initedRows, c13Row{name: fld + " == 0", tag: "zero", alts: []string{c13L(fld + " <= 0"), c13L(fld + " == 0")},
			breaks: "an event with " + fld + " = 0 is accepted"})
	}
	initedRows = append(initedRows, c13Row{name: "seq > 1 without parents", tag: "guard",
		alts:   []string{c13And(c13L("2 - seq <= 0"), c13L("nparents == 0")), c13And(c13L("2 - seq <= 0"), c13L("nparents <= 0"))},
		breaks: "a non-first event without parents is accepted (or first events without parents are rejected)"})
	dupRow := c13Row{name: "duplicate parents", tag: "guard", alts: []string{c13L("nparents - nset != 0"), c13L("nset - nparents + 1 <= 0")}, breaks: "an event naming the same parent twice is accepted"}
	var basicVw *c13View
	basicView := func() *c13View {
		if basicVw == nil {
			f := c.Fn(c13BasicT + ".Validate")
			ev := f.Param(0)
			c.Need(ev != nil, "basiccheck.Validate has a named event parameter")
			basicVw = c13NewView(f, c13SamePkg(f), c13MkEnv(ev, nil, false))
			basicVw.build()
		}
		return basicVw
	}
	quiet := func(rows []c13Row) []c13Row {
		out := append([]c13Row(nil), rows...)
		for i := range out {
			out[i].quiet = true
		}
		return out
	}

	c.Clause("C13.limits", func() {
		r := c13Table(c, basicView(), limitRows, c13TableOpt{})
		guards += r.guards
		fieldsUpper = r.byTag["upper"]
	})

	c.Clause("C13.inited", func() {
		r := c13Table(c, basicView(), initedRows, c13TableOpt{})
		guards += r.guards
		fieldsZero = r.byTag["zero"]
	})

	c.Clause("C13.basic", func() {
		rows := append(append(quiet(limitRows), quiet(initedRows)...), dupRow)
		r := c13Table(c, basicView(), rows, c13TableOpt{extras: true})
		guards += r.guards
		// the set really holds every parent: Events.Set ranges over the whole receiver and inserts each element
		sf := c.Fn(c13SetFn)
		recv := sf.Recv()
		c.Need(recv != nil, "Events.Set has a named receiver")
		okSet := false
		var where token.Pos = sf.Pos()
		sf.InspectOwn(func(n ast.Node) bool {
			rs, ok := n.(*ast.RangeStmt)
			if !ok || varOf(sf, rs.X) != recv || rs.Value == nil {
				return true
			}
			val := varOf(sf, rs.Value)
			for _, a := range assignments(sf) {
				ix, ok := ast.Unparen(a.LHS).(*ast.IndexExpr)
				if !ok || varOf(sf, ix.Index) != val || val == nil {
					continue
				}
				m := varOf(sf, ix.X)
				if m == nil {
					continue
				}
				if _, isMap := m.Type().Underlying().(*types.Map); !isMap {
					continue
				}
				_, complete := loopDone(sf, rs)
				head, _ := sf.LoopOf(rs)
				body := c13LoopBody(sf, rs)
				if !complete || head == nil || body == nil {
					continue
				}
				if reach := c13BlocksFrom(body, nil, a.Pt.B); reach[head] {
					continue
				}
				returned := len(sf.ReturnPoints()) > 0
				for _, rp := range sf.ReturnPoints() {
					rr := rp.Node().(*ast.ReturnStmt)
					if len(rr.Results) != 1 || varOf(sf, rr.Results[0]) != m {
						returned = false
					}
				}
				if returned {
					okSet, where = true, rs.Pos()
				}
			}
			return true
		})
		c.Check(okSet, "Events.Set holds every element", "T7 Pairing (loop)", where, "Set ranges over the whole slice without break, inserts the element into the returned map on every iteration: len(Set()) is the number of distinct parents", "Events.Set does not insert every element of the slice into the map it returns: the duplicate test compares with a wrong count")
	})

	c.Clause("C13.epoch", func() {
		f := c.Fn(c13EpochT + ".Validate")
		ev := f.Param(0)
		c.Need(ev != nil, "epochcheck.Validate has a named event parameter")
		vw := c13NewView(f, c13SamePkg(f), c13MkEnv(ev, nil, false))
		vw.build()
		rows := []c13Row{
			{name: "epoch != current epoch", tag: "guard", alts: []string{c13L("epoch - cur != 0")}, breaks: "an event of another epoch is accepted (or the comparison is not with the reader's current epoch)"},
			{name: "creator not a current validator", tag: "guard", alts: []string{c13Not("exists(creator)")}, breaks: "an event whose creator is not in the current validator group is accepted"},
		}
		r := c13Table(c, vw, rows, c13TableOpt{extras: true})
		guards += r.guards
		// order: the membership test is meaningful only for the current epoch's group
		sameEpoch := c13L("epoch - cur == 0")
		nEx, nRd := 0, 0
		for _, fr := range vw.frames {
			nEx += len(fr.f.CallsTo(c13Exists))
			nRd += len(fr.f.CallsTo(c13Reader))
		}
		checked := map[*c13Node]bool{}
		for _, e := range vw.branchEdges() {
			if !(e.has("exists(creator)") || e.has(c13Not("exists(creator)"))) || checked[e.from] {
				continue
			}
			checked[e.from] = true
			n, path := vw.search([]*c13Node{vw.entry}, func(x *c13VEdge) bool { return x.kind == c13EdgeBranch && x.has(sameEpoch) }, nil, func(n *c13Node) bool { return n == e.from })
			c.Check(n == nil, "Validate|epoch test before membership test", "T4 GuardedBy", e.cond.Pos(), "validators.Exists is consulted only on the edge where the event's epoch is the current one", "the validator group of the current epoch is consulted for an event of another epoch: such an event is reported as unauthorised (ErrAuth) instead of not relevant, path "+vw.describe(path, n))
		}
		c.ExpectAtLeast("validators.Exists call in epochcheck", nEx, 1)
		c.ExpectAtLeast("GetEpochValidators call in epochcheck", nRd, 1)
	})

	c.Clause("C13.parents", func() {
		f := c.Fn(c13ParentsT + ".Validate")
		ev, ps := f.Param(0), f.Param(1)
		c.Need(ev != nil && ps != nil, "parentscheck.Validate has named event and parents parameters")
		vw := c13NewView(f, c13SamePkg(f), c13MkEnv(ev, ps, false))
		// the value of a helper that returns the folded maximum (or another nameable quantity)
		vw.valuer = func(fr *c13Frame, e ast.Expr) string { return fr.env.atom(core.StripConv(fr.f.Info(), e)) }
		vw.build()
		seq1, spNil := c13L("seq - 1 == 0"), "selfParent == nil"
		noSelf := []string{spNil, seq1}
		lamportRow := "lamport != max(parent lamports)+1"
		rows := []c13Row{
			{name: "parents argument length", tag: "arity", alts: []string{c13L("nargs - nparents != 0")}, breaks: "the per-index pairing of e.Parents()[i] with parents[i] (and parents[0]) is applied to lists of different length"},
			{name: lamportRow, tag: "guard", alts: []string{c13L("lamport - max - 1 != 0")}, breaks: "an event whose Lamport time is not one more than the largest parent Lamport time is accepted"},
			{name: "same creator xor self-parent, every parent", tag: "guard", loop: true,
				alts:   []string{c13Xor(c13L("creator - p.creator == 0"), "isSelfParent(pid)")},
				breaks: "an event with a second parent by its own creator, or whose self-parent is by another creator, is accepted"},
			{name: "seq == 1 with a self-parent", tag: "guard", alts: []string{c13Xor(seq1, spNil), c13And(seq1, c13Not(spNil))}, breaks: "a first event that names a self-parent is accepted"},
			{name: "seq != 1 without a self-parent", tag: "guard", alts: []string{c13Xor(seq1, spNil), c13And(c13Not(seq1), spNil)}, breaks: "a non-first event without self-parent is accepted"},
			{name: "self-parent is not parents[0]", tag: "guard", unless: noSelf, alts: []string{c13Not("isSelfParent(p0id)")}, breaks: "an event whose self-parent is not its first parent is accepted (the sequence test is then applied to the wrong parent)"},
			{name: "seq != self-parent seq + 1", tag: "guard", unless: noSelf, alts: []string{c13L("seq - p0.seq - 1 != 0")}, breaks: "an event whose sequence is not one more than its self-parent's is accepted"},
		}
		r := c13Table(c, vw, rows, c13TableOpt{extras: true})
		guards += r.guards - r.byTag["arity"]

		// the maximum is folded from 0 over every parent before the Lamport guard (in whichever frame of
		// the view the fold lives)
		var maxV *types.Var
		var env *c13Env
		maxVars := map[*types.Var]bool{}
		for _, fr := range vw.frames {
			for v, role := range fr.env.vars {
				if strings.HasPrefix(role, "max") && !maxVars[v] {
					maxVars[v] = true
					if role == "max" {
						maxV, env = v, fr.env
					}
				}
			}
		}
		c.Need(len(maxVars) == 1 && maxV != nil, "exactly one running-maximum variable assigned inside a loop over the parents")
		f = env.f
		var init, fold *assignment
		as := assignsToVar(f, maxV)
		for i := range as {
			a := &as[i]
			if l := env.loopOfStmt(enclosingLoop(f, a.Stmt.Pos())); l != nil && l.contains(a.Stmt) {
				fold = a
			} else {
				init = a
			}
		}
		c.Need(len(as) == 2 && init != nil && fold != nil, "the running maximum has one initialisation and one update inside the loop")
		zero := init.RHS == nil && c13IsValueSpec(init.Stmt) || init.RHS != nil && core.IsConstInt(f.Info(), init.RHS, 0)
		okInit, _ := f.MustPassBefore([]core.Point{init.Pt}, fold.Pt)
		c.Check(zero && okInit && enclosingLoop(f, init.Stmt.Pos()) == nil, "Validate|maximum starts at 0", "T8 (fold)", init.Stmt.Pos(), "the running maximum is initialised to 0 once, before the loop", "the running maximum does not start at 0 before the loop: the Lamport guard then compares with a value that is not the largest parent time (an event without parents must carry Lamport time 1)")
		l := env.loopOfStmt(enclosingLoop(f, fold.Stmt.Pos()))
		done, complete := loopDone(f, l.stmt)
		head, _ := f.LoopOf(l.stmt)
		body := c13LoopBody(f, l.stmt)
		c.Need(done != nil && head != nil && body != nil, "loop structure of the Lamport fold")
		// form of the update
		formOK, everyIter := false, false
		vw.cur = nil
		if call := isCallTo(f, fold.RHS, c13MaxFn); call != nil && len(call.Args) == 2 && fold.Tok == token.ASSIGN {
			a0, a1 := env.atom(core.StripConv(f.Info(), call.Args[0])), env.atom(core.StripConv(f.Info(), call.Args[1]))
			formOK = a0 == "max" && a1 == "p.lamport" || a0 == "p.lamport" && a1 == "max"
			everyIter = !c13BlocksFrom(body, nil, fold.Pt.B)[head]
		} else if fold.RHS != nil && fold.Tok == token.ASSIGN && env.atom(core.StripConv(f.Info(), fold.RHS)) == "p.lamport" {
			// if p.Lamport() > max { max = p.Lamport() }
			want := map[string]bool{c13L("max - p.lamport + 1 <= 0"): true, c13L("max - p.lamport <= 0"): true}
			es := edgesWithFact(f, func(ft core.Fact) bool { return want[env.atomOf(ft).String()] })
			if len(es) == 1 && es[0].B.Succs[es[0].Succ] == fold.Pt.B {
				formOK = true
				everyIter = !c13BlocksFrom(body, nil, es[0].B)[head]
			}
		}
		c.Check(formOK, "Validate|maximum update", "T8 (fold)", fold.Stmt.Pos(), "the update is max = MaxLamport(max, p.Lamport()) (or the equivalent guarded assignment) for the current parent p", "the loop does not fold the maximum of the running value and the current parent's Lamport time: the Lamport guard compares with something other than the largest parent time")
		if l.from > 0 {
			l.partial = "the loop starts at index 1"
		}
		c.Check(everyIter && complete && l.partial == "", "Validate|maximum over every parent", "T7 Pairing (loop)", l.stmt.Pos(), "the update runs on every iteration of a loop over the whole parents list (from the first to the last element), which has no early exit", "some parent can be skipped by the maximum (continue/break, or a partial iteration"+c13Why(l.partial)+"): an event with Lamport time not above that parent's is accepted")
		for _, e := range r.rowHit[lamportRow] {
			n, path := vw.search([]*c13Node{vw.entry}, nil, vw.atBlock(env.fr, done), func(n *c13Node) bool { return n == e.from })
			c.Check(n == nil, "Validate|Lamport guard after the fold", "T2 Dominates (loop)", e.cond.Pos(), "the Lamport guard is evaluated only after the loop over all parents has finished", "the Lamport guard can be evaluated before all parents are folded: "+vw.describe(path, n))
		}
		// idx.MaxLamport returns the larger argument
		mf := c.Fn(c13MaxFn)
		x, y := mf.Param(0), mf.Param(1)
		c.Need(x != nil && y != nil, "MaxLamport has two named parameters")
		namer := func(e ast.Expr) string {
			switch varOf(mf, e) {
			case x:
				return "x"
			case y:
				return "y"
			}
			return ""
		}
		seen := map[*types.Var]bool{}
		okMax := len(mf.ReturnPoints()) >= 2
		for _, rp := range mf.ReturnPoints() {
			rr := rp.Node().(*ast.ReturnStmt)
			if len(rr.Results) != 1 {
				okMax = false
				continue
			}
			v := varOf(mf, rr.Results[0])
			var want []core.LinCmp
			switch v {
			case x:
				want = []core.LinCmp{core.ParseLinCmp("y - x + 1 <= 0"), core.ParseLinCmp("y - x <= 0")}
			case y:
				want = []core.LinCmp{core.ParseLinCmp("x - y + 1 <= 0"), core.ParseLinCmp("x - y <= 0")}
			default:
				okMax = false
				continue
			}
			seen[v] = true
			g, _ := mf.GuardedBy(rp, func(ft core.Fact) bool {
				lc, ok := core.NormLinCmp(mf.Info(), ft, namer)
				return ok && (lc.Equal(want[0]) || lc.Equal(want[1]))
			})
			okMax = okMax && g
		}
		c.Check(okMax && seen[x] && seen[y], "MaxLamport|returns the larger argument", "T4 GuardedBy", mf.Pos(), "each argument is returned only on the edge where it is not smaller than the other", "idx.MaxLamport is not recognisably the maximum of its arguments: the fold does not compute the largest parent Lamport time")
	})

	c.Clause("C13.all", func() {
		f := c.Fn(c13AllT + ".Validate")
		ev, ps := f.Param(0), f.Param(1)
		c.Need(ev != nil && ps != nil, "Checkers.Validate has named event and parents parameters")
		names := []string{c13BasicT + ".Validate", c13EpochT + ".Validate", c13ParentsT + ".Validate"}
		vw := c13NewView(f, c13SamePkg(f), c13MkEnv(ev, ps, false))
		vw.build()
		var rows []c13Row
		for i, n := range names {
			roles := []string{"ev"}
			if i == 2 {
				roles = append(roles, "parents")
			}
			what := []string{"basic (limits, zero fields, duplicate parents)", "epoch and creator", "Lamport, self-parent and sequence"}[i]
			rows = append(rows, c13Row{name: []string{"basiccheck", "epochcheck", "parentscheck"}[i] + " error propagated", tag: "call", callee: n, roles: roles, alts: []string{c13Not("err:" + n + " == nil")},
				breaks: "events failing the " + what + " checks are accepted by the combined Validate"})
			nCalls := 0
			for _, fr := range vw.frames {
				nCalls += len(fr.f.CallsTo(n))
			}
			c.ExpectAtLeast("calls of "+[]string{"basiccheck", "epochcheck", "parentscheck"}[i]+".Validate in Checkers.Validate", nCalls, 1)
		}
		r := c13Table(c, vw, rows, c13TableOpt{extras: true})
		guards += r.guards
	})

	c.Clause("C13.event", func() {
		// SelfParent: nil on seq <= 1 or no parents, otherwise &parents[0]
		f := c.Fn(c13BaseT + ".SelfParent")
		recv := f.Recv()
		c.Need(recv != nil, "BaseEvent.SelfParent has a named receiver")
		vw := c13NewView(f, nil, c13MkEnv(recv, nil, true))
		vw.build()
		env := vw.root.env
		nFirst := 0
		firstSeen := map[*ast.ReturnStmt]bool{}
		kindSP := func(o *c13Outcome) (int, string) {
			if o.panic {
				return c13Panic, ""
			}
			if o.stmt == nil || len(o.stmt.Results) != 1 {
				return c13Unknown, ""
			}
			e := env.res(o.stmt.Results[0])
			if core.IsNil(f.Info(), e) {
				return c13Reject, "" // "no self-parent"
			}
			if u, ok := e.(*ast.UnaryExpr); ok && u.Op == token.AND {
				if ix, ok := ast.Unparen(u.X).(*ast.IndexExpr); ok && env.isParentsCall(ix.X) && core.IsConstInt(f.Info(), ix.Index, 0) {
					if !firstSeen[o.stmt] {
						firstSeen[o.stmt] = true
						nFirst++
					}
					return c13Accept, ""
				}
			}
			return c13Unknown, ""
		}
		rows := []c13Row{
			{name: "no self-parent when seq <= 1", tag: "event", how: "the edge seq <= 1 reaches only `return nil`, and &parents[0] is returned only behind the complementary edge", alts: []string{c13L("seq - 1 <= 0")}, breaks: "SelfParent() is nil for the wrong sequence numbers, so parentscheck's (Seq == 1) <=> (SelfParent == nil) test rejects well-formed events or accepts first events with a self-parent"},
			{name: "no self-parent without parents", tag: "event", how: "the edge len(parents) == 0 reaches only `return nil`, and &parents[0] is returned only behind the complementary edge", alts: []string{c13L("nparents == 0"), c13L("nparents <= 0")}, breaks: "SelfParent() indexes an empty parents list"},
		}
		c13Table(c, vw, rows, c13TableOpt{kindOf: kindSP, extras: true})
		c.ExpectAtLeast("returns of &parents[0] in BaseEvent.SelfParent", nFirst, 1)

		// IsSelfParent: false without self-parent, otherwise equality with *SelfParent()
		g := c.Fn(c13BaseT + ".IsSelfParent")
		grecv, hp := g.Recv(), g.Param(0)
		c.Need(grecv != nil && hp != nil, "BaseEvent.IsSelfParent has named receiver and parameter")
		// The boolean result is read as a decision: `return C` ends in the outcomes of
		// `if C { return true }; return false`, one per short-circuit alternative of C (splitBool), so it does
		// not matter whether the nil test is an if with its own `return false` or a conjunct of the result.
		const cmpA, nonNil = "*selfParent == hash", "!(selfParent == nil)"
		baseEnv := c13MkEnv(grecv, nil, true)
		gvw := c13NewView(g, nil, func(vw *c13View, fr *c13Frame) *c13Env {
			env := baseEnv(vw, fr)
			// the comparison of the dereferenced self-parent with the argument: either operand order, the
			// pointer possibly held in a temporary
			env.cmp = func(env *c13Env, l, r ast.Expr) string {
				l, r = env.res(l), env.res(r)
				if fr.isRoot() && varOf(g, l) == hp {
					l, r = r, l
				}
				if st, ok := l.(*ast.StarExpr); ok && fr.isRoot() && varOf(g, r) == hp && env.ptrAtom(st.X) == "selfParent" {
					return cmpA
				}
				return ""
			}
			return env
		})
		gvw.splitBool = true
		gvw.build()
		nCmp := 0
		cmpSeen := map[*ast.ReturnStmt]bool{}
		kindISP := func(o *c13Outcome) (int, string) {
			if o.panic {
				return c13Panic, ""
			}
			if o.stmt == nil || len(o.stmt.Results) != 1 {
				return c13Unknown, ""
			}
			if !o.split {
				if o.val.kind == c13VFalse {
					return c13Reject, "" // "not the self-parent", whatever the argument
				}
				return c13Unknown, ""
			}
			idx := func(atom string) int {
				for i, a := range o.atoms {
					if a == atom {
						return i
					}
				}
				return -1
			}
			// the result has the value of the comparison: true behind *SelfParent() == hash, false behind its
			// negation; the pointer must not be dereferenced before a nil test of the same condition
			want := cmpA
			if !o.truth {
				want = c13Not(cmpA)
			}
			if i := idx(want); i >= 0 {
				if j := idx(nonNil); j > i {
					return c13Unknown, ""
				}
				if o.truth && !cmpSeen[o.stmt] {
					cmpSeen[o.stmt] = true
					nCmp++
				}
				return c13Accept, ""
			}
			if !o.truth {
				return c13Reject, "" // false for another reason: owed a row of the table (else an extra rejecting guard)
			}
			return c13Unknown, "" // true without the comparison having held
		}
		c13Table(c, gvw, []c13Row{{name: "false without a self-parent", tag: "event", how: "the edge SelfParent() == nil reaches only `return false`, and the comparison with *SelfParent() lies behind the complementary edge", alts: []string{"selfParent == nil"}, breaks: "IsSelfParent dereferences a nil self-parent or claims a self-parent for an event that has none"}}, c13TableOpt{kindOf: kindISP, extras: true,
			retMsg: "is neither false nor the value of the comparison *SelfParent() == hash evaluated behind the nil test: IsSelfParent may claim a self-parent that the event does not have"})
		c.ExpectAtLeast("returns of *SelfParent() == hash in BaseEvent.IsSelfParent", nCmp, 1)

		// getters return their own field
		nGet := 0
		for meth, fld := range map[string]string{"Seq": "seq", "Epoch": "epoch", "Frame": "frame", "Lamport": "lamport", "Creator": "creator", "Parents": "parents"} {
			gf := c.Fn(c13BaseT + "." + meth)
			want := c.Fld(c13BaseT + "." + fld)
			ok := len(gf.ReturnPoints()) == 1
			for _, rp := range gf.ReturnPoints() {
				rr := rp.Node().(*ast.ReturnStmt)
				ok = ok && len(rr.Results) == 1 && fieldNameOf(gf, rr.Results[0]) == want
			}
			if ok {
				nGet++
			}
			c.Check(ok, "BaseEvent."+meth+" returns "+fld, "provenance", gf.Pos(), "the getter returns its own field", "the getter does not return the field of the same name: the checkers test a different value than the one the event carries")
		}
		c.ExpectAtLeast("BaseEvent getters", nGet, 6)
	})

	c.Clause("C13.coverage", func() {
		c.ExpectAtLeast("fields with an upper-bound guard", fieldsUpper, 4)
		c.ExpectAtLeast("fields with a zero guard", fieldsZero, 4)
		c.ExpectAtLeast("discharged table rows (guards and propagated checker errors)", guards, 14)
	})
}

func c13IsValueSpec(n ast.Node) bool { _, ok := n.(*ast.ValueSpec); return ok }

func c13Why(s string) string {
	if s == "" {
		return ""
	}
	return ": " + s
}
