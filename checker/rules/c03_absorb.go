package rules

import (
	"go/ast"
	"go/token"
	"go/types"

	"golang.org/x/tools/go/cfg"

	"lachk/core"
)

const (
	c03VecGet = "vecfc.HighestBeforeSeq.Get"
	c03VecSet = "vecfc.HighestBeforeSeq.Set"
	c03VecSFD = "vecfc.HighestBeforeSeq.SetForkDetected"
)

// c03Vectors reads vector-clock expressions of one anchor method (CollectFrom, GatherFrom) whose
// receiver is `self`. Every question is asked in a view (c01Effect with Caller = the anchor): the direct
// view (G = the anchor) or a helper view (G = a module function the anchor calls at At), in which the
// helper's receiver and parameters stand for the anchor's expressions at the call. So the per-entry
// logic may live in the anchor's loop body or in a helper that is handed the index and/or the entries.
type c03Vectors struct {
	p    *core.Prog
	self *types.Var
}

func (x c03Vectors) isMarker(f *core.FuncInfo, e ast.Expr) bool {
	v, ok := f.ObjOf(resolveLocal(f, e)).(*types.Var)
	return ok && x.p.ObjName(v) == "vecfc.forkDetectedSeq"
}

// entryCall: e denotes (a local holding) vec.Get(i) in f; returns the call.
func (x c03Vectors) entryCall(f *core.FuncInfo, e ast.Expr) *ast.CallExpr {
	r := resolveLocal(f, e)
	if call, ok := r.(*ast.CallExpr); ok && calleeName(f, call) == c03VecGet {
		return call
	}
	// a local that is modified field-wise after it was read (mySeq.Seq = …) is still that entry
	if v := varOf(f, r); v != nil {
		var found *ast.CallExpr
		n := 0
		for _, a := range assignsToVar(f, v) {
			n++
			if call, ok := ast.Unparen(a.RHS).(*ast.CallExpr); ok && a.RHS != nil && calleeName(f, call) == c03VecGet {
				found = call
			}
		}
		if n == 1 {
			return found
		}
	}
	return nil
}

// mine: the vector expression v of view w denotes the anchor's receiver. known=false when v is neither a
// variable of the anchor nor a parameter/receiver of the helper (a helper-local vector).
func (x c03Vectors) mine(w c01Effect, v ast.Expr) (mine, known bool) {
	rv := canonVar(w.G, varOf(w.G, v))
	if rv == nil {
		return false, false
	}
	if w.G == w.Caller {
		if w.Up != nil {
			return false, false
		}
		return rv == x.self, true
	}
	arg, cv, bound := w.bindVar(rv)
	if !bound {
		return false, false
	}
	if w.Up != nil {
		// the caller is itself a helper of the anchor: translate once more
		if arg == nil {
			return false, false
		}
		return x.mine(w.up(), arg)
	}
	return cv != nil && cv == x.self, true
}

// c03Entry is an entry V.Get(i) as seen from a view: whose vector it is and, in fn, the index expression.
type c03Entry struct {
	mine  bool
	index ast.Expr
	fn    *core.FuncInfo
}

// entryOf: e (in w.G) denotes a vector entry: a Get call (possibly kept in a local), or a parameter of
// the helper that receives one from the anchor.
func (x c03Vectors) entryOf(w c01Effect, e ast.Expr) (c03Entry, bool) {
	if call := x.entryCall(w.G, e); call != nil && len(call.Args) == 1 {
		sel, ok := ast.Unparen(call.Fun).(*ast.SelectorExpr)
		if !ok {
			return c03Entry{}, false
		}
		m, known := x.mine(w, sel.X)
		if !known {
			// a helper-local vector cannot be the anchor's receiver
			if w.G == w.Caller || varOf(w.G, sel.X) == nil {
				return c03Entry{}, false
			}
		}
		return c03Entry{mine: m, index: call.Args[0], fn: w.G}, true
	}
	if w.G != w.Caller && w.At != nil {
		if arg, _, bound := w.bindVar(varOf(w.G, resolveLocal(w.G, e))); bound && arg != nil {
			return x.entryOf(w.up(), arg)
		}
	}
	return c03Entry{}, false
}

// forkTest: the fact says "entry is (not) fork-detected".
func (x c03Vectors) forkTest(w c01Effect, ft core.Fact) (c03Entry, bool, bool) {
	g := w.G
	e, truth, isB := c01BoolOperand(g.Info(), ft)
	if !isB {
		return c03Entry{}, false, false
	}
	call, isC := resolveLocal(g, e).(*ast.CallExpr)
	if !isC {
		return c03Entry{}, false, false
	}
	sel, isS := ast.Unparen(call.Fun).(*ast.SelectorExpr)
	if !isS {
		return c03Entry{}, false, false
	}
	switch calleeName(g, call) {
	case "vecfc.BranchSeq.IsForkDetected":
		en, ok := x.entryOf(w, sel.X)
		return en, truth, ok
	case "vecfc.HighestBeforeSeq.IsForkDetected":
		if len(call.Args) != 1 {
			return c03Entry{}, false, false
		}
		m, known := x.mine(w, sel.X)
		if !known && (w.G == w.Caller || varOf(g, sel.X) == nil) {
			return c03Entry{}, false, false
		}
		return c03Entry{mine: m, index: call.Args[0], fn: g}, truth, true
	}
	return c03Entry{}, false, false
}

// forkOf: matcher for "the entry of (my | the other) vector is (not) fork-detected" in view w; boolean
// locals holding the test are looked through.
//
// In the anchor itself, or in a helper of it, a test may also be a call of a module predicate whose body is one returned
// boolean expression (`if hisSeq.observesNothing() { continue }` with `return seq.Seq == 0 &&
// !seq.IsForkDetected()`): the edge then carries the facts that the predicate's result implies, read in
// the predicate's view (its receiver and parameters stand for the anchor's expressions at the call).
func (x c03Vectors) forkOf(w c01Effect, mine, want bool) func(core.Fact) bool {
	in := func(v c01Effect) func(core.Fact) bool {
		return func(ft core.Fact) bool {
			en, truth, ok := x.forkTest(v, ft)
			return ok && truth == want && en.mine == mine
		}
	}
	return c01FactThrough(w.G, func(ft core.Fact) bool {
		if in(w)(ft) {
			return true
		}
		if w.Up != nil {
			return false // predicates are followed from the anchor and from its helpers, not further
		}
		pv, subs, ok := c03PredicateFacts(w.G, ft)
		if !ok {
			return false
		}
		if w.G != w.Caller {
			// a predicate called by a helper of the anchor: its operands translate into the helper's terms
			// and from there into the anchor's
			up := w
			pv.Up = &up
		}
		m := c01FactThrough(pv.G, in(pv))
		for _, sub := range subs {
			if m(sub) {
				return true
			}
		}
		return false
	})
}

// c03PredicateFacts: the fact says that a call of a module function, whose body is a single returned
// boolean expression, is true/false; returns the callee as a view and the facts which that result implies
// about the returned expression (conjuncts of a true conjunction, disjuncts of a false disjunction).
// Candidate for promotion to core: "facts through pure predicates".
func c03PredicateFacts(g *core.FuncInfo, ft core.Fact) (c01Effect, []core.Fact, bool) {
	e, truth, ok := c01BoolOperand(g.Info(), ft)
	if !ok {
		return c01Effect{}, nil, false
	}
	call, ok := resolveLocal(g, e).(*ast.CallExpr)
	if !ok {
		return c01Effect{}, nil, false
	}
	cs := c01CallSiteOf(g, call)
	if cs == nil {
		return c01Effect{}, nil, false
	}
	fn, ok := cs.Callee.(*types.Func)
	if !ok {
		return c01Effect{}, nil, false
	}
	h := g.P.FuncOf(fn)
	if h == nil || h == g || h.Body == nil || len(h.Body.List) != 1 {
		return c01Effect{}, nil, false
	}
	ret, ok := h.Body.List[0].(*ast.ReturnStmt)
	if !ok || len(ret.Results) != 1 {
		return c01Effect{}, nil, false
	}
	return c01Effect{Caller: g, At: cs, G: h, Eff: cs}, core.Decompose(ret.Results[0], truth), true
}

// selfWrites: the Set/SetForkDetected calls of w.G on the anchor's receiver.
func (x c03Vectors) selfWrites(w c01Effect) []*core.CallSite {
	var out []*core.CallSite
	for _, cs := range w.G.CallsTo(c03VecSet, c03VecSFD) {
		if m, known := x.mine(w, cs.Recv()); known && m {
			out = append(out, cs)
		}
	}
	return out
}

// views: the direct view and the helper views of the anchor. The vector primitives themselves are
// effects, not helpers.
func (x c03Vectors) views(anchor *core.FuncInfo) []c01Effect {
	var out []c01Effect
	for _, w := range c01HelperViews(anchor) {
		if w.At != nil {
			switch w.At.Name {
			case c03VecGet, c03VecSet, c03VecSFD, "vecfc.BranchSeq.IsForkDetected", "vecfc.HighestBeforeSeq.IsForkDetected":
				continue
			}
		}
		out = append(out, w)
	}
	return out
}

// c03Absorb decides that the fork marker is absorbing. The facts are stated over CFG edges and value
// provenance, so that the guard may be an if-block, a negated early continue, a switch case or a
// boolean local, the entries may be kept in locals or read in place, and the per-entry logic may be
// the loop body or a helper method called from it.
func c03Absorb(c *core.Ctx) {
	p := c.P
	c.Clause("C03.absorb", func() {
		cf := c.Fn("vecfc.HighestBeforeSeq.CollectFrom")
		self := cf.Recv()
		c.Need(self != nil, "CollectFrom has a named receiver")
		x := c03Vectors{p: p, self: self}
		direct := c01Effect{Caller: cf, G: cf}
		n, nEdges, nSFD := 0, 0, 0
		okF := true
		var witF string
		for _, w := range x.views(cf) {
			g := w.G
			var sfd []core.Point // writes that make self's entry fork-detected
			for _, cs := range x.selfWrites(w) {
				n++
				if cs.Name == c03VecSFD || (len(cs.Call.Args) == 2 && x.isMarker(g, cs.Call.Args[1])) {
					sfd = append(sfd, cs.Pt)
				}
				ok, wit := g.GuardedBy(cs.Pt, x.forkOf(w, true, false))
				if !ok && g != cf {
					// the helper may be called under the guard
					ok, _ = cf.GuardedBy(w.At.Pt, x.forkOf(direct, true, false))
				}
				c.Check(ok, "an entry is overwritten only while not fork-detected", "T17 Typestate", cs.Pos(), "every write of self's entry is on the !mySeq.IsForkDetected() edge", "a fork-detected entry can be overwritten by a plain sequence: a cheater visible to a parent disappears from the child's view ("+g.DescribePath(wit)+")")
			}
			nSFD += len(sfd)
			// his fork => my fork, unless mine is fork-detected already: from every edge on which the source
			// entry is fork-detected, the iteration cannot end (next iteration, or return) without marking,
			// except over an edge on which self's entry is fork-detected
			edges := edgesWithFact(g, x.forkOf(w, false, true))
			if len(edges) == 0 {
				continue
			}
			nEdges += len(edges)
			isSet := core.PointSet(sfd...)
			already := g.GuardEdges(x.forkOf(w, true, true))
			hisClean := g.GuardEdges(x.forkOf(w, false, false))
			skip := func(b *cfg.Block, s int) bool { return already(b, s) || hisClean(b, s) }
			for _, e := range edges {
				// stated from the entry of the iteration, so that a guard weakened by an extra conjunct is
				// seen: an iteration ends without marking only over an edge that says "source entry not
				// fork-detected" or "own entry fork-detected already"
				loop := enclosingLoop(g, posOf(core.Point{B: e.B, I: len(e.B.Nodes) - 1}))
				q := core.PathQuery{F: g, Avoid: isSet, AvoidEdge: skip, TargetExit: true}
				switch {
				case loop != nil:
					head, done := g.LoopOf(loop)
					if head == nil || len(head.Succs) == 0 {
						okF = false
						continue
					}
					q.From = blockEntry(head.Succs[0])
					q.TargetBlock = func(b *cfg.Block) bool { return b == head || (done != nil && b == done) }
				case g != cf:
					// the helper is the body of the iteration: it must be entered in every iteration
					q.From = g.Entry()
					if isSet(q.From) {
						continue
					}
					if ok, wit := c03EveryIterationCalls(cf, w.At); !ok {
						okF, witF = false, cf.DescribePath(wit)
					}
				default:
					okF = false
					continue
				}
				if path, found := q.Find(); found {
					okF, witF = false, g.DescribePath(path)
				}
			}
		}
		// (one write is enough for the obligation not to be vacuous; that a marker write exists is part of
		// the next check — how many plain stores the merge needs is not the rule's business)
		c.ExpectAtLeast("entry writes in CollectFrom", n, 1)
		okF = okF && nEdges >= 1 && nSFD >= 1
		c.Check(okF, "a fork-detected source entry makes the entry fork-detected", "T17 Typestate", cf.Pos(), "the hisSeq.IsForkDetected() edge always reaches SetForkDetected in the same iteration (unless the entry is fork-detected already)", "a fork seen by a parent is not propagated to the child ("+witF+")")

		c03Gather(c, p)

		// engine: marking one branch marks all branches of the creator
		sf := c.Fn("vecengine.Engine.setForkDetected")
		okM := false
		for _, cs := range sf.Calls() {
			if !methodNamed(cs.Name, "SetForkDetected") || len(cs.Call.Args) != 1 {
				continue
			}
			it, isIt := c01IterationOf(sf, enclosingLoop(sf, cs.Pos()))
			if !isIt || !it.FromZero || it.Coll == nil || !it.IsElem(cs.Call.Args[0], c01Resolver(sf)) {
				continue
			}
			// the whole branch list of a creator: BranchIDByCreators[k], possibly behind an accessor
			if c01IsBranchList(sf, it.Coll, nil, 2) {
				okM = true
			}
		}
		c.Check(okM, "a detected fork marks every branch of the creator", "provenance", sf.Pos(), "for each branch of BranchIDByCreators[creator]: SetForkDetected(branch)", "only some branches of a forking creator are marked")
		// the marker value is recognised by IsForkDetected
		is := c.Fn("vecfc.BranchSeq.IsForkDetected")
		st := c.Fn("vecfc.HighestBeforeSeq.SetForkDetected")
		okW := false
		for _, cs := range st.CallsTo(c03VecSet) {
			if len(cs.Call.Args) == 2 && x.isMarker(st, cs.Call.Args[1]) {
				okW = true
			}
		}
		okR := false
		for _, rp := range is.ReturnPoints() {
			r := rp.Node().(*ast.ReturnStmt)
			if len(r.Results) != 1 {
				continue
			}
			if cm, ok := core.NormCmp(core.Fact{Expr: resolveLocal(is, r.Results[0]), Truth: true}); ok && cm.Op == token.EQL && cm.R != nil {
				if (x.isMarker(is, cm.L) && canonVar(is, varOf(is, cm.R)) == is.Recv()) || (x.isMarker(is, cm.R) && canonVar(is, varOf(is, cm.L)) == is.Recv()) {
					okR = is.Recv() != nil
				}
			}
		}
		c.Check(okW && okR, "writer and reader of the fork marker agree", "T14 CodecPair", st.Pos(), "SetForkDetected stores forkDetectedSeq and IsForkDetected compares with it", "the fork marker written is not the one tested")
	})
}

// c03EveryIterationCalls: the call is made on every path through one iteration of the loop around it
// (without a loop: on every path through the function).
func c03EveryIterationCalls(f *core.FuncInfo, at *core.CallSite) (bool, []core.Point) {
	if loop := enclosingLoop(f, at.Pos()); loop != nil {
		head, done := f.LoopOf(loop)
		return c01EveryIteration(f, head, done, []core.Point{at.Pt})
	}
	path, found := core.PathQuery{F: f, From: f.Entry(), Avoid: core.PointSet(at.Pt), TargetExit: true}.Find()
	if f.Entry() == at.Pt {
		found = false
	}
	return !found, path
}

// c03Gather: when the branches of one creator are merged into the creator's entry, a fork-detected
// branch determines the merged entry. Stated per branch of `from`:
//
//	R1  every iteration over `from` takes a fork test of this iteration's branch entry (no branch is
//	    skipped, none is examined only for its sequence number);
//	R2  from the edge on which the branch is fork-detected, every path to the function's end stores a
//	    fork-detected value into self's entry `to` (the branch entry itself, directly or through an
//	    accumulator that is not reassigned afterwards, or the marker), and no other value after it.
//
// The scan over `from` may be written in GatherFrom itself or in a module function whose result
// GatherFrom stores into self's entry (`self.Set(to, other.highestAmong(from))`): the results of that
// function then take the place of the stores (R2: from the fork edge every path returns a fork-detected
// value), and the store of its result must be the last store of GatherFrom into entry `to`.
func c03Gather(c *core.Ctx, p *core.Prog) {
	gf := c.Fn("vecfc.HighestBeforeSeq.GatherFrom")
	self := gf.Recv()
	to, from := gf.Param(0), gf.Param(2)
	const key = "a fork-detected branch determines the merged entry"
	const bad = "a fork-detected branch can be overridden or missed when a creator's branches are merged: the cheater is not reported"
	if self == nil || to == nil || from == nil {
		c.Undecided(key, "T17 Typestate", gf.Pos(), "GatherFrom's receiver/parameters are not named")
		return
	}
	x := c03Vectors{p: p, self: self}
	var stores []*core.CallSite
	for _, cs := range gf.CallsTo(c03VecSet, c03VecSFD) {
		if canonVar(gf, varOf(gf, cs.Recv())) == self {
			stores = append(stores, cs)
		}
	}
	// the iteration over `from`: in GatherFrom, or in the producer of a stored value
	iterOver := func(g *core.FuncInfo, coll *types.Var) *core.Iteration {
		var it *core.Iteration
		g.InspectOwn(func(n ast.Node) bool {
			switch n.(type) {
			case *ast.ForStmt, *ast.RangeStmt:
				if y, ok := c01IterationOf(g, n.(ast.Stmt)); ok && it == nil && y.Coll != nil && canonVar(g, varOf(g, y.Coll)) == coll {
					it = y
				}
			}
			return true
		})
		return it
	}
	w := c01Effect{Caller: gf, G: gf}
	it := iterOver(gf, from)
	var resultStore *core.CallSite
	if it == nil {
		for _, cs := range stores {
			if cs.Name != c03VecSet || len(cs.Call.Args) != 2 {
				continue
			}
			pv, ok := c01Producer(gf, cs.Call.Args[1])
			if !ok || pv.G.Type.Params == nil {
				continue
			}
			for _, fl := range pv.G.Type.Params.List {
				for _, nm := range fl.Names {
					pvar, _ := pv.G.Info().Defs[nm].(*types.Var)
					if _, cv, bound := pv.bindVar(pvar); bound && cv == from && it == nil {
						if y := iterOver(pv.G, pvar); y != nil {
							it, w, resultStore = y, pv, cs
						}
					}
				}
			}
		}
	}
	g := w.G
	if it == nil || !it.FromZero || it.Head == nil || len(it.Head.Succs) == 0 {
		c.Fail(key, "T17 Typestate", gf.Pos(), "GatherFrom does not iterate over all the creator's branches (`from`) from the first one: "+bad)
		return
	}
	res := c01Resolver(g)
	// fork test of this iteration's branch in the other vector
	branchFork := func(want bool) func(core.Fact) bool {
		return c01FactThrough(g, func(ft core.Fact) bool {
			en, truth, ok := x.forkTest(w, ft)
			return ok && truth == want && !en.mine && en.fn == g && it.IsElem(en.index, res)
		})
	}
	isBranchEntry := func(e ast.Expr) bool {
		en, ok := x.entryOf(w, e)
		return ok && !en.mine && en.fn == g && it.IsElem(en.index, res)
	}
	body := core.Point{B: it.Head.Succs[0], I: 0}
	endOfIter := func(b *cfg.Block) bool { return b == it.Head || (it.Done != nil && b == it.Done) }
	forkEdge, cleanEdge := g.GuardEdges(branchFork(true)), g.GuardEdges(branchFork(false))
	tested := func(b *cfg.Block, s int) bool { return forkEdge(b, s) || cleanEdge(b, s) }
	// R1
	if path, found := (core.PathQuery{F: g, From: body, AvoidEdge: tested, TargetBlock: endOfIter, TargetExit: true}).Find(); found {
		c.Fail(key, "T17 Typestate (R1: every branch is tested)", it.Stmt.Pos(), "a branch of the creator can be merged without being tested for the fork marker ("+g.DescribePath(path)+"): "+bad)
		return
	}
	// R2: the sinks of the merged value in g — stores into self's entry, or (producer view) results
	type sink struct {
		pt   core.Point
		val  ast.Expr
		good bool
	}
	var sinks []sink
	if g == gf {
		for _, cs := range stores {
			s := sink{pt: cs.Pt}
			if len(cs.Call.Args) >= 1 && canonVar(gf, varOf(gf, cs.Call.Args[0])) == to {
				if methodNamed(cs.Name, "SetForkDetected") {
					s.good = true
				} else if len(cs.Call.Args) == 2 {
					s.val = cs.Call.Args[1]
				}
			}
			sinks = append(sinks, s)
		}
	} else {
		for _, rp := range g.ReturnPoints() {
			s := sink{pt: rp}
			if r := rp.Node().(*ast.ReturnStmt); len(r.Results) == 1 {
				s.val = r.Results[0]
			}
			sinks = append(sinks, s)
		}
	}
	edges := edgesWithFact(g, branchFork(true))
	ok := len(edges) > 0 && len(sinks) > 0
	why := "no store of the merged entry / no fork test"
	for _, e := range edges {
		start := blockEntry(e.B.Succs[e.Succ])
		var good, all []core.Point
		for _, s := range sinks {
			all = append(all, s.pt)
			if s.good {
				good = append(good, s.pt)
				continue
			}
			if s.val == nil {
				continue
			}
			if x.isMarker(g, s.val) || isBranchEntry(s.val) {
				good = append(good, s.pt)
				continue
			}
			// an accumulator: on every path from the edge to the sink it is set to the branch entry, and
			// after that assignment no other assignment of it is reachable
			acc := varOf(g, s.val)
			if acc == nil {
				continue
			}
			var takes []core.Point
			okAcc := true
			for _, a := range assignsToVar(g, acc) {
				if a.RHS != nil && isBranchEntry(a.RHS) && (a.Pt == start || c03ReachesFrom(g, start, a.Pt)) {
					takes = append(takes, a.Pt)
				}
			}
			for _, t := range takes {
				for _, b := range assignsToVar(g, acc) {
					if b.Pt != t && g.CanReach(t, b.Pt) {
						okAcc = false
					}
				}
			}
			if len(takes) == 0 || !okAcc {
				continue
			}
			if _, found := (core.PathQuery{F: g, From: start, Avoid: core.PointSet(takes...), Target: core.PointSet(s.pt)}).Find(); !found {
				good = append(good, s.pt)
			}
		}
		isGood := core.PointSet(good...)
		// every path from the edge to the end passes a good sink before any other sink
		path, found := core.PathQuery{F: g, From: start, Avoid: isGood, Target: func(pt core.Point) bool { return core.PointSet(all...)(pt) && !isGood(pt) }, TargetExit: true}.Find()
		if isGood(start) {
			found = false
		}
		if found {
			ok, why = false, "from the fork-detected edge the merged entry is not (only) set to a fork-detected value ("+g.DescribePath(path)+")"
		}
		if g != gf {
			continue // a result ends the function
		}
		// and nothing is stored after it
		for _, gd := range good {
			if p2, f2 := (core.PathQuery{F: g, From: gd, FromAfter: true, Target: core.PointSet(all...)}).Find(); f2 {
				// a later store is harmless only when it can be reached solely from non-fork iterations; a
				// store in a loop can be reached again, so demand that the function is left first
				ok, why = false, "after the fork-detected value was stored the merged entry can be stored again ("+g.DescribePath(p2)+")"
			}
		}
	}
	if g != gf && resultStore != nil {
		// the producer's result goes into entry `to` and is not overwritten afterwards
		if len(resultStore.Call.Args) < 1 || canonVar(gf, varOf(gf, resultStore.Call.Args[0])) != to {
			ok, why = false, "the merged value is not stored into the creator's entry"
		}
		if p2, f2 := (core.PathQuery{F: gf, From: resultStore.Pt, FromAfter: true, Target: core.PointSet(core.Points(stores)...)}).Find(); f2 {
			ok, why = false, "after the merged value was stored the entry can be stored again ("+gf.DescribePath(p2)+")"
		}
	}
	c.Check(ok, key, "T17 Typestate (R1 every branch is tested, R2 the fork edge fixes the result)", gf.Pos(), "each branch of `from` is tested; on the branch.IsForkDetected() edge the merged entry takes a fork-detected value and is not overwritten afterwards", bad+": "+why)
}

// c03ReachesFrom: `to` is reachable from the block entry point `from` (inclusive).
func c03ReachesFrom(f *core.FuncInfo, from, to core.Point) bool {
	if from == to {
		return true
	}
	_, found := core.PathQuery{F: f, From: from, Target: core.PointSet(to)}.Find()
	return found
}
