package rules

import (
	"go/ast"
	"go/token"
	"go/types"

	"golang.org/x/tools/go/cfg"

	"lachk/core"
)

// c03Absorb decides that the fork marker is absorbing. The facts are stated over CFG edges and value
// provenance, so that the guard may be an if-block, a negated early continue, a switch case or a
// boolean local, and the entries may be kept in locals or read in place.
func c03Absorb(c *core.Ctx) {
	p := c.P
	const (
		vecGet = "vecfc.HighestBeforeSeq.Get"
		vecSet = "vecfc.HighestBeforeSeq.Set"
		vecSFD = "vecfc.HighestBeforeSeq.SetForkDetected"
	)
	isMarker := func(f *core.FuncInfo, e ast.Expr) bool {
		v, ok := f.ObjOf(resolveLocal(f, e)).(*types.Var)
		return ok && p.ObjName(v) == "vecfc.forkDetectedSeq"
	}
	// entryCall: e denotes (a local holding) vec.Get(i); returns the call
	entryCall := func(f *core.FuncInfo, e ast.Expr) *ast.CallExpr {
		x := resolveLocal(f, e)
		if call, ok := x.(*ast.CallExpr); ok && calleeName(f, call) == vecGet {
			return call
		}
		// a local that is modified field-wise after it was read (mySeq.Seq = …) is still that entry
		if v := varOf(f, x); v != nil {
			var found *ast.CallExpr
			n := 0
			for _, a := range assignsToVar(f, v) {
				n++
				if call, ok := ast.Unparen(a.RHS).(*ast.CallExpr); ok && a.RHS != nil && calleeName(f, call) == vecGet {
					found = call
				}
			}
			if n == 1 {
				return found
			}
		}
		return nil
	}
	recvOf := func(f *core.FuncInfo, call *ast.CallExpr) *types.Var {
		sel, ok := ast.Unparen(call.Fun).(*ast.SelectorExpr)
		if !ok {
			return nil
		}
		return canonVar(f, varOf(f, sel.X))
	}
	// forkTest: the fact says "entry is (not) fork-detected"; returns the vector variable and the index
	// expression of the entry
	forkTest := func(f *core.FuncInfo, ft core.Fact) (vec *types.Var, index ast.Expr, truth bool, ok bool) {
		e, truth, isB := c01BoolOperand(f.Info(), ft)
		if !isB {
			return nil, nil, false, false
		}
		call, isC := resolveLocal(f, e).(*ast.CallExpr)
		if !isC {
			return nil, nil, false, false
		}
		switch calleeName(f, call) {
		case "vecfc.BranchSeq.IsForkDetected":
			sel, isS := ast.Unparen(call.Fun).(*ast.SelectorExpr)
			if !isS {
				return nil, nil, false, false
			}
			get := entryCall(f, sel.X)
			if get == nil || len(get.Args) != 1 {
				return nil, nil, false, false
			}
			return recvOf(f, get), get.Args[0], truth, true
		case "vecfc.HighestBeforeSeq.IsForkDetected":
			if len(call.Args) != 1 {
				return nil, nil, false, false
			}
			return recvOf(f, call), call.Args[0], truth, true
		}
		return nil, nil, false, false
	}

	c.Clause("C03.absorb", func() {
		cf := c.Fn("vecfc.HighestBeforeSeq.CollectFrom")
		self := cf.Recv()
		c.Need(self != nil, "CollectFrom has a named receiver")
		forkOf := func(mine bool, want bool) func(core.Fact) bool {
			return func(ft core.Fact) bool {
				vec, _, truth, ok := forkTest(cf, ft)
				return ok && truth == want && vec != nil && (vec == self) == mine
			}
		}
		n := 0
		var sfd []core.Point // writes that make self's entry fork-detected
		for _, cs := range cf.CallsTo(vecSet, vecSFD) {
			if canonVar(cf, varOf(cf, cs.Recv())) != self {
				continue
			}
			n++
			if cs.Name == vecSFD || (len(cs.Call.Args) == 2 && isMarker(cf, cs.Call.Args[1])) {
				sfd = append(sfd, cs.Pt)
			}
			ok, wit := cf.GuardedBy(cs.Pt, forkOf(true, false))
			c.Check(ok, "an entry is overwritten only while not fork-detected", "T17 Typestate", cs.Pos(), "every write of self's entry is on the !mySeq.IsForkDetected() edge", "a fork-detected entry can be overwritten by a plain sequence: a cheater visible to a parent disappears from the child's view ("+cf.DescribePath(wit)+")")
		}
		c.ExpectAtLeast("entry writes in CollectFrom", n, 3)
		// his fork => my fork, unless mine is fork-detected already: from every edge on which the source
		// entry is fork-detected, the iteration cannot end (next iteration, or return) without marking,
		// except over an edge on which self's entry is fork-detected
		edges := edgesWithFact(cf, forkOf(false, true))
		okF := len(edges) >= 1 && len(sfd) >= 1
		var witF []core.Point
		isSet := core.PointSet(sfd...)
		already := cf.GuardEdges(forkOf(true, true))
		hisClean := cf.GuardEdges(forkOf(false, false))
		for _, e := range edges {
			// stated from the entry of the iteration, so that a guard weakened by an extra conjunct is
			// seen: an iteration ends without marking only over an edge that says "source entry not
			// fork-detected" or "own entry fork-detected already"
			head, done := cf.LoopOf(enclosingLoop(cf, posOf(core.Point{B: e.B, I: len(e.B.Nodes) - 1})))
			if head == nil || len(head.Succs) == 0 {
				okF = false
				continue
			}
			path, found := core.PathQuery{F: cf, From: blockEntry(head.Succs[0]), Avoid: isSet,
				AvoidEdge:   func(b *cfg.Block, s int) bool { return already(b, s) || hisClean(b, s) },
				TargetExit:  true,
				TargetBlock: func(b *cfg.Block) bool { return b == head || (done != nil && b == done) }}.Find()
			if found {
				okF, witF = false, path
			}
		}
		c.Check(okF, "a fork-detected source entry makes the entry fork-detected", "T17 Typestate", cf.Pos(), "the hisSeq.IsForkDetected() edge always reaches SetForkDetected in the same iteration (unless the entry is fork-detected already)", "a fork seen by a parent is not propagated to the child ("+cf.DescribePath(witF)+")")

		c03Gather(c, forkTest, entryCall, isMarker)

		// engine: marking one branch marks all branches of the creator
		sf := c.Fn("vecengine.Engine.setForkDetected")
		okM := false
		for _, cs := range sf.Calls() {
			if !methodNamed(cs.Name, "SetForkDetected") || len(cs.Call.Args) != 1 {
				continue
			}
			it, isIt := core.IterationOf(sf, enclosingLoop(sf, cs.Pos()), c01Resolver(sf))
			if !isIt || !it.FromZero || it.Coll == nil || !it.IsElem(cs.Call.Args[0], c01Resolver(sf)) {
				continue
			}
			if ix, isIx := ast.Unparen(it.Coll).(*ast.IndexExpr); isIx {
				_, pth := fieldPath(sf, ix.X)
				if len(pth) >= 1 && pth[len(pth)-1] == "vecengine.BranchesInfo.BranchIDByCreators" {
					okM = true
				}
			}
		}
		c.Check(okM, "a detected fork marks every branch of the creator", "provenance", sf.Pos(), "for each branch of BranchIDByCreators[creator]: SetForkDetected(branch)", "only some branches of a forking creator are marked")
		// the marker value is recognised by IsForkDetected
		is := c.Fn("vecfc.BranchSeq.IsForkDetected")
		st := c.Fn("vecfc.HighestBeforeSeq.SetForkDetected")
		okW := false
		for _, cs := range st.CallsTo(vecSet) {
			if len(cs.Call.Args) == 2 && isMarker(st, cs.Call.Args[1]) {
				okW = true
			}
		}
		okR := false
		for _, rp := range is.ReturnPoints() {
			r := rp.Node().(*ast.ReturnStmt)
			if len(r.Results) != 1 {
				continue
			}
			if cm, ok := core.NormCmp(core.Fact{Expr: resolveLocal(is, r.Results[0]), Truth: true}); ok && cm.Op == token.EQL && cm.R != nil {
				if (isMarker(is, cm.L) && canonVar(is, varOf(is, cm.R)) == is.Recv()) || (isMarker(is, cm.R) && canonVar(is, varOf(is, cm.L)) == is.Recv()) {
					okR = is.Recv() != nil
				}
			}
		}
		c.Check(okW && okR, "writer and reader of the fork marker agree", "T14 CodecPair", st.Pos(), "SetForkDetected stores forkDetectedSeq and IsForkDetected compares with it", "the fork marker written is not the one tested")
	})
}

// c03Gather: when the branches of one creator are merged into the creator's entry, a fork-detected
// branch determines the merged entry. Stated per branch of `from`:
//
//	R1  every iteration over `from` takes a fork test of this iteration's branch entry (no branch is
//	    skipped, none is examined only for its sequence number);
//	R2  from the edge on which the branch is fork-detected, every path to the function's end stores a
//	    fork-detected value into self's entry `to` (the branch entry itself, directly or through an
//	    accumulator that is not reassigned afterwards, or the marker), and no other value after it.
func c03Gather(c *core.Ctx, forkTest func(*core.FuncInfo, core.Fact) (*types.Var, ast.Expr, bool, bool), entryCall func(*core.FuncInfo, ast.Expr) *ast.CallExpr, isMarker func(*core.FuncInfo, ast.Expr) bool) {
	gf := c.Fn("vecfc.HighestBeforeSeq.GatherFrom")
	self := gf.Recv()
	to, from := gf.Param(0), gf.Param(2)
	const key = "a fork-detected branch determines the merged entry"
	const bad = "a fork-detected branch can be overridden or missed when a creator's branches are merged: the cheater is not reported"
	if self == nil || to == nil || from == nil {
		c.Undecided(key, "T17 Typestate", gf.Pos(), "GatherFrom's receiver/parameters are not named")
		return
	}
	res := c01Resolver(gf)
	// the iteration over `from`
	var it *core.Iteration
	gf.InspectOwn(func(n ast.Node) bool {
		switch n.(type) {
		case *ast.ForStmt, *ast.RangeStmt:
			if x, ok := core.IterationOf(gf, n.(ast.Stmt), res); ok && it == nil && x.Coll != nil && canonVar(gf, varOf(gf, x.Coll)) == from {
				it = x
			}
		}
		return true
	})
	if it == nil || !it.FromZero || it.Head == nil || len(it.Head.Succs) == 0 {
		c.Fail(key, "T17 Typestate", gf.Pos(), "GatherFrom does not iterate over all the creator's branches (`from`) from the first one: "+bad)
		return
	}
	// fork test of this iteration's branch in the other vector
	branchFork := func(want bool) func(core.Fact) bool {
		return func(ft core.Fact) bool {
			vec, index, truth, ok := forkTest(gf, ft)
			return ok && truth == want && vec != self && it.IsElem(index, res)
		}
	}
	isBranchEntry := func(e ast.Expr) bool {
		call := entryCall(gf, e)
		if call == nil || len(call.Args) != 1 {
			return false
		}
		sel, ok := ast.Unparen(call.Fun).(*ast.SelectorExpr)
		return ok && canonVar(gf, varOf(gf, sel.X)) != self && it.IsElem(call.Args[0], res)
	}
	body := core.Point{B: it.Head.Succs[0], I: 0}
	endOfIter := func(b *cfg.Block) bool { return b == it.Head || (it.Done != nil && b == it.Done) }
	tested := func(b *cfg.Block, s int) bool {
		return gf.GuardEdges(branchFork(true))(b, s) || gf.GuardEdges(branchFork(false))(b, s)
	}
	// R1
	if path, found := (core.PathQuery{F: gf, From: body, AvoidEdge: tested, TargetBlock: endOfIter, TargetExit: true}).Find(); found {
		c.Fail(key, "T17 Typestate (R1: every branch is tested)", it.Stmt.Pos(), "a branch of the creator can be merged without being tested for the fork marker ("+gf.DescribePath(path)+"): "+bad)
		return
	}
	// R2
	var stores []*core.CallSite
	for _, cs := range gf.CallsTo("vecfc.HighestBeforeSeq.Set", "vecfc.HighestBeforeSeq.SetForkDetected") {
		if canonVar(gf, varOf(gf, cs.Recv())) == self {
			stores = append(stores, cs)
		}
	}
	edges := edgesWithFact(gf, branchFork(true))
	ok := len(edges) > 0 && len(stores) > 0
	why := "no store of the merged entry / no fork test"
	for _, e := range edges {
		start := blockEntry(e.B.Succs[e.Succ])
		var good, all []core.Point
		for _, cs := range stores {
			all = append(all, cs.Pt)
			if len(cs.Call.Args) < 1 || canonVar(gf, varOf(gf, cs.Call.Args[0])) != to {
				continue
			}
			if methodNamed(cs.Name, "SetForkDetected") {
				good = append(good, cs.Pt)
				continue
			}
			if len(cs.Call.Args) != 2 {
				continue
			}
			val := cs.Call.Args[1]
			if isMarker(gf, val) || isBranchEntry(val) {
				good = append(good, cs.Pt)
				continue
			}
			// an accumulator: on every path from the edge to the store it is set to the branch entry, and
			// after that assignment no other assignment of it is reachable
			acc := varOf(gf, val)
			if acc == nil {
				continue
			}
			var takes []core.Point
			okAcc := true
			for _, a := range assignsToVar(gf, acc) {
				if a.RHS != nil && isBranchEntry(a.RHS) && (a.Pt == start || c03ReachesFrom(gf, start, a.Pt)) {
					takes = append(takes, a.Pt)
				}
			}
			for _, t := range takes {
				for _, b := range assignsToVar(gf, acc) {
					if b.Pt != t && gf.CanReach(t, b.Pt) {
						okAcc = false
					}
				}
			}
			if len(takes) == 0 || !okAcc {
				continue
			}
			if _, found := (core.PathQuery{F: gf, From: start, Avoid: core.PointSet(takes...), Target: core.PointSet(cs.Pt)}).Find(); !found {
				good = append(good, cs.Pt)
			}
		}
		isGood := core.PointSet(good...)
		// every path from the edge to the end passes a good store before any other store
		path, found := core.PathQuery{F: gf, From: start, Avoid: isGood, Target: func(pt core.Point) bool { return core.PointSet(all...)(pt) && !isGood(pt) }, TargetExit: true}.Find()
		if isGood(start) {
			found = false
		}
		if found {
			ok, why = false, "from the fork-detected edge the merged entry is not (only) set to a fork-detected value ("+gf.DescribePath(path)+")"
		}
		// and nothing is stored after it
		for _, g := range good {
			if p2, f2 := (core.PathQuery{F: gf, From: g, FromAfter: true, Target: core.PointSet(all...)}).Find(); f2 {
				// a later store is harmless only when it can be reached solely from non-fork iterations; a
				// store in a loop can be reached again, so demand that the function is left first
				ok, why = false, "after the fork-detected value was stored the merged entry can be stored again ("+gf.DescribePath(p2)+")"
			}
		}
	}
	c.Check(ok, key, "T17 Typestate (R1 every branch is tested, R2 the fork edge fixes the result)", gf.Pos(), "each branch of `from` is tested; on the branch.IsForkDetected() edge the merged entry takes a fork-detected value and is not overwritten afterwards", bad+": "+why)
}

// c03ReachesFrom: `to` is reachable from the block entry point `from` (inclusive).
func c03ReachesFrom(f *core.FuncInfo, from, to core.Point) bool {
	if from == to {
		return true
	}
	_, found := core.PathQuery{F: f, From: from, Target: core.PointSet(to)}.Find()
	return found
}
