package rules

import (
	"fmt"
	"go/ast"
	"go/token"
	"go/types"
	"sort"
	"strings"

	"lachk/core"
)

var _ = fmt.Sprint
var _ ast.Node
var _ token.Pos
var _ types.Object
var _ = sort.Strings
var _ = strings.TrimSpace

// c28SplitRMW: a read-modify-write of guarded state must happen inside one critical section. The rule
// looks for the lost-update shape: within one operation, a first critical section of mutex M reads a
// guarded field and a later, separate critical section of M overwrites that field wholesale without
// re-reading it. Whatever another goroutine stored in between is lost (e.g. a drop request enqueued
// while a flush is between "copy the queue" and "reset the queue").
func c28SplitRMW(c *core.Ctx) {
	c.Clause("C28.rmw", func() {
		p := c.P
		type comp struct {
			name string
			spec core.LockSpec
		}
		ws, _ := wlruLockSpec(p)
		comps := []comp{
			{"flushable/pool", flushableLockSpec()},
			{"wlru", ws},
			{"semaphore", semaphoreLockSpec()},
			{"ordering buffer", bufferLockSpec(p)},
		}
		nOps := 0
		for _, cm := range comps {
			res := c28RunLockset(p, cm.spec)
			// per function: reads / wholesale assignments of each guarded field made in the function itself
			type sum struct{ reads, assigns map[string]bool }
			own := map[*core.FuncInfo]*sum{}
			for _, a := range res.Accesses {
				s := own[a.F]
				if s == nil {
					s = &sum{map[string]bool{}, map[string]bool{}}
					own[a.F] = s
				}
				if a.Write && a.How == "assign" {
					s.assigns[a.Field] = true
				} else if !a.Write {
					s.reads[a.Field] = true
				} else {
					// element store / delete / mutating call: reads the container and updates it in place
					s.reads[a.Field] = true
				}
			}
			mutexes := map[string]bool{}
			for _, m := range cm.spec.Guarded {
				mutexes[m] = true
			}
			inSet := map[*core.FuncInfo]bool{}
			for _, f := range res.Analysed {
				inSet[f] = true
			}
			// section summary of a function that acquires M itself: its own accesses plus those of callees
			// that are entered with M held
			var sectionSum func(g *core.FuncInfo, m string, depth int) *sum
			sectionSum = func(g *core.FuncInfo, m string, depth int) *sum {
				out := &sum{map[string]bool{}, map[string]bool{}}
				if s := own[g]; s != nil {
					for k := range s.reads {
						out.reads[k] = true
					}
					for k := range s.assigns {
						out.assigns[k] = true
					}
				}
				if depth > 4 {
					return out
				}
				for _, cs := range g.Calls() {
					fn, ok := cs.Callee.(*types.Func)
					if !ok {
						continue
					}
					ci := p.FuncOf(fn)
					if ci == nil || !inSet[ci] || res.Entry[ci][m] == core.LNone {
						continue
					}
					s := sectionSum(ci, m, depth+1)
					for k := range s.reads {
						out.reads[k] = true
					}
					for k := range s.assigns {
						out.assigns[k] = true
					}
				}
				return out
			}
			for m := range mutexes {
				for _, f := range res.Analysed {
					if res.Entry[f][m] != core.LNone {
						continue // runs inside somebody else's critical section
					}
					// ordered critical sections of M within the operation f: calls to functions that acquire M
					type sec struct {
						who string
						pos token.Pos
						s   *sum
					}
					var secs []sec
					if res.Sections[f][m] >= 1 {
						secs = append(secs, sec{short(f.Name) + " (inline)", f.Pos(), sectionSum(f, m, 0)})
					}
					// (directly, or through helpers that run without M and call such functions: a phase of the
					// operation moved into a helper keeps its critical sections)
					var collect func(g *core.FuncInfo, top token.Pos, depth int, seen map[*core.FuncInfo]bool)
					collect = func(g *core.FuncInfo, top token.Pos, depth int, seen map[*core.FuncInfo]bool) {
						for _, cs := range g.Calls() {
							fn, ok := cs.Callee.(*types.Func)
							if !ok {
								continue
							}
							ci := p.FuncOf(fn)
							if ci == nil || !inSet[ci] || ci == f || seen[ci] || res.Entry[ci][m] != core.LNone {
								continue
							}
							pos := top
							if g == f {
								pos = cs.Pos()
							}
							if res.Sections[ci][m] >= 1 {
								secs = append(secs, sec{short(ci.Name), pos, sectionSum(ci, m, 0)})
							} else if depth > 0 && ci.Obj != nil && !ci.Obj.Exported() {
								seen[ci] = true
								collect(ci, pos, depth-1, seen)
								delete(seen, ci)
							}
						}
					}
					collect(f, token.NoPos, 2, map[*core.FuncInfo]bool{f: true})
					if len(secs) < 2 {
						continue
					}
					nOps++
					sort.SliceStable(secs, func(i, j int) bool { return secs[i].pos < secs[j].pos })
					bad := ""
					var badPos token.Pos
					for i := 0; i < len(secs) && bad == ""; i++ {
						for j := i + 1; j < len(secs) && bad == ""; j++ {
							if secs[i].who == secs[j].who {
								continue
							}
							for fld := range secs[j].s.assigns {
								if secs[i].s.reads[fld] && !secs[j].s.reads[fld] && cm.spec.Guarded[fld] == m {
									bad = fmt.Sprintf("%s reads %s in one critical section of %s and %s overwrites it in a later, separate one without re-reading it", secs[i].who, short(fld), short(m), secs[j].who)
									badPos = secs[j].pos
								}
							}
						}
					}
					construct := short(f.Name) + "|" + short(m)
					if bad != "" {
						c.Fail(construct, "atomicity (read-modify-write in one critical section)", badPos, bad+": an update made by another goroutine in between is lost")
					} else {
						c.Pass(construct, "atomicity (read-modify-write in one critical section)", fmt.Sprintf("%d critical sections in this operation, no read-then-blind-overwrite split", len(secs)))
					}
				}
			}
		}
		c.Note("operations with several critical sections of one mutex examined for split read-modify-write: %d", nOps)
	})
	c28ViewConsistency(c)
	c28Transient(c)
}
