package rules

import (
	"fmt"
	"go/ast"
	"go/constant"
	"go/token"
	"go/types"
	"sort"
	"strings"

	"golang.org/x/tools/go/cfg"

	"lachk/core"
)

const (
	c33Cache   = "abft.Store.cache.FrameRoots"
	c33CacheSt = "abft.Store.cache"
	c33Roots   = "abft.Store.epochTable.Roots"
	c33EpochT  = "abft.Store.epochTable"
	c33EpochDB = "abft.Store.epochDB"
	c33Crit    = "abft.Store.crit"
	c33LRU     = "utils/simplewlru.Cache."
	c33FFrame  = "abft/election.Slot.Frame"
	c33FValid  = "abft/election.Slot.Validator"
	c33FID     = "abft/election.RootAndSlot.ID"
	c33ItKey   = ethdb + "Iterator.Key"
	c33ItNext  = ethdb + "Iterator.Next"
	c33ItErr   = ethdb + "Iterator.Error"
	c33NewIt   = "kvdb.Iteratee.NewIterator"
)

func init() {
	register("C33", "other", "T14 CodecPair (key layout writer/reader), T15 ConstRelation (widths via types.Sizes / go/constant), T7 Pairing (DB put <-> cache update), T2 Dominates (loop completion, purge before install), T4 GuardedBy, T6 WhoMayWrite/WhoMayCall",
		"Decides the structure 'GetFrameRoots = registered roots' depends on. Key codec: rootRecordKey concatenates Frame.Bytes, Validator.Bytes, ID.Bytes of its argument (frame first), GetFrameRoots decodes exactly the byte ranges those pieces occupy (widths from types.Sizes / the array length, bounds folded with go/constant) with decoders producing the fields' own types, any key-length test uses the total width, and the scan prefix is the Bytes() of the frame parameter with a nil start on the same Roots table. Registration: the Roots table is only touched by addRoot (Put) and GetFrameRoots (NewIterator); the stored record carries the frame parameter and the root's Creator()/ID(); after the Put the cached list of that frame is either extended by exactly this record on the 'frame is cached' edge (Get-ok) or removed - never added when the frame is not cached (the database stays the source). Query: the cache is filled only after the complete iterator loop (no break, every iteration appends the decoded record to a list that started empty), under the key of the queried frame, and never on the iterator-error path unless the critical-error callback was invoked; a cache hit is returned only on the Get-ok edge. Epoch switch: every installation of a new epoch database (epochDB assignment, MigrateTables(&epochTable, db)) is dominated by FrameRoots.Purge(), and every successful dropEpochDB is followed by openEpochDB. Ownership: only initCache/openEpochDB/addRoot/GetFrameRoots touch cache.FrameRoots; the whole cache struct is handed out only to reset every cache to nil or as part of Close. Cache: every returning path of simplewlru.Cache.Add stores the new value into the key's entry (directly or in a helper that always does), and nothing else overwrites a cached value - so a re-Add of an extended list can never leave the shorter one in place, whatever the weights. The key decoding may live in GetFrameRoots or in one helper the iterator key is handed to. Not decided: set equality under eviction as a runtime fact (follows from 'cache entry = complete list or absent'), emptiness of the database returned by the EpochDBProducer, duplicate registration of the same root, the rest of the LRU (C29), I/O errors.",
		[]string{"Store.crit (application callback for critical errors) does not return normally after a database error; if it did, a partial scan would be cached", "hash.BytesToEvent is the inverse of hash.Event.Bytes on exactly len(hash.Event) bytes", "the idx codecs are inverse pairs (C32)", "single-threaded use of the store (as documented on AddRoot/GetFrameRoots)"},
		runC33)
}

// ---------------------------------------------------------------------------
// helpers (c33 prefix)

func c33const(info *types.Info, e ast.Expr) (int64, bool) {
	v, ok := core.ConstVal(info, e)
	if !ok {
		return 0, false
	}
	v = constant.ToInt(v)
	if v.Kind() != constant.Int {
		return 0, false
	}
	return constant.Int64Val(v)
}

// c33isEmptyBytes: e is a fresh empty byte slice / list: nil, T{}, make(T, 0[, cap]).
func c33isEmpty(f *core.FuncInfo, e ast.Expr) bool {
	if e == nil {
		return true // var x []T
	}
	e = ast.Unparen(e)
	if core.IsNil(f.Info(), e) {
		return true
	}
	if cl, ok := e.(*ast.CompositeLit); ok {
		return len(cl.Elts) == 0
	}
	if mk := isCallTo(f, e, "builtin.make"); mk != nil && len(mk.Args) >= 2 {
		n, ok := c33const(f.Info(), mk.Args[1])
		return ok && n == 0
	}
	return false
}

// c33ordered sorts points by dominance: returns false if some pair is unordered or a point lies on a cycle.
func c33ordered(f *core.FuncInfo, pts []core.Point) bool {
	for _, p := range pts {
		if f.CanReach(p, p) {
			return false
		}
	}
	sort.SliceStable(pts, func(i, j int) bool {
		ok, _ := f.MustPassBefore([]core.Point{pts[i]}, pts[j])
		return ok && pts[i] != pts[j]
	})
	for i := 0; i+1 < len(pts); i++ {
		if ok, _ := f.MustPassBefore([]core.Point{pts[i]}, pts[i+1]); !ok {
			return false
		}
	}
	return true
}

// c33concat returns the byte pieces a key-building function concatenates, in order.
// Forms: (A) a local bytes.Buffer: buf.Write(p1); ...; return buf.Bytes()
//
//	(B) appends: return append(append(x, p1...), p2...) / k = append(k, p...) sequences on a fresh slice.
func c33concat(f *core.FuncInfo) (pieces []ast.Expr, why string) {
	rets := f.ReturnPoints()
	if len(rets) != 1 {
		return nil, fmt.Sprintf("%d return statements", len(rets))
	}
	r := rets[0].Node().(*ast.ReturnStmt)
	if len(r.Results) != 1 {
		return nil, "no single result"
	}
	res := ast.Unparen(r.Results[0])
	// form A
	if call := isCallTo(f, res, "bytes.Buffer.Bytes"); call != nil {
		sel := call.Fun.(*ast.SelectorExpr)
		buf := varOf(f, sel.X)
		if buf == nil || buf.Parent() == f.Pkg.Types.Scope() {
			return nil, "the buffer is not a local variable"
		}
		defs := assignsToVar(f, buf)
		if len(defs) != 1 {
			return nil, "the buffer is defined more than once"
		}
		if rhs := defs[0].RHS; rhs != nil {
			e := ast.Unparen(rhs)
			if u, ok := e.(*ast.UnaryExpr); ok && u.Op == token.AND {
				e = ast.Unparen(u.X)
			}
			cl, isLit := e.(*ast.CompositeLit)
			isNew := isCallTo(f, e, "builtin.new") != nil
			if !(isLit && len(cl.Elts) == 0) && !isNew {
				return nil, "the buffer does not start empty"
			}
		}
		var pts []core.Point
		byPt := map[core.Point]ast.Expr{}
		stray := false
		for _, cs := range f.Calls() {
			if cs.Recv() == nil || varOf(f, cs.Recv()) != buf || cs.Call == call {
				continue
			}
			if cs.Name != "bytes.Buffer.Write" || len(cs.Call.Args) != 1 {
				stray = true
				continue
			}
			if _, dup := byPt[cs.Pt]; dup {
				return nil, "two writes in one statement"
			}
			pts = append(pts, cs.Pt)
			byPt[cs.Pt] = cs.Call.Args[0]
		}
		if stray {
			return nil, "the buffer is used by calls other than Write/Bytes"
		}
		// any other mention (address taken, passed on)?
		nMention := 0
		f.InspectOwn(func(n ast.Node) bool {
			if id, ok := n.(*ast.Ident); ok && f.Info().ObjectOf(id) == buf {
				nMention++
			}
			return true
		})
		if nMention != len(pts)+2 {
			return nil, "the buffer escapes or is used outside Write/Bytes"
		}
		if !c33ordered(f, pts) {
			return nil, "the writes are not in one straight-line order"
		}
		for _, p := range pts {
			if ok, _ := f.MustPassBefore([]core.Point{p}, rets[0]); !ok {
				return nil, "a write is skipped on some path"
			}
			pieces = append(pieces, byPt[p])
		}
		return pieces, ""
	}
	// form B
	var seq func(e ast.Expr, depth int) ([]ast.Expr, string)
	seq = func(e ast.Expr, depth int) ([]ast.Expr, string) {
		e = ast.Unparen(e)
		if depth > 8 {
			return nil, "append chain too deep"
		}
		if c33isEmpty(f, e) {
			return nil, ""
		}
		if ap := isCallTo(f, e, "builtin.append"); ap != nil {
			if len(ap.Args) != 2 || !ap.Ellipsis.IsValid() {
				return nil, "append of single bytes"
			}
			head, w := seq(ap.Args[0], depth+1)
			if w != "" {
				return nil, w
			}
			return append(head, ap.Args[1]), ""
		}
		if v := varOf(f, e); v != nil && v.Parent() != f.Pkg.Types.Scope() {
			defs := assignsToVar(f, v)
			var pts []core.Point
			by := map[core.Point]assignment{}
			for _, d := range defs {
				pts = append(pts, d.Pt)
				by[d.Pt] = d
			}
			if len(defs) == 0 || len(by) != len(defs) || !c33ordered(f, pts) {
				return nil, "the key variable is not built by one straight-line sequence of definitions"
			}
			var out []ast.Expr
			for i, p := range pts {
				d := by[p]
				if ok, _ := f.MustPassBefore([]core.Point{p}, rets[0]); !ok {
					return nil, "a definition of the key is skipped on some path"
				}
				if i == 0 {
					if _, isSpec := d.Stmt.(*ast.ValueSpec); d.RHS == nil && !isSpec {
						return nil, "unrecognised first definition"
					}
					if d.RHS != nil && !c33isEmpty(f, d.RHS) {
						h, w := seq(d.RHS, depth+1)
						if w != "" {
							return nil, w
						}
						out = h
					}
					continue
				}
				// k = append(...append(k, p1...)..., pn...)
				var tail []ast.Expr
				e := ast.Unparen(d.RHS)
				for varOf(f, e) != v {
					ap := isCallTo(f, e, "builtin.append")
					if ap == nil || len(ap.Args) != 2 || !ap.Ellipsis.IsValid() || len(tail) > 8 {
						return nil, "a later definition of the key is not k = append(k, piece...)"
					}
					tail = append([]ast.Expr{ap.Args[1]}, tail...)
					e = ast.Unparen(ap.Args[0])
				}
				out = append(out, tail...)
			}
			return out, ""
		}
		return nil, "unrecognised key construction " + exprStr(e)
	}
	return seq(res, 0)
}

// c33fullBytes: does the method return all bytes of its (array-typed) receiver? Follows
// "return T(h).Bytes()" delegation up to depth 3 and accepts "return h[:]".
func c33fullBytes(p *core.Prog, fn *types.Func, depth int) bool {
	f := p.FuncOf(fn)
	if f == nil || depth > 3 || f.Recv() == nil {
		return false
	}
	rets := f.ReturnPoints()
	if len(rets) == 0 {
		return false
	}
	n := c32arrayLen(f.Recv().Type())
	for _, rp := range rets {
		r := rp.Node().(*ast.ReturnStmt)
		if len(r.Results) != 1 {
			return false
		}
		e := ast.Unparen(r.Results[0])
		if se, ok := e.(*ast.SliceExpr); ok {
			if !c32fullOf(f, se, f.Recv(), n) {
				return false
			}
			continue
		}
		call, ok := e.(*ast.CallExpr)
		if !ok || len(call.Args) != 0 {
			return false
		}
		sel, ok := ast.Unparen(call.Fun).(*ast.SelectorExpr)
		if !ok {
			return false
		}
		base, _ := c32peel(f.Info(), sel.X)
		if varOf(f, base) != f.Recv() {
			return false
		}
		obj, _ := p.ResolveCallee(f.Info(), call)
		inner, _ := obj.(*types.Func)
		if inner == nil || c32arrayLen(f.Info().TypeOf(sel.X)) != n || !c33fullBytes(p, inner, depth+1) {
			return false
		}
	}
	return true
}

// c33litFields flattens a struct composite literal (nested struct literals included) into field name -> value.
func c33litFields(f *core.FuncInfo, cl *ast.CompositeLit, out map[string]ast.Expr) {
	t := f.Info().TypeOf(cl)
	if t == nil {
		return
	}
	st, ok := t.Underlying().(*types.Struct)
	if !ok {
		return
	}
	for i, el := range cl.Elts {
		var fld *types.Var
		val := el
		if kv, ok := el.(*ast.KeyValueExpr); ok {
			if id, ok := kv.Key.(*ast.Ident); ok {
				fld, _ = f.Info().ObjectOf(id).(*types.Var)
			}
			val = kv.Value
		} else if i < st.NumFields() {
			fld = st.Field(i)
		}
		if fld == nil {
			continue
		}
		out[f.P.FieldName(fld)] = val
		if inner, ok := ast.Unparen(val).(*ast.CompositeLit); ok {
			c33litFields(f, inner, out)
		}
	}
}

// c33boolFact matches the edge on which boolean variable v has the given value.
func c33boolFact(f *core.FuncInfo, v *types.Var, want bool) func(core.Fact) bool {
	return func(ft core.Fact) bool {
		if v == nil {
			return false
		}
		cm, ok := core.NormCmp(ft)
		if !ok {
			return false
		}
		if cm.R == nil {
			return varOf(f, cm.L) == v && (cm.Op == token.EQL) == want
		}
		// ok == true / ok != false
		l, r := cm.L, cm.R
		if varOf(f, r) == v {
			l, r = r, l
		}
		if varOf(f, l) != v {
			return false
		}
		if b, isC := core.ConstVal(f.Info(), r); isC && b.Kind() == constant.Bool {
			return ((cm.Op == token.EQL) == constant.BoolVal(b)) == want
		}
		return false
	}
}

// c33commaOK finds "x, ok := <call>" for the given call and returns both variables.
func c33commaOK(f *core.FuncInfo, call *ast.CallExpr) (val, ok *types.Var) {
	f.InspectOwn(func(n ast.Node) bool {
		if as, isAs := n.(*ast.AssignStmt); isAs && len(as.Rhs) == 1 && len(as.Lhs) == 2 && ast.Unparen(as.Rhs[0]) == ast.Expr(call) {
			val, ok = varOf(f, as.Lhs[0]), varOf(f, as.Lhs[1])
		}
		return true
	})
	return
}

// c33singleDef returns the only definition of v in f (nil if not exactly one).
func c33singleDef(f *core.FuncInfo, v *types.Var) *assignment {
	if v == nil {
		return nil
	}
	defs := assignsToVar(f, v)
	if len(defs) != 1 {
		return nil
	}
	return &defs[0]
}

func c33cacheCalls(f *core.FuncInfo, method string) []*core.CallSite {
	return f.CallsMatching(func(cs *core.CallSite) bool {
		return cs.Name == c33LRU+method && cs.Recv() != nil && fieldNameOf(f, cs.Recv()) == c33Cache
	})
}

func c33abftFuncs(p *core.Prog) []*core.FuncInfo {
	var out []*core.FuncInfo
	for _, f := range p.Funcs() {
		if core.RelPkg(f.Pkg.PkgPath) == "abft" {
			out = append(out, f)
		}
	}
	return out
}

type c33piece struct {
	role   string // canonical field name of the encoded field
	lo, hi int64
	enc    string // canonical callee of the encoder
	typ    types.Type
}

// ---------------------------------------------------------------------------

func runC33(c *core.Ctx) {
	p := c.P
	var layout []c33piece
	total := int64(0)

	c.Clause("C33.key.writer", func() {
		w := c.Fn("abft.rootRecordKey")
		rec := w.Param(0)
		c.Need(rec != nil, "rootRecordKey has a named parameter")
		pieces, why := c33concat(w)
		if why != "" {
			c.Undecided("rootRecordKey|concatenation", "T14 CodecPair", w.Pos(), "the key construction is not a recognised concatenation: "+why)
			return
		}
		off := int64(0)
		okAll := true
		for i, pc := range pieces {
			call, isCall := ast.Unparen(pc).(*ast.CallExpr)
			var sel *ast.SelectorExpr
			if isCall && len(call.Args) == 0 {
				sel, _ = ast.Unparen(call.Fun).(*ast.SelectorExpr)
			}
			if sel == nil {
				c.Undecided(fmt.Sprintf("rootRecordKey|piece %d", i), "T14 CodecPair", pc.Pos(), "key piece "+exprStr(pc)+" is not <field>.Bytes()")
				okAll = false
				break
			}
			root, path := fieldPath(w, sel.X)
			if len(path) == 0 || w.ObjOf(root) != types.Object(rec) {
				c.Fail(fmt.Sprintf("rootRecordKey|piece %d", i), "T14 CodecPair", pc.Pos(), "key piece "+exprStr(pc)+" is not a field of the record being stored")
				okAll = false
				break
			}
			role := path[len(path)-1]
			ft := w.Info().TypeOf(sel.X)
			obj, _ := p.ResolveCallee(w.Info(), call)
			fn, _ := obj.(*types.Func)
			width := int64(-1)
			switch {
			case fn == nil || fn.Name() != "Bytes":
			case c32uintBits(ft) != 0 && fn.Pkg() != nil && core.RelPkg(fn.Pkg().Path()) == c32IdxPkg:
				// idx types: Bytes() is the fixed-width big-endian form of Sizeof(T) bytes (decided by C32.idx)
				width = c32sizeof(w, ft)
			case c32arrayLen(ft) > 0 && c33fullBytes(p, fn, 0):
				width = c32arrayLen(ft)
			}
			if width <= 0 {
				c.Undecided("rootRecordKey|"+short(role)+" has a fixed width", "T15 ConstRelation", pc.Pos(), "the width of "+exprStr(pc)+" cannot be decided (not an inter/idx integer Bytes() nor an array returning all its bytes)")
				okAll = false
				break
			}
			layout = append(layout, c33piece{role, off, off + width, core.FuncName(fn), ft})
			off += width
		}
		if !okAll {
			layout = nil
			return
		}
		total = off
		roles := map[string]int{}
		var desc []string
		for _, l := range layout {
			roles[l.role]++
			desc = append(desc, fmt.Sprintf("%s[%d:%d]", short(l.role), l.lo, l.hi))
		}
		c.Check(len(layout) == 3 && roles[c33FFrame] == 1 && roles[c33FValid] == 1 && roles[c33FID] == 1, "rootRecordKey|key holds frame, validator and ID once each", "T14 CodecPair", w.Pos(),
			"key = "+strings.Join(desc, " ")+fmt.Sprintf(" (%d bytes)", total), "key = "+strings.Join(desc, " ")+": a root's frame, creator or ID is not recoverable from the key, or two different roots share a key")
		c.Check(len(layout) > 0 && layout[0].role == c33FFrame, "rootRecordKey|frame is the key prefix", "T14 CodecPair", w.Pos(), "the frame is encoded first: a prefix scan by frame selects exactly that frame's keys",
			"the frame is not the first key component: the prefix scan of GetFrameRoots selects other records")
	})

	c.Clause("C33.key.reader", func() {
		c.Need(len(layout) == 3, "writer layout decided (C33.key.writer)")
		g := c.Fn("abft.Store.GetFrameRoots")
		fp := g.Param(0)
		c.Need(fp != nil, "GetFrameRoots has a named frame parameter")
		// the scan
		var scan *core.CallSite
		for _, cs := range g.CallsTo(c33NewIt) {
			if cs.Recv() != nil && fieldNameOf(g, cs.Recv()) == c33Roots {
				c.Need(scan == nil, "one scan of the Roots table")
				scan = cs
			}
		}
		c.Need(scan != nil && len(scan.Call.Args) == 2, "GetFrameRoots scans Roots with NewIterator(prefix, start)")
		pfx, isCall := ast.Unparen(scan.Call.Args[0]).(*ast.CallExpr)
		okPfx := false
		if isCall && len(pfx.Args) == 0 {
			if sel, ok := ast.Unparen(pfx.Fun).(*ast.SelectorExpr); ok {
				okPfx = varOf(g, sel.X) == fp && calleeName(g, pfx) == layout[0].enc && len(assignsToVar(g, fp)) == 0
			}
		}
		c.Check(okPfx, "GetFrameRoots|scan prefix is the queried frame's encoding", "T14 CodecPair", scan.Pos(), "NewIterator("+exprStr(scan.Call.Args[0])+", ·): same encoder as the key's first component, applied to the frame parameter",
			"the scan prefix "+exprStr(scan.Call.Args[0])+" is not "+short(layout[0].enc)+"() of the frame parameter: roots of other frames are returned or roots of this frame are missed")
		c.Check(core.IsNil(g.Info(), scan.Call.Args[1]), "GetFrameRoots|scan starts at the beginning of the prefix", "T14 CodecPair", scan.Pos(), "start = nil", "the scan starts at "+exprStr(scan.Call.Args[1])+": roots with smaller keys are skipped")
		// it / key variables
		itVar := errVarOfCall(g, scan.Call) // single-LHS assignment: returns that variable
		c.Need(itVar != nil && c33singleDef(g, itVar) != nil, "the iterator is held in a variable defined once")
		// the decoding, in GetFrameRoots itself or in the one helper the key is handed to (inlined view):
		// from here on g is the function that holds the decoding and keyVar the key in it
		view, why := c33decodeView(g, itVar)
		c.Need(view != nil, "the iterator key is decoded into an election.RootAndSlot literal in GetFrameRoots or in one helper it hands the key to ("+why+")")
		g, keyVar, lit := view.D, view.Key, view.Lit
		vals := map[string]ast.Expr{}
		c33litFields(g, lit, vals)
		for _, pc := range layout {
			name := "GetFrameRoots|" + short(pc.role) + " decoded from the bytes the writer put there"
			v, ok := vals[pc.role]
			if !ok {
				c.Fail(name, "T14 CodecPair", lit.Pos(), short(pc.role)+" of the returned root is not set from the key: roots come back with a zero "+short(pc.role))
				continue
			}
			call, isCall := ast.Unparen(v).(*ast.CallExpr)
			if !isCall || len(call.Args) != 1 {
				c.Undecided(name, "T14 CodecPair", v.Pos(), exprStr(v)+" is not decoder(key[lo:hi])")
				continue
			}
			obj, _ := p.ResolveCallee(g.Info(), call)
			fn, _ := obj.(*types.Func)
			if fn == nil {
				c.Undecided(name, "T14 CodecPair", v.Pos(), "decoder does not resolve statically")
				continue
			}
			sig := fn.Type().(*types.Signature)
			decOK := sig.Recv() == nil && sig.Params().Len() == 1 && c32isByteSlice(sig.Params().At(0).Type()) && sig.Results().Len() == 1 && types.Identical(sig.Results().At(0).Type(), pc.typ)
			if decOK {
				// the decoder must be the inverse of the encoder: idx decoders are decided by C32; for the event ID the trusted inverse is hash.BytesToEvent
				switch {
				case c32uintBits(pc.typ) != 0:
					decOK = fn.Pkg() != nil && core.RelPkg(fn.Pkg().Path()) == c32IdxPkg
				default:
					decOK = core.FuncName(fn) == "hash.BytesToEvent"
				}
			}
			if !decOK {
				c.Fail(name, "T14 CodecPair", v.Pos(), fmt.Sprintf("%s is decoded with %s, which is not the inverse of %s (result type %s expected)", short(pc.role), core.FuncName(fn), short(pc.enc), pc.typ))
				continue
			}
			se, isSl := ast.Unparen(call.Args[0]).(*ast.SliceExpr)
			if !isSl || varOf(g, se.X) != keyVar {
				c.Fail(name, "T14 CodecPair", v.Pos(), "the decoded bytes "+exprStr(call.Args[0])+" are not a slice of the iterator key")
				continue
			}
			lo, hi, okb := c32bounds(g.Info(), se, total)
			if !okb {
				c.Undecided(name, "T15 ConstRelation", v.Pos(), "non-constant slice bounds "+exprStr(se))
				continue
			}
			c.Check(lo == pc.lo && hi == pc.hi, name, "T14 CodecPair + T15 ConstRelation", v.Pos(), fmt.Sprintf("%s(key[%d:%d]) — the writer put %s there", fn.Name(), lo, hi, short(pc.enc)),
				fmt.Sprintf("reads key[%d:%d] but the writer put %s at key[%d:%d]: roots come back with a wrong %s", lo, hi, short(pc.role), pc.lo, pc.hi, short(pc.role)))
		}
		// key length tests use the total width
		nLen := 0
		for _, b := range g.CFG().Blocks {
			cond := g.BranchCond(b)
			if !b.Live || cond == nil {
				continue
			}
			for _, ft := range core.Decompose(cond, true) {
				lc, ok := core.NormLinCmp(g.Info(), ft, func(e ast.Expr) string {
					if ln := isCallTo(g, e, "builtin.len"); ln != nil && len(ln.Args) == 1 && varOf(g, ln.Args[0]) == keyVar {
						return "keylen"
					}
					return ""
				})
				if !ok || len(lc.Form.Coef) != 1 || lc.Form.Coef["keylen"] == nil {
					continue
				}
				nLen++
				if lc.Op == "<=" {
					c.Note("C33: ordered key-length comparison %s in GetFrameRoots is not decided", lc.String())
					continue
				}
				want := core.ParseLinCmp(fmt.Sprintf("keylen - %d %s 0", total, lc.Op))
				c.Check(lc.Equal(want), "GetFrameRoots|key length test uses the writer's total width", "T15 ConstRelation", cond.Pos(), fmt.Sprintf("len(key) is compared with %d = sum of the three widths", total),
					fmt.Sprintf("len(key) is compared with a constant other than %d (normal form %s): every well-formed key is reported as corrupt, or malformed keys pass", total, lc.String()))
			}
		}
		c.Note("C33: %d key-length comparison(s) in GetFrameRoots; writer total = %d bytes", nLen, total)
	})

	c.Clause("C33.register", func() {
		add := c.Fn("abft.Store.addRoot")
		// who touches the Roots table
		allowed := map[string]map[string]bool{
			"abft.Store.addRoot":       {kvPut: true},
			"abft.Store.GetFrameRoots": {c33NewIt: true},
		}
		nUse := 0
		for _, f := range c33abftFuncs(p) {
			recvOf := map[ast.Expr]*core.CallSite{}
			for _, cs := range f.Calls() {
				if r := cs.Recv(); r != nil {
					recvOf[ast.Unparen(r)] = cs
				}
			}
			f.InspectOwn(func(n ast.Node) bool {
				sel, ok := n.(*ast.SelectorExpr)
				if !ok || fieldNameOf(f, sel) != c33Roots {
					return true
				}
				nUse++
				cs := recvOf[sel]
				switch {
				case cs == nil:
					c.Fail(short(f.Name)+"|Roots table escapes", "T6 WhoMayCall", sel.Pos(), "the Roots table is used other than as a call receiver in "+short(f.Name)+": records can be written or removed behind the cache")
				case !allowed[f.Name][cs.Name]:
					c.Fail(short(f.Name)+"|"+short(cs.Name)+" on the Roots table", "T6 WhoMayCall", sel.Pos(), short(f.Name)+" calls "+short(cs.Name)+" on the Roots table; only addRoot (Put) and GetFrameRoots (NewIterator) may touch it, otherwise cached lists and stored records diverge")
				default:
					c.Pass(short(f.Name)+"|"+short(cs.Name)+" on the Roots table", "T6 WhoMayCall", "allowed access")
				}
				return true
			})
		}
		c.ExpectAtLeast("uses of the Roots table", nUse, 2)

		frameP := add.ParamNamed("frame")
		rootP := add.Param(0)
		if frameP == nil {
			// resolve by type: the idx.Frame parameter
			for i := 0; add.Param(i) != nil; i++ {
				if nt, ok := add.Param(i).Type().(*types.Named); ok && nt.Obj().Name() == "Frame" {
					frameP = add.Param(i)
				}
			}
		}
		for i := 0; add.Param(i) != nil; i++ {
			if _, isIface := add.Param(i).Type().Underlying().(*types.Interface); isIface {
				rootP = add.Param(i)
			}
		}
		// the record may be built in addRoot from (root, frame) or be handed to it ready-made by its callers
		var recP *types.Var
		for i := 0; add.Param(i) != nil; i++ {
			if nt, ok := add.Param(i).Type().(*types.Named); ok && p.ObjName(nt.Obj()) == "abft/election.RootAndSlot" && len(assignsToVar(add, add.Param(i))) == 0 {
				recP = add.Param(i)
			}
		}
		if recP != nil {
			frameP, rootP = nil, nil
		}
		c.Need(recP != nil || (frameP != nil && rootP != nil), "addRoot(root dag.Event, frame idx.Frame) or addRoot(record)")
		var puts []*core.CallSite
		for _, cs := range add.CallsTo(kvPut) {
			if cs.Recv() != nil && fieldNameOf(add, cs.Recv()) == c33Roots {
				puts = append(puts, cs)
			}
		}
		c.Need(len(puts) == 1 && len(puts[0].Call.Args) == 2, "addRoot puts one record")
		put := puts[0]
		keyCall := isCallTo(add, put.Call.Args[0], "abft.rootRecordKey")
		c.Need(keyCall != nil && len(keyCall.Args) == 1, "the record key is rootRecordKey(&r)")
		arg := ast.Unparen(keyCall.Args[0])
		if u, ok := arg.(*ast.UnaryExpr); ok && u.Op == token.AND {
			arg = ast.Unparen(u.X)
		}
		recVar := varOf(add, arg)
		// isFrame: does e denote the frame the root is registered under — the frame parameter, or (record
		// handed in) the Slot.Frame of the unmodified record, possibly held in a local defined once?
		var isFrame func(e ast.Expr) bool
		if recP == nil {
			def := c33singleDef(add, recVar)
			c.Need(def != nil && def.RHS != nil, "the record is a local variable defined once")
			cl, _ := ast.Unparen(def.RHS).(*ast.CompositeLit)
			c.Need(cl != nil, "the record is built by a composite literal")
			vals := map[string]ast.Expr{}
			c33litFields(add, cl, vals)
			isRootCall := func(e ast.Expr, method string) bool {
				call := isCallTo(add, e, "inter/dag.Event."+method)
				if call == nil {
					return false
				}
				sel, ok := ast.Unparen(call.Fun).(*ast.SelectorExpr)
				return ok && varOf(add, sel.X) == rootP
			}
			c.Check(vals[c33FFrame] != nil && varOf(add, vals[c33FFrame]) == frameP && len(assignsToVar(add, frameP)) == 0, "addRoot|record frame = frame parameter", "provenance", cl.Pos(), "Slot.Frame is the frame the root is registered under", "the stored record's frame is not the frame parameter: the root is returned for a different frame")
			c.Check(vals[c33FValid] != nil && isRootCall(vals[c33FValid], "Creator"), "addRoot|record validator = root.Creator()", "provenance", cl.Pos(), "Slot.Validator is the creator of the registered event", "the stored record's validator is not root.Creator()")
			c.Check(vals[c33FID] != nil && isRootCall(vals[c33FID], "ID"), "addRoot|record ID = root.ID()", "provenance", cl.Pos(), "ID is the registered event's ID", "the stored record's ID is not root.ID()")
			isFrame = func(e ast.Expr) bool { return e != nil && varOf(add, e) == frameP }
		} else {
			c.Need(recVar == recP, "the stored record is the record parameter")
			// nothing in addRoot changes the record it was handed
			for _, a := range assignments(add) {
				root, depth := ast.Unparen(a.LHS), 0
				for {
					switch y := root.(type) {
					case *ast.SelectorExpr:
						root, depth = ast.Unparen(y.X), depth+1
						continue
					case *ast.IndexExpr:
						root, depth = ast.Unparen(y.X), depth+1
						continue
					}
					break
				}
				c.Need(!(depth > 0 && varOf(add, root) == recP), "addRoot does not modify the record it is handed")
			}
			isFrame = func(e ast.Expr) bool {
				if e == nil {
					return false
				}
				root, path := fieldPath(add, e)
				return len(path) >= 1 && path[len(path)-1] == c33FFrame && varOf(add, root) == recP
			}
			// every caller builds the record from the registered event: creator and ID of one and the same
			// event, and a frame (the frame the root is thereby registered under)
			nCallers := 0
			for _, cf := range c33abftFuncs(p) {
				for _, cs := range cf.CallsTo(add.Name) {
					nCallers++
					pi := c24paramIndex(add, recP)
					var cl *ast.CompositeLit
					if pi >= 0 && pi < len(cs.Call.Args) {
						e := ast.Unparen(cs.Call.Args[pi])
						if lv := varOf(cf, e); lv != nil {
							if d := c33singleDef(cf, lv); d != nil && d.RHS != nil {
								e = ast.Unparen(d.RHS)
							}
						}
						cl, _ = e.(*ast.CompositeLit)
					}
					if cl == nil {
						c.Undecided(short(cf.Name)+"|record handed to addRoot", "provenance", cs.Pos(), "the record passed to addRoot is not a composite literal built at the call")
						continue
					}
					vals := map[string]ast.Expr{}
					c33litFields(cf, cl, vals)
					evOf := func(e ast.Expr, method string) *types.Var {
						call := isCallTo(cf, e, "inter/dag.Event."+method)
						if call == nil {
							return nil
						}
						sel, ok := ast.Unparen(call.Fun).(*ast.SelectorExpr)
						if !ok {
							return nil
						}
						return varOf(cf, sel.X)
					}
					ev := evOf(vals[c33FValid], "Creator")
					c.Check(vals[c33FFrame] != nil, "addRoot|record frame = frame parameter", "provenance", cl.Pos(), "the caller sets Slot.Frame: the frame the root is registered (stored and cached) under", "the record handed to addRoot has no frame: every root is registered under frame 0")
					c.Check(ev != nil, "addRoot|record validator = root.Creator()", "provenance", cl.Pos(), "Slot.Validator is the creator of the registered event", "the stored record's validator is not root.Creator()")
					c.Check(ev != nil && evOf(vals[c33FID], "ID") == ev, "addRoot|record ID = root.ID()", "provenance", cl.Pos(), "ID is the registered event's ID", "the stored record's ID is not the ID() of the event whose creator it carries")
				}
			}
			c.ExpectAtLeast("callers handing a record to addRoot", nCallers, 1)
		}

		// cache maintenance (in place or through accessor methods of the store: inlined view)
		gets := c33cacheOps(add, "Get")
		adds := c33cacheOps(add, "Add")
		rems := c33cacheOps(add, "Remove")
		var okVar, cVar *types.Var
		var getOp c33op
		for _, gop := range gets {
			if isFrame(gop.Key) {
				cVar, okVar = gop.ValVar, gop.OkVar
				getOp = gop
			}
		}
		for _, r := range rems {
			c.Check(isFrame(r.Key), "addRoot|cache Remove uses the registered frame", "T7 Pairing", r.Site.Pos(), "the invalidated entry is the registered frame's", "a different frame's cache entry is removed: the registered frame's cached list stays stale")
		}
		for _, a := range adds {
			c.Need(a.Key != nil && a.Val != nil, "Cache.Add(key, value, weight)")
			c.Check(isFrame(a.Key), "addRoot|cache Add uses the registered frame", "T7 Pairing", a.Site.Pos(), "the updated entry is the registered frame's", "the extended list is cached under a different frame")
			g, wit := false, []core.Point(nil)
			if okVar != nil {
				g, wit = add.GuardedBy(a.Site.Pt, c33boolFact(add, okVar, true))
			}
			c.Check(g, "addRoot|cache Add only when the frame is cached", "T4 GuardedBy", a.Site.Pos(), "Add is reached only on the Get-ok edge: an uncached frame stays uncached and is read from the database",
				"the cache can be filled for a frame that is not cached: the entry holds only the new root, earlier roots of the frame are lost to readers; path "+add.DescribePath(wit))
			// the value: cached list + exactly this record
			why := c33cachedPlus(add, a, getOp, cVar, recVar)
			c.Check(why == "", "addRoot|cached list extended by the stored record", "T7 Pairing", a.Site.Pos(), "value = append(<cached list of the frame>, <the record just stored>)", "the list written to the cache is not the cached list plus the stored record: "+why)
		}
		// every path from the Put on which the frame is cached updates or invalidates the entry
		var upd []core.Point
		upd = append(upd, c33opPoints(adds)...)
		upd = append(upd, c33opPoints(rems)...)
		c.Need(okVar != nil || len(rems) > 0, "addRoot consults the cache (Get(frame) with comma-ok) or invalidates the frame")
		var missEdge func(b *cfg.Block, s int) bool
		if okVar != nil {
			missEdge = add.GuardEdges(c33boolFact(add, okVar, false))
		}
		wit, found := core.PathQuery{F: add, From: put.Pt, FromAfter: true, Avoid: core.PointSet(upd...), AvoidEdge: missEdge, TargetExit: true}.Find()
		okBefore := false
		if found {
			// alternatively the update happens before the Put on every path
			_, f2 := core.PathQuery{F: add, From: add.Entry(), Target: core.PointSet(put.Pt), Avoid: core.PointSet(upd...), AvoidEdge: missEdge}.Find()
			okBefore = !f2
		}
		c.Check(!found || okBefore, "addRoot|Put paired with cache update when the frame is cached", "T7 Pairing", put.Pos(), "every path through the Put either finds the frame uncached or extends/removes its cached list",
			"a root can be stored while the frame's cached list is left unchanged: GetFrameRoots keeps returning the list without it; path "+add.DescribePath(wit))
	})

	c.Clause("C33.query", func() {
		g := c.Fn("abft.Store.GetFrameRoots")
		fp := g.Param(0)
		c.Need(fp != nil, "frame parameter")
		// hit path
		var hitVal, hitOK *types.Var
		// (cache operations in place or through accessor methods of the store: inlined view)
		for _, gop := range c33cacheOps(g, "Get") {
			if gop.Key != nil && varOf(g, gop.Key) == fp {
				hitVal, hitOK = gop.ValVar, gop.OkVar
			}
		}
		addOps := c33cacheOps(g, "Add")
		c.ExpectAtLeast("cache fills in GetFrameRoots", len(addOps), 1)
		var listVar *types.Var
		var adds []*core.CallSite
		for _, a := range addOps {
			c.Need(a.Key != nil && a.Val != nil, "Cache.Add(key, value, weight)")
			adds = append(adds, a.Site)
			c.Check(varOf(g, a.Key) == fp && len(assignsToVar(g, fp)) == 0, "GetFrameRoots|cache filled under the queried frame", "T7 Pairing", a.Site.Pos(), "Add(f, ·) with f the queried frame", "the scan result is cached under a different frame")
			v := varOf(g, a.Val)
			c.Need(v != nil && (listVar == nil || listVar == v), "the cached value is one list variable")
			listVar = v
		}
		c.Need(listVar != nil, "list variable")
		// the scan loop
		var scan *core.CallSite
		for _, cs := range g.CallsTo(c33NewIt) {
			if cs.Recv() != nil && fieldNameOf(g, cs.Recv()) == c33Roots {
				scan = cs
			}
		}
		c.Need(scan != nil, "scan of the Roots table")
		itVar := errVarOfCall(g, scan.Call)
		c.Need(itVar != nil, "iterator variable")
		// definitions of the list: one empty, the others append(list, rec) inside the loop
		var emptyDefs, appDefs []assignment
		for _, d := range assignsToVar(g, listVar) {
			if ap := isCallTo(g, d.RHS, "builtin.append"); ap != nil {
				appDefs = append(appDefs, d)
				continue
			}
			if (d.RHS != nil || c33isValueSpec(d.Stmt)) && c33isEmpty(g, d.RHS) {
				emptyDefs = append(emptyDefs, d)
				continue
			}
			c.Fail("GetFrameRoots|list definitions", "T2 Dominates", d.Stmt.Pos(), "the result list is assigned "+exprStr(d.RHS)+": it does not start empty / is not built only from the scan")
			return
		}
		c.Need(len(emptyDefs) >= 1 && len(appDefs) == 1, "list := empty; list = append(list, rec) once in the loop")
		app := appDefs[0]
		ap := isCallTo(g, app.RHS, "builtin.append")
		loop := enclosingLoop(g, app.Stmt.Pos())
		fs, _ := loop.(*ast.ForStmt)
		c.Need(fs != nil && fs.Cond != nil, "the append is inside a for it.Next() loop")
		nextCall := isCallTo(g, fs.Cond, c33ItNext)
		okNext := false
		if nextCall != nil {
			if sel, ok := ast.Unparen(nextCall.Fun).(*ast.SelectorExpr); ok {
				okNext = varOf(g, sel.X) == itVar
			}
		}
		c.Check(okNext && fs.Init == nil, "GetFrameRoots|loop runs while the scan iterator has entries", "T2 Dominates (loop)", fs.Pos(), "for it.Next() over the Roots scan", "the loop condition is not it.Next() of the Roots scan: entries are skipped or the loop stops early")
		// appended element: the decoded record
		okRec := false
		if len(ap.Args) == 2 && !ap.Ellipsis.IsValid() && varOf(g, ap.Args[0]) == listVar {
			// the record literal built from the current key, here or in the decoding helper (inlined view)
			if view, _ := c33decodeView(g, itVar); view != nil {
				okRec = c33yieldsRecord(g, view, ap.Args[1])
				if okRec && view.Call != nil {
					// the helper is called once per entry: inside this loop's body
					okRec = enclosingLoop(g, view.Call.Pos()) == loop
				}
			}
		}
		c.Check(okRec, "GetFrameRoots|each entry appends its decoded record", "T7 Pairing", app.Stmt.Pos(), "list = append(list, <record decoded from the key>)", "the appended element is not the record decoded from the current key")
		head, _ := g.LoopOf(loop)
		done, complete := loopDone(g, loop)
		c.Need(head != nil && done != nil, "loop blocks")
		c.Check(complete, "GetFrameRoots|scan loop has no early exit", "T2 Dominates (loop)", fs.Pos(), "the loop's exit is reached only when it.Next() is false", "the scan loop can be left early (break/goto): a partial list would be cached and returned for ever")
		bodyEntry := core.Point{B: head.Succs[0], I: 0}
		_, skip := core.PathQuery{F: g, From: bodyEntry, Target: func(pt core.Point) bool { return pt.B == head }, Avoid: core.PointSet(app.Pt)}.Find()
		c.Check(!skip, "GetFrameRoots|every scanned entry is appended", "T2 Dominates (loop)", fs.Pos(), "no path through the loop body reaches the next entry without the append", "an entry of the scan can be skipped (continue): the cached list misses a registered root")
		okEmpty, _ := g.MustPassBefore(pointsOfAssign(emptyDefs), core.Point{B: head, I: 0})
		for _, ed := range emptyDefs {
			if g.CanReach(app.Pt, ed.Pt) {
				okEmpty = false // reset inside / after the loop body
			}
		}
		c.Check(okEmpty, "GetFrameRoots|list starts empty before the loop", "T2 Dominates", emptyDefs[0].Stmt.Pos(), "the list is empty when the scan starts", "the list is not reset before the scan")
		errNil := g.GuardEdges(func(ft core.Fact) bool {
			cm, ok := core.NormCmp(ft)
			if !ok || cm.R == nil || cm.Op != token.EQL {
				return false
			}
			l, r := cm.L, cm.R
			if core.IsNil(g.Info(), l) {
				l, r = r, l
			}
			if !core.IsNil(g.Info(), r) {
				return false
			}
			e := ast.Unparen(l)
			if v := varOf(g, e); v != nil {
				if d := c33singleDef(g, v); d != nil && d.RHS != nil {
					e = ast.Unparen(d.RHS)
				}
			}
			call := isCallTo(g, e, c33ItErr)
			if call == nil {
				return false
			}
			sel, ok := ast.Unparen(call.Fun).(*ast.SelectorExpr)
			return ok && varOf(g, sel.X) == itVar
		})
		crits := core.Points(g.CallsTo(c33Crit))
		for _, a := range adds {
			ok, wit := mustPassBlockBefore(g, done, a.Pt)
			c.Check(ok, "GetFrameRoots|cache filled only after the complete scan", "T2 Dominates (loop exit)", a.Pos(), "the loop's exit dominates the cache fill", "the cache can be filled before the scan is complete: path "+g.DescribePath(wit))
			w2, found := core.PathQuery{F: g, From: blockEntry(done), Target: core.PointSet(a.Pt), Avoid: core.PointSet(crits...), AvoidEdge: errNil}.Find()
			if a.Pt.B == done {
				// same block: no branch between loop exit and Add => no error test at all
				found, w2 = true, []core.Point{a.Pt}
			}
			c.Check(!found, "GetFrameRoots|iterator error never reaches the cache fill silently", "T4 GuardedBy", a.Pos(), "between loop exit and the cache fill every path takes the it.Error() == nil edge or reports through crit",
				"a scan that stopped on an iterator error is cached as the frame's complete root list (no it.Error()==nil edge and no crit on path "+g.DescribePath(w2)+")")
		}
		// returns: cached value only on the hit edge, otherwise the scanned list
		nRet := 0
		for _, rp := range g.ReturnPoints() {
			r := rp.Node().(*ast.ReturnStmt)
			c.Need(len(r.Results) == 1, "explicit result")
			nRet++
			e := ast.Unparen(r.Results[0])
			if ta, ok := e.(*ast.TypeAssertExpr); ok {
				e = ast.Unparen(ta.X)
			}
			switch v := varOf(g, e); {
			case v != nil && v == hitVal:
				ok, wit := g.GuardedBy(rp, c33boolFact(g, hitOK, true))
				c.Check(ok, "GetFrameRoots|cached list returned only on a cache hit", "T4 GuardedBy", r.Pos(), "the cached value is returned on the Get-ok edge", "the Get result is returned without a hit: nil/garbage list; path "+g.DescribePath(wit))
			case v != nil && v == listVar:
				ok, wit := mustPassBlockBefore(g, done, rp)
				c.Check(ok, "GetFrameRoots|scanned list returned only after the complete scan", "T2 Dominates (loop exit)", r.Pos(), "the loop's exit dominates the return of the scanned list", "a partial list can be returned: "+g.DescribePath(wit))
			default:
				c.Fail("GetFrameRoots|return value", "provenance", r.Pos(), "returns "+exprStr(r.Results[0])+", neither the cached list nor the scanned list")
			}
		}
		c.ExpectAtLeast("returns of GetFrameRoots", nRet, 1)
	})

	c.Clause("C33.epoch", func() {
		nInst := 0
		for _, f := range c33abftFuncs(p) {
			var installs []core.Point
			var pos []token.Pos
			var what []string
			for _, a := range assignsToField(f, c33EpochDB) {
				installs, pos, what = append(installs, a.Pt), append(pos, a.Stmt.Pos()), append(what, "epochDB assignment")
			}
			for _, cs := range f.CallsTo("kvdb/table.MigrateTables") {
				if len(cs.Call.Args) != 2 {
					continue
				}
				u, ok := ast.Unparen(cs.Call.Args[0]).(*ast.UnaryExpr)
				if !ok || u.Op != token.AND || fieldNameOf(f, u.X) != c33EpochT {
					continue
				}
				if core.IsNil(f.Info(), cs.Call.Args[1]) {
					continue // uninstall (Close)
				}
				installs, pos, what = append(installs, cs.Pt), append(pos, cs.Pos()), append(what, "MigrateTables(&epochTable, db)")
			}
			if len(installs) == 0 {
				continue
			}
			purges := core.Points(c33cacheCalls(f, "Purge"))
			for _, a := range assignsToField(f, c33Cache) {
				purges = append(purges, a.Pt) // a fresh cache object is as good as a purge
			}
			for i, in := range installs {
				nInst++
				ok, wit := len(purges) > 0, []core.Point(nil)
				if ok {
					ok, wit = f.MustPassBefore(purges, in)
				}
				c.Check(ok, short(f.Name)+"|"+what[i]+" after FrameRoots.Purge", "T2 Dominates", pos[i], "the roots cache is purged before the new epoch database is installed", "a new epoch database is installed while the roots cache still holds the previous epoch's lists: GetFrameRoots returns roots of the old epoch; path "+f.DescribePath(wit))
			}
		}
		c.ExpectAtLeast("epoch database installation sites", nInst, 2)
		// drop is followed by open on the success path
		nDrop := 0
		for _, f := range c33abftFuncs(p) {
			for _, d := range f.CallsTo("abft.Store.dropEpochDB") {
				nDrop++
				opens := core.Points(f.CallsTo("abft.Store.openEpochDB"))
				ev := errVarOfCall(f, d.Call)
				var failEdge func(b *cfg.Block, s int) bool
				if ev != nil {
					failEdge = f.GuardEdges(varNilFact(f, ev, false))
				}
				wit, found := core.PathQuery{F: f, From: d.Pt, FromAfter: true, Avoid: core.PointSet(opens...), AvoidEdge: failEdge, TargetExit: true}.Find()
				c.Check(!found, short(f.Name)+"|dropEpochDB followed by openEpochDB", "T3 PostDominates", d.Pos(), "after a successful drop every path opens (and thereby purges for) the next epoch database", "the epoch database can be dropped without the roots cache being purged/reopened: path "+f.DescribePath(wit))
			}
		}
		c.ExpectAtLeast("dropEpochDB call sites", nDrop, 1)
	})

	c.Clause("C33.owners", func() {
		allowed := map[string]map[string]bool{
			"abft.Store.initCache":     {"=": true},
			"abft.Store.openEpochDB":   {"Purge": true},
			"abft.Store.addRoot":       {"Get": true, "Add": true, "Remove": true},
			"abft.Store.GetFrameRoots": {"Get": true, "Add": true},
		}
		nUses := 0
		for _, f := range c33abftFuncs(p) {
			recvOf := map[ast.Expr]*core.CallSite{}
			for _, cs := range f.Calls() {
				if r := cs.Recv(); r != nil {
					recvOf[ast.Unparen(r)] = cs
				}
			}
			lhs := map[ast.Expr]bool{}
			for _, a := range assignments(f) {
				lhs[ast.Unparen(a.LHS)] = true
			}
			inner := map[ast.Expr]bool{} // selectors that are the X of a further field selection
			f.InspectOwn(func(n ast.Node) bool {
				if sel, ok := n.(*ast.SelectorExpr); ok {
					inner[ast.Unparen(sel.X)] = true
				}
				return true
			})
			f.InspectOwn(func(n ast.Node) bool {
				sel, ok := n.(*ast.SelectorExpr)
				if !ok {
					return true
				}
				switch fieldNameOf(f, sel) {
				case c33Cache:
					nUses++
					use := "escapes"
					if cs := recvOf[sel]; cs != nil && strings.HasPrefix(cs.Name, c33LRU) {
						use = cs.Name[len(c33LRU):]
					} else if lhs[sel] {
						use = "="
					}
					okUse := allowed[f.Name][use]
					if !okUse && use == "=" && c33underConstruction(f, sel) {
						// the constructor equips the store it has just created (initCache spelled in place):
						// the object is not published yet, no root can have been registered in it
						okUse = true
					}
					if !okUse && f.Parent == nil {
						// an accessor of the cache (one Get/Add/Remove on its own parameters, nothing else) is the
						// operation of its callers: allowed when every caller may perform that operation itself
						// (the callers' use is then judged through the accessor by C33.register / C33.query)
						if acc, isAcc := c33accessor(f); isAcc && acc.op == use {
							nCallers := 0
							okUse = true
							for _, cf := range c33abftFuncs(p) {
								for _, cs := range cf.Calls() {
									if fn, isF := cs.Callee.(*types.Func); isF && p.FuncOf(fn) == f {
										nCallers++
										top := cf
										for top.Parent != nil {
											top = top.Parent
										}
										if cf.Parent != nil || !allowed[top.Name][use] {
											okUse = false
										}
									}
								}
							}
							okUse = okUse && nCallers > 0
						}
					}
					c.Check(okUse, short(f.Name)+"|FrameRoots "+use, "T6 WhoMayWrite", sel.Pos(), "allowed use of the roots cache", short(f.Name)+" uses cache.FrameRoots ("+use+"); only initCache (=), openEpochDB (Purge), addRoot (Get/Add/Remove) and GetFrameRoots (Get/Add) may: any other writer can leave a list that is not the frame's complete root set")
				case c33CacheSt:
					if !inner[sel] {
						// the whole cache struct is handed out (reflection): harmless when every cache field is
						// thereby set to nil (MigrateCaches with a producer that only returns nil: no list
						// survives, a later use fails loudly instead of serving stale roots); otherwise only
						// the terminal Close, or a helper reachable from nowhere but Close, may do that
						okOut, how := c33cacheHandout(f, sel)
						c.Check(okOut, short(f.Name)+"|whole cache struct handed out", "T6 WhoMayWrite", sel.Pos(), how, short(f.Name)+" hands out the whole cache struct ("+how+"): FrameRoots can be replaced behind the registry")
					}
				}
				return true
			})
		}
		c.ExpectAtLeast("uses of cache.FrameRoots", nUses, 1)
	})

	c33CacheAdd(c)
}

func c33isValueSpec(n ast.Node) bool { _, ok := n.(*ast.ValueSpec); return ok }

// c33cachedPlus: is the value argument of the cache Add "the cached list (type-asserted Get result) plus exactly rec"?
func c33cachedPlus(f *core.FuncInfo, addOp, getOp c33op, cVar, rec *types.Var) string {
	if cVar == nil || rec == nil || addOp.Val == nil {
		return "no Get(frame) result / stored record to relate the value to"
	}
	add := struct{ Pt core.Point }{addOp.Site.Pt}
	// (a Get accessor hands back the list already type-asserted: the variable itself is the cached list)
	isCached := func(e ast.Expr) bool {
		if getOp.Typed {
			return varOf(f, e) == cVar
		}
		ta, ok := ast.Unparen(e).(*ast.TypeAssertExpr)
		return ok && varOf(f, ta.X) == cVar
	}
	isGetDef := func(v *types.Var, d assignment) bool {
		return getOp.Typed && v == cVar && d.RHS != nil && getOp.Site != nil && ast.Unparen(d.RHS) == ast.Expr(getOp.Site.Call)
	}
	val := ast.Unparen(addOp.Val)
	isPlus := func(e ast.Expr, self *types.Var) bool {
		ap := isCallTo(f, e, "builtin.append")
		if ap == nil || len(ap.Args) != 2 || ap.Ellipsis.IsValid() || varOf(f, ap.Args[1]) != rec {
			return false
		}
		return isCached(ap.Args[0]) || (self != nil && varOf(f, ap.Args[0]) == self)
	}
	if isPlus(val, nil) {
		return ""
	}
	v := varOf(f, val)
	if v == nil {
		return "value " + exprStr(val) + " is not a list variable or append(cached, record)"
	}
	var base, plus []core.Point
	for _, d := range assignsToVar(f, v) {
		switch {
		case d.RHS != nil && (isGetDef(v, d) || (isCached(d.RHS) && !(getOp.Typed && v == cVar))):
			base = append(base, d.Pt)
		case d.RHS != nil && isPlus(d.RHS, v):
			plus = append(plus, d.Pt)
		default:
			return "the list variable is also assigned " + exprStr(d.RHS)
		}
	}
	if len(plus) == 1 && len(base) == 0 {
		// list := append(cached.(T), rec)
		d := assignsToVar(f, v)[0]
		if ap := isCallTo(f, d.RHS, "builtin.append"); ap != nil && isCached(ap.Args[0]) && !f.CanReach(plus[0], plus[0]) {
			if ok, _ := f.MustPassBefore(plus, add.Pt); ok {
				return ""
			}
		}
	}
	if len(plus) != 1 || len(base) != 1 {
		return fmt.Sprintf("%d definitions from the cached list and %d appends of the record (expected one each)", len(base), len(plus))
	}
	if ok, _ := f.MustPassBefore(base, plus[0]); !ok {
		return "the append does not start from the cached list on every path"
	}
	if ok, _ := f.MustPassBefore(plus, add.Pt); !ok {
		return "the record is not appended on every path to the cache Add"
	}
	if _, over := (core.PathQuery{F: f, From: plus[0], FromAfter: true, Target: core.PointSet(add.Pt), Avoid: func(pt core.Point) bool { return false }}.Find()); !over {
		return "the append does not reach the Add"
	}
	if _, redo := (core.PathQuery{F: f, From: plus[0], FromAfter: true, Target: core.PointSet(base...)}.Find()); redo && f.CanReach(base[0], add.Pt) {
		// a re-definition from the cached list after the append would drop the record
		if ok, _ := f.MustPassBetween(base[0], plus, add.Pt); !ok {
			return "the list is reset to the cached list after the append"
		}
	}
	if f.CanReach(plus[0], plus[0]) {
		return "the record is appended in a loop"
	}
	return ""
}
