package rules

import (
	"go/ast"

	"lachk/core"
)

// c05BFork decides the first conjunct of the definition at the level of operand provenance: the query
// ForklessCause(a, b) must refuse when A's ancestry shows a fork by *B's creator*. In the inlined view
// of ForklessCause (its own body and the vecfc functions it reaches through static calls, parameters
// bound to arguments) there has to be a fork-flag test X.Get(K).IsForkDetected() such that
//
//	X originates from GetHighestBefore(<first parameter>)    (A's merged view), and
//	K originates from GetEventBranchID(<second parameter>)   (the branch B was filed under),
//
// and no branch lookup of the view may be made for an event other than the two query parameters. Which
// locals hold the values, and whether the test sits in ForklessCause, forklessCause or a predicate
// helper, does not matter.
func c05BFork(c *core.Ctx) {
	root := c.Fn(vfIdx + ".ForklessCause")
	a, b := root.Param(0), root.Param(1)
	c.Need(a != nil && b != nil, "ForklessCause(a, b) has two named parameters")
	inVecfc := func(g *core.FuncInfo) bool { return core.RelPkg(g.Pkg.PkgPath) == "vecfc" }
	const depth = 4
	isHB := func(name string) bool { return methodNamed(name, "GetHighestBefore") }
	isBr := func(name string) bool { return methodNamed(name, "GetEventBranchID") }
	stop := func(name string) bool { return isHB(name) || isBr(name) }
	// origin call of e, with the variable of the root function its first argument denotes
	originOf := func(fr *c05Frame, e ast.Expr) (name string, argIsA, argIsB bool) {
		ofr, call := c05OriginX(fr, e, stop)
		if call == nil || len(call.Args) != 1 {
			return "", false, false
		}
		return calleeName(ofr.F, call), c05IsRootVar(ofr, call.Args[0], a), c05IsRootVar(ofr, call.Args[0], b)
	}
	tests := c05Sites(root, depth, inVecfc, func(fr *c05Frame, cs *core.CallSite) bool {
		return methodNamed(cs.Name, "IsForkDetected") && cs.Recv() != nil
	})
	c.ExpectAtLeast("fork-flag tests in the forkless-cause query", len(tests), 1)
	found := false
	for _, t := range tests {
		gfr, gx := c05Resolve(t.Fr, t.CS.Recv())
		get, ok := ast.Unparen(gx).(*ast.CallExpr)
		if !ok || !methodNamed(calleeName(gfr.F, get), "Get") || len(get.Args) != 1 {
			continue
		}
		sel, ok := ast.Unparen(get.Fun).(*ast.SelectorExpr)
		if !ok {
			continue
		}
		vn, vIsA, _ := originOf(gfr, sel.X)
		kn, _, kIsB := originOf(gfr, get.Args[0])
		if isHB(vn) && vIsA && isBr(kn) && kIsB {
			found = true
		}
	}
	// the offending construct, for the report: a branch lookup made for something other than b
	pos, why := root.Pos(), "no test of the fork flag of B's branch in A's highest-before vector exists"
	lookups := c05Sites(root, depth, inVecfc, func(fr *c05Frame, cs *core.CallSite) bool { return isBr(cs.Name) && len(cs.Call.Args) == 1 })
	okLookups := true
	for _, l := range lookups {
		lfr, lx := l.Arg(0)
		if !c05IsRootVar(lfr, lx, b) {
			okLookups = false
			pos, why = l.CS.Pos(), "the branch whose fork flag is tested is looked up for an event other than B (the second query parameter) in "+short(l.Fr.F.Name)
		}
	}
	c.Check(found && okLookups, "fork of B's creator seen by A refuses the query", "provenance (inlined view: operands of the fork-flag test)", pos,
		"GetHighestBefore(a).Get(GetEventBranchID(b)).IsForkDetected() is tested (operands read back through locals, helpers and parameter bindings)",
		why+": ForklessCause(a, b) then answers true although A's ancestry shows a fork by B's creator (both fork events are forkless-caused), and may answer false because of a fork by another creator")
}
