package rules

import (
	"go/ast"
	"go/constant"
	"go/token"
	"go/types"
	"sort"

	"golang.org/x/tools/go/cfg"

	"lachk/core"
)

// C21.parallel — scenario evaluation of DetectParallelInstance.
//
// The property gives the result as a truth table over two tests:
//
//	before = ExternalSelfEventCreated.Before(Startup)      (the self-event is older than startup)
//	recent = Since(ExternalSelfEventCreated) < threshold   (it is younger than the threshold)
//	result = !before && recent
//
// Instead of matching one spelling (if/return, `return !c && x`, a switch, named locals, a predicate
// helper …) the rule evaluates the function under each of the four scenarios: branch conditions and
// returned expressions are evaluated in three-valued logic over the two tests (looked through
// single-definition locals, parameters bound in the inlined view of helpers / local closures), a condition
// that is neither true nor false in the scenario is followed both ways, and every return that is
// reachable in the scenario has to yield the value the table prescribes. A branch on a condition the
// table does not know (e.g. an extra early exit) therefore shows up as a reachable return with the
// wrong value.

type c21Tri int8

const (
	c21Unknown c21Tri = 0
	c21True    c21Tri = 1
	c21False   c21Tri = -1
)

func c21TriOf(b bool) c21Tri {
	if b {
		return c21True
	}
	return c21False
}

func (t c21Tri) String() string {
	switch t {
	case c21True:
		return "true"
	case c21False:
		return "false"
	}
	return "unknown"
}

// c21Eval evaluates boolean expressions and whole function bodies under a scenario (an assignment of
// truth values to named tests). atom recognises a test: it returns the test's name and whether the
// expression is its negation.
type c21Eval struct {
	sc   map[string]bool
	atom func(fr *c21Frame, e ast.Expr) (name string, neg bool, ok bool)
}

// c21Outcome is one return reachable under the scenario.
type c21Outcome struct {
	Val     c21Tri
	Pt      core.Point
	Path    []core.Point
	Unknown []ast.Expr // conditions on the way that the scenario does not decide (followed both ways)
}

func (ev *c21Eval) expr(fr *c21Frame, e ast.Expr, depth int) c21Tri {
	if e == nil || depth > 12 {
		return c21Unknown
	}
	e = ast.Unparen(e)
	if cv, ok := core.ConstVal(fr.F.Info(), e); ok && cv.Kind() == constant.Bool {
		return c21TriOf(constant.BoolVal(cv))
	}
	switch x := e.(type) {
	case *ast.UnaryExpr:
		if x.Op == token.NOT {
			return -ev.expr(fr, x.X, depth+1)
		}
	case *ast.BinaryExpr:
		switch x.Op {
		case token.LAND, token.LOR:
			l, r := ev.expr(fr, x.X, depth+1), ev.expr(fr, x.Y, depth+1)
			if x.Op == token.LOR {
				l, r = -l, -r
			}
			// Kleene conjunction
			v := c21Unknown
			switch {
			case l == c21False || r == c21False:
				v = c21False
			case l == c21True && r == c21True:
				v = c21True
			}
			if x.Op == token.LOR {
				v = -v
			}
			return v
		case token.EQL, token.NEQ:
			// b == true, b != false, a == b over booleans
			if c21IsBool(fr.F, x.X) && c21IsBool(fr.F, x.Y) {
				l, r := ev.expr(fr, x.X, depth+1), ev.expr(fr, x.Y, depth+1)
				if l == c21Unknown || r == c21Unknown {
					return c21Unknown
				}
				return c21TriOf((l == r) == (x.Op == token.EQL))
			}
		}
	}
	if name, neg, ok := ev.atom(fr, e); ok {
		if val, known := ev.sc[name]; known {
			return c21TriOf(val != neg)
		}
		return c21Unknown
	}
	// a local / parameter standing for a larger expression
	if fr2, r := c21Resolve(fr, e); r != e || fr2 != fr {
		return ev.expr(fr2, r, depth+1)
	}
	// a predicate helper (declared function or local closure): evaluate its body in the inlined view
	if call, ok := e.(*ast.CallExpr); ok {
		if sub := c21EnterCall(fr, call); sub != nil {
			outs := ev.run(sub, depth+1)
			v := c21Unknown
			for i, o := range outs {
				if i == 0 {
					v = o.Val
				} else if o.Val != v {
					return c21Unknown
				}
			}
			return v
		}
	}
	return c21Unknown
}

func c21IsBool(f *core.FuncInfo, e ast.Expr) bool {
	tv, ok := f.Info().Types[e]
	if !ok || tv.Type == nil {
		return false
	}
	b, isBasic := tv.Type.Underlying().(*types.Basic)
	return isBasic && b.Info()&types.IsBoolean != 0
}

// c21EnterCall builds the frame of a call to a module function / local closure made in frame fr
// (nil for foreign calls, recursion, or more than three frames deep).
func c21EnterCall(fr *c21Frame, call *ast.CallExpr) *c21Frame {
	n := 0
	for up := fr; up != nil; up = up.Up {
		n++
	}
	if n > 3 {
		return nil
	}
	for _, cs := range fr.F.Calls() {
		if cs.Call != call || cs.InGo || cs.InDefer || cs.IsConv {
			continue
		}
		g := c21Callee(fr, cs)
		if g == nil {
			return nil
		}
		for up := fr; up != nil; up = up.Up {
			if up.F == g {
				return nil
			}
		}
		return c21Enter(fr, cs, g)
	}
	return nil
}

// run explores the body of the frame's function under the scenario and lists the reachable returns
// with the value of their (single) result.
func (ev *c21Eval) run(fr *c21Frame, depth int) []c21Outcome {
	f := fr.F
	var outs []c21Outcome
	seen := map[*cfg.Block]bool{}
	var walk func(b *cfg.Block, path []core.Point, unk []ast.Expr)
	walk = func(b *cfg.Block, path []core.Point, unk []ast.Expr) {
		if seen[b] {
			return
		}
		seen[b] = true
		for i, n := range b.Nodes {
			if r, ok := n.(*ast.ReturnStmt); ok {
				o := c21Outcome{Pt: core.Point{B: b, I: i}, Unknown: append([]ast.Expr(nil), unk...)}
				o.Path = append(append([]core.Point(nil), path...), o.Pt)
				if len(r.Results) == 1 {
					o.Val = ev.expr(fr, r.Results[0], depth+1)
				}
				outs = append(outs, o)
				return
			}
		}
		here := append(append([]core.Point(nil), path...), core.Point{B: b, I: len(b.Nodes)})
		if cond := f.BranchCond(b); cond != nil {
			switch ev.expr(fr, cond, depth+1) {
			case c21True:
				walk(b.Succs[0], here, unk)
			case c21False:
				walk(b.Succs[1], here, unk)
			default:
				u := append(append([]ast.Expr(nil), unk...), cond)
				walk(b.Succs[0], here, u)
				walk(b.Succs[1], here, u)
			}
			return
		}
		for _, s := range b.Succs {
			walk(s, here, unk)
		}
	}
	walk(f.CFG().Blocks[0], nil, nil)
	sort.SliceStable(outs, func(i, j int) bool { return posOf(outs[i].Pt) < posOf(outs[j].Pt) })
	return outs
}

func c21ParallelClause(c *core.Ctx) {
	f := c.Fn(dsP + "DetectParallelInstance")
	status, threshold := f.Param(0), f.Param(1)
	c.Need(status != nil && threshold != nil, "DetectParallelInstance(s, threshold)")
	if n, _ := c19AssignCount(f, status); n != 0 {
		c.Need(false, "the status parameter is not reassigned")
	}
	if n, _ := c19AssignCount(f, threshold); n != 0 {
		c.Need(false, "the threshold parameter is not reassigned")
	}
	for _, g := range append([]*core.FuncInfo{f}, allLits(f)...) {
		for _, a := range assignments(g) {
			if root, path := fieldPath(g, a.LHS); len(path) > 0 && varOf(g, root) == status {
				c.Need(false, "the status is not modified before it is tested")
			}
		}
	}
	view := &c21View{status: status, threshold: threshold}
	const created = "ExternalSelfEventCreated"
	atom := func(fr *c21Frame, e ast.Expr) (string, bool, bool) {
		fr2, r := c21Resolve(fr, e)
		if call, ok := r.(*ast.CallExpr); ok && len(call.Args) == 1 {
			if sel, isSel := ast.Unparen(call.Fun).(*ast.SelectorExpr); isSel {
				switch calleeName(fr2.F, call) {
				case "time.Time.Before":
					if view.statusField(fr2, sel.X) == created && view.statusField(fr2, call.Args[0]) == "Startup" {
						return "before", false, true
					}
				case "time.Time.After":
					if view.statusField(fr2, sel.X) == "Startup" && view.statusField(fr2, call.Args[0]) == created {
						return "before", false, true
					}
				}
			}
		}
		if be, ok := r.(*ast.BinaryExpr); ok {
			ft := core.Fact{Expr: be, Truth: true}
			if view.recent(fr2, created)(ft) {
				return "recent", false, true
			}
			if view.notRecent(fr2, created)(ft) {
				return "recent", true, true
			}
		}
		return "", false, false
	}
	root := &c21Frame{F: f}
	type row struct {
		construct, pass, fail string
		scs                   []map[string]bool
	}
	rows := []row{
		{"event created before startup is not a parallel instance", "with Created.Before(Startup) every reachable return yields false",
			"a self-event older than startup can be reported as a parallel instance",
			[]map[string]bool{{"before": true, "recent": true}, {"before": true, "recent": false}}},
		{"an external event at least threshold old is not a parallel instance", "with since(created) >= threshold every reachable return yields false",
			"a self-event that is threshold or more in the past is reported as a parallel instance",
			[]map[string]bool{{"before": false, "recent": false}}},
		{"parallel instance iff the external event is younger than the threshold", "with the event not older than startup and since(created) < threshold every reachable return yields true",
			"a self-event that is not older than startup and younger than the threshold is not reported: the running parallel instance goes unnoticed",
			[]map[string]bool{{"before": false, "recent": true}}},
	}
	for _, rw := range rows {
		ok, decided := true, true
		detail := ""
		var at token.Pos = f.Pos()
		for _, sc := range rw.scs {
			want := c21TriOf(!sc["before"] && sc["recent"])
			ev := &c21Eval{sc: sc, atom: atom}
			outs := ev.run(root, 0)
			if len(outs) == 0 {
				decided = false
				detail = "no return is reachable in the scenario"
			}
			for _, o := range outs {
				if o.Val == want {
					continue
				}
				r := o.Pt.Node().(*ast.ReturnStmt)
				at = r.Pos()
				d := "return at " + f.DescribePath([]core.Point{o.Pt}) + " yields " + o.Val.String() + " (table: " + want.String() + ") when created-before-startup is " + c21TriOf(sc["before"]).String() + " and since(created) < threshold is " + c21TriOf(sc["recent"]).String() + "; path " + f.DescribePath(o.Path)
				if len(o.Unknown) > 0 {
					var cs []string
					for _, u := range o.Unknown {
						cs = append(cs, "`"+exprStr(u)+"`")
					}
					d += "; reached over " + joinStr(cs) + ", which is not one of the two tests of the property"
				}
				if o.Val == c21Unknown {
					if ok {
						decided, detail = false, d
					}
				} else {
					ok, detail = false, d
				}
			}
		}
		switch {
		case !ok:
			c.Fail(rw.construct, "T8 DecisionTable (scenario evaluation)", at, rw.fail+": "+detail)
		case !decided:
			c.Undecided(rw.construct, "T8 DecisionTable (scenario evaluation)", at, "the result cannot be evaluated over the two tests of the property: "+detail)
		default:
			c.Pass(rw.construct, "T8 DecisionTable (scenario evaluation)", rw.pass)
		}
	}
}
