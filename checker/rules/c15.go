package rules

import (
	"go/ast"
	"go/token"
	"go/types"
	"math/big"

	"lachk/core"
)

const (
	c15Pkg      = "gossip/dagprocessor"
	c15Proc     = c15Pkg + ".Processor"
	c15SemF     = c15Proc + ".eventsSemaphore"
	c15CbF      = c15Proc + ".callback"
	c15EventF   = c15Pkg + ".Callback.Event"
	c15RelCB    = c15Pkg + ".EventCallback.Released"
	c15Highest  = c15Pkg + ".Callback.HighestLamport"
	c15SemT     = "utils/datasemaphore.DataSemaphore"
	c15Release  = c15SemT + ".Release"
	c15Acquire  = c15SemT + ".Acquire"
	c15WEnqueue = "utils/workers.Workers.Enqueue"
	c15Push     = "gossip/dagordering.EventsBuffer.PushEvent"
	c15EvSize   = "inter/dag.Event.Size"
	c15EvLamp   = "inter/dag.Event.Lamport"
	c15MetricT  = "inter/dag.Metric"
	c15EvMetric = "inter/dag.Events.Metric"
)

func init() {
	register("C15", "other", "T6 WhoMayCall, T2 Dominates, T5 ExactlyOneOf, T4 GuardedBy with the linear normaliser, T16b SiblingAgreement (acquire/release metric), T3 PostDominates (error exits), T20 CounterInvariant (forward data flow of index - call count)",
		"Decides the structural conditions of the event processor's release/semaphore contract: the Released callback handed to the ordering buffer and the one process() calls are the same closure made in New, which releases dag.Metric{1, size of that event} exactly once on every path and forwards to the nil-guarded user callback saved before the overwrite; nobody else in the package releases or acquires; Enqueue acquires the Metric() of the very batch its tasks iterate, and Events.Metric is len / sum of e.Size(), i.e. the per-event release amounts add up to the acquired amount; every path of process() does exactly one of Released(event) / buffer.PushEvent(event); PushEvent is reached only for a passing check and only when NOT(Lamport > HighestLamport()+1+EventsBufferLimit.Num) (normalised), the other edge releases with an error; worker tasks are enqueued only after a successful Acquire and every exit of Enqueue on which a task was not enqueued gives the acquired amount back; Stop closes quit, terminates the semaphore and waits for the workers before it clears the buffer; batch order (C15.order): a check result carries its event's index in the batch, the ordered mode keeps a received result under its own pos, and at every process() call of the ordered mode the result handed on is the one at index N = number of process() calls the task has made so far (a linear invariant 'index - N = 0' established by a forward data-flow analysis over the task's CFG, independent of how the drain loop is written). New, Enqueue (with its task literals), process, Stop and Events.Metric are analysed as inlined views: the task bodies, the give-back, the acquire, the far-future test or the releasing closure may live in helper methods of the package (a helper that only those functions call is part of their view and is not a caller of its own); a named condition stands for the comparison it was defined as; a deferred call in Stop runs at the exit, in reverse order of the defer statements; Events.Metric may accumulate the size in a local that is copied into the result after the loop; the arguments of Enqueue may be grouped in a record built once by a composite literal whose members are never assigned afterwards (a member read stands for the value the literal was built with), a task body may be a method called as the last statement of the task literal (its deferred calls then run at the same moment), and process() may receive the event and the check's error as two parameters or as one check result record (members e / err, never assigned after the record is built). The far-future comparison must not pass an operand through a narrowing or sign-changing integer conversion (int counts as 32 bits): the normalised comparison is only valid over the whole Lamport range when every conversion preserves values. NOT decided: the numeric balance of the semaphore over a history (needs the runtime amounts), and what happens to batches in flight when quit is closed (the property excludes them).",
		[]string{"application callbacks are opaque", "the ordering buffer releases every pushed event exactly once (C14)", "DataSemaphore bookkeeping (C30)", "Lamport arithmetic does not wrap uint32"},
		runC15)
}

// ---------------------------------------------------------------------------
// helpers (c15 prefix)

// c15PkgFuncs returns every function and literal of the package, once.
func c15PkgFuncs(p *core.Prog, rel string) []*core.FuncInfo {
	seen := map[*core.FuncInfo]bool{}
	var out []*core.FuncInfo
	var walk func(f *core.FuncInfo)
	walk = func(f *core.FuncInfo) {
		if seen[f] {
			return
		}
		seen[f] = true
		out = append(out, f)
		for _, l := range c10Lits(f) {
			walk(l)
		}
	}
	for _, f := range p.FuncsInPkg(rel) {
		walk(f)
	}
	return out
}

// c15Root returns the outermost enclosing declared function of f.
func c15Root(f *core.FuncInfo) *core.FuncInfo {
	for f.Parent != nil {
		f = f.Parent
	}
	return f
}

type c15Def struct {
	F *core.FuncInfo
	A assignment
}

// c15DefsOf lists every assignment to the local variable v in the declared function enclosing f and
// in all its nested literals (a captured variable can be written from any of them).
func c15DefsOf(f *core.FuncInfo, v *types.Var) []c15Def {
	var out []c15Def
	var walk func(g *core.FuncInfo)
	walk = func(g *core.FuncInfo) {
		for _, a := range assignsToVar(g, v) {
			out = append(out, c15Def{g, a})
		}
		for _, l := range c10Lits(g) {
			walk(l)
		}
	}
	walk(c15Root(f))
	return out
}

// c15SingleDef returns the unique defining expression of a local (non-parameter) variable, or nil.
func c15SingleDef(f *core.FuncInfo, v *types.Var) (ast.Expr, *c15Def) {
	if v == nil || v.IsField() {
		return nil, nil
	}
	defs := c15DefsOf(f, v)
	if len(defs) != 1 {
		return nil, nil
	}
	d := defs[0]
	if d.A.RHS == nil || (d.A.Tok != token.DEFINE && d.A.Tok != token.ASSIGN) {
		return nil, nil
	}
	if as, ok := d.A.Stmt.(*ast.AssignStmt); ok && len(as.Lhs) != len(as.Rhs) {
		return nil, nil
	}
	if _, ok := d.A.Stmt.(*ast.RangeStmt); ok {
		return nil, nil
	}
	return d.A.RHS, &d
}

// c15Through follows single-definition local copies: x := y; ... x  ->  y.
func c15Through(f *core.FuncInfo, e ast.Expr) ast.Expr {
	for i := 0; i < 6; i++ {
		e = ast.Unparen(e)
		v := varOf(f, e)
		if v == nil {
			return e
		}
		rhs, _ := c15SingleDef(f, v)
		if rhs == nil {
			return e
		}
		e = rhs
	}
	return e
}

// c15ExpandLin replaces atoms that are single-definition locals by the linear form of their definition.
func c15ExpandLin(f *core.FuncInfo, l *core.Lin, namer core.AtomNamer) {
	for depth := 0; depth < 8; depth++ {
		changed := false
		for k, e := range l.Atom {
			rhs, _ := c15SingleDef(f, varOf(f, e))
			if rhs == nil {
				continue
			}
			sub := core.Linearize(f.Info(), rhs, namer)
			coef := new(big.Int).Set(l.Coef[k])
			delete(l.Coef, k)
			delete(l.Atom, k)
			for k2, c2 := range sub.Coef {
				add := new(big.Int).Mul(c2, coef)
				if cur, ok := l.Coef[k2]; ok {
					cur.Add(cur, add)
					if cur.Sign() == 0 {
						delete(l.Coef, k2)
						delete(l.Atom, k2)
					}
				} else if add.Sign() != 0 {
					l.Coef[k2] = add
					l.Atom[k2] = sub.Atom[k2]
				}
			}
			l.C.Add(l.C, new(big.Int).Mul(sub.C, coef))
			changed = true
			break
		}
		if !changed {
			return
		}
	}
}

// c15LinFact normalises an integer comparison fact, looking through single-definition locals.
func c15LinFact(f *core.FuncInfo, ft core.Fact, namer core.AtomNamer) (core.LinCmp, bool) {
	// a named condition (`tooFar := a > b; if tooFar`) stands for the comparison it was defined as
	if rhs, _ := c15SingleDef(f, varOf(f, ft.Expr)); rhs != nil {
		ft.Expr = rhs
	}
	lc, ok := core.NormLinCmp(f.Info(), ft, namer)
	if !ok {
		return lc, false
	}
	c15ExpandLin(f, lc.Form, namer)
	return lc, true
}

// c15StructFields returns the field-name -> value map of a composite literal of a struct type
// (keyed or positional). ok is false for anything else.
func c15StructFields(f *core.FuncInfo, e ast.Expr) (map[string]ast.Expr, *ast.CompositeLit, bool) {
	e = ast.Unparen(e)
	if u, ok := e.(*ast.UnaryExpr); ok && u.Op == token.AND {
		e = ast.Unparen(u.X)
	}
	cl, ok := e.(*ast.CompositeLit)
	if !ok {
		return nil, nil, false
	}
	tv, ok := f.Info().Types[cl]
	if !ok {
		return nil, nil, false
	}
	st, ok := tv.Type.Underlying().(*types.Struct)
	if !ok {
		return nil, nil, false
	}
	out := map[string]ast.Expr{}
	for i, el := range cl.Elts {
		if kv, ok := el.(*ast.KeyValueExpr); ok {
			id, ok := kv.Key.(*ast.Ident)
			if !ok {
				return nil, nil, false
			}
			v, _ := f.Info().ObjectOf(id).(*types.Var)
			if v == nil {
				return nil, nil, false
			}
			out[f.P.FieldName(v)] = kv.Value
			continue
		}
		if i >= st.NumFields() {
			return nil, nil, false
		}
		out[f.P.FieldName(st.Field(i))] = el
	}
	return out, cl, true
}

func c15TypeName(t types.Type) string {
	if pt, ok := t.(*types.Pointer); ok {
		t = pt.Elem()
	}
	if n, ok := t.(*types.Named); ok && n.Obj().Pkg() != nil {
		return core.RelPkg(n.Obj().Pkg().Path()) + "." + n.Obj().Name()
	}
	return ""
}

// c15IsEventSize: e is (a conversion of) <ev>.Size() through the dag.Event interface.
func c15IsEventSize(f *core.FuncInfo, e ast.Expr, ev *types.Var) bool {
	return ev != nil && c15IsSizeOf(f, e, func(x ast.Expr) bool { return varOf(f, c15Through(f, x)) == ev })
}

// c15IsSizeOf: e is (a conversion of) <x>.Size() through the dag.Event interface, for an x accepted by isEv.
func c15IsSizeOf(f *core.FuncInfo, e ast.Expr, isEv func(ast.Expr) bool) bool {
	if e == nil {
		return false
	}
	call := isCallTo(f, core.StripConv(f.Info(), c15Through(f, core.StripConv(f.Info(), e))), c15EvSize)
	if call == nil {
		return false
	}
	sel, ok := ast.Unparen(call.Fun).(*ast.SelectorExpr)
	return ok && isEv(sel.X)
}

// c15SamePath: the expression is a field chain root.path with the given root variable and path.
// (the root may be a single-definition copy of the variable: `v := root; v.a.b`)
func c15SamePath(f *core.FuncInfo, e ast.Expr, root *types.Var, path []string) bool {
	r, p := fieldPath(f, e)
	if root == nil || (varOf(f, r) != root && varOf(f, c15Through(f, r)) != root) || len(p) != len(path) {
		return false
	}
	for i := range p {
		if p[i] != path[i] {
			return false
		}
	}
	return true
}

func c15PathEndsWith(path []string, suffix ...string) bool {
	if len(path) < len(suffix) {
		return false
	}
	off := len(path) - len(suffix)
	for i := range suffix {
		if path[off+i] != suffix[i] {
			return false
		}
	}
	return true
}

// c15BoolFact matches "<expr> is true/false" where pred recognises the (bare boolean) expression.
func c15BoolFact(want bool, pred func(ast.Expr) bool) func(core.Fact) bool {
	return func(ft core.Fact) bool {
		cm, ok := core.NormCmp(ft)
		if !ok || cm.R != nil {
			return false
		}
		return (cm.Op == token.EQL) == want && pred(cm.L)
	}
}

// c15Wrapper is what C15.wrap establishes and the other clauses reuse.
type c15Wrapper struct {
	lit      *core.FuncInfo // the releasing closure
	cbVar    *types.Var     // New's callback variable whose Event.Released is overwritten
	assignPt core.Point     // point of the overwrite
}

// c15View gives the inlined view of a function of the processor: helper methods it calls are seen as part
// of its body (process stays a call: the rules count its call sites).
func c15View(f *core.FuncInfo) *core.FuncInfo { return c10Inlined(f, c15Proc+".process") }

// c15Funcs lists the functions and literals of the package with New, Enqueue, process and Stop replaced
// by their inlined views (helpers that only those call are part of the views and not listed).
func c15Funcs(p *core.Prog) []*core.FuncInfo {
	var views []*core.FuncInfo
	for _, n := range []string{c15Pkg + ".New", c15Proc + ".Enqueue", c15Proc + ".process", c15Proc + ".Stop"} {
		if f := p.Func(n); f != nil {
			views = append(views, c15View(f))
		}
	}
	return c10PkgView(p, c15Pkg, views...)
}

func runC15(c *core.Ctx) {
	p := c.P
	var wrap c15Wrapper

	// semExpr: is e the processor's events semaphore (the field, or the variable New stores into it)?
	semVars := map[*types.Var]bool{}
	isSem := func(f *core.FuncInfo, e ast.Expr) bool {
		if e == nil {
			return false
		}
		if fieldNameOf(f, e) == c15SemF {
			return true
		}
		v := varOf(f, e)
		return v != nil && semVars[v]
	}

	c.Clause("C15.wrap", func() {
		c.Fld(c15SemF)
		c.Fld(c15RelCB)
		c.Fld(c15CbF)
		newF := c15View(c.Fn(c15Pkg + ".New"))
		// which variables of New are stored into the eventsSemaphore field
		for _, a := range assignsToField(newF, c15SemF) {
			if v := varOf(newF, a.RHS); v != nil {
				semVars[v] = true
			}
		}
		newF.InspectOwn(func(n ast.Node) bool {
			if cl, ok := n.(*ast.CompositeLit); ok && c15TypeName(newF.Info().Types[cl].Type) == c15Proc {
				if flds, _, ok := c15StructFields(newF, cl); ok {
					if v := varOf(newF, flds[c15SemF]); v != nil {
						semVars[v] = true
					}
				}
			}
			return true
		})

		ord := newF.CallsTo("gossip/dagordering.New")
		c.Need(len(ord) == 1 && len(ord[0].Call.Args) == 2, "New calls dagordering.New(limit, callback) once")
		flds, _, ok := c15StructFields(newF, c15Through(newF, ord[0].Call.Args[1]))
		c.Need(ok, "the ordering buffer's callback is a dagordering.Callback composite literal")
		relExpr := flds["gossip/dagordering.Callback.Released"]
		if relExpr == nil {
			c.Fail("buffer Released is the releasing closure", "T6 provenance", ord[0].Pos(), "the ordering buffer gets no Released callback: events it drops, spills or finishes are never reported released and their semaphore amount is never given back")
			return
		}
		// resolve the value to a function literal: follow single-definition locals (remembering where the
		// value was read), then the unique assignment to the member that reaches that read
		var lit *ast.FuncLit
		readPt := ord[0].Pt
		val := ast.Unparen(relExpr)
		for i := 0; i < 4; i++ {
			rhs, d := c15SingleDef(newF, varOf(newF, val))
			if rhs == nil || d.F != newF {
				break
			}
			val, readPt = ast.Unparen(rhs), d.A.Pt
		}
		if l, ok := val.(*ast.FuncLit); ok {
			lit = l
		} else if root, path := fieldPath(newF, val); len(path) > 0 && varOf(newF, root) != nil {
			rv := varOf(newF, root)
			var hits []assignment
			for _, a := range assignments(newF) {
				r2, p2 := fieldPath(newF, a.LHS)
				if varOf(newF, r2) != rv || len(p2) > len(path) {
					continue
				}
				// an assignment to the member itself or to a prefix of it (callback.Event = ..., callback = ...) redefines the value
				prefix := true
				for i := range p2 {
					if p2[i] != path[i] {
						prefix = false
					}
				}
				if prefix {
					hits = append(hits, a)
				}
			}
			reaching := 0
			for _, h := range hits {
				if newF.CanReach(h.Pt, readPt) {
					reaching++
				}
			}
			if len(hits) == 1 && hits[0].Tok == token.ASSIGN && reaching == 1 {
				if l, ok := ast.Unparen(c15Through(newF, hits[0].RHS)).(*ast.FuncLit); ok {
					if dom, _ := newF.MustPassBefore([]core.Point{hits[0].Pt}, readPt); dom {
						lit = l
						wrap.cbVar = rv
						wrap.assignPt = hits[0].Pt
					}
				}
			}
			if lit == nil && reaching == 0 {
				c.Fail("buffer Released is the releasing closure", "T6 provenance", ord[0].Pos(), "the ordering buffer receives "+exprStr(val)+" as it came from the caller (read before any closure of New replaced it), not a closure that releases the semaphore: every event the buffer drops, spills or finishes keeps its semaphore amount")
				return
			}
		}
		if lit == nil {
			c.Undecided("buffer Released is the releasing closure", "T6 provenance", ord[0].Pos(), "cannot identify the function stored as the ordering buffer's Released callback ("+exprStr(relExpr)+") as a single closure created in New before dagordering.New")
			return
		}
		w := c10LitInfo(newF, lit)
		c.Need(w != nil, "literal is indexed")
		wrap.lit = w
		c.Pass("buffer Released is the releasing closure", "T6 provenance", "dagordering.Callback.Released is the closure "+short(w.Name)+" assigned in New before the buffer is built")

		// the callback process() uses (f.callback.Event.Released) is the same closure: the Processor.callback
		// field is stored from the same variable after the overwrite
		nStore := 0
		storeOK := func(rhs ast.Expr, pt core.Point, pos token.Pos) {
			nStore++
			ok := wrap.cbVar != nil && varOf(newF, rhs) == wrap.cbVar
			if ok {
				ok, _ = newF.MustPassBefore([]core.Point{wrap.assignPt}, pt)
			}
			c.Check(ok, "Processor.callback holds the releasing closure", "T2 Dominates", pos,
				"the callback struct stored in the processor is copied after its Released member was replaced by the releasing closure",
				"Processor.callback is stored before (or not from) the callback whose Released was wrapped: process() then reports failed and far-future events through the user's callback directly and their semaphore amount is never released")
		}
		for _, a := range assignsToField(newF, c15CbF) {
			storeOK(a.RHS, a.Pt, a.Stmt.Pos())
		}
		newF.InspectOwn(func(n ast.Node) bool {
			if cl, ok := n.(*ast.CompositeLit); ok && c15TypeName(newF.Info().Types[cl].Type) == c15Proc {
				if flds, _, ok := c15StructFields(newF, cl); ok && flds[c15CbF] != nil {
					pt, _ := newF.PointOf(cl)
					storeOK(flds[c15CbF], pt, cl.Pos())
				}
			}
			return true
		})
		c.ExpectAtLeast("stores to Processor.callback in New", nStore, 1)
		for _, f := range c15Funcs(p) {
			if c15Root(f) == newF {
				continue
			}
			for _, a := range assignments(f) {
				_, path := fieldPath(f, a.LHS)
				if len(path) > 0 && path[0] == c15CbF {
					c.Fail("write of Processor.callback in "+short(f.Name), "T6 WhoMayWrite", a.Stmt.Pos(), "the processor's callback is replaced outside New: the releasing closure can be bypassed")
				}
			}
		}

		// body of the closure: Release(dag.Metric{1, size of this event}) exactly once on every path
		ev := w.Param(0)
		c.Need(ev != nil, "the closure names its event parameter")
		rels := w.CallsMatching(func(cs *core.CallSite) bool { return cs.Name == c15Release && isSem(w, cs.Recv()) })
		if len(rels) == 0 {
			c.Fail("closure releases the semaphore", "T2 Dominates", w.Pos(), "the Released closure never calls eventsSemaphore.Release: the amount acquired for every event stays held and the semaphore fills up for good")
			return
		}
		okAll := true
		var wit []core.Point
		for _, rp := range w.ReturnPoints() {
			if ok, pth := w.MustPassBefore(core.Points(rels), rp); !ok {
				okAll, wit = false, pth
			}
		}
		c.Check(okAll, "closure releases the semaphore", "T2 Dominates", w.Pos(),
			"eventsSemaphore.Release is passed on every path of the Released closure",
			"a path of the Released closure returns without eventsSemaphore.Release ("+w.DescribePath(wit)+"): the event's amount stays held")
		once := true
		for _, a := range rels {
			for _, b := range rels {
				if w.CanReach(a.Pt, b.Pt) {
					once = false
				}
			}
		}
		c.Check(once, "closure releases at most once", "T5 AtMostOnce", w.Pos(), "no path of the closure releases twice", "a path of the Released closure calls Release twice: the held amount drops below what is really in flight (over-release zeroes it) and the capacity bound is lost")
		for _, r := range rels {
			okM := false
			if len(r.Call.Args) == 1 {
				if mf, cl, ok := c15StructFields(w, c15Through(w, r.Call.Args[0])); ok && c15TypeName(w.Info().Types[cl].Type) == c15MetricT {
					okM = mf[c15MetricT+".Num"] != nil && core.IsConstInt(w.Info(), mf[c15MetricT+".Num"], 1) && c15IsEventSize(w, mf[c15MetricT+".Size"], ev)
				}
			}
			c.Check(okM, "closure releases {1, size of the released event}", "T16b SiblingAgreement", r.Pos(),
				"the released amount is dag.Metric{Num: 1, Size: e.Size()} of the closure's own event",
				"the released amount is not dag.Metric{Num: 1, Size: <that event>.Size()}: releases no longer add up to what Enqueue acquired for the batch")
		}
		// forwarding to the user's callback, saved before the overwrite, nil-guarded, once
		users := w.CallsMatching(func(cs *core.CallSite) bool {
			v, ok := cs.Callee.(*types.Var)
			return ok && !v.IsField()
		})
		if len(users) == 0 {
			c.Fail("closure forwards to the user's Released", "T3 PostDominates", w.Pos(), "the Released closure does not call the user's Released callback: released events are never reported")
			return
		}
		uv := users[0].Callee.(*types.Var)
		okU := true
		for _, u := range users {
			if u.Callee != types.Object(uv) {
				okU = false
			}
			for i := 0; i < 3; i++ {
				if i >= len(u.Call.Args) || varOf(w, u.Call.Args[i]) == nil || varOf(w, u.Call.Args[i]) != w.Param(i) {
					okU = false
				}
			}
		}
		c.Check(okU, "closure forwards its own (event, peer, err)", "provenance", users[0].Pos(), "the user's callback receives the closure's three parameters in order", "the user's Released callback is not called with the closure's own (event, peer, err)")
		rhs, def := c15SingleDef(w, uv)
		okSaved := rhs != nil && def.F == newF && wrap.cbVar != nil && c15SamePath(newF, rhs, wrap.cbVar, []string{c15EventF, c15RelCB})
		if okSaved {
			okSaved, _ = newF.MustPassBefore([]core.Point{def.A.Pt}, wrap.assignPt)
		}
		c.Check(okSaved, "user's Released saved before the overwrite", "T2 Dominates", users[0].Pos(),
			"the forwarded function is the caller's callback.Event.Released read before it is replaced",
			"the function the closure forwards to is not the caller's Released read before the overwrite (reading it afterwards yields the closure itself: unbounded recursion)")
		nilFact := func(want bool) func(core.Fact) bool {
			return func(ft core.Fact) bool {
				cm, ok := core.NormCmp(ft)
				if !ok || cm.R == nil {
					return false
				}
				l, r := cm.L, cm.R
				if core.IsNil(w.Info(), l) {
					l, r = r, l
				}
				if !core.IsNil(w.Info(), r) || varOf(w, l) != uv {
					return false
				}
				return (cm.Op == token.EQL) == want
			}
		}
		okG := true
		for _, u := range users {
			if g, _ := w.GuardedBy(u.Pt, nilFact(false)); !g {
				okG = false
			}
			for _, u2 := range users {
				if w.CanReach(u.Pt, u2.Pt) {
					okG = false
				}
			}
		}
		_, skip := core.PathQuery{F: w, From: w.Entry(), Avoid: core.PointSet(core.Points(users)...), AvoidEdge: w.GuardEdges(nilFact(true)), TargetExit: true}.Find()
		c.Check(okG && !skip, "closure forwards to the user's Released", "T3 PostDominates", users[0].Pos(),
			"every path of the closure calls the user's callback exactly once unless it is nil",
			"the user's Released callback can be skipped, called twice or called when nil: an event is not reported released exactly once")

		// T6: who may call Release / Acquire / the Released member in this package
		enq := c15View(c.Fn(c15Proc + ".Enqueue"))
		proc := c15View(c.Fn(c15Proc + ".process"))
		nRel := 0
		for _, f := range c15Funcs(p) {
			for _, cs := range f.Calls() {
				switch {
				case cs.Name == c15Release:
					nRel++
					if f == w {
						c.Pass("Release in "+short(f.Name), "T6 WhoMayCall", "the releasing closure")
					} else if f == enq {
						c.Pass("Release in "+short(f.Name), "T6 WhoMayCall", "Enqueue may give back what it acquired on its failure exits (checked in C15.enqueue)")
					} else {
						c.Fail("Release in "+short(f.Name), "T6 WhoMayCall", cs.Pos(), "the events semaphore is released outside the Released closure: an event's amount can be given back twice (or for an event that is still in flight)")
					}
				case cs.Name == c15Acquire || cs.Name == c15SemT+".TryAcquire":
					c.Check(f == enq, "Acquire in "+short(f.Name), "T6 WhoMayCall", cs.Pos(), "only Enqueue acquires", "the events semaphore is acquired outside Enqueue: the amount has no per-event release")
				case cs.Name == c15RelCB:
					okP := f == proc
					if okP {
						_, path := fieldPath(f, cs.Recv())
						okP = c15PathEndsWith(path, c15CbF, c15EventF)
					}
					c.Check(okP, "Released member called in "+short(f.Name), "T6 WhoMayCall", cs.Pos(), "process() reports through Processor.callback.Event.Released (the releasing closure)", "the Released callback is invoked outside process() or not through Processor.callback: it may be the unwrapped user callback")
				}
			}
		}
		c.ExpectAtLeast("Release call sites in the package", nRel, 1)
	})

	c.Clause("C15.metric", func() {
		enq := c15View(c.Fn(c15Proc + ".Enqueue"))
		acq := enq.CallsMatching(func(cs *core.CallSite) bool { return cs.Name == c15Acquire && isSem(enq, cs.Recv()) })
		c.Need(len(acq) == 1 && len(acq[0].Call.Args) >= 1, "Enqueue acquires the events semaphore once")
		var batch *types.Var
		if call := isCallTo(enq, c15Through(enq, acq[0].Call.Args[0]), c15EvMetric); call != nil {
			if sel, ok := ast.Unparen(call.Fun).(*ast.SelectorExpr); ok {
				batch = varOf(enq, sel.X)
			}
		}
		isParam := false
		for i := 0; batch != nil && i < 8; i++ {
			if enq.Param(i) == batch {
				isParam = true
			}
		}
		c.Check(batch != nil && isParam, "Acquire receives the batch's Metric()", "T16b SiblingAgreement", acq[0].Pos(),
			"the acquired amount is <batch parameter>.Metric()", "Enqueue does not acquire the Metric() of its batch parameter: the acquired amount and the per-event releases of that batch differ")
		if batch == nil {
			return
		}
		// the checker task iterates the same batch and hands every element to CheckParentless, whose
		// result record carries that element; the inserter hands the record's event to process()
		chk := c15FindChecker(enq, batch)
		ranged, checkedEach, recOK := chk.ranged, chk.checkedEach, chk.recOK
		c.Check(ranged && checkedEach && recOK, "every event of the acquired batch is checked and its result queued", "T16b SiblingAgreement", enq.Pos(),
			"the checker task ranges over the same batch, calls CheckParentless for each element unconditionally and queues a result carrying that element and the check's error",
			"the checker task does not hand every element of the acquired batch (with its own check result) on: an event acquired for is never processed or released")
		nProc := 0
		okProc := true
		sig, sigOK := c15SigOf(c15View(c.Fn(c15Proc + ".process")))
		c.Need(sigOK, "process receives the checked event and the check's error (two parameters, or one check result record)")
		for _, f := range c15Funcs(p) {
			for _, cs := range f.CallsTo(c15Proc + ".process") {
				nProc++
				if c15Root(f) != enq || sig.handed(f, cs.Call) == nil {
					okProc = false
				}
			}
		}
		c.Check(okProc && nProc > 0, "process() receives a check result's event with its own error", "provenance", enq.Pos(),
			"every process() call is in Enqueue's inserter task and passes (res.e, res.err) of one result record",
			"process() is called with an event and an error that do not come from the same check result (or outside the inserter task)")
		c.ExpectAtLeast("process() call sites", nProc, 1)

		// Events.Metric is Num = len, Size = sum of e.Size()
		mf := c10Inlined(c.Fn(c15EvMetric))
		recv := mf.Recv()
		c.Need(recv != nil, "Events.Metric has a named receiver")
		numOK, nNum, sizeOK, nSize, retOK := c15MetricShape(mf, recv)
		c.Check(numOK && nNum == 1 && retOK, "Events.Metric|Num = len(batch)", "T16b SiblingAgreement", mf.Pos(),
			"Num is len of the receiver on every path: one per event, matching the 1 released per event",
			"Events.Metric's Num is not len(events): the count acquired for a batch differs from one per event released")
		c.Check(sizeOK && nSize == 1 && retOK, "Events.Metric|Size = sum of e.Size()", "T16b SiblingAgreement", mf.Pos(),
			"Size accumulates e.Size() of every element (complete range over the receiver, unconditional): the same per-event quantity the closure releases",
			"Events.Metric's Size is not the sum of e.Size() over all events: the size acquired for a batch differs from the sizes released per event")
	})

	c.Clause("C15.process", func() {
		proc := c15View(c.Fn(c15Proc + ".process"))
		sig, sigOK := c15SigOf(proc)
		c.Need(sigOK, "process has a dag.Event parameter")
		rel := proc.CallsTo(c15RelCB)
		push := proc.CallsMatching(func(cs *core.CallSite) bool {
			return cs.Name == c15Push && fieldNameOf(proc, cs.Recv()) == c15Proc+".buffer"
		})
		// (the two roles — failed check, far future — each have their own floor in C15.future)
		c.ExpectAtLeast("Released sites in process", len(rel), 1)
		c.ExpectAtLeast("PushEvent sites in process", len(push), 1)
		all := append(append([]*core.CallSite{}, rel...), push...)
		for _, cs := range all {
			ok := len(cs.Call.Args) >= 1 && sig.isEv(cs.Call.Args[0])
			c.Check(ok, "process|"+short(cs.Name)+" handles the event given", "provenance", cs.Pos(), "the call's first argument is process()'s event parameter", "process() releases or pushes a different event than the one it was given: that one is never reported")
		}
		okEvery := true
		var wit []core.Point
		for _, rp := range proc.ReturnPoints() {
			if ok, pth := proc.MustPassBefore(core.Points(all), rp); !ok {
				okEvery, wit = false, pth
			}
		}
		c.Check(okEvery, "process|every path releases or pushes", "T5 ExactlyOneOf", proc.Pos(),
			"every return of process() follows Released(event) or buffer.PushEvent(event)",
			"process() can return without releasing the event or pushing it to the buffer ("+proc.DescribePath(wit)+"): the event is never reported released and keeps its semaphore amount")
		okOne := true
		var a2, b2 *core.CallSite
		for _, a := range all {
			for _, b := range all {
				if proc.CanReach(a.Pt, b.Pt) {
					okOne, a2, b2 = false, a, b
				}
			}
		}
		det := ""
		if a2 != nil {
			det = " (" + short(a2.Name) + " at " + p.Pos(a2.Pos()) + " then " + short(b2.Name) + " at " + p.Pos(b2.Pos()) + ")"
		}
		c.Check(okOne, "process|not both released and pushed", "T5 ExactlyOneOf", proc.Pos(),
			"no path of process() performs two of {Released(event), PushEvent(event)}",
			"a path of process() releases an event and also pushes it (or releases twice)"+det+": the event is reported released twice / processed after being dropped, and its amount is released twice")
		// T6: PushEvent only from process, process only from Enqueue's tasks (counted in C15.metric)
		for _, f := range c15Funcs(p) {
			if f != proc && len(f.CallsTo(c15Push)) > 0 {
				c.Fail("PushEvent called in "+short(f.Name), "T6 WhoMayCall", f.CallsTo(c15Push)[0].Pos(), "events reach the ordering buffer outside process(): the failed-check and far-future rules are bypassed")
			}
		}
	})

	c.Clause("C15.future", func() {
		proc := c15View(c.Fn(c15Proc + ".process"))
		sig, sigOK := c15SigOf(proc)
		c.Need(sigOK, "process has event and error parameters")
		recv := proc.Recv()
		namer := func(e ast.Expr) string {
			e = core.StripConv(proc.Info(), e)
			if call := isCallTo(proc, e, c15EvLamp); call != nil {
				if sel, ok := ast.Unparen(call.Fun).(*ast.SelectorExpr); ok && sig.isEv(sel.X) {
					return "lamport"
				}
			}
			if call := isCallTo(proc, e, c15Highest); call != nil {
				if sel, ok := ast.Unparen(call.Fun).(*ast.SelectorExpr); ok && fieldNameOf(proc, sel.X) == c15CbF {
					return "highest"
				}
			}
			if c15SamePath(proc, e, recv, []string{c15Proc + ".cfg", c15Pkg + ".Config.EventsBufferLimit", c15MetricT + ".Num"}) {
				return "num"
			}
			return ""
		}
		// HighestLamport is read once per event (both uses see the same value)
		within := core.ParseLinCmp("lamport - highest - num - 1 <= 0")
		beyond := core.ParseLinCmp("highest + num - lamport + 2 <= 0")
		var farConds []ast.Expr // the conditions recognised as the far-future test
		isFact := func(want core.LinCmp) func(core.Fact) bool {
			return func(ft core.Fact) bool {
				lc, ok := c15LinFact(proc, ft, namer)
				if ok && lc.Equal(want) {
					known := false
					for _, e := range farConds {
						known = known || e == ft.Expr
					}
					if !known {
						farConds = append(farConds, ft.Expr)
					}
					return true
				}
				return false
			}
		}
		push := proc.CallsTo(c15Push)
		c.ExpectAtLeast("PushEvent sites", len(push), 1)
		for _, ps := range push {
			ok, wit := proc.GuardedBy(ps.Pt, isFact(within))
			c.Check(ok, "PushEvent only within HighestLamport+1+EventsBufferLimit.Num", "T4 GuardedBy (normalised)", ps.Pos(),
				"buffer.PushEvent is reached only on the edge NOT(event.Lamport() > HighestLamport() + 1 + EventsBufferLimit.Num)",
				"buffer.PushEvent is reachable without the edge lamport <= highest + 1 + limit.Num having been taken ("+proc.DescribePath(wit)+"): an event further ahead than the buffer limit is processed (or one exactly at the limit is dropped)")
			ok2, wit2 := proc.GuardedBy(ps.Pt, sig.errNilFact(true))
			c.Check(ok2, "PushEvent only for a passing check", "T4 GuardedBy", ps.Pos(),
				"buffer.PushEvent is reached only on the resErr == nil edge", "an event whose parentless check failed can be pushed to the ordering buffer: "+proc.DescribePath(wit2))
		}
		// the other edges release with an error
		nFar, nFail := 0, 0
		for _, rs := range proc.CallsTo(c15RelCB) {
			if len(rs.Call.Args) != 3 {
				continue
			}
			if far, _ := proc.GuardedBy(rs.Pt, isFact(beyond)); far {
				nFar++
				c.Check(!core.IsNil(proc.Info(), rs.Call.Args[2]) && !sig.isErr(rs.Call.Args[2]), "far-future event released with an error", "T8 DecisionTable", rs.Pos(),
					"on the lamport > highest + 1 + limit.Num edge the event is released with a dedicated error", "a far-future event is released with a nil error (reported as processed)")
			}
			if failed, _ := proc.GuardedBy(rs.Pt, sig.errNilFact(false)); failed {
				nFail++
				c.Check(sig.isErr(rs.Call.Args[2]), "failed check released with its error", "T8 DecisionTable", rs.Pos(),
					"on the resErr != nil edge the event is released with resErr", "an event whose check failed is not released with the check's error")
			}
		}
		c.ExpectAtLeast("Released on the far-future edge", nFar, 1)
		c.ExpectAtLeast("Released on the failed-check edge", nFail, 1)
		// the normalised comparison above reads conversions as value preserving. The rule "more than limit+1
		// above the highest known Lamport time" is about the whole Lamport range, so the test has to be
		// evaluated in a type that represents every Lamport distance: no operand may pass through a
		// narrowing or sign-changing conversion
		for _, cond := range farConds {
			conv := c15LossyConv(proc, cond, 0)
			pos := cond.Pos()
			what := ""
			if conv != nil {
				pos, what = conv.Pos(), exprStr(conv)
			}
			c.Check(conv == nil, "far-future test is evaluated over the whole Lamport range", "T4 GuardedBy (value range)", pos,
				"no operand of the far-future comparison passes through a narrowing or sign-changing integer conversion",
				"the far-future comparison in process() evaluates "+what+", a conversion that does not preserve every value of its operand: for a Lamport time far enough ahead (2^31 or more with a signed 32-bit distance) the converted value wraps, the test reads 'not too far' and the event is pushed to the ordering buffer and processed instead of being released as spilled")
		}
	})

	c.Clause("C15.enqueue", func() {
		enq := c15View(c.Fn(c15Proc + ".Enqueue"))
		acq := enq.CallsMatching(func(cs *core.CallSite) bool { return cs.Name == c15Acquire && isSem(enq, cs.Recv()) })
		c.Need(len(acq) == 1, "Enqueue acquires the events semaphore once")
		var batch *types.Var
		if call := isCallTo(enq, c15Through(enq, acq[0].Call.Args[0]), c15EvMetric); call != nil {
			if sel, ok := ast.Unparen(call.Fun).(*ast.SelectorExpr); ok {
				batch = varOf(enq, sel.X)
			}
		}
		acquired := c15BoolFact(true, func(e ast.Expr) bool {
			return ast.Unparen(c15Through(enq, e)) == ast.Expr(acq[0].Call)
		})
		ws := enq.CallsTo(c15WEnqueue)
		c.ExpectAtLeast("worker Enqueue sites", len(ws), 1)
		// the two kinds of work — checking the batch, handing results to process() — run as worker tasks:
		// every literal of Enqueue doing such work is (nested in) a literal handed to a worker Enqueue
		tasks := map[*core.FuncInfo]bool{}
		for _, w := range ws {
			for i := range w.Call.Args {
				if l := c10LitArg(enq, w.Call, i); l != nil {
					tasks[l] = true
				}
			}
		}
		for _, role := range []struct{ what, callee, bad string }{
			{"checking the batch", c15Pkg + ".EventCallback.CheckParentless", "the events of an acquired batch are never checked, processed or released"},
			{"handing check results to process()", c15Proc + ".process", "check results are never handed to process(): the events are neither pushed nor released and keep their semaphore amount"},
		} {
			n := 0
			for _, l := range c10AllLits(enq) {
				sites := l.CallsTo(role.callee)
				if len(sites) == 0 {
					continue
				}
				n += len(sites)
				top := l
				for top.Parent != nil && top.Parent != enq {
					top = top.Parent
				}
				c.Check(tasks[top], role.what+" runs as a worker task", "T6 provenance", sites[0].Pos(),
					"the literal doing the work is the task handed to a worker pool's Enqueue",
					"the literal of Enqueue "+role.what+" is not handed to a worker pool: "+role.bad)
			}
			c.ExpectAtLeast("sites "+role.what, n, 1)
		}
		// tasks only after a successful Acquire; a failed Acquire is reported
		for _, w := range ws {
			ok, wit := enq.GuardedBy(w.Pt, acquired)
			c.Check(ok, "task enqueued only after Acquire succeeded|"+short(fieldNameOf(enq, w.Recv())), "T4 GuardedBy", w.Pos(),
				"the worker task is enqueued only on the Acquire == true edge",
				"a task can be enqueued although the semaphore was not acquired ("+enq.DescribePath(wit)+"): its events are released without having been acquired (over-release) and the capacity bound is bypassed")
		}
		for _, rp := range enq.ReturnPoints() {
			if g, _ := enq.GuardedBy(rp, acquired); g {
				continue
			}
			r := rp.Node().(*ast.ReturnStmt)
			c.Check(len(r.Results) == 1 && !core.IsNil(enq.Info(), r.Results[0]), "Acquire failure is reported", "T8 DecisionTable", posOf(rp),
				"the exit taken without the semaphore returns an error", "Enqueue can return nil although the semaphore was not acquired and nothing was enqueued: the batch is silently lost")
		}
		// give-back: Release(<batch>.Metric()) calls in Enqueue
		var back []core.Point
		for _, cs := range enq.CallsTo(c15Release) {
			okArg := false
			if isSem(enq, cs.Recv()) && len(cs.Call.Args) == 1 {
				if call := isCallTo(enq, c15Through(enq, cs.Call.Args[0]), c15EvMetric); call != nil {
					if sel, ok := ast.Unparen(call.Fun).(*ast.SelectorExpr); ok && batch != nil && varOf(enq, sel.X) == batch {
						okArg = true
					}
				}
			}
			c.Check(okArg, "Enqueue gives back exactly the batch's Metric()", "T16b SiblingAgreement", cs.Pos(), "the amount released on a failure exit is the amount acquired", "Enqueue releases an amount other than the acquired <batch>.Metric()")
			if okArg {
				back = append(back, cs.Pt)
			}
		}
		// every exit on which a worker Enqueue failed passes a give-back
		for _, w := range ws {
			who := short(fieldNameOf(enq, w.Recv()))
			construct := "acquired amount given back when " + who + ".Enqueue fails"
			fail := "when " + who + ".Enqueue fails (quit closed while the batch is being queued: Stop racing with Enqueue, e.g. both task queues full behind a slow CheckParentless) Enqueue returns the error but keeps the batch's amount in the events semaphore; no task will ever release it, so DataSemaphore.Processing() never returns to zero"
			// the call's error is the return value itself
			direct := false
			for _, rp := range enq.ReturnPoints() {
				r := rp.Node().(*ast.ReturnStmt)
				if len(r.Results) == 1 && ast.Unparen(r.Results[0]) == ast.Expr(w.Call) {
					direct = true
				}
			}
			if direct {
				c.Fail(construct, "T3 PostDominates", w.Pos(), fail+" [the call's result is returned directly, nothing can follow it]")
				continue
			}
			ev := errVarOfCall(enq, w.Call)
			if ev == nil {
				c.Fail(construct, "T3 PostDominates", w.Pos(), "the result of "+who+".Enqueue is discarded: a batch whose task was not queued is neither processed nor released")
				continue
			}
			path, found := core.PathQuery{F: enq, From: w.Pt, FromAfter: true, Avoid: core.PointSet(back...), AvoidEdge: enq.GuardEdges(varNilFact(enq, ev, true)), TargetExit: true}.Find()
			c.Check(!found, construct, "T3 PostDominates", w.Pos(),
				"every exit not taken through the "+who+".Enqueue error == nil edge passes eventsSemaphore.Release(<batch>.Metric())",
				fail+" [path "+enq.DescribePath(path)+"]")
		}
		// a give-back happens only when some worker Enqueue failed (never on the success path)
		for _, b := range back {
			okB := false
			for _, w := range ws {
				if ev := errVarOfCall(enq, w.Call); ev != nil {
					if g, _ := enq.GuardedBetween(w.Pt, b, varNilFact(enq, ev, false)); g {
						if d, _ := enq.MustPassBefore([]core.Point{w.Pt}, b); d {
							okB = true
						}
					}
				}
			}
			c.Check(okB, "give-back only on a failed worker Enqueue", "T4 GuardedBy", posOf(b), "Enqueue releases only on an err != nil edge of a worker Enqueue", "Enqueue releases the batch's amount although its tasks were queued: the events are then released a second time one by one (over-release)")
		}
	})

	c.Clause("C15.stop", func() {
		stop := c15View(c.Fn(c15Proc + ".Stop"))
		closeQ := stop.CallsMatching(func(cs *core.CallSite) bool {
			return cs.Name == "builtin.close" && len(cs.Call.Args) == 1 && fieldNameOf(stop, cs.Call.Args[0]) == c15Proc+".quit"
		})
		term := stop.CallsMatching(func(cs *core.CallSite) bool { return cs.Name == c15SemT+".Terminate" && c15IsSemField(stop, cs.Recv()) })
		wait := stop.CallsMatching(func(cs *core.CallSite) bool {
			return cs.Name == "sync.WaitGroup.Wait" && fieldNameOf(stop, cs.Recv()) == c15Proc+".wg"
		})
		clr := stop.CallsMatching(func(cs *core.CallSite) bool {
			return cs.Name == "gossip/dagordering.EventsBuffer.Clear" && fieldNameOf(stop, cs.Recv()) == c15Proc+".buffer"
		})
		if len(clr) == 0 {
			c.Fail("Stop clears the buffer", "T2 Dominates", stop.Pos(), "Stop never calls buffer.Clear: events still waiting for parents are not reported released by the time the processor is stopped")
			return
		}
		okClr := true
		for _, rp := range stop.ReturnPoints() {
			if ok, _ := stop.MustPassBefore(core.Points(clr), rp); !ok {
				okClr = false
			}
		}
		c.Check(okClr, "Stop clears the buffer", "T2 Dominates", stop.Pos(), "buffer.Clear is passed on every path of Stop", "a path of Stop skips buffer.Clear: buffered events are not reported released by the time the processor is stopped")
		for _, cl := range clr {
			ok, wit := c15RunsBefore(stop, wait, cl)
			c.Check(ok && len(wait) > 0, "wg.Wait before buffer.Clear", "T2 Dominates", cl.Pos(), "the workers have finished before the buffer is cleared",
				"buffer.Clear can run while the inserter worker is still running ("+stop.DescribePath(wit)+"): an event pushed after the Clear stays buffered and is never released")
			ok2, _ := c15RunsBefore(stop, term, cl)
			c.Check(ok2 && len(term) > 0, "Terminate before buffer.Clear", "T2 Dominates", cl.Pos(), "the semaphore is terminated (waiting Enqueue callers are refused) before the buffer is cleared", "buffer.Clear is reachable without eventsSemaphore.Terminate: an Enqueue caller blocked in Acquire is admitted after the processor stopped")
		}
		for _, wt := range wait {
			ok, wit := c15RunsBefore(stop, closeQ, wt)
			c.Check(ok && len(closeQ) > 0, "close(quit) before wg.Wait", "T2 Dominates", wt.Pos(), "the workers are told to quit before Stop waits for them", "wg.Wait is reachable without close(quit) ("+stop.DescribePath(wit)+"): the workers never exit and Stop blocks for ever, nothing is cleared")
		}
		c.ExpectAtLeast("wg.Wait sites in Stop", len(wait), 1)
		// the workers waited for are really bound to this wait group and quit channel
		newF := c15View(c.Fn(c15Pkg + ".New"))
		wn := newF.CallsTo("utils/workers.New")
		c.ExpectAtLeast("workers.New sites", len(wn), 1)
		// every pool Enqueue hands a task to is one of those: created by New with workers.New
		enq := c15View(c.Fn(c15Proc + ".Enqueue"))
		for _, w := range enq.CallsTo(c15WEnqueue) {
			pool := fieldNameOf(enq, w.Recv())
			made := false
			for _, a := range assignsToField(newF, pool) {
				if pool != "" && a.RHS != nil && isCallTo(newF, c15Through(newF, a.RHS), "utils/workers.New") != nil {
					made = true
				}
			}
			c.Check(made, "pool "+short(pool)+" is created by New", "provenance", w.Pos(), "the worker pool that gets the task is built by workers.New in New (bound to wg and quit, see above)",
				"Enqueue hands a task to a worker pool that New does not create with workers.New: Stop does not wait for its tasks")
		}
		for _, cs := range wn {
			ok := len(cs.Call.Args) == 3
			if ok {
				a0 := ast.Unparen(cs.Call.Args[0])
				if u, isU := a0.(*ast.UnaryExpr); isU && u.Op == token.AND {
					a0 = u.X
				}
				ok = fieldNameOf(newF, a0) == c15Proc+".wg" && fieldNameOf(newF, cs.Call.Args[1]) == c15Proc+".quit"
			}
			c.Check(ok, "workers bound to Processor.wg and Processor.quit", "provenance", cs.Pos(), "workers.New(&f.wg, f.quit, …)", "a worker pool is not bound to the wait group / quit channel that Stop uses: Stop does not wait for it")
		}
	})

	c15Order(c)
}

// c15SumsSizes: the `+=` statement a adds the size of the visited element in every iteration of a complete
// iteration over recv (range, or counted with recv[i], the bound possibly held in a local).
func c15SumsSizes(mf *core.FuncInfo, recv *types.Var, a assignment) (*core.Iteration, bool) {
	if a.Tok != token.ADD_ASSIGN {
		return nil, false
	}
	_, it := c10LoopAt(mf, a.Pt)
	if it == nil || it.Coll == nil || varOf(mf, it.Coll) != recv || !c10Forward(it) {
		return nil, false
	}
	if !c15IsSizeOf(mf, a.RHS, func(x ast.Expr) bool { return c10IsElem(mf, it, x) }) {
		return nil, false
	}
	every, _ := it.EveryIterationPasses([]core.Point{a.Pt}, true)
	return it, every
}

// c15MetricShape decides the shape of Events.Metric: the metric returned is one variable whose Num is
// len(receiver) and whose Size is the sum of the elements' Size(), accumulated either in the field
// itself or in a local that starts at zero, is only added to by that loop and is copied into the field
// after the loop has finished.
func c15MetricShape(mf *core.FuncInfo, recv *types.Var) (numOK bool, nNum int, sizeOK bool, nSize int, retOK bool) {
	info := mf.Info()
	var acc *types.Var
	one := true
	onEveryReturn := func(pt core.Point) bool {
		for _, rp := range mf.ReturnPoints() {
			if ok, _ := mf.MustPassBefore([]core.Point{pt}, rp); !ok {
				return false
			}
		}
		return true
	}
	note := func(v *types.Var) {
		if acc != nil && acc != v {
			one = false
		}
		acc = v
	}
	for _, a := range assignments(mf) {
		root, path := fieldPath(mf, a.LHS)
		v := varOf(mf, root)
		if len(path) != 1 || v == nil {
			continue
		}
		switch path[0] {
		case c15MetricT + ".Num":
			nNum++
			e := core.StripConv(info, c15Through(mf, core.StripConv(info, a.RHS)))
			call, _ := e.(*ast.CallExpr)
			if a.Tok == token.ASSIGN && call != nil && calleeName(mf, call) == "builtin.len" && len(call.Args) == 1 && varOf(mf, c15Through(mf, call.Args[0])) == recv {
				note(v)
				numOK = onEveryReturn(a.Pt)
			}
		case c15MetricT + ".Size":
			nSize++
			switch a.Tok {
			case token.ADD_ASSIGN:
				if _, ok := c15SumsSizes(mf, recv, a); ok {
					note(v)
					sizeOK = true
				}
			case token.ASSIGN:
				// copied from a local accumulator
				sv := varOf(mf, core.StripConv(info, a.RHS))
				if sv == nil || sv.IsField() {
					continue
				}
				var it *core.Iteration
				nAdd, okDefs := 0, true
				for _, d := range c15DefsOf(mf, sv) {
					switch {
					case d.F != mf:
						okDefs = false
					case d.A.Tok == token.ADD_ASSIGN:
						nAdd++
						if i2, ok := c15SumsSizes(mf, recv, d.A); ok {
							it = i2
						} else {
							okDefs = false
						}
					case d.A.RHS == nil:
						if _, isSpec := d.A.Stmt.(*ast.ValueSpec); !isSpec {
							okDefs = false
						}
					case d.A.Tok == token.DEFINE || d.A.Tok == token.ASSIGN:
						if !core.IsConstInt(info, core.StripConv(info, d.A.RHS), 0) {
							okDefs = false
						}
					default:
						okDefs = false
					}
				}
				if !okDefs || nAdd != 1 || it == nil || it.Done == nil {
					continue
				}
				// the accumulator starts at zero outside the loop, and the copy is made after the loop
				for _, d := range c15DefsOf(mf, sv) {
					if d.A.Tok != token.ADD_ASSIGN && c10InLoop(mf, it.Stmt, d.A.Pt) {
						okDefs = false
					}
				}
				after, _ := mustPassBlockBefore(mf, it.Done, a.Pt)
				if okDefs && after && !c10InLoop(mf, it.Stmt, a.Pt) && onEveryReturn(a.Pt) {
					note(v)
					sizeOK = true
				}
			}
		}
	}
	retOK = acc != nil && one
	for _, rp := range mf.ReturnPoints() {
		r := rp.Node().(*ast.ReturnStmt)
		if len(r.Results) == 0 {
			// bare return: the accumulator must be the named result
			if mf.Type.Results == nil || len(mf.Type.Results.List) != 1 || len(mf.Type.Results.List[0].Names) != 1 || mf.Info().Defs[mf.Type.Results.List[0].Names[0]] != types.Object(acc) {
				retOK = false
			}
		} else if varOf(mf, r.Results[0]) != acc {
			retOK = false
		}
	}
	return
}

// c15RunsBefore: in every execution of f in which the call b runs, one of the calls as has run before it.
// A deferred call runs when the function returns, deferred calls in the reverse order of their defer
// statements; so `defer x.Clear(); …; wg.Wait()` and `…; wg.Wait(); x.Clear()` are the same order.
func c15RunsBefore(f *core.FuncInfo, as []*core.CallSite, b *core.CallSite) (bool, []core.Point) {
	var plain, deferred []core.Point
	for _, a := range as {
		if a.InGo {
			continue
		}
		if a.InDefer {
			deferred = append(deferred, a.Pt)
		} else {
			plain = append(plain, a.Pt)
		}
	}
	if b.InGo {
		return false, nil
	}
	if !b.InDefer {
		return f.MustPassBefore(plain, b.Pt)
	}
	// b runs at the exit of every execution that passed its defer statement: such an execution must pass a
	// plain a somewhere, or register a deferred a after b was registered (it then runs first)
	reach, p1 := f.ReachableAvoiding(b.Pt, core.PointSet(plain...), nil)
	if !reach {
		return true, nil
	}
	p2, found := core.PathQuery{F: f, From: b.Pt, FromAfter: true, Avoid: core.PointSet(append(append([]core.Point{}, plain...), deferred...)...), TargetExit: true}.Find()
	if !found {
		return true, nil
	}
	return false, append(p1, p2...)
}

// c15IsSemField: e denotes the Processor.eventsSemaphore field.
func c15IsSemField(f *core.FuncInfo, e ast.Expr) bool {
	return e != nil && fieldNameOf(f, e) == c15SemF
}

// c15ExprOf returns n as an expression (nil otherwise).
func c15ExprOf(n ast.Node) ast.Expr {
	e, _ := n.(ast.Expr)
	if e == nil {
		return &ast.BadExpr{}
	}
	return e
}

// c15SameRoot: two root expressions denote the same record: the same variable (by object) or the
// same element of the same slice variable.
func c15SameRoot(f *core.FuncInfo, a, b ast.Expr) bool {
	a, b = ast.Unparen(a), ast.Unparen(b)
	if va, vb := varOf(f, a), varOf(f, b); va != nil || vb != nil {
		return va == vb
	}
	ia, oka := a.(*ast.IndexExpr)
	ib, okb := b.(*ast.IndexExpr)
	if oka && okb {
		return c15SameRoot(f, ia.X, ib.X) && c15SameRoot(f, ia.Index, ib.Index)
	}
	return false
}
