package rules

import (
	"go/ast"
	"go/token"
	"go/types"
	"strings"

	"lachk/core"
)

// Anchors located by what they do, and the provenance of "the values of one validator set" (C11 and C12).
//
// Two functions named by the rules - the one that computes the caches and the one that produces the sorted
// array - are private to the package, and a maintainer may turn the methods into functions over the fields
// they need (calcCaches(sorted), sortedArray(values)) or back. The canonical names then change although the
// program does not. An anchor that does not resolve under its method name is therefore located by its role:
//
//	calcCaches:  the one declared function of the package whose single result is a cache
//	             (failing that, the one function that stores cache.totalWeight itself);
//	sortedArray: the one declared function of the package whose single result is the element array
//	             (validators) and that sorts in its own body.
//
// Nothing matching (or more than one match) leaves the anchor unresolved, and the clause undecided.
//
// Such a function gets the thing it works on through a *port*: its receiver or a parameter that is a
// validator set ("obj"), a values map ("values") or a sorted element array ("sorted"), decided by type, at
// most one port per kind, never reassigned. c12Origin computes the symbolic provenance of an expression from
// the ports (or, in the constructor, from the object under construction and the map stored as its values):
// x.values of an "obj" is "values", sortedArray applied (through its own port) to an "obj"/"values" operand
// is "sorted"; single-definition locals, conversions, & and * are looked through. What a callee assumes about
// a port by its type is verified at the call sites (c12CacheOfOwnValues: every port of calcCaches is bound,
// in the constructor, to an operand of that provenance of the object being built).

const (
	c11CalcAnchor = c11V + ".calcCaches"
	c12SAAnchor   = c11V + ".sortedArray"
	c11NVAnchor   = c11Pkg + ".newValidators"
)

type c11Resolved struct{ names map[string]string }

var c11ResolvedCache = map[*core.Prog]*c11Resolved{}

// c11ActualName maps the name a rule uses for an anchor to the canonical name of the function that plays
// that role in p ("" when there is none). Anchors other than calcCaches/sortedArray are their own names.
func c11ActualName(p *core.Prog, logical string) string {
	if logical != c11CalcAnchor && logical != c12SAAnchor {
		return logical
	}
	r := c11ResolvedCache[p]
	if r == nil {
		r = &c11Resolved{names: map[string]string{}}
		c11ResolvedCache[p] = r
	}
	if n, ok := r.names[logical]; ok {
		return n
	}
	n := ""
	if p.Func(logical) != nil {
		n = logical
	} else {
		n = c11LocateByRole(p, logical)
	}
	r.names[logical] = n
	return n
}

// c11ResultNamed: g has exactly one result and it is (a pointer to) the named type.
func c11ResultNamed(g *core.FuncInfo, typeName string) bool {
	if g.Obj == nil {
		return false
	}
	sig, _ := g.Obj.Type().(*types.Signature)
	return sig != nil && sig.Results().Len() == 1 && c11NamedOf(sig.Results().At(0).Type()) == typeName
}

func c11LocateByRole(p *core.Prog, logical string) string {
	var cands []*core.FuncInfo
	for _, g := range p.FuncsInPkg(c11Pkg) {
		if g.Decl == nil || g.Body == nil || strings.HasSuffix(g.Name, c11ViewSuffix) {
			continue
		}
		cands = append(cands, g)
	}
	var hits []*core.FuncInfo
	switch logical {
	case c11CalcAnchor:
		for _, g := range cands {
			if c11ResultNamed(g, c11Cache) {
				hits = append(hits, g)
			}
		}
		if len(hits) == 0 {
			for _, g := range cands {
				for _, st := range c11Stores(g) {
					_, chain := c11Chain(g, st.Target)
					if len(chain) > 0 && chain[len(chain)-1] == c11FTotal {
						hits = append(hits, g)
						break
					}
				}
			}
		}
	case c12SAAnchor:
		var all []*core.FuncInfo
		for _, g := range cands {
			if !c11ResultNamed(g, c12Arr) {
				continue
			}
			all = append(all, g)
			for _, cs := range g.Calls() {
				if strings.HasPrefix(cs.Name, "sort.") {
					hits = append(hits, g)
					break
				}
			}
		}
		if len(hits) == 0 {
			hits = all
		}
	}
	if len(hits) != 1 {
		return ""
	}
	return hits[0].Name
}

// c11AnchorsOf: the anchors under the names they have in p.
func c11AnchorsOf(p *core.Prog) []string {
	var out []string
	for _, a := range c11Anchors {
		if n := c11ActualName(p, a); n != "" {
			out = append(out, n)
		}
	}
	return out
}

// c11ValidatorOwnersOf: the who-may-write table with the rows of calcCaches under its name in p.
func c11ValidatorOwnersOf(p *core.Prog) []c11Owner {
	calc := c11ActualName(p, c11CalcAnchor)
	out := make([]c11Owner, 0, len(c11ValidatorOwners))
	for _, o := range c11ValidatorOwners {
		if o.Func == c11CalcAnchor && calc != "" {
			o.Func = calc
		}
		out = append(out, o)
	}
	return out
}

// ---------------------------------------------------------------------------
// ports and provenance

type c12Port struct {
	v    *types.Var
	pos  int    // -1: receiver, k: k-th parameter
	kind string // "obj" | "values" | "sorted"
}

type c12Env map[*types.Var]string

// c12KindOf: what a value of type t can stand for, by type alone.
func c12KindOf(p *core.Prog, t types.Type) string {
	if t == nil {
		return ""
	}
	switch c11NamedOf(t) {
	case c11V:
		return "obj"
	case c12Arr:
		return "sorted"
	}
	if _, isPtr := t.(*types.Pointer); isPtr {
		return ""
	}
	switch u := t.Underlying().(type) {
	case *types.Slice:
		if c11NamedOf(u.Elem()) == c12Elem {
			if _, isPtr := u.Elem().(*types.Pointer); !isPtr {
				return "sorted"
			}
		}
	case *types.Map:
		if fv := p.Field(c11FVValues); fv != nil {
			if m, ok := fv.Type().Underlying().(*types.Map); ok && types.Identical(m.Key(), u.Key()) && types.Identical(m.Elem(), u.Elem()) {
				return "values"
			}
		}
	}
	return ""
}

// c12Ports lists the receiver and parameters of g that carry a validator set, its values or its sorted
// array (never reassigned, address not taken). nil when two of them have the same kind: which one is meant
// cannot be told by type.
func c12Ports(g *core.FuncInfo) []c12Port {
	if g == nil {
		return nil
	}
	var out []c12Port
	seen := map[string]bool{}
	add := func(v *types.Var, pos int) bool {
		if v == nil {
			return true
		}
		k := c12KindOf(g.P, v.Type())
		if k == "" {
			return true
		}
		if seen[k] {
			return false
		}
		seen[k] = true
		if _, ok := c11ParamPos(g, v); ok {
			out = append(out, c12Port{v, pos, k})
		}
		return true
	}
	if !add(g.Recv(), -1) {
		return nil
	}
	for i := 0; i < c11NumParams(g); i++ {
		if !add(g.Param(i), i) {
			return nil
		}
	}
	return out
}

func c12EnvOf(g *core.FuncInfo) c12Env {
	env := c12Env{}
	for _, pt := range c12Ports(g) {
		env[pt.v] = pt.kind
	}
	return env
}

// c12Operand: the operand a call passes at a port position of callee g (nil if the call has another shape).
func c12Operand(f *core.FuncInfo, call *ast.CallExpr, g *core.FuncInfo, pos int) ast.Expr {
	if pos < 0 {
		sel, ok := ast.Unparen(call.Fun).(*ast.SelectorExpr)
		if !ok {
			return nil
		}
		if s := f.Info().Selections[sel]; s == nil || s.Kind() != types.MethodVal {
			return nil
		}
		return sel.X
	}
	if call.Ellipsis.IsValid() || len(call.Args) != c11NumParams(g) || pos >= len(call.Args) {
		return nil
	}
	return call.Args[pos]
}

// c12Origin: the provenance of e in f under env ("" when it has none that is known).
func c12Origin(f *core.FuncInfo, e ast.Expr, env c12Env, depth int) string {
	if e == nil || depth > 8 {
		return ""
	}
	e = ast.Unparen(e)
	switch x := e.(type) {
	case *ast.UnaryExpr:
		if x.Op == token.AND {
			return c12Origin(f, x.X, env, depth+1)
		}
	case *ast.StarExpr:
		return c12Origin(f, x.X, env, depth+1)
	case *ast.Ident:
		v := varOf(f, x)
		if v == nil {
			return ""
		}
		if k, ok := env[v]; ok {
			return k
		}
		if d := singleDef(f, v); d != nil {
			return c12Origin(f, d, env, depth+1)
		}
	case *ast.SelectorExpr:
		if fieldNameOf(f, x) == c11FVValues && c12Origin(f, x.X, env, depth+1) == "obj" {
			return "values"
		}
	case *ast.CallExpr:
		if tv, ok := f.Info().Types[x.Fun]; ok && tv.IsType() && len(x.Args) == 1 {
			return c12Origin(f, x.Args[0], env, depth+1)
		}
		saName := c11ActualName(f.P, c12SAAnchor)
		if saName == "" || calleeName(f, x) != saName {
			return ""
		}
		sa := f.P.Func(saName)
		var src *c12Port
		for _, pt := range c12Ports(sa) {
			if pt.kind == "obj" || pt.kind == "values" {
				if src != nil {
					return ""
				}
				q := pt
				src = &q
			}
		}
		if src == nil {
			return ""
		}
		if c12Origin(f, c12Operand(f, x, sa, src.pos), env, depth+1) == src.kind {
			return "sorted"
		}
	}
	return ""
}

// c12RunsOnlyFor: g is the named function (or its inlined view), a function literal of it, or a delegate
// (unexported, only ever called: c11_deleg.go) all of whose callers are, transitively (bounded depth).
func c12RunsOnlyFor(p *core.Prog, g *core.FuncInfo, name string, depth int) bool {
	for g != nil && g.Lit != nil {
		g = g.Parent
	}
	if g == nil {
		return false
	}
	if g.Name == name || g.Name == name+c11ViewSuffix {
		return true
	}
	d := c11DelegOf(p)
	if depth <= 0 || !d.isDelegate(g) {
		return false
	}
	for _, s := range d.callers[g] {
		if !c12RunsOnlyFor(p, s.from, name, depth-1) {
			return false
		}
	}
	return true
}

// c12CacheBound: the object the constructor returns has the caches of its own values: the direct form
// x.cache = x.calcCaches() on every path before x is returned, or c12CacheOfOwnValues.
func c12CacheBound(nv *core.FuncInfo) (bool, string) {
	as := assignsToField(nv, c11FVCache)
	ok := len(as) == 1
	if ok {
		root, _ := fieldPath(nv, as[0].LHS)
		call := isCallTo(nv, as[0].RHS, c11ActualName(nv.P, c11CalcAnchor))
		ok = call != nil && varOf(nv, root) != nil
		if ok {
			sel, _ := ast.Unparen(call.Fun).(*ast.SelectorExpr)
			ok = sel != nil && varOf(nv, sel.X) == varOf(nv, root)
		}
		if ok {
			for _, rp := range nv.ReturnPoints() {
				if before, _ := nv.MustPassBefore([]core.Point{as[0].Pt}, rp); !before {
					ok = false
				}
				r := rp.Node().(*ast.ReturnStmt)
				if len(r.Results) != 1 || varOf(nv, r.Results[0]) != varOf(nv, root) {
					ok = false
				}
			}
		}
	}
	if ok {
		return true, ""
	}
	return c12CacheOfOwnValues(nv)
}

// c12CacheOfOwnValues: the one Validators object the constructor nv builds has, as its cache, the result of
// calcCaches applied to that same object / to the map stored as its values / to the sorted array of that map
// (whichever ports calcCaches has), and that object is what nv returns.
func c12CacheOfOwnValues(nv *core.FuncInfo) (bool, string) {
	p := nv.P
	calcName := c11ActualName(p, c11CalcAnchor)
	calc := p.Func(calcName)
	if calcName == "" || calc == nil {
		return false, "no function computing the caches was found"
	}
	obj := c11Constructed(nv, c11V)
	if obj == nil {
		return false, "the constructor does not build exactly one Validators object whose fields are each initialised once"
	}
	ce, okC := obj.Fields[c11FVCache]
	ve, okV := obj.Fields[c11FVValues]
	if !okC || !okV {
		return false, "the constructed object's values or cache is not initialised"
	}
	M := canonVar(nv, varOf(nv, ve))
	if M == nil {
		return false, "the values of the constructed object are not held in a local map variable"
	}
	env := c12Env{M: "values"}
	if obj.Var != nil {
		env[obj.Var] = "obj"
	}
	call := isCallTo(nv, ce, calcName)
	if call == nil {
		return false, "the cache is not the result of " + short(calcName)
	}
	ports := c12Ports(calc)
	if len(ports) == 0 {
		return false, short(calcName) + " has no receiver or parameter carrying the set, its values or its sorted array"
	}
	callPt, okPt := nv.PointOf(call)
	for _, pt := range ports {
		op := c12Operand(nv, call, calc, pt.pos)
		if op == nil || c12Origin(nv, op, env, 0) != pt.kind {
			return false, "the operand of " + short(calcName) + " is not derived from the values of the object under construction"
		}
		if pt.kind == "obj" && !obj.InLit[c11FVValues] {
			// the values must already be in the object when the caches are computed from it
			ok := false
			for _, a := range assignsToField(nv, c11FVValues) {
				if obj.Stores[ast.Unparen(a.LHS)] && okPt {
					ok, _ = nv.MustPassBefore([]core.Point{a.Pt}, callPt)
				}
			}
			if !ok {
				return false, "the caches are computed from the object before its values are stored"
			}
		}
	}
	rps := nv.ReturnPoints()
	if len(rps) == 0 {
		return false, "the constructor has no return"
	}
	for _, rp := range rps {
		r := rp.Node().(*ast.ReturnStmt)
		if len(r.Results) != 1 {
			return false, "the constructor does not return one value"
		}
		if obj.Var != nil && varOf(nv, r.Results[0]) == obj.Var {
			continue
		}
		if lit, tn := c11AllocOf(nv, resolveLocal(nv, r.Results[0])); lit != nil && tn == c11V && lit.Pos() == obj.Pos {
			continue
		}
		return false, "the constructor returns something other than the object it built"
	}
	return true, ""
}
