package rules

import (
	"go/ast"
	"go/types"

	"lachk/core"
)

// c27Counter gives the tests of the reference counter as they are written in one function: on the
// local that holds refCounter[name] as read, or on the map cell itself. Conditions are compared in
// linear normal form, so `counter == 1`, `1 == counter`, `counter < 2 && counter > 0`, a tagless switch
// and an if-chain all read the same.
type c27Counter struct {
	g       *core.FuncInfo
	refc    string
	counter *types.Var // the local copy (nil: the cell is tested directly)
}

func c27CounterOf(g *core.FuncInfo, refc string) *c27Counter {
	k := &c27Counter{g: g, refc: refc}
	for _, a := range assignments(g) {
		if ix, ok := ast.Unparen(a.RHS).(*ast.IndexExpr); ok && a.RHS != nil && fieldNameOf(g, ix.X) == refc {
			k.counter = varOf(g, a.LHS)
		}
	}
	return k
}

func (k *c27Counter) isCell(e ast.Expr) bool {
	ix, ok := ast.Unparen(e).(*ast.IndexExpr)
	return ok && fieldNameOf(k.g, ix.X) == k.refc
}

func (k *c27Counter) namer(e ast.Expr) string {
	if (k.counter != nil && varOf(k.g, e) == k.counter) || k.isCell(e) {
		return "counter"
	}
	return ""
}

func (k *c27Counter) lin(want string) func(core.Fact) bool {
	w := core.ParseLinCmp(want)
	return func(ft core.Fact) bool {
		lc, ok := core.NormLinCmp(k.g.Info(), ft, k.namer)
		return ok && lc.Equal(w)
	}
}

func (k *c27Counter) guarded(pt core.Point, want string) bool {
	ok, _ := k.g.GuardedBy(pt, k.lin(want))
	return ok
}

// isLast: the point is reached only with counter == 1 (one equality test, or the two bounds).
func (k *c27Counter) isLast(pt core.Point) (bool, []core.Point) {
	ok, wit := k.g.GuardedBy(pt, k.lin("counter - 1 == 0"))
	if ok {
		return true, nil
	}
	return k.guarded(pt, "-counter + 1 <= 0") && k.guarded(pt, "counter - 1 <= 0"), wit
}

// isMore: the point is reached only with counter >= 2 (one test, or counter >= 1 and counter != 1).
func (k *c27Counter) isMore(pt core.Point) bool {
	return k.guarded(pt, "-counter + 2 <= 0") || (k.guarded(pt, "-counter + 1 <= 0") && k.guarded(pt, "counter - 1 != 0"))
}

// c27Declared: the declared function a literal is written in (f itself for a declaration).
func c27Declared(f *core.FuncInfo) *core.FuncInfo {
	for f.Parent != nil {
		f = f.Parent
	}
	return f
}

// c27OnLastRef: is the point of f executed only when the reference counter (as read in the same
// function) is 1? When f itself does not test the counter, every place from which f is entered must:
// the call sites of a declared function in the package, or the calls of the local a literal is bound
// to (bounded depth). A function that is entered from nowhere visible (a closure handed out as a value,
// such as the drop function) has no such guard.
func c27OnLastRef(pkgFuncs []*core.FuncInfo, f *core.FuncInfo, pt core.Point, refc string, depth int) (bool, string) {
	if ok, _ := c27CounterOf(f, refc).isLast(pt); ok {
		return true, ""
	}
	if depth <= 0 {
		return false, "not on the counter == 1 edge of " + short(c27Declared(f).Name)
	}
	type site struct {
		g  *core.FuncInfo
		cs *core.CallSite
	}
	var entries []site
	switch {
	case f.Obj != nil:
		for _, g := range pkgFuncs {
			for _, cs := range g.Calls() {
				if fn, ok := cs.Callee.(*types.Func); ok && fn == f.Obj && !cs.InDefer && !cs.InGo {
					entries = append(entries, site{g, cs})
				} else if ok && fn == f.Obj {
					return false, short(f.Name) + " is called by defer/go"
				}
			}
		}
	case f.Lit != nil && f.Parent != nil:
		var bound *types.Var
		for _, a := range assignments(f.Parent) {
			if a.RHS != nil && ast.Unparen(a.RHS) == ast.Expr(f.Lit) {
				bound = varOf(f.Parent, a.LHS)
			}
		}
		if bound != nil && c27SingleAssigned(f.Parent, bound) {
			for _, g := range append([]*core.FuncInfo{f.Parent}, allLits(f.Parent)...) {
				for _, cs := range g.Calls() {
					if cs.Callee == types.Object(bound) && !cs.InDefer && !cs.InGo {
						entries = append(entries, site{g, cs})
					}
				}
			}
		}
	}
	if len(entries) == 0 {
		what := short(f.Name)
		if f.Lit != nil {
			what = "a closure of " + short(c27Declared(f).Name) + " that is handed out as a value"
		}
		return false, "the deletion is in " + what + " and not on the counter == 1 edge of a test of refCounter[name]"
	}
	for _, e := range entries {
		if ok, why := c27OnLastRef(pkgFuncs, e.g, e.cs.Pt, refc, depth-1); !ok {
			return false, why
		}
	}
	return true, ""
}

// c27Evict: an entry of the cache map stands for a store that is still referenced, so the same-store
// guarantee ("opening the same name again returns the same store") and the single shared counter both
// need it to stay until the last reference is given back. Every removal of an entry of opened — in any
// function or closure of the package — must therefore lie on the counter == 1 edge of a test of
// refCounter[name], and the counter entry must be removed with it (otherwise the next open creates a
// second store that shares the first one's counter: the first underlying database is never closed).
func c27Evict(c *core.Ctx, opened, refc string) {
	var funcs []*core.FuncInfo
	for _, f := range c.P.Funcs() {
		if core.RelPkg(f.Pkg.PkgPath) == "kvdb/cachedproducer" {
			funcs = append(funcs, f)
		}
	}
	isDel := func(f *core.FuncInfo, field string) func(cs *core.CallSite) bool {
		return func(cs *core.CallSite) bool {
			return cs.Name == "builtin.delete" && len(cs.Call.Args) > 0 && fieldNameOf(f, cs.Call.Args[0]) == field
		}
	}
	n := 0
	for _, f := range funcs {
		for _, cs := range f.CallsMatching(isDel(f, opened)) {
			n++
			where := short(c27Declared(f).Name)
			ok, why := c27OnLastRef(funcs, f, cs.Pt, refc, 2)
			c.Check(ok, where+"|cache entry forgotten only with the last reference", "T4 GuardedBy", cs.Pos(),
				"opened[name] is deleted only on the counter == 1 edge",
				"opened[name] is deleted while references to the store may remain ("+why+"): the next open of the name creates a second store although the first is still open, and both share one reference counter, so one underlying database is never closed")
			okP, _ := pairedWith(f, cs.Pt, core.Points(f.CallsMatching(isDel(f, refc))))
			c.Check(okP, where+"|cache entry and counter are forgotten together", "T7 Pairing", cs.Pos(),
				"delete(refCounter, name) is on every path through delete(opened, name)",
				"opened[name] is deleted but refCounter[name] is kept: the store created by the next open inherits the old count, the two maps no longer describe the same opens")
		}
	}
	c.ExpectAtLeast("removals of a cache entry", n, 1)
}
