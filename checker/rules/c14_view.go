package rules

import (
	"fmt"
	"go/ast"
	"go/constant"
	"go/token"
	"go/types"
	"strings"

	"golang.org/x/tools/go/cfg"

	"lachk/core"
)

// Inlined view of a function (written for C14 and C16; candidate for promotion to core).
//
// A c14View is the control-flow graph of a root function in which the calls of declared functions of
// the same package are replaced by the callee's own graph (bounded depth, never recursively: a call of
// a function that is already being expanded stays an opaque call). A rule stated as a path question
// over the view does not depend on how the code is cut into functions: a block may be extracted into a
// helper, a helper may be inlined, a function may be split in two and joined with &&.
//
// Differences from the per-function CFG of go/cfg, all of them refinements:
//   - every call site has a node of its own, in evaluation order (operands before the call, left to
//     right), so "the call c happens before the call d" is decidable for calls of one statement;
//   - && and || are split: the right operand is evaluated only on the edge where the left operand
//     did not decide the result, and every atomic condition has its own pair of edges carrying the
//     fact "atom is true" / "atom is false". "Every path takes an edge implying F" is then simply
//     "no path avoids the edges with fact F": no conjunctive/disjunctive reading of edges is needed;
//   - a helper with a single boolean result that is used as a condition (`if buf.exceeds(l)`,
//     `for !done(x)`, `return a(x) && b(x)`) is expanded so that each of its return statements
//     continues on the matching side of the test only: `return true` on the true side, `return e` on
//     the true side with the fact e and on the false side with the fact !e;
//   - deferred calls are placed after the return statements they were registered before.
//
// Facts carry the frame (one expansion of one function) whose code they come from; c14Frame.origin
// follows unmodified parameters and receivers to the arguments of the expanded call, so "the same
// variable" is decidable across frames.

type c14Kind int8

const (
	c14Block c14Kind = iota // entry of a CFG block of the frame's function (no effect)
	c14Call                 // a call that is not expanded happens here
	c14Stmt                 // the CFG node N of the frame's function completes here (after the calls it contains)
	c14Enter                // an expanded callee starts (Fr: the caller's frame, Sub: the callee's)
	c14Leave                // an expanded callee has returned
	c14Join                 // no effect
	c14Exit                 // the root function returns
)

type c14Frame struct {
	V      *c14View
	Fn     *core.FuncInfo
	Parent *c14Frame
	Site   *core.CallSite // the call in Parent.Fn that this frame expands (nil for the root)
	Depth  int

	cond            bool // the single boolean result is consumed as a condition by the caller
	blocks          map[*cfg.Block]*c14Node
	ret, retT, retF *c14Node
	sites           map[*ast.CallExpr]*core.CallSite
}

type c14Node struct {
	ID       int
	Kind     c14Kind
	Fr       *c14Frame
	Sub      *c14Frame      // c14Enter / c14Leave: the callee's frame
	CS       *core.CallSite // c14Call, c14Enter, c14Leave
	N        ast.Node       // c14Stmt
	Pt       core.Point
	Block    *cfg.Block // c14Block
	Deferred bool       // the call runs as a deferred call at function exit
	Out      []*c14Edge
}

type c14Edge struct {
	From, To *c14Node
	Fact     *c14Fact // what is known when the edge is taken (nil: nothing)
}

type c14Fact struct {
	Fr *c14Frame
	core.Fact
}

type c14View struct {
	Root   *c14Frame
	Entry  *c14Node
	Exit   *c14Node
	Nodes  []*c14Node
	Frames []*c14Frame

	depth  int
	opaque func(*core.FuncInfo) bool
	flags  map[c14FlagKey]int
}

const c14MaxNodes = 40000

// c14NewView builds the view of root. Functions for which opaque returns true are never expanded.
func c14NewView(root *core.FuncInfo, depth int, opaque func(*core.FuncInfo) bool) *c14View {
	v := &c14View{depth: depth, opaque: opaque}
	v.Root = v.frame(root, nil, nil, false)
	v.Exit = v.node(c14Exit, v.Root)
	v.Root.ret = v.Exit
	v.Entry = v.node(c14Enter, v.Root)
	v.Entry.Sub = v.Root
	v.build(v.Root)
	v.edge(v.Entry, v.Root.blocks[root.CFG().Blocks[0]], nil)
	return v
}

func (v *c14View) node(k c14Kind, fr *c14Frame) *c14Node {
	n := &c14Node{ID: len(v.Nodes), Kind: k, Fr: fr}
	v.Nodes = append(v.Nodes, n)
	return n
}

func (v *c14View) edge(from, to *c14Node, ft *c14Fact) {
	if from == nil || to == nil {
		return
	}
	from.Out = append(from.Out, &c14Edge{From: from, To: to, Fact: ft})
}

func (v *c14View) frame(fn *core.FuncInfo, parent *c14Frame, site *core.CallSite, cond bool) *c14Frame {
	fr := &c14Frame{V: v, Fn: fn, Parent: parent, Site: site, cond: cond, blocks: map[*cfg.Block]*c14Node{}, sites: map[*ast.CallExpr]*core.CallSite{}}
	if parent != nil {
		fr.Depth = parent.Depth + 1
	}
	for _, cs := range fn.Calls() {
		fr.sites[cs.Call] = cs
	}
	v.Frames = append(v.Frames, fr)
	return fr
}

func (v *c14View) build(fr *c14Frame) {
	g := fr.Fn.CFG()
	for _, b := range g.Blocks {
		if b.Live {
			n := v.node(c14Block, fr)
			n.Block = b
			n.Pt = core.Point{B: b, I: 0}
			fr.blocks[b] = n
		}
	}
	for _, b := range g.Blocks {
		if b.Live {
			v.fill(fr, b)
		}
	}
}

func (v *c14View) stmt(fr *c14Frame, pt core.Point, n ast.Node) *c14Node {
	st := v.node(c14Stmt, fr)
	st.N, st.Pt = n, pt
	return st
}

func (v *c14View) fill(fr *c14Frame, b *cfg.Block) {
	cur := fr.blocks[b]
	cond := fr.Fn.BranchCond(b)
	for i, n := range b.Nodes {
		pt := core.Point{B: b, I: i}
		if i == len(b.Nodes)-1 && cond != nil && len(b.Succs) == 2 {
			// (a named condition comes back from BranchCond written out: same branch, other syntax node)
			if e, ok := n.(ast.Expr); ok && (e == cond || b.Succs[0].Kind != cfg.KindSwitchCaseBody) {
				t, f := v.evalCond(fr, pt, cond, cur)
				v.edge(t, fr.blocks[b.Succs[0]], nil)
				v.edge(f, fr.blocks[b.Succs[1]], nil)
				return
			}
			// case of a tagged switch: the condition is the synthesised tag == value
			cur = v.walk(fr, pt, n, cur)
			st := v.stmt(fr, pt, n)
			v.edge(cur, st, nil)
			v.edge(st, fr.blocks[b.Succs[0]], &c14Fact{fr, core.Fact{Expr: cond, Truth: true}})
			v.edge(st, fr.blocks[b.Succs[1]], &c14Fact{fr, core.Fact{Expr: cond, Truth: false}})
			return
		}
		switch s := n.(type) {
		case *ast.ReturnStmt:
			v.buildReturn(fr, pt, s, cur)
			return
		case *ast.DeferStmt:
			cur = v.walkOperands(fr, pt, s.Call, cur) // the call itself runs at exit
		case *ast.GoStmt:
			cur = v.walkOperands(fr, pt, s.Call, cur)
			if cs := fr.sites[s.Call]; cs != nil {
				cn := v.node(c14Call, fr)
				cn.CS, cn.Pt = cs, pt
				v.edge(cur, cn, nil)
				cur = cn
			}
		default:
			cur = v.walk(fr, pt, n, cur)
		}
		st := v.stmt(fr, pt, n)
		v.edge(cur, st, nil)
		cur = st
	}
	for _, s := range b.Succs {
		v.edge(cur, fr.blocks[s], nil)
	}
}

func (v *c14View) buildReturn(fr *c14Frame, pt core.Point, s *ast.ReturnStmt, cur *c14Node) {
	if fr.cond && len(s.Results) == 1 {
		t, f := v.evalCond(fr, pt, s.Results[0], cur)
		for i, side := range []*c14Node{t, f} {
			st := v.stmt(fr, pt, s)
			v.edge(side, st, nil)
			end := v.defers(fr, pt, st)
			if i == 0 {
				v.edge(end, fr.retT, nil)
			} else {
				v.edge(end, fr.retF, nil)
			}
		}
		return
	}
	for _, r := range s.Results {
		cur = v.walk(fr, pt, r, cur)
	}
	st := v.stmt(fr, pt, s)
	v.edge(cur, st, nil)
	end := v.defers(fr, pt, st)
	if fr.cond {
		v.edge(end, fr.retT, nil)
		v.edge(end, fr.retF, nil)
	} else {
		v.edge(end, fr.ret, nil)
	}
}

// defers places the deferred calls registered before the return at pt (last registered first); a
// deferred call that is registered on some paths only may be skipped.
func (v *c14View) defers(fr *c14Frame, pt core.Point, cur *c14Node) *c14Node {
	var ds []*core.CallSite
	for _, cs := range fr.Fn.Calls() {
		if cs.InDefer {
			ds = append(ds, cs)
		}
	}
	for i := len(ds) - 1; i >= 0; i-- {
		d := ds[i]
		if !fr.Fn.CanReach(d.Pt, pt) {
			continue
		}
		must, _ := fr.Fn.MustPassBefore([]core.Point{d.Pt}, pt)
		before := cur
		cur = v.call(fr, pt, d.Call, cur, true)
		if !must {
			j := v.node(c14Join, fr)
			v.edge(cur, j, nil)
			v.edge(before, j, nil)
			cur = j
		}
	}
	return cur
}

// walk evaluates the node n (a statement of a CFG block or an expression) after cur and returns the
// node at which its evaluation is complete.
func (v *c14View) walk(fr *c14Frame, pt core.Point, n ast.Node, cur *c14Node) *c14Node {
	switch x := n.(type) {
	case nil:
		return cur
	case *ast.FuncLit:
		return cur
	case *ast.BinaryExpr:
		if x.Op == token.LAND || x.Op == token.LOR {
			t, f := v.evalCond(fr, pt, x, cur)
			j := v.node(c14Join, fr)
			v.edge(t, j, nil)
			v.edge(f, j, nil)
			return j
		}
	case *ast.CallExpr:
		cur = v.walkOperands(fr, pt, x, cur)
		return v.call(fr, pt, x, cur, false)
	}
	ast.Inspect(n, func(m ast.Node) bool {
		if m == n {
			return true
		}
		if m != nil {
			cur = v.walk(fr, pt, m, cur)
		}
		return false
	})
	return cur
}

func (v *c14View) walkOperands(fr *c14Frame, pt core.Point, call *ast.CallExpr, cur *c14Node) *c14Node {
	cur = v.walk(fr, pt, call.Fun, cur)
	for _, a := range call.Args {
		cur = v.walk(fr, pt, a, cur)
	}
	return cur
}

// inlinable returns the declared function of the root's package that the call site enters, when the
// view expands it.
func (v *c14View) inlinable(fr *c14Frame, cs *core.CallSite) *core.FuncInfo {
	if cs == nil || cs.IsConv || cs.InGo {
		return nil
	}
	fn, ok := cs.Callee.(*types.Func)
	if !ok {
		return nil
	}
	g := fr.Fn.P.FuncOf(fn)
	if g == nil || g.Pkg != v.Root.Fn.Pkg || fr.Depth >= v.depth || len(v.Nodes) > c14MaxNodes {
		return nil
	}
	if v.opaque != nil && v.opaque(g) {
		return nil
	}
	for a := fr; a != nil; a = a.Parent {
		if a.Fn == g {
			return nil
		}
	}
	return g
}

func (v *c14View) call(fr *c14Frame, pt core.Point, call *ast.CallExpr, cur *c14Node, deferred bool) *c14Node {
	cs := fr.sites[call]
	if cs == nil || cs.IsConv {
		return cur
	}
	if g := v.inlinable(fr, cs); g != nil {
		sub := v.frame(g, fr, cs, false)
		en, lv := v.node(c14Enter, fr), v.node(c14Leave, fr)
		en.Sub, en.CS, en.Pt, en.Deferred = sub, cs, pt, deferred
		lv.Sub, lv.CS, lv.Pt, lv.Deferred = sub, cs, pt, deferred
		sub.ret = lv
		v.edge(cur, en, nil)
		v.build(sub)
		v.edge(en, sub.blocks[g.CFG().Blocks[0]], nil)
		return lv
	}
	cn := v.node(c14Call, fr)
	cn.CS, cn.Pt, cn.Deferred = cs, pt, deferred
	v.edge(cur, cn, nil)
	return cn
}

func c14OneBoolResult(g *core.FuncInfo) bool {
	if g.Type.Results == nil || len(g.Type.Results.List) != 1 || len(g.Type.Results.List[0].Names) > 1 {
		return false
	}
	t := g.Info().TypeOf(g.Type.Results.List[0].Type)
	if t == nil {
		return false
	}
	b, ok := t.Underlying().(*types.Basic)
	return ok && b.Kind() == types.Bool
}

// evalCond evaluates the boolean expression e after cur and returns the nodes reached when it is
// true and when it is false.
func (v *c14View) evalCond(fr *c14Frame, pt core.Point, e ast.Expr, cur *c14Node) (t, f *c14Node) {
	e = ast.Unparen(e)
	switch x := e.(type) {
	case *ast.UnaryExpr:
		if x.Op == token.NOT {
			t, f = v.evalCond(fr, pt, x.X, cur)
			return f, t
		}
	case *ast.BinaryExpr:
		switch x.Op {
		case token.LAND:
			xt, xf := v.evalCond(fr, pt, x.X, cur)
			yt, yf := v.evalCond(fr, pt, x.Y, xt)
			f = v.node(c14Join, fr)
			v.edge(xf, f, nil)
			v.edge(yf, f, nil)
			return yt, f
		case token.LOR:
			xt, xf := v.evalCond(fr, pt, x.X, cur)
			yt, yf := v.evalCond(fr, pt, x.Y, xf)
			t = v.node(c14Join, fr)
			v.edge(xt, t, nil)
			v.edge(yt, t, nil)
			return t, yf
		}
	case *ast.CallExpr:
		if cs := fr.sites[x]; cs != nil {
			if g := v.inlinable(fr, cs); g != nil && c14OneBoolResult(g) {
				cur = v.walkOperands(fr, pt, x, cur)
				sub := v.frame(g, fr, cs, true)
				en := v.node(c14Enter, fr)
				en.Sub, en.CS, en.Pt = sub, cs, pt
				sub.retT, sub.retF = v.node(c14Leave, fr), v.node(c14Leave, fr)
				for _, lv := range []*c14Node{sub.retT, sub.retF} {
					lv.Sub, lv.CS, lv.Pt = sub, cs, pt
				}
				v.edge(cur, en, nil)
				v.build(sub)
				v.edge(en, sub.blocks[g.CFG().Blocks[0]], nil)
				return sub.retT, sub.retF
			}
		}
	}
	cur = v.walk(fr, pt, e, cur)
	t, f = v.node(c14Join, fr), v.node(c14Join, fr)
	t.Pt, f.Pt = pt, pt
	canT, canF := true, true
	if cv, ok := core.ConstVal(fr.Fn.Info(), e); ok && cv.Kind() == constant.Bool {
		canT, canF = constant.BoolVal(cv), !constant.BoolVal(cv)
	}
	if canT {
		v.edge(cur, t, &c14Fact{fr, core.Fact{Expr: e, Truth: true}})
	}
	if canF {
		v.edge(cur, f, &c14Fact{fr, core.Fact{Expr: e, Truth: false}})
	}
	return t, f
}

// ---------------------------------------------------------------------------
// Queries

// c14Query asks for a path from one of From to a node satisfying Target that passes no node in Avoid
// and takes no edge in AvoidEdge. With After the search starts behind the From nodes.
type c14Query struct {
	From      []*c14Node
	After     bool
	Target    func(*c14Node) bool
	Avoid     func(*c14Node) bool
	AvoidEdge func(*c14Edge) bool
}

// The search is sensitive to boolean flags: a local boolean variable that is only ever assigned
// (never has its address taken, is not written by a function literal) has a known value behind
// `ok = false`, `ok := true`, `var ok bool` and behind an edge that tests it; an edge that tests the
// flag against its known value the other way is infeasible and is not taken. So the single-exit form
// `ok := true; if bad { ok = false }; if ok { … }` has the same paths as the early-return form.
func (v *c14View) find(q c14Query) ([]*c14Node, bool) {
	type state struct {
		n   *c14Node
		env c14Env
	}
	seen := map[state]bool{}
	parent := map[state]state{}
	var work []state
	push := func(from, s state, root bool) {
		if !seen[s] {
			seen[s] = true
			if !root {
				parent[s] = from
			}
			work = append(work, s)
		}
	}
	expand := func(s state) {
		env := v.stmtEffect(s.n, s.env)
		for _, e := range s.n.Out {
			if q.AvoidEdge != nil && q.AvoidEdge(e) {
				continue
			}
			env2, feasible := v.edgeEffect(e, env)
			if !feasible {
				continue
			}
			push(s, state{e.To, env2}, false)
		}
	}
	for _, n := range q.From {
		if n == nil {
			continue
		}
		if q.After {
			expand(state{n, 0})
		} else {
			push(state{}, state{n, 0}, true)
		}
	}
	for len(work) > 0 {
		s := work[0]
		work = work[1:]
		if q.Avoid != nil && q.Avoid(s.n) {
			continue
		}
		if q.Target != nil && q.Target(s.n) {
			var path []*c14Node
			for m, ok := s, true; ok; m, ok = parent[m] {
				path = append(path, m.n)
				if len(path) > 4*len(v.Nodes) {
					break
				}
			}
			for i, j := 0, len(path)-1; i < j; i, j = i+1, j-1 {
				path[i], path[j] = path[j], path[i]
			}
			return path, true
		}
		expand(s)
	}
	return nil, false
}

// c14Env holds the known values of up to 32 boolean flags: two bits each (0 unknown, 1 true, 2 false).
type c14Env uint64

func (e c14Env) get(i int) int { return int(e>>(2*uint(i))) & 3 }
func (e c14Env) set(i, val int) c14Env {
	return e&^(3<<(2*uint(i))) | c14Env(val)<<(2*uint(i))
}

type c14FlagKey struct {
	fr *c14Frame
	v  *types.Var
}

// flagIndex returns the slot of the flag that val denotes (-1: not a trackable flag).
func (v *c14View) flagIndex(val c14Val) int {
	if val.V == nil || val.Fr == nil {
		return -1
	}
	k := c14FlagKey{val.Fr, val.V}
	if i, ok := v.flags[k]; ok {
		return i
	}
	if v.flags == nil {
		v.flags = map[c14FlagKey]int{}
	}
	idx := -1
	fn := val.Fr.Fn
	b, isBasic := val.V.Type().Underlying().(*types.Basic)
	if isBasic && b.Kind() == types.Bool && !val.V.IsField() && fn.Decl != nil && fn.Decl.Pos() <= val.V.Pos() && val.V.Pos() < fn.Decl.End() && len(v.flags) < 32 {
		ok := true
		for _, l := range allLits(fn) {
			if len(assignsToVar(l, val.V)) > 0 {
				ok = false
			}
		}
		ast.Inspect(fn.Body, func(n ast.Node) bool {
			if u, isU := n.(*ast.UnaryExpr); isU && u.Op == token.AND {
				if varOfRaw(fn, u.X) == val.V {
					ok = false
				}
			}
			return ok
		})
		if ok {
			idx = 0
			for _, i := range v.flags {
				if i >= idx {
					idx = i + 1
				}
			}
		}
	}
	v.flags[k] = idx
	return idx
}

func c14BoolConst(info *types.Info, e ast.Expr) int {
	if cv, ok := core.ConstVal(info, e); ok && cv.Kind() == constant.Bool {
		if constant.BoolVal(cv) {
			return 1
		}
		return 2
	}
	return 0
}

// stmtEffect updates the flags for the effect of node n.
func (v *c14View) stmtEffect(n *c14Node, env c14Env) c14Env {
	switch n.Kind {
	case c14Enter:
		// named boolean results start as false
		if n.Sub != nil && n.Sub.Fn.Type.Results != nil {
			for _, fl := range n.Sub.Fn.Type.Results.List {
				for _, nm := range fl.Names {
					if rv, ok := n.Sub.Fn.Info().Defs[nm].(*types.Var); ok {
						if i := v.flagIndex(c14Val{Fr: n.Sub, V: rv}); i >= 0 {
							env = env.set(i, 2)
						}
					}
				}
			}
		}
	case c14Stmt:
		info := n.Fr.Fn.Info()
		assign := func(lhs ast.Expr, val int) {
			if w := varOfRaw(n.Fr.Fn, lhs); w != nil {
				if i := v.flagIndex(c14Val{Fr: n.Fr, V: w}); i >= 0 {
					env = env.set(i, val)
				}
			}
		}
		switch s := n.N.(type) {
		case *ast.AssignStmt:
			for i, l := range s.Lhs {
				val := 0
				if len(s.Lhs) == len(s.Rhs) && (s.Tok == token.ASSIGN || s.Tok == token.DEFINE) {
					val = c14BoolConst(info, s.Rhs[i])
				}
				assign(l, val)
			}
		case *ast.ValueSpec: // go/cfg lists each var spec of a declaration statement as a node
			for i, nm := range s.Names {
				switch {
				case len(s.Values) == 0:
					assign(nm, 2) // zero value
				case len(s.Values) == len(s.Names):
					assign(nm, c14BoolConst(info, s.Values[i]))
				default:
					assign(nm, 0)
				}
			}
		case *ast.IncDecStmt:
			assign(s.X, 0)
		case *ast.Ident, *ast.SelectorExpr, *ast.IndexExpr:
			// range key / value
			if e, ok := n.N.(ast.Expr); ok {
				assign(e, 0)
			}
		}
	}
	return env
}

// edgeEffect: taking the edge with the given flags known; false when the edge contradicts them.
func (v *c14View) edgeEffect(e *c14Edge, env c14Env) (c14Env, bool) {
	if e.Fact == nil {
		return env, true
	}
	cm, ok := core.NormCmp(e.Fact.Fact)
	if !ok {
		return env, true
	}
	truth := cm.Op == token.EQL
	if cm.R != nil {
		if cm.Op != token.EQL && cm.Op != token.NEQ {
			return env, true
		}
		switch c14BoolConst(e.Fact.Fr.Fn.Info(), cm.R) {
		case 1:
		case 2:
			truth = !truth
		default:
			return env, true
		}
	}
	if _, isIdent := ast.Unparen(cm.L).(*ast.Ident); !isIdent {
		return env, true
	}
	val := e.Fact.Fr.val(cm.L)
	want := 2
	if truth {
		want = 1
	}
	if val.V == nil && val.E != nil {
		// a parameter of an expanded call that is passed a constant (pushEvent(e, nil, false))
		if k := c14BoolConst(val.Fr.Fn.Info(), val.E); k != 0 && k != want {
			return env, false
		}
		return env, true
	}
	i := v.flagIndex(val)
	if i < 0 {
		return env, true
	}
	if cur := env.get(i); cur != 0 && cur != want {
		return env, false
	}
	return env.set(i, want), true
}

func c14NodeSet(ns ...*c14Node) func(*c14Node) bool {
	m := map[*c14Node]bool{}
	for _, n := range ns {
		m[n] = true
	}
	return func(n *c14Node) bool { return m[n] }
}

func c14IsExit(n *c14Node) bool { return n.Kind == c14Exit }

// edgesWith: the edges whose fact is accepted by match.
func (v *c14View) edgesWith(match func(c14Fact) bool) func(*c14Edge) bool {
	cache := map[*c14Edge]bool{}
	return func(e *c14Edge) bool {
		if e.Fact == nil {
			return false
		}
		r, ok := cache[e]
		if !ok {
			r = match(*e.Fact)
			cache[e] = r
		}
		return r
	}
}

// mustPassBefore: every path from the entry to `to` passes one of via.
func (v *c14View) mustPassBefore(via []*c14Node, to *c14Node) (bool, []*c14Node) {
	if c14NodeSet(via...)(to) {
		return true, nil
	}
	p, found := v.find(c14Query{From: []*c14Node{v.Entry}, Target: c14NodeSet(to), Avoid: c14NodeSet(via...)})
	return !found, p
}

// mustPassAfter: every path from behind `from` to the return of the root passes one of via.
func (v *c14View) mustPassAfter(from *c14Node, via []*c14Node) (bool, []*c14Node) {
	p, found := v.find(c14Query{From: []*c14Node{from}, After: true, Target: c14IsExit, Avoid: c14NodeSet(via...)})
	return !found, p
}

func (v *c14View) mustPassBetween(from *c14Node, via []*c14Node, to *c14Node) (bool, []*c14Node) {
	p, found := v.find(c14Query{From: []*c14Node{from}, After: true, Target: c14NodeSet(to), Avoid: c14NodeSet(via...)})
	return !found, p
}

// reachable: can every one of ns be reached from the entry at all? Rules ask this before they trust a
// "no path exists" answer about these nodes (which would be vacuous if the view lost them).
func (v *c14View) reachable(ns ...*c14Node) bool {
	for _, n := range ns {
		if _, ok := v.find(c14Query{From: []*c14Node{v.Entry}, Target: c14NodeSet(n)}); !ok {
			return false
		}
	}
	return true
}

func (v *c14View) canReach(from, to *c14Node) bool {
	_, found := v.find(c14Query{From: []*c14Node{from}, After: true, Target: c14NodeSet(to)})
	return found
}

// guarded: every path from the entry to `to` takes an edge with a fact accepted by match.
func (v *c14View) guarded(to *c14Node, match func(c14Fact) bool) (bool, []*c14Node) {
	p, found := v.find(c14Query{From: []*c14Node{v.Entry}, Target: c14NodeSet(to), AvoidEdge: v.edgesWith(match)})
	return !found, p
}

func (v *c14View) guardedBetween(from, to *c14Node, match func(c14Fact) bool) (bool, []*c14Node) {
	p, found := v.find(c14Query{From: []*c14Node{from}, After: true, Target: c14NodeSet(to), AvoidEdge: v.edgesWith(match)})
	return !found, p
}

// precedesLocally / followsLocally / pairedWith: as the helpers of the same name on one function.
func (v *c14View) precedesLocally(ys []*c14Node, x *c14Node) (bool, []*c14Node) {
	if ok, p := v.mustPassBefore(ys, x); !ok {
		return false, p
	}
	if v.canReach(x, x) {
		if ok, p := v.mustPassBetween(x, ys, x); !ok {
			return false, p
		}
	}
	return true, nil
}

func (v *c14View) followsLocally(x *c14Node, ys []*c14Node) (bool, []*c14Node) {
	if ok, p := v.mustPassAfter(x, ys); !ok {
		return false, p
	}
	if v.canReach(x, x) {
		if ok, p := v.mustPassBetween(x, ys, x); !ok {
			return false, p
		}
	}
	return true, nil
}

func (v *c14View) pairedWith(x *c14Node, ys []*c14Node) (bool, []*c14Node) {
	if len(ys) == 0 {
		return false, nil
	}
	if ok, _ := v.precedesLocally(ys, x); ok {
		return true, nil
	}
	return v.followsLocally(x, ys)
}

// calls lists the nodes at which a call accepted by pred starts: opaque calls and expanded ones.
func (v *c14View) calls(pred func(n *c14Node) bool) []*c14Node {
	var out []*c14Node
	for _, n := range v.Nodes {
		if (n.Kind == c14Call || n.Kind == c14Enter) && n.CS != nil && pred(n) {
			out = append(out, n)
		}
	}
	return out
}

// callsTo lists the call nodes whose callee has one of the canonical names.
func (v *c14View) callsTo(names ...string) []*c14Node {
	return v.calls(func(n *c14Node) bool {
		for _, nm := range names {
			if n.CS.Name == nm {
				return true
			}
		}
		return false
	})
}

// done returns the node at which the call starting at n is complete (the leave node of an expansion).
func (v *c14View) done(n *c14Node) []*c14Node {
	if n.Kind != c14Enter || n.Sub == nil {
		return []*c14Node{n}
	}
	var out []*c14Node
	for _, l := range []*c14Node{n.Sub.ret, n.Sub.retT, n.Sub.retF} {
		if l != nil {
			out = append(out, l)
		}
	}
	return out
}

// stmts lists the nodes at which the CFG node at pt of the frame's function completes.
func (v *c14View) stmts(fr *c14Frame, pt core.Point) []*c14Node {
	var out []*c14Node
	for _, n := range v.Nodes {
		if n.Kind == c14Stmt && n.Fr == fr && n.Pt == pt {
			out = append(out, n)
		}
	}
	return out
}

// funcs is the set of functions whose code the view contains.
func (v *c14View) funcs() map[*core.FuncInfo]bool {
	m := map[*core.FuncInfo]bool{}
	for _, fr := range v.Frames {
		m[fr.Fn] = true
	}
	return m
}

// private returns the root and those expanded functions that run only as a part of the root: they
// are unexported and every reference to them in the package is a call made by the root or by another
// private function (never a method value, never a call from elsewhere).
func (v *c14View) private() map[*core.FuncInfo]bool {
	root := v.Root.Fn
	pkg := root.Pkg
	type ref struct {
		in   *core.FuncInfo
		call bool
	}
	refs := map[*types.Func][]ref{}
	for _, file := range pkg.Syntax {
		for _, d := range file.Decls {
			var encl *core.FuncInfo
			if fd, ok := d.(*ast.FuncDecl); ok {
				if obj, _ := pkg.TypesInfo.Defs[fd.Name].(*types.Func); obj != nil {
					encl = root.P.FuncOf(obj)
				}
			}
			callFun := map[*ast.Ident]bool{}
			ast.Inspect(d, func(n ast.Node) bool {
				switch x := n.(type) {
				case *ast.CallExpr:
					switch f := ast.Unparen(x.Fun).(type) {
					case *ast.Ident:
						callFun[f] = true
					case *ast.SelectorExpr:
						callFun[f.Sel] = true
					}
				case *ast.Ident:
					if fn, ok := pkg.TypesInfo.Uses[x].(*types.Func); ok {
						refs[fn.Origin()] = append(refs[fn.Origin()], ref{encl, callFun[x]})
					}
				}
				return true
			})
		}
	}
	priv := v.funcs()
	for changed := true; changed; {
		changed = false
		for g := range priv {
			if g == root {
				continue
			}
			ok := g.Obj != nil && !ast.IsExported(g.Obj.Name())
			if ok {
				for _, r := range refs[g.Obj.Origin()] {
					if !r.call || r.in == nil || !priv[r.in] {
						ok = false
					}
				}
			}
			if !ok {
				delete(priv, g)
				changed = true
			}
		}
	}
	priv[root] = true
	return priv
}

// describe renders a witness path as "L12 -> L15 -> L20".
func (v *c14View) describe(path []*c14Node) string {
	var parts []string
	last := ""
	for _, n := range path {
		var pos token.Pos
		switch {
		case n.N != nil:
			pos = n.N.Pos()
		case n.CS != nil:
			pos = n.CS.Pos()
		case n.Kind == c14Join && n.Pt.B != nil:
			pos = posOf(n.Pt)
		}
		if !pos.IsValid() {
			continue
		}
		s := fmt.Sprintf("L%d", n.Fr.Fn.P.Fset.Position(pos).Line)
		if s != last {
			parts = append(parts, s)
			last = s
		}
	}
	return strings.Join(parts, " -> ")
}

// pos gives a position for reports.
func (n *c14Node) pos() token.Pos {
	switch {
	case n == nil:
		return token.NoPos
	case n.CS != nil:
		return n.CS.Pos()
	case n.N != nil:
		return n.N.Pos()
	case n.Pt.B != nil:
		return posOf(n.Pt)
	}
	return token.NoPos
}

// ---------------------------------------------------------------------------
// Values across frames

// c14Val identifies a value: a variable of a frame, or (when the origin is not a plain variable) an
// expression of a frame.
type c14Val struct {
	Fr *c14Frame
	V  *types.Var
	E  ast.Expr
}

func (a c14Val) same(b c14Val) bool {
	if a.Fr == nil || a.Fr != b.Fr {
		return false
	}
	if a.V != nil || b.V != nil {
		return a.V == b.V
	}
	return a.E != nil && a.E == b.E
}

// paramArg: when v is a parameter or the receiver of the frame's function that the function never
// assigns, the expression the expanded call passes for it (in the parent frame).
func (fr *c14Frame) paramArg(v *types.Var) ast.Expr {
	if fr.Parent == nil || fr.Site == nil || v == nil {
		return nil
	}
	fn := fr.Fn
	if len(assignsToVar(fn, v)) > 0 {
		return nil
	}
	for _, l := range allLits(fn) {
		if len(assignsToVar(l, v)) > 0 {
			return nil
		}
	}
	if v == fn.Recv() {
		return fr.Site.Recv()
	}
	sig, _ := fn.Obj.Type().(*types.Signature)
	if sig == nil {
		return nil
	}
	for i := 0; i < sig.Params().Len(); i++ {
		if fn.Param(i) == v {
			if sig.Variadic() && i == sig.Params().Len()-1 {
				return nil
			}
			if i < len(fr.Site.Call.Args) && len(fr.Site.Call.Args) == sig.Params().Len() {
				return fr.Site.Call.Args[i]
			}
			return nil
		}
	}
	return nil
}

// origin follows e to where its value comes from: parentheses, unmodified parameters and receivers
// to the argument of the expanded call (in the caller's frame) and, with locals, single-definition
// locals to their defining expression.
func (fr *c14Frame) origin(e ast.Expr, locals bool) (*c14Frame, ast.Expr) {
	for i := 0; i < 24 && e != nil; i++ {
		e = ast.Unparen(e)
		id, ok := e.(*ast.Ident)
		if !ok {
			return fr, e
		}
		v, _ := fr.Fn.Info().ObjectOf(id).(*types.Var)
		if v == nil {
			return fr, e
		}
		if a := fr.paramArg(v); a != nil {
			fr, e = fr.Parent, a
			continue
		}
		if locals {
			if d := resolveLocal(fr.Fn, e); d != e {
				e = d
				continue
			}
		}
		return fr, e
	}
	return fr, e
}

// val identifies the value e denotes in the frame (parameters followed to arguments; locals kept).
func (fr *c14Frame) val(e ast.Expr) c14Val {
	f2, e2 := fr.origin(e, false)
	if e2 == nil {
		return c14Val{}
	}
	if id, ok := e2.(*ast.Ident); ok {
		if v, _ := f2.Fn.Info().ObjectOf(id).(*types.Var); v != nil {
			return c14Val{Fr: f2, V: v}
		}
	}
	return c14Val{Fr: f2, E: e2}
}

func c14FieldOfSel(fn *core.FuncInfo, sel *ast.SelectorExpr) string {
	if s, ok := fn.Info().Selections[sel]; ok {
		if v, ok := s.Obj().(*types.Var); ok && v.IsField() {
			return fn.P.FieldName(v)
		}
	}
	return ""
}

// fieldPath renders a chain of field selections as canonical field names (outermost last) and
// identifies the root value; parameters and single-definition locals standing for a field selection
// are looked through.
func (fr *c14Frame) fieldPath(e ast.Expr) (root c14Val, path []string) {
	cur := fr
	for i := 0; i < 24; i++ {
		f2, e2 := cur.origin(e, true)
		sel, ok := e2.(*ast.SelectorExpr)
		if !ok {
			break
		}
		fn := c14FieldOfSel(f2.Fn, sel)
		if fn == "" {
			break
		}
		path = append([]string{fn}, path...)
		cur, e = f2, sel.X
	}
	return cur.val(e), path
}

// fieldOf: the canonical name of the field that e denotes ("" if none).
func (fr *c14Frame) fieldOf(e ast.Expr) string {
	if e == nil {
		return ""
	}
	f2, e2 := fr.origin(e, true)
	if sel, ok := e2.(*ast.SelectorExpr); ok {
		return c14FieldOfSel(f2.Fn, sel)
	}
	return ""
}

// callTo: e (parameters and single-definition locals looked through) is a call of one of names.
func (fr *c14Frame) callTo(e ast.Expr, names ...string) (*c14Frame, *ast.CallExpr) {
	if e == nil {
		return nil, nil
	}
	f2, e2 := fr.origin(e, true)
	call, ok := e2.(*ast.CallExpr)
	if !ok {
		return nil, nil
	}
	nm := calleeName(f2.Fn, call)
	for _, n := range names {
		if nm == n {
			return f2, call
		}
	}
	return nil, nil
}

// recvField: the field on which the method of the call node is invoked (buf.incompletes.Add -> incompletes).
func (n *c14Node) recvField() string {
	if n.CS == nil {
		return ""
	}
	return n.Fr.fieldOf(n.CS.Recv())
}

// c14BoolFact matches the bare boolean fact "value is <truth>".
func c14BoolFact(is func(c14Val) bool, truth bool) func(c14Fact) bool {
	return func(ft c14Fact) bool {
		cm, ok := core.NormCmp(ft.Fact)
		if !ok || cm.R != nil {
			return false
		}
		if (cm.Op == token.EQL) != truth {
			return false
		}
		return is(ft.Fr.val(cm.L))
	}
}

// c14NilFact matches "X == nil" (wantNil) / "X != nil" for an operand accepted by isX.
func c14NilFact(isX func(fr *c14Frame, e ast.Expr) bool, wantNil bool) func(c14Fact) bool {
	return func(ft c14Fact) bool {
		cm, ok := core.NormCmp(ft.Fact)
		if !ok || cm.R == nil {
			return false
		}
		info := ft.Fr.Fn.Info()
		l, r := cm.L, cm.R
		if core.IsNil(info, l) {
			l, r = r, l
		}
		if !core.IsNil(info, r) || !isX(ft.Fr, l) {
			return false
		}
		if wantNil {
			return cm.Op == token.EQL
		}
		return cm.Op == token.NEQ
	}
}

// c14ResultVar: the variable that receives result idx of the call (the call is the sole right-hand
// side of an assignment or definition in fn).
func c14ResultVar(fn *core.FuncInfo, call *ast.CallExpr, idx int) *types.Var {
	var v *types.Var
	fn.InspectOwn(func(n ast.Node) bool {
		switch s := n.(type) {
		case *ast.AssignStmt:
			if len(s.Rhs) == 1 && ast.Unparen(s.Rhs[0]) == ast.Expr(call) {
				i := idx
				if i < 0 {
					i = len(s.Lhs) - 1
				}
				if i < len(s.Lhs) {
					v = varOf(fn, s.Lhs[i])
				}
			}
		case *ast.ValueSpec:
			if len(s.Values) == 1 && ast.Unparen(s.Values[0]) == ast.Expr(call) {
				i := idx
				if i < 0 {
					i = len(s.Names) - 1
				}
				if i < len(s.Names) {
					if w, ok := fn.Info().ObjectOf(s.Names[i]).(*types.Var); ok {
						v = w
					}
				}
			}
		}
		return true
	})
	return v
}
