package rules

import (
	"fmt"
	"go/ast"
	"go/constant"
	"go/token"
	"go/types"
	"sort"

	"golang.org/x/tools/go/cfg"

	"lachk/core"
)

// ---------------------------------------------------------------------------
// C24.inc: the end of a whole-table compaction reports "no upper bound" for every prefix length.
//
// For a prefix made of 0xff bytes only there is no key above all keys with the prefix: incPrefix has to
// answer nil, whatever the length of the prefix. The arithmetic of incPrefix is not decided, but two
// structural necessary conditions are:
//
//  (a) an answer nil is reachable for a non-empty prefix (the overflow exit exists and is not tied to the
//      empty-prefix test);
//  (b) where the function (or a same-package helper it calls) decides something by shifting a machine
//      word by a count computed from the prefix length, the count stays below the width of the shifted
//      operand for every length admitted by the guards on the way: Go defines x>>n and x<<n as 0 for
//      n >= width, so for the length at which the count reaches the width the test no longer depends on
//      the value — a carry out of the prefix width (the all-0xff prefix of that length) goes unseen and
//      a wrapped-around end (all zero bytes, below the start) is handed to the underlying Compact.
//
// (b) is decided with the linear normaliser: count = Σ c·len(x) + k, each len(x) bounded from above by
// the branch facts that guard the shift (`len(prefix) <= 8`, `n < 8`, `len(prefix) == 4`, in any
// spelling, through single-definition locals). A count that cannot be bounded is reported as undecided.

// c24lenNamer names len(<variable>) atoms by the variable (through unchanged locals: c24subst has been
// applied before), everything else by its text.
func c24lenNamer(f *core.FuncInfo) core.AtomNamer {
	return func(e ast.Expr) string {
		ln := isCallTo(f, e, "builtin.len")
		if ln == nil || len(ln.Args) != 1 {
			return ""
		}
		if v := varOf(f, ln.Args[0]); v != nil {
			return "len(" + v.Name() + ")"
		}
		return ""
	}
}

// c24linEq normalises an integer equality fact to (L - R, "==" or "!=") after c24subst.
func c24linEq(f *core.FuncInfo, ft core.Fact, namer core.AtomNamer) (*core.Lin, string, bool) {
	cm, ok := core.NormCmp(ft)
	if !ok || cm.R == nil || (cm.Op != token.EQL && cm.Op != token.NEQ) {
		return nil, "", false
	}
	isInt := func(e ast.Expr) bool {
		t := f.Info().TypeOf(e)
		if t == nil {
			return false
		}
		b, isB := t.Underlying().(*types.Basic)
		return isB && b.Info()&types.IsInteger != 0
	}
	if !isInt(cm.L) && !isInt(cm.R) {
		return nil, "", false
	}
	diff := &ast.BinaryExpr{X: c24subst(f, cm.L, 0), Op: token.SUB, Y: c24subst(f, cm.R, 0)}
	lin := core.Linearize(f.Info(), diff, namer)
	if cm.Op == token.EQL {
		return lin, "==", true
	}
	return lin, "!=", true
}

// c24atomBound: what a branch fact says about a single atom: atom <= ub (hasUB) — from `atom + k <= 0`
// or `atom == k`. Facts over several atoms say nothing here.
func c24atomBound(f *core.FuncInfo, ft core.Fact, namer core.AtomNamer) (atom string, ub int64, hasUB bool) {
	if lc, ok := c24linOrder(f, ft, namer); ok && len(lc.Form.Coef) == 1 && lc.Form.C.IsInt64() {
		for k, co := range lc.Form.Coef {
			if co.IsInt64() && co.Int64() == 1 {
				return k, -lc.Form.C.Int64(), true
			}
		}
		return "", 0, false
	}
	if lin, op, ok := c24linEq(f, ft, namer); ok && op == "==" && len(lin.Coef) == 1 && lin.C.IsInt64() {
		for k, co := range lin.Coef {
			if co.IsInt64() && co.Int64() == 1 {
				return k, -lin.C.Int64(), true
			}
			if co.IsInt64() && co.Int64() == -1 {
				return k, lin.C.Int64(), true
			}
		}
	}
	return "", 0, false
}

// c24upperBoundAt: the least upper bound of the atom that the branch facts guarding `pt` establish
// (every path from the entry to pt takes an edge implying atom <= ub).
func c24upperBoundAt(f *core.FuncInfo, pt core.Point, atom string, namer core.AtomNamer) (int64, bool) {
	cands := map[int64]bool{}
	for _, b := range f.CFG().Blocks {
		if !b.Live || f.BranchCond(b) == nil {
			continue
		}
		for s := 0; s < 2; s++ {
			for _, alt := range f.EdgeAlternatives(b, s) {
				for _, ft := range alt {
					if k, ub, ok := c24atomBound(f, ft, namer); ok && k == atom {
						cands[ub] = true
					}
				}
			}
		}
	}
	var sorted []int64
	for ub := range cands {
		sorted = append(sorted, ub)
	}
	sort.Slice(sorted, func(i, j int) bool { return sorted[i] < sorted[j] })
	for _, want := range sorted {
		// a fact with a smaller bound implies this one as well
		if ok, _ := f.GuardedBy(pt, func(ft core.Fact) bool {
			k, ub, ok := c24atomBound(f, ft, namer)
			return ok && k == atom && ub <= want
		}); ok {
			return want, true
		}
	}
	return 0, false
}

// c24shiftWidth: the number of bits of the shifted operand; platform-sized integers count with the
// smallest supported width (32).
func c24shiftWidth(t types.Type) int64 {
	if t == nil {
		return 0
	}
	b, ok := t.Underlying().(*types.Basic)
	if !ok {
		return 0
	}
	switch b.Kind() {
	case types.Int8, types.Uint8:
		return 8
	case types.Int16, types.Uint16:
		return 16
	case types.Int32, types.Uint32, types.Int, types.Uint, types.Uintptr:
		return 32
	case types.Int64, types.Uint64:
		return 64
	}
	return 0
}

// c24decidingShifts lists the shift expressions of f that take part in a branch decision: inside a
// branch condition, or inside the only definition of a local that a branch condition mentions.
func c24decidingShifts(f *core.FuncInfo) []*ast.BinaryExpr {
	var out []*ast.BinaryExpr
	seen := map[*ast.BinaryExpr]bool{}
	var scan func(e ast.Expr, depth int)
	scan = func(e ast.Expr, depth int) {
		if e == nil || depth > 3 {
			return
		}
		ast.Inspect(e, func(n ast.Node) bool {
			switch x := n.(type) {
			case *ast.FuncLit:
				return false
			case *ast.BinaryExpr:
				if (x.Op == token.SHL || x.Op == token.SHR) && !seen[x] {
					seen[x] = true
					out = append(out, x)
				}
			case *ast.Ident:
				if v, ok := f.Info().Uses[x].(*types.Var); ok && !v.IsField() {
					if d := singleDef(f, v); d != nil {
						scan(d, depth+1)
					}
				}
			}
			return true
		})
	}
	for _, b := range f.CFG().Blocks {
		if b.Live {
			scan(f.BranchCond(b), 0)
		}
	}
	// switch tags and case expressions are branch decisions as well
	f.InspectOwn(func(n ast.Node) bool {
		switch x := n.(type) {
		case *ast.SwitchStmt:
			scan(x.Tag, 0)
		case *ast.CaseClause:
			for _, e := range x.List {
				scan(e, 0)
			}
		}
		return true
	})
	return out
}

func c24Inc(c *core.Ctx) {
	c.Clause("C24.inc", func() {
		f := c.Fn(c24IncPfx)
		pp := f.Param(0)
		c.Need(pp != nil && c24isBytes(pp.Type()), "incPrefix(prefix []byte)")
		namer := c24lenNamer(f)
		plen := "len(" + pp.Name() + ")"
		// (a) nil is reachable for a non-empty prefix
		var nilRets []core.Point
		for _, rp := range f.ReturnPoints() {
			if r, ok := rp.Node().(*ast.ReturnStmt); ok && len(r.Results) == 1 && core.IsNil(f.Info(), resolveLocal(f, r.Results[0])) {
				nilRets = append(nilRets, rp)
			}
		}
		c.ExpectAtLeast("returns of incPrefix that report 'no upper bound' (nil)", len(nilRets), 1)
		isEmpty := func(ft core.Fact) bool {
			if k, ub, ok := c24atomBound(f, ft, namer); ok && k == plen && ub <= 0 {
				return true
			}
			// prefix == nil says the same for this purpose
			return varNilFact(f, pp, true)(ft)
		}
		var emptyEdges func(*cfg.Block, int) bool = f.GuardEdges(isEmpty)
		_, found := core.PathQuery{F: f, From: f.Entry(), Target: core.PointSet(nilRets...), AvoidEdge: emptyEdges}.Find()
		c.Check(found, "incPrefix|overflow exit for non-empty prefixes", "T4 GuardedBy (feasible path)", f.Pos(),
			"a nil result is reachable without taking the empty-prefix edge: the all-0xff prefix can be answered with 'no upper bound'",
			"incPrefix returns nil only for the empty prefix: for a prefix of 0xff bytes it hands out a finite end (a wrapped-around or longer key), so Compact(nil, nil) asks the underlying store for a range that does not cover the table")
		// (b) shifts that take part in a decision keep their count below the operand width
		fns := []*core.FuncInfo{f}
		for _, cs := range f.Calls() {
			if fn, ok := cs.Callee.(*types.Func); ok {
				if g := c.P.FuncOf(fn); g != nil && g != f && g.Pkg == f.Pkg {
					dup := false
					for _, h := range fns {
						dup = dup || h == g
					}
					if !dup {
						fns = append(fns, g)
					}
				}
			}
		}
		nShift := 0
		for _, g := range fns {
			gn := c24lenNamer(g)
			for _, sh := range c24decidingShifts(g) {
				w := c24shiftWidth(g.Info().TypeOf(sh.X))
				if w == 0 {
					w = c24shiftWidth(g.Info().TypeOf(sh))
				}
				key := short(g.Name) + "|a shift that decides keeps its count below the operand width"
				if cv, isC := core.ConstVal(g.Info(), sh.Y); isC && cv.Kind() == constant.Int {
					if n, exact := constant.Int64Val(cv); exact && w > 0 && n >= w {
						nShift++
						c.Fail(key, "linear normaliser + T4 GuardedBy", sh.Pos(), fmt.Sprintf("%s shifts a %d-bit operand by the constant %d: the result is always 0, the decision taken on it ignores the prefix", exprStr(sh), w, n))
					}
					continue
				}
				nShift++
				pt, okPt := g.PointOf(sh)
				if !okPt || w == 0 {
					c.Undecided(key, "linear normaliser + T4 GuardedBy", sh.Pos(), "the shift "+exprStr(sh)+" could not be placed in the control flow graph or its operand has no fixed width")
					continue
				}
				lin := core.Linearize(g.Info(), c24subst(g, sh.Y, 0), gn)
				max, bounded, worst := int64(0), lin.C.IsInt64(), ""
				if bounded {
					max = lin.C.Int64()
				}
				var keys []string
				for k := range lin.Coef {
					keys = append(keys, k)
				}
				sort.Strings(keys)
				for _, k := range keys {
					co := lin.Coef[k]
					if !co.IsInt64() {
						bounded = false
						continue
					}
					if co.Sign() < 0 {
						// a length is at least 0; anything else subtracted is not bounded from below here
						if len(k) < 4 || k[:4] != "len(" {
							bounded = false
						}
						continue
					}
					ub, ok := c24upperBoundAt(g, pt, k, gn)
					if !ok {
						bounded = false
						worst = k
						continue
					}
					max += co.Int64() * ub
					worst += fmt.Sprintf(" %s<=%d", k, ub)
				}
				if !bounded {
					c.Undecided(key, "linear normaliser + T4 GuardedBy", sh.Pos(), fmt.Sprintf("the count of %s (normal form %s) is not bounded by the guards that lead to it (%s): for a long enough prefix the shift yields 0 whatever the value", exprStr(sh), lin.String(), worst))
					continue
				}
				c.Check(max < w, key, "linear normaliser + T4 GuardedBy", sh.Pos(),
					fmt.Sprintf("%s: count %s is at most %d (<%d bits) under the guards%s", exprStr(sh), lin.String(), max, w, worst),
					fmt.Sprintf("%s shifts a %d-bit operand by %s, which reaches %d under the guards that lead to it (%s): Go yields 0 for a count >= the width, so for that prefix length the decision no longer depends on the value — the carry out of an all-0xff prefix is not seen, incPrefix returns a wrapped-around end (zero bytes) instead of nil and Compact(nil, nil) asks for a range that covers none of the table's keys", exprStr(sh), w, lin.String(), max, worst))
			}
		}
		if nShift == 0 {
			c.Pass("incPrefix|no machine-word shift takes part in a decision", "linear normaliser + T4 GuardedBy", "incPrefix and the same-package functions it calls decide nothing by a variable shift: arbitrary-length arithmetic")
		}
	})
}
