package rules

import (
	"go/ast"
	"go/token"
	"go/types"
	"strings"

	"lachk/core"
)

// Generic views used by the C23 clauses so that a fact is decided the same way whether the code that
// establishes it is written in the function itself or in a small helper of the module:
//
//   - c23Lift: a branch on a boolean predicate helper `if isX(v)` carries the facts about v that the
//     helper's true (false) results imply;
//   - c23EvalBytes: the content and the privacy of a byte slice built by make/append/copy helpers,
//     evaluated through straight-line module helpers (`concat(a, b)`);
//   - c23Forwards: the calls a function makes on one of its parameters, directly or in a helper the
//     parameter is handed to (with the helper's parameters bound to the caller's variables).
//
// Candidates for core: all three are independent of C23.

// ---------------------------------------------------------------------------
// predicate look-through

// c23VarFact builds the matcher of facts about variable v in function g.
type c23VarFact func(g *core.FuncInfo, v *types.Var) func(core.Fact) bool

// c23Lift returns a matcher for facts of f about v that accepts what mk(f, v) accepts and, in addition, a
// call p(…, v, …) of a boolean function p of the module with the truth value t when every result of p
// that can be t implies a fact accepted for p's parameter: the return is reached only over an edge
// implying it, or the returned expression being t implies it (whatever alternative of || / && holds).
// `if err != nil && err == X` and `if isX(err)` with `func isX(e error) bool { return e != nil && e == X }`
// (or the early-return spelling of isX) are therefore the same edge.
func c23Lift(f *core.FuncInfo, v *types.Var, mk c23VarFact, depth int) func(core.Fact) bool {
	direct := mk(f, v)
	return func(ft core.Fact) bool {
		if direct(ft) {
			return true
		}
		if depth <= 0 || v == nil {
			return false
		}
		call, ok := ast.Unparen(ft.Expr).(*ast.CallExpr)
		if !ok {
			return false
		}
		obj, _ := f.P.ResolveCallee(f.Info(), call)
		fn, _ := obj.(*types.Func)
		if fn == nil {
			return false
		}
		g := f.P.FuncOf(fn)
		if g == nil || g == f {
			return false
		}
		sig, _ := fn.Type().(*types.Signature)
		if sig == nil || sig.Results().Len() != 1 || sig.Variadic() {
			return false
		}
		if b, isB := sig.Results().At(0).Type().Underlying().(*types.Basic); !isB || b.Kind() != types.Bool {
			return false
		}
		var pv *types.Var
		for i, a := range call.Args {
			if av := varOf(f, a); av != nil && canonVar(f, av) == canonVar(f, v) {
				pv = g.Param(i)
				break
			}
		}
		if pv == nil || c23Reassigned(g, pv) {
			return false
		}
		inner := c23Lift(g, pv, mk, depth-1)
		n := 0
		for _, rp := range g.ReturnPoints() {
			r := rp.Node().(*ast.ReturnStmt)
			if len(r.Results) != 1 {
				return false
			}
			if b, isConst := c23BoolConst(g, r.Results[0]); isConst && b != ft.Truth {
				continue // this exit cannot produce the tested truth value
			}
			n++
			if guarded, _ := g.GuardedBy(rp, inner); guarded {
				continue
			}
			alts := core.Disjuncts(r.Results[0], ft.Truth)
			if len(alts) == 0 {
				return false
			}
			for _, alt := range alts {
				some := false
				for _, x := range alt {
					if inner(x) {
						some = true
						break
					}
				}
				if !some {
					return false
				}
			}
		}
		return n > 0
	}
}

// ---------------------------------------------------------------------------
// body carrier (merged duplicates)

// c23Carrier returns the function that carries the body of the reader f, and the variable of that function
// that holds f's key parameter. It is f itself when f makes the library lookup. When f makes none and every
// exit of f hands up, unchanged, the results of one call of the same declared module function h that receives
// the key parameter as a plain argument (`return getCloned(db.underlying, key)`: the two copies of a body
// merged into a shared helper), the facts about f's results are the facts about h's results, with the key
// bound to h's parameter; bounded depth. The lookup predicate decides what "the library lookup" is.
func c23Carrier(f *core.FuncInfo, hasLookup func(*core.FuncInfo) bool, depth int) (*core.FuncInfo, *types.Var) {
	key := f.Param(0)
	for d := 0; d < depth; d++ {
		if key == nil || hasLookup(f) || c23Reassigned(f, key) {
			break
		}
		var h *core.FuncInfo
		var hk *types.Var
		rps := f.ReturnPoints()
		ok := len(rps) > 0
		for _, rp := range rps {
			r := rp.Node().(*ast.ReturnStmt)
			if len(r.Results) != 1 {
				ok = false
				break
			}
			call, isCall := ast.Unparen(r.Results[0]).(*ast.CallExpr)
			if !isCall {
				ok = false
				break
			}
			obj, _ := f.P.ResolveCallee(f.Info(), call)
			fn, _ := obj.(*types.Func)
			g := f.P.FuncOf(fn)
			if g == nil || g == f || (h != nil && g != h) {
				ok = false
				break
			}
			if sig, _ := fn.Type().(*types.Signature); sig == nil || sig.Variadic() {
				ok = false
				break
			}
			var pk *types.Var
			n := 0
			for i, a := range call.Args {
				if av := varOf(f, a); av != nil && av == key {
					pk = g.Param(i)
					n++
				}
			}
			if n != 1 || pk == nil || c23Reassigned(g, pk) || (hk != nil && hk != pk) {
				ok = false
				break
			}
			h, hk = g, pk
		}
		if !ok || h == nil {
			break
		}
		f, key = h, hk
	}
	return f, key
}

// c23Reassigned: is the variable written after its declaration (in g or in a literal of g), or is its address taken?
func c23Reassigned(g *core.FuncInfo, v *types.Var) bool {
	for _, h := range append([]*core.FuncInfo{g}, allLits(g)...) {
		for _, a := range assignments(h) {
			if varOfRaw(h, a.LHS) == v {
				return true
			}
		}
	}
	taken := false
	g.InspectAll(func(n ast.Node) bool {
		if u, ok := n.(*ast.UnaryExpr); ok && u.Op == token.AND && varOfRaw(g, u.X) == v {
			taken = true
		}
		return !taken
	})
	return taken
}

// ---------------------------------------------------------------------------
// byte-slice builder evaluation

// c23Atom is an unresolved source of bytes: a variable (parameter, multi-definition local) or a field.
type c23Atom struct {
	V     *types.Var
	Field string
}

// c23Bytes is the symbolic value of a []byte expression: the concatenation of Parts.
//   - Fresh: the backing array was allocated by the evaluated code itself (make, literal, CopyBytes, append
//     to nil or to a fresh value): appending to it, or handing it out, cannot touch a slice of the caller;
//   - Capped: a full slice expression x[:n:n]: not fresh, but an append to it must reallocate;
//   - NonNil: certainly not the nil slice (a literal, make, or an append to such a value).
type c23Bytes struct {
	OK     bool
	Fresh  bool
	Capped bool
	NonNil bool
	Parts  []c23Atom
}

// c23EvalBytes evaluates e in f. env holds the values of locals assigned so far in a straight-line helper
// body (nil at the top level); module helpers whose body is straight-line code (definitions, assignments,
// one return) are evaluated with their parameters bound to the argument values, up to depth calls deep.
func c23EvalBytes(f *core.FuncInfo, e ast.Expr, env map[*types.Var]c23Bytes, depth int) c23Bytes {
	bad := c23Bytes{}
	if e == nil {
		return bad
	}
	e = ast.Unparen(e)
	if core.IsNil(f.Info(), e) {
		return c23Bytes{OK: true, Fresh: true}
	}
	switch x := e.(type) {
	case *ast.Ident:
		v, _ := f.Info().ObjectOf(x).(*types.Var)
		if v == nil {
			return bad
		}
		if val, ok := env[v]; ok {
			return val
		}
		if env == nil {
			if r := resolveLocal(f, x); r != ast.Expr(x) {
				return c23EvalBytes(f, r, env, depth)
			}
		}
		return c23Bytes{OK: true, Parts: []c23Atom{{V: v}}}
	case *ast.SelectorExpr:
		if fn := fieldNameOf(f, x); fn != "" {
			return c23Bytes{OK: true, Parts: []c23Atom{{Field: fn}}}
		}
		return bad
	case *ast.CompositeLit:
		if len(x.Elts) == 0 {
			return c23Bytes{OK: true, Fresh: true, NonNil: true}
		}
		return bad
	case *ast.TypeAssertExpr:
		// x.([]byte): the bytes held by the interface value x
		if x.Type == nil {
			return bad
		}
		return c23EvalBytes(f, x.X, env, depth)
	case *ast.SliceExpr:
		// x[:n:n] — content of x (the rules using this trust n == len(x) as the append idiom does), capacity capped
		if x.Slice3 && x.Low == nil && x.High != nil && x.Max != nil && types.ExprString(x.High) == types.ExprString(x.Max) {
			in := c23EvalBytes(f, x.X, env, depth)
			if !in.OK {
				return bad
			}
			in.Capped = true
			return in
		}
		return bad
	case *ast.CallExpr:
		if tv, ok := f.Info().Types[x.Fun]; ok && tv.IsType() {
			if len(x.Args) == 1 && core.IsNil(f.Info(), x.Args[0]) {
				return c23Bytes{OK: true, Fresh: true}
			}
			return bad
		}
		switch calleeName(f, x) {
		case "builtin.make":
			if len(x.Args) >= 2 && core.IsConstInt(f.Info(), x.Args[1], 0) {
				return c23Bytes{OK: true, Fresh: true, NonNil: true}
			}
			return bad
		case "builtin.append":
			if len(x.Args) != 2 || !x.Ellipsis.IsValid() {
				return bad
			}
			base, src := c23EvalBytes(f, x.Args[0], env, depth), c23EvalBytes(f, x.Args[1], env, depth)
			if !base.OK || !src.OK {
				return bad
			}
			parts := append(append([]c23Atom(nil), base.Parts...), src.Parts...)
			return c23Bytes{OK: true, Fresh: base.Fresh || base.Capped, NonNil: base.NonNil, Parts: parts}
		case c23Copy, "bytes.Clone":
			if len(x.Args) != 1 {
				return bad
			}
			in := c23EvalBytes(f, x.Args[0], env, depth)
			if !in.OK {
				return bad
			}
			return c23Bytes{OK: true, Fresh: true, Parts: in.Parts}
		}
		if depth <= 0 {
			return bad
		}
		obj, _ := f.P.ResolveCallee(f.Info(), x)
		fn, _ := obj.(*types.Func)
		g := f.P.FuncOf(fn)
		if g == nil || g == f {
			return bad
		}
		if sig, _ := fn.Type().(*types.Signature); sig == nil || sig.Variadic() || sig.Recv() != nil || sig.Results().Len() != 1 {
			return bad
		}
		genv := map[*types.Var]c23Bytes{}
		for i, a := range x.Args {
			pv := g.Param(i)
			if pv == nil {
				return bad
			}
			if _, isSlice := pv.Type().Underlying().(*types.Slice); !isSlice {
				continue
			}
			av := c23EvalBytes(f, a, env, depth)
			if !av.OK {
				return bad
			}
			genv[pv] = av
		}
		return c23EvalBody(g, genv, depth-1)
	}
	return bad
}

// c23EvalBody runs the straight-line body of g (definitions, plain assignments to locals, `var x []byte`,
// one final return) under env and returns the value of the result. Anything else makes the value unknown.
func c23EvalBody(g *core.FuncInfo, env map[*types.Var]c23Bytes, depth int) c23Bytes {
	bad := c23Bytes{}
	// d := make([]byte, len(s)) … copy(d, s): d is pending (zero bytes of s's length) until the copy fills it
	pending := map[*types.Var]c23Bytes{}
	sizedBy := func(e ast.Expr) (c23Bytes, bool) {
		mk := isCallTo(g, e, "builtin.make")
		if mk == nil || len(mk.Args) != 2 {
			return bad, false
		}
		ln, ok := ast.Unparen(mk.Args[1]).(*ast.CallExpr)
		if !ok || calleeName(g, ln) != "builtin.len" || len(ln.Args) != 1 {
			return bad, false
		}
		src := c23EvalBytes(g, ln.Args[0], env, depth)
		return src, src.OK
	}
	sameParts := func(a, b []c23Atom) bool {
		if len(a) != len(b) {
			return false
		}
		for i := range a {
			if a[i] != b[i] {
				return false
			}
		}
		return true
	}
	for i, st := range g.Body.List {
		switch s := st.(type) {
		case *ast.ExprStmt:
			cp := isCallTo(g, s.X, "builtin.copy")
			if cp == nil || len(cp.Args) != 2 {
				return bad
			}
			dv := varOfRaw(g, cp.Args[0])
			want, isPending := pending[dv]
			src := c23EvalBytes(g, cp.Args[1], env, depth)
			if dv == nil || !isPending || !src.OK || !sameParts(want.Parts, src.Parts) {
				return bad
			}
			delete(pending, dv)
			env[dv] = c23Bytes{OK: true, Fresh: true, NonNil: true, Parts: src.Parts}
		case *ast.AssignStmt:
			if (s.Tok != token.DEFINE && s.Tok != token.ASSIGN) || len(s.Lhs) != len(s.Rhs) {
				return bad
			}
			if len(s.Lhs) == 1 {
				if v := varOfRaw(g, s.Lhs[0]); v != nil {
					if src, ok := sizedBy(s.Rhs[0]); ok {
						delete(env, v)
						pending[v] = src
						continue
					}
				}
			}
			vals := make([]c23Bytes, len(s.Rhs))
			for j, r := range s.Rhs {
				vals[j] = c23EvalBytes(g, r, env, depth)
			}
			for j, l := range s.Lhs {
				v := varOfRaw(g, l)
				if v == nil {
					return bad
				}
				if _, isSlice := v.Type().Underlying().(*types.Slice); !isSlice {
					continue
				}
				if !vals[j].OK {
					return bad
				}
				delete(pending, v)
				env[v] = vals[j]
			}
		case *ast.DeclStmt:
			gd, ok := s.Decl.(*ast.GenDecl)
			if !ok || gd.Tok != token.VAR {
				return bad
			}
			for _, sp := range gd.Specs {
				vs := sp.(*ast.ValueSpec)
				for j, id := range vs.Names {
					v, _ := g.Info().ObjectOf(id).(*types.Var)
					if v == nil {
						return bad
					}
					if _, isSlice := v.Type().Underlying().(*types.Slice); !isSlice {
						continue
					}
					switch {
					case len(vs.Values) == 0:
						env[v] = c23Bytes{OK: true, Fresh: true}
					case len(vs.Values) == len(vs.Names):
						val := c23EvalBytes(g, vs.Values[j], env, depth)
						if !val.OK {
							return bad
						}
						env[v] = val
					default:
						return bad
					}
				}
			}
		case *ast.ReturnStmt:
			if i != len(g.Body.List)-1 || len(s.Results) != 1 {
				return bad
			}
			if v := varOfRaw(g, s.Results[0]); v != nil {
				if _, unfilled := pending[v]; unfilled {
					return bad
				}
			}
			return c23EvalBytes(g, s.Results[0], env, depth)
		default:
			return bad
		}
	}
	return bad
}

// ---------------------------------------------------------------------------
// calls forwarded on a parameter, directly or through a helper

// c23Forward is one call made on the tracked parameter of the function under analysis f.
type c23Forward struct {
	Host *core.FuncInfo // the function containing the call (f itself, or a module helper f hands the parameter to)
	Site *core.CallSite // the call on the tracked value, in Host
	Top  *core.CallSite // the call site in f that leads to it (== Site when Host == f)
	// Bind maps Host's parameters to the variables of f they are called with (empty when Host == f)
	Bind map[*types.Var]*types.Var
}

// ToTop resolves an expression of Host to the variable of f it denotes (nil if it is not a plain variable bound to one).
func (o c23Forward) ToTop(e ast.Expr) *types.Var {
	v := varOf(o.Host, e)
	if v == nil || o.Top == o.Site {
		return v
	}
	return o.Bind[v]
}

// FromTop lists the variables of Host that denote variable tv of f.
func (o c23Forward) FromTop(tv *types.Var) []*types.Var {
	if o.Top == o.Site {
		return []*types.Var{tv}
	}
	var out []*types.Var
	for hv, fv := range o.Bind {
		if fv == tv {
			out = append(out, hv)
		}
	}
	return out
}

// c23Forwards lists the calls satisfying pred whose receiver is the variable w of f, made in f or (depth > 0)
// in a declared function of the module that f passes w to as a plain argument.
func c23Forwards(f *core.FuncInfo, w *types.Var, pred func(*core.CallSite) bool, depth int) []c23Forward {
	var out []c23Forward
	for _, cs := range f.Calls() {
		if cs.InGo {
			continue
		}
		if pred(cs) && cs.Recv() != nil && varOf(f, cs.Recv()) == w {
			out = append(out, c23Forward{Host: f, Site: cs, Top: cs})
			continue
		}
		if depth <= 0 {
			continue
		}
		fn, _ := cs.Callee.(*types.Func)
		g := f.P.FuncOf(fn)
		if g == nil || g == f {
			continue
		}
		if sig, _ := fn.Type().(*types.Signature); sig == nil || sig.Variadic() {
			continue
		}
		var gw *types.Var
		bind := map[*types.Var]*types.Var{}
		for i, a := range cs.Call.Args {
			av, pv := varOf(f, a), g.Param(i)
			if av == nil || pv == nil || c23Reassigned(g, pv) {
				continue
			}
			bind[pv] = av
			if av == w {
				gw = pv
			}
		}
		if gw == nil {
			continue
		}
		for _, in := range c23Forwards(g, gw, pred, 0) {
			out = append(out, c23Forward{Host: g, Site: in.Site, Top: cs, Bind: bind})
		}
	}
	return out
}

// c23ReturnsErrorOf: does g hand the error result of the call up to its caller — the call is the operand of a
// return statement, or its error is bound to a variable and every return reachable after the call returns that
// variable or lies behind an edge implying the variable is nil?
func c23ReturnsErrorOf(g *core.FuncInfo, cs *core.CallSite) bool {
	if r, ok := cs.Pt.Node().(*ast.ReturnStmt); ok {
		for _, e := range r.Results {
			if ast.Unparen(e) == ast.Expr(cs.Call) {
				return len(r.Results) == 1
			}
		}
	}
	ev := errVarOfCall(g, cs.Call)
	if ev == nil {
		return false
	}
	for _, rp := range g.ReturnPoints() {
		if !g.CanReach(cs.Pt, rp) {
			continue
		}
		r := rp.Node().(*ast.ReturnStmt)
		switch len(r.Results) {
		case 0:
			res := g.Obj.Type().(*types.Signature).Results()
			if res.Len() == 1 && res.At(0) == ev {
				continue
			}
		case 1:
			if varOf(g, r.Results[0]) == ev {
				continue
			}
		}
		if ok, _ := g.GuardedBetween(cs.Pt, rp, varNilFact(g, ev, true)); !ok {
			return false
		}
	}
	return true
}

// c23NumericObserver: a method without parameters whose results are all numbers (Batch.ValueSize). By its
// signature it can neither receive nor hand out keys or values; by the interface contract it does not change
// content. A wrapper may consult it for its own bookkeeping without translating any operation.
func c23NumericObserver(cs *core.CallSite) bool {
	fn, _ := cs.Callee.(*types.Func)
	if fn == nil {
		return false
	}
	sig, _ := fn.Type().(*types.Signature)
	if sig == nil || sig.Recv() == nil || sig.Params().Len() != 0 || sig.Results().Len() == 0 {
		return false
	}
	for i := 0; i < sig.Results().Len(); i++ {
		b, ok := sig.Results().At(i).Type().Underlying().(*types.Basic)
		if !ok || b.Info()&types.IsNumeric == 0 {
			return false
		}
	}
	return true
}

// c23TypeException returns the key of an exception-table entry "<type>.<any method>-><callee>" ("" if none).
func c23TypeException(typeShort, callee string) string {
	best := ""
	for k := range c23CalleeExceptions {
		if strings.HasPrefix(k, typeShort+".") && strings.HasSuffix(k, "->"+callee) && (best == "" || k < best) {
			best = k
		}
	}
	return best
}
