package rules

// C10 — counter cells.
//
// The rules of C10.count / C10.majority / C10.decided talk about "the yes counter", "the no counter" and
// "the all-votes counter". Such a counter is a storage cell holding a *pos.WeightCounter: a local
// variable, or a member of a local record that groups the counters (`tally.yes`). A member cell is
// represented by a synthetic variable object, one per (record variable, field), so that the rules can
// keep comparing cells by identity.

import (
	"go/ast"
	"go/token"
	"go/types"

	"lachk/core"
)

type c10CellKey struct{ root, field *types.Var }

var (
	c10CellVars = map[c10CellKey]*types.Var{}
	c10CellKeys = map[*types.Var]c10CellKey{}
)

// c10Cell: the cell the expression e of f denotes: a local variable, or the member <record>.<field> of
// a local record variable (directly or through a pointer to it). nil for anything else.
func c10Cell(f *core.FuncInfo, e ast.Expr) *types.Var {
	if e == nil {
		return nil
	}
	e = ast.Unparen(e)
	if v := varOf(f, e); v != nil {
		return v
	}
	sel, ok := e.(*ast.SelectorExpr)
	if !ok {
		return nil
	}
	s, ok := f.Info().Selections[sel]
	if !ok || s.Kind() != types.FieldVal || len(s.Index()) != 1 {
		return nil
	}
	field, _ := s.Obj().(*types.Var)
	x := ast.Unparen(sel.X)
	if st, ok := x.(*ast.StarExpr); ok {
		x = ast.Unparen(st.X)
	}
	root := varOf(f, x)
	if field == nil || root == nil || root.IsField() {
		return nil
	}
	key := c10CellKey{root, field}
	if v, ok := c10CellVars[key]; ok {
		return v
	}
	v := types.NewVar(sel.Pos(), field.Pkg(), root.Name()+"."+field.Name(), field.Type())
	c10CellVars[key] = v
	c10CellKeys[v] = key
	return v
}

// c10ReadOnlyPtrParam: the declared function g only reads through its i-th (pointer) parameter: every
// use of the parameter is the base of a field selection that is read — never assigned, stepped, address
// taken, passed on as a whole, or the receiver of a pointer method.
func c10ReadOnlyPtrParam(g *core.FuncInfo, i int) bool {
	if g == nil || g.Body == nil {
		return false
	}
	pv := g.Param(i)
	if pv == nil {
		return false
	}
	info := g.Info()
	// the selector chains based on the parameter, outermost first
	okUse := map[*ast.Ident]bool{}
	bad := false
	var chainBase func(e ast.Expr) *ast.Ident
	chainBase = func(e ast.Expr) *ast.Ident {
		switch x := ast.Unparen(e).(type) {
		case *ast.Ident:
			if info.Uses[x] == types.Object(pv) {
				return x
			}
		case *ast.SelectorExpr:
			if s, ok := info.Selections[x]; ok && s.Kind() == types.FieldVal {
				return chainBase(x.X)
			}
		case *ast.StarExpr:
			return chainBase(x.X)
		}
		return nil
	}
	ast.Inspect(g.Body, func(n ast.Node) bool {
		switch x := n.(type) {
		case *ast.AssignStmt:
			for _, l := range x.Lhs {
				if chainBase(l) != nil {
					bad = true
				}
			}
		case *ast.IncDecStmt:
			if chainBase(x.X) != nil {
				bad = true
			}
		case *ast.UnaryExpr:
			if x.Op == token.AND && chainBase(x.X) != nil {
				bad = true
			}
		case *ast.SelectorExpr:
			s, ok := info.Selections[x]
			if !ok {
				return true
			}
			switch s.Kind() {
			case types.FieldVal:
				if id := chainBase(x); id != nil {
					okUse[id] = true
				}
			case types.MethodVal:
				if id := chainBase(x.X); id != nil {
					if fn, ok := s.Obj().(*types.Func); ok {
						if sig, ok := fn.Type().(*types.Signature); ok && sig.Recv() != nil {
							if _, isPtr := sig.Recv().Type().(*types.Pointer); isPtr {
								bad = true
							}
						}
					}
					if _, isField := ast.Unparen(x.X).(*ast.SelectorExpr); !isField {
						bad = true // a method of the record itself
					}
				}
			}
		}
		return true
	})
	if bad {
		return false
	}
	all := true
	ast.Inspect(g.Body, func(n ast.Node) bool {
		if id, ok := n.(*ast.Ident); ok && info.Uses[id] == types.Object(pv) && !okUse[id] {
			all = false
		}
		return true
	})
	return all
}

// c10LocalMember resolves a read `v.a.b` at point `at` of f, v being a local record VALUE that is built
// once by a composite literal, to the expression the literal gives that member — when the record cannot
// have changed in between: nothing in the function assigns v or a member of v, its address is only handed
// to module functions that read through it, and a variable the member was built from is not assigned
// between the literal and the read. nil otherwise.
func c10LocalMember(f *core.FuncInfo, e ast.Expr, at core.Point) ast.Expr {
	var path []*types.Var
	x := ast.Unparen(c15Through(f, e))
	for {
		sel, ok := x.(*ast.SelectorExpr)
		if !ok {
			break
		}
		s, ok := f.Info().Selections[sel]
		if !ok || s.Kind() != types.FieldVal || len(s.Index()) != 1 || s.Indirect() {
			return nil
		}
		path = append([]*types.Var{s.Obj().(*types.Var)}, path...)
		x = ast.Unparen(sel.X)
	}
	v := varOf(f, x)
	if v == nil || v.IsField() || len(path) == 0 {
		return nil
	}
	if _, isStruct := v.Type().Underlying().(*types.Struct); !isStruct {
		return nil
	}
	rhs, d := c15SingleDef(f, v)
	if rhs == nil || d.F != f {
		return nil
	}
	// the record is not modified behind the literal's back
	top := c15Root(f)
	for _, g := range append([]*core.FuncInfo{top}, c10AllLits(top)...) {
		for _, a := range assignments(g) {
			r, p := fieldPath(g, a.LHS)
			if len(p) > 0 && varOf(g, r) == v {
				return nil
			}
			if ix, ok := ast.Unparen(a.LHS).(*ast.IndexExpr); ok {
				if r, _ := fieldPath(g, ix.X); varOf(g, r) == v {
					return nil
				}
			}
		}
		okAddr := true
		argOf := map[ast.Expr]bool{}
		for _, cs := range g.Calls() {
			callee := c10ModuleCallee(cs)
			for i, a := range cs.Call.Args {
				if u, ok := ast.Unparen(a).(*ast.UnaryExpr); ok && u.Op == token.AND && varOf(g, u.X) == v {
					if callee != nil && callee.Decl != nil && callee.Decl.Recv == nil && c10ReadOnlyPtrParam(callee, i) {
						argOf[u] = true
					}
				}
			}
		}
		g.InspectOwn(func(n ast.Node) bool {
			if u, ok := n.(*ast.UnaryExpr); ok && u.Op == token.AND && !argOf[u] {
				if r, _ := fieldPath(g, u.X); varOf(g, r) == v || varOf(g, u.X) == v {
					okAddr = false
				}
			}
			return true
		})
		if !okAddr {
			return nil
		}
	}
	val := rhs
	for _, fld := range path {
		flds, _, ok := c15StructFields(f, c15Through(f, val))
		if !ok {
			return nil
		}
		val = flds[f.P.FieldName(fld)]
		if val == nil {
			return nil
		}
	}
	// variables the member was built from keep their value from the literal to the read
	stable := true
	ast.Inspect(val, func(n ast.Node) bool {
		id, ok := n.(*ast.Ident)
		if !ok {
			return true
		}
		w, _ := f.Info().Uses[id].(*types.Var)
		if w == nil || w.IsField() {
			return true
		}
		for _, a := range c15DefsOf(f, w) {
			if a.F != f {
				stable = false
				continue
			}
			_, r1 := core.PathQuery{F: f, From: d.A.Pt, FromAfter: true, Target: core.PointSet(a.A.Pt), Avoid: core.PointSet(d.A.Pt)}.Find()
			_, r2 := core.PathQuery{F: f, From: a.A.Pt, FromAfter: true, Target: core.PointSet(at), Avoid: core.PointSet(d.A.Pt)}.Find()
			if r1 && r2 || a.A.Pt == at {
				stable = false
			}
		}
		return true
	})
	if !stable {
		return nil
	}
	return val
}

// c10MissRelays: the boolean locals of f that relay "the lookup made at `from` missed": every definition
// of such a variable is a boolean constant, each `false` definition is executed only after the lookup
// on an edge carrying the miss fact, and the variable is (re)defined between the lookup and every place
// it is tested. On the false edge of a test of such a variable the lookup has missed (abstract truth
// value of the branch atom; nothing is evaluated).
func c10MissRelays(f *core.FuncInfo, from core.Point, miss func(core.Fact) bool) []*types.Var {
	byVar := map[*types.Var][]assignment{}
	var order []*types.Var
	for _, a := range assignments(f) {
		v := varOf(f, a.LHS)
		if v == nil || v.IsField() {
			continue
		}
		if b, ok := v.Type().Underlying().(*types.Basic); !ok || b.Kind() != types.Bool {
			continue
		}
		if byVar[v] == nil {
			order = append(order, v)
		}
		byVar[v] = append(byVar[v], a)
	}
	var out []*types.Var
	for _, v := range order {
		ok := len(c15DefsOf(f, v)) == len(byVar[v]) // not written from a literal
		nFalse := 0
		for _, a := range byVar[v] {
			if !ok {
				break
			}
			if a.RHS == nil || (a.Tok != token.ASSIGN && a.Tok != token.DEFINE) {
				ok = false
				break
			}
			if as, isAs := a.Stmt.(*ast.AssignStmt); isAs && len(as.Lhs) != len(as.Rhs) {
				ok = false
				break
			}
			cv, isC := core.ConstVal(f.Info(), a.RHS)
			if !isC {
				ok = false
				break
			}
			if cv.String() == "false" {
				nFalse++
				g, _ := f.GuardedBetween(from, a.Pt, miss)
				d, _ := f.MustPassBefore([]core.Point{from}, a.Pt)
				if !g || !d {
					ok = false
				}
			}
		}
		if !ok || nFalse == 0 {
			continue
		}
		defs := core.PointSet(pointsOfAssign(byVar[v])...)
		for _, e := range edgesWithFact(f, c10VarIs(f, v, false)) {
			if len(e.B.Nodes) == 0 {
				ok = false
				continue
			}
			test := core.Point{B: e.B, I: len(e.B.Nodes) - 1}
			if _, stale := (core.PathQuery{F: f, From: from, FromAfter: true, Avoid: defs, Target: core.PointSet(test)}).Find(); stale {
				ok = false
			}
		}
		if ok {
			out = append(out, v)
		}
	}
	return out
}

// c10CellDef: the one expression that gives the cell its value and the point where that happens: the
// single definition of a local variable, or, for a member cell, the member's value in the composite
// literal that is the single definition of the record variable — provided that member is never assigned
// and the record's address is never taken in f (literals included). ok is false otherwise.
func c10CellDef(f *core.FuncInfo, cell *types.Var) (ast.Expr, core.Point, bool) {
	key, member := c10CellKeys[cell]
	if !member {
		rhs, d := c15SingleDef(f, cell)
		if rhs == nil {
			return nil, core.Point{}, false
		}
		return rhs, d.A.Pt, true
	}
	rhs, d := c15SingleDef(f, key.root)
	if rhs == nil {
		return nil, core.Point{}, false
	}
	flds, _, ok := c15StructFields(f, rhs)
	if !ok {
		return nil, core.Point{}, false
	}
	val := flds[f.P.FieldName(key.field)]
	if val == nil {
		return nil, core.Point{}, false
	}
	frozen := true
	isMember := func(g *core.FuncInfo, e ast.Expr) bool {
		sel, ok := ast.Unparen(e).(*ast.SelectorExpr)
		if !ok {
			return false
		}
		s, ok := g.Info().Selections[sel]
		return ok && s.Obj() == types.Object(key.field)
	}
	for _, g := range append([]*core.FuncInfo{c15Root(f)}, c10AllLits(c15Root(f))...) {
		for _, a := range assignments(g) {
			if isMember(g, a.LHS) {
				frozen = false
			}
		}
		g.InspectOwn(func(n ast.Node) bool {
			if u, ok := n.(*ast.UnaryExpr); ok && u.Op == token.AND {
				if varOf(g, u.X) == key.root || isMember(g, u.X) {
					frozen = false
				}
			}
			return true
		})
	}
	if !frozen {
		return nil, core.Point{}, false
	}
	return val, d.A.Pt, true
}
