package rules

import (
	"go/ast"
	"go/constant"
	"go/token"
	"go/types"
	"sort"

	"lachk/core"
)

const dsP = "emitter/doublesign."

func init() {
	register("C21", "other", "T8 DecisionTable (field coverage), T19 SaturatingArith, T4 GuardedBy (normalised comparisons)",
		"Decides the decision-table shape of the double-sign guard: no peers and unfinished P2P sync lead only to error returns; each of the five timestamps (last connected, P2P synced, became validator, external self-event created / detected) has a test since(t) < threshold that feeds the remaining time threshold - since(t) of the same timestamp, with a non-nil error, into the maximum keeper; the keeper replaces its value only by a larger wait and the function returns the keeper's wait and error; the remaining-time subtraction is saturating (since(t) is the saturating Time.Sub and can be the most negative duration for a far-future timestamp, so the plain difference wraps negative and emission would be permitted). Parallel-instance detection: created-before-startup leads only to false, otherwise the result is since(created) < threshold. Concrete time arithmetic beyond wrap-around is not decided.",
		[]string{"time.Time.Sub saturates at the minimum/maximum Duration (time package contract)", "threshold is positive"},
		runC21)
}

var c21Stamps = []string{"LastConnected", "P2PSynced", "BecameValidator", "ExternalSelfEventCreated", "ExternalSelfEventDetected"}

func runC21(c *core.Ctx) {
	c.Clause("C21.table", func() {
		f := c.Fn(dsP + "SyncedToEmit")
		status := f.Param(0)
		threshold := f.Param(1)
		c.Need(status != nil && threshold != nil, "SyncedToEmit(s, threshold)")
		errRet := func(r *ast.ReturnStmt) bool {
			if len(r.Results) != 2 || core.IsNil(f.Info(), r.Results[1]) {
				return false
			}
			v, ok := f.ObjOf(r.Results[1]).(*types.Var)
			return ok && v.Pkg() != nil && v.Parent() == v.Pkg().Scope()
		}
		// no peers => error
		e1 := edgesWithFact(f, func(ft core.Fact) bool {
			cm, ok := core.NormCmp(ft)
			if !ok || cm.R == nil || cm.Op != token.EQL {
				return false
			}
			root, path := fieldPath(f, cm.L)
			return len(path) == 1 && path[0] == dsP+"SyncStatus.PeersNum" && varOf(f, root) == status && core.IsConstInt(f.Info(), cm.R, 0)
		})
		_ = e1
		// the final return hands back the keeper's error, which is nil only if no wait was recorded: for this
		// row "rejecting" means an early error return; the keeper return counts as accepting
		ok1, why1 := rejectedWhen(f, func(ft core.Fact) bool {
			cm, ok := core.NormCmp(ft)
			if !ok || cm.R == nil || cm.Op != token.EQL {
				return false
			}
			root, path := fieldPath(f, cm.L)
			return len(path) == 1 && path[0] == dsP+"SyncStatus.PeersNum" && varOf(f, root) == status && core.IsConstInt(f.Info(), cm.R, 0)
		}, errRet)
		c.Check(ok1, "no peers => refused", "T8 DecisionTable", f.Pos(), "PeersNum == 0 leads only to error returns and the remaining tests are reached only with a peer", "emission can be permitted without any peer: "+why1)
		e2 := edgesWithFact(f, func(ft core.Fact) bool {
			if !ft.Truth {
				return false
			}
			call := isCallTo(f, ft.Expr, "time.Time.IsZero")
			if call == nil {
				return false
			}
			sel, ok := call.Fun.(*ast.SelectorExpr)
			if !ok {
				return false
			}
			_, path := fieldPath(f, sel.X)
			return len(path) == 1 && path[0] == dsP+"SyncStatus.P2PSynced"
		})
		ok2 := len(e2) >= 1
		for _, e := range e2 {
			if o, _ := edgeLeadsOnlyTo(f, e.B, e.Succ, errRet); !o {
				ok2 = false
			}
		}
		c.Check(ok2, "P2P sync unfinished => refused", "T8 DecisionTable", f.Pos(), "P2PSynced.IsZero() leads only to error returns", "emission can be permitted before P2P sync finished")

		// the per-timestamp tests
		applies := f.CallsTo(dsP + "maxWaitError.apply")
		c.ExpectAtLeast("apply sites in SyncedToEmit", len(applies), 5)
		stampOf := func(g *core.FuncInfo, e ast.Expr) string {
			// s.Since(s.X) -> X
			call := isCallTo(g, e, dsP+"SyncStatus.Since")
			if call == nil || len(call.Args) != 1 {
				return ""
			}
			_, path := fieldPath(g, call.Args[0])
			if len(path) == 1 {
				return short(path[0])
			}
			return ""
		}
		namer := func(e ast.Expr) string {
			if s := stampOf(f, e); s != "" {
				return "since." + s
			}
			if varOf(f, e) == threshold {
				return "threshold"
			}
			return ""
		}
		covered := map[string]bool{}
		for _, ap := range applies {
			c.Need(len(ap.Call.Args) == 2, "apply(wait, err)")
			// which stamp does the wait argument talk about?
			stamp := ""
			ast.Inspect(ap.Call.Args[0], func(n ast.Node) bool {
				if e, ok := n.(ast.Expr); ok {
					if s := stampOf(f, e); s != "" {
						stamp = s
					}
					// a helper that receives the timestamp field itself
					if sel, ok := e.(*ast.SelectorExpr); ok && stamp == "" {
						if _, path := fieldPath(f, sel); len(path) == 1 {
							for _, st := range c21Stamps {
								if path[0] == dsP+"SyncStatus."+st {
									stamp = short(path[0])
								}
							}
						}
					}
				}
				return stamp == ""
			})
			if stamp == "" {
				c.Undecided("apply site without a recognisable timestamp", "T8 DecisionTable", ap.Pos(), "cannot tell which timestamp this wait is computed from")
				continue
			}
			want := core.ParseLinCmp("since." + stamp + " - threshold + 1 <= 0")
			ok, wit := f.GuardedBy(ap.Pt, func(ft core.Fact) bool {
				lc, k := core.NormLinCmp(f.Info(), ft, namer)
				return k && lc.Equal(want)
			})
			c.Check(ok, short(stamp)+"|wait recorded exactly when since < threshold", "T4 GuardedBy", ap.Pos(), "apply is reached only on the since("+short(stamp)+") < threshold edge of the same timestamp", "the wait for "+short(stamp)+" is recorded under a different test: "+f.DescribePath(wit))
			// and always on that edge: the test's true edge always reaches this apply
			for _, e := range edgesWithFact(f, func(ft core.Fact) bool {
				lc, k := core.NormLinCmp(f.Info(), ft, namer)
				return k && lc.Equal(want)
			}) {
				_, miss := core.PathQuery{F: f, From: blockEntry(e.B.Succs[e.Succ]), Avoid: core.PointSet(ap.Pt), TargetExit: true}.Find()
				c.Check(!miss, short(stamp)+"|too-recent timestamp always records a wait", "T3 PostDominates", ap.Pos(), "the since < threshold edge always reaches apply", "a too-recent "+short(stamp)+" can be ignored")
			}
			// error argument: a package-level error variable (non-nil)
			ev, _ := f.ObjOf(ap.Call.Args[1]).(*types.Var)
			okE := ev != nil && ev.Pkg() != nil && ev.Parent() == ev.Pkg().Scope()
			c.Check(okE, short(stamp)+"|refusal carries an error", "T8 DecisionTable", ap.Pos(), "apply receives a package-level error value", "the wait is recorded without an error (emission would be permitted)")
			checkSaturating(c, f, ap, stamp, threshold)
			covered[stamp] = true
		}
		var missing []string
		for _, s := range c21Stamps {
			if !covered["SyncStatus."+s] {
				missing = append(missing, s)
			}
		}
		sort.Strings(missing)
		c.Check(len(missing) == 0, "all five timestamps are tested", "T8 field coverage", f.Pos(), "LastConnected, P2PSynced, BecameValidator, ExternalSelfEventCreated, ExternalSelfEventDetected each have a test", "timestamps without a since < threshold test: "+joinStr(missing))

		// result: the keeper's fields
		var keeper *types.Var
		for _, ap := range applies {
			if v := varOf(f, ap.Recv()); v != nil {
				keeper = v
			}
		}
		okRet := keeper != nil
		nFinal := 0
		for _, rp := range f.ReturnPoints() {
			r := rp.Node().(*ast.ReturnStmt)
			if errRet(r) {
				continue
			}
			nFinal++
			if len(r.Results) != 2 {
				okRet = false
				continue
			}
			r0, p0 := fieldPath(f, r.Results[0])
			r1, p1 := fieldPath(f, r.Results[1])
			if !(len(p0) == 1 && p0[0] == dsP+"maxWaitError.wait" && varOf(f, r0) == keeper && len(p1) == 1 && p1[0] == dsP+"maxWaitError.waitErr" && varOf(f, r1) == keeper) {
				okRet = false
			}
		}
		c.Check(okRet && nFinal >= 1, "result is the longest wait and its error", "provenance", f.Pos(), "the non-early return yields the keeper's wait and waitErr", "SyncedToEmit does not return the maximum keeper's wait/error")
	})

	c.Clause("C21.max", func() {
		f := c.Fn(dsP + "maxWaitError.apply")
		wait, werr := f.Param(0), f.Param(1)
		namer := func(e ast.Expr) string {
			if fieldNameOf(f, e) == dsP+"maxWaitError.wait" {
				return "cur"
			}
			if varOf(f, e) == wait {
				return "new"
			}
			return ""
		}
		want := core.ParseLinCmp("cur - new + 1 <= 0")
		n := 0
		for _, a := range assignments(f) {
			fn := fieldNameOf(f, a.LHS)
			if fn != dsP+"maxWaitError.wait" && fn != dsP+"maxWaitError.waitErr" {
				continue
			}
			n++
			ok, _ := f.GuardedBy(a.Pt, func(ft core.Fact) bool {
				lc, k := core.NormLinCmp(f.Info(), ft, namer)
				return k && lc.Equal(want)
			})
			src := wait
			if fn == dsP+"maxWaitError.waitErr" {
				src = werr
			}
			c.Check(ok && varOf(f, a.RHS) == src, short(fn)+" replaced only by a longer wait", "T4 GuardedBy", a.Stmt.Pos(), "assigned from the argument on the cur < new edge", "the keeper does not keep the maximum wait and its error")
		}
		c.ExpectAtLeast("keeper field updates", n, 2)
	})

	c.Clause("C21.parallel", func() {
		f := c.Fn(dsP + "DetectParallelInstance")
		threshold := f.Param(1)
		// created before startup => false
		edges := edgesWithFact(f, func(ft core.Fact) bool {
			if !ft.Truth {
				return false
			}
			call := isCallTo(f, ft.Expr, "time.Time.Before")
			if call == nil {
				return false
			}
			sel, ok := call.Fun.(*ast.SelectorExpr)
			if !ok {
				return false
			}
			_, p1 := fieldPath(f, sel.X)
			_, p2 := fieldPath(f, call.Args[0])
			return len(p1) == 1 && p1[0] == dsP+"SyncStatus.ExternalSelfEventCreated" && len(p2) == 1 && p2[0] == dsP+"SyncStatus.Startup"
		})
		ok := len(edges) >= 1
		for _, e := range edges {
			if o, _ := edgeLeadsOnlyTo(f, e.B, e.Succ, func(r *ast.ReturnStmt) bool { return len(r.Results) == 1 && isIdentNamed(r.Results[0], "false") }); !o {
				ok = false
			}
		}
		c.Check(ok, "event created before startup is not a parallel instance", "T8 DecisionTable", f.Pos(), "Created.Before(Startup) leads only to false", "a self-event older than startup can be reported as a parallel instance")
		// otherwise: since(created) < threshold
		namer := func(e ast.Expr) string {
			if call := isCallTo(f, e, dsP+"SyncStatus.Since"); call != nil {
				_, path := fieldPath(f, call.Args[0])
				if len(path) == 1 {
					return "since." + short(path[0])
				}
			}
			if varOf(f, e) == threshold {
				return "threshold"
			}
			return ""
		}
		want := core.ParseLinCmp("since.SyncStatus.ExternalSelfEventCreated - threshold + 1 <= 0")
		okR := false
		for _, rp := range f.ReturnPoints() {
			r := rp.Node().(*ast.ReturnStmt)
			if len(r.Results) == 1 && !isIdentNamed(r.Results[0], "false") && !isIdentNamed(r.Results[0], "true") {
				lc, k := core.NormLinCmp(f.Info(), core.Fact{Expr: r.Results[0], Truth: true}, namer)
				if k && lc.Equal(want) {
					okR = true
				}
			}
		}
		// or branch form: return true guarded by the comparison
		for _, rp := range returnsWith(f, 0, func(e ast.Expr) bool { return isIdentNamed(e, "true") }) {
			if o, _ := f.GuardedBy(rp, func(ft core.Fact) bool {
				lc, k := core.NormLinCmp(f.Info(), ft, namer)
				return k && lc.Equal(want)
			}); o {
				okR = true
			}
		}
		c.Check(okR, "parallel instance iff the external event is younger than the threshold", "T8 DecisionTable", f.Pos(), "the remaining result is since(ExternalSelfEventCreated) < threshold", "the parallel-instance test is not since(created) < threshold")
	})
}

func joinStr(xs []string) string {
	out := ""
	for i, x := range xs {
		if i > 0 {
			out += ", "
		}
		out += x
	}
	return out
}

// checkSaturating is T19 for one apply site: the wait argument must not be a plain difference
// threshold - since(t); it has to go through a wrap check that substitutes the maximum duration.
func checkSaturating(c *core.Ctx, f *core.FuncInfo, ap *core.CallSite, stamp string, threshold *types.Var) {
	arg := ast.Unparen(ap.Call.Args[0])
	construct := short(stamp) + "|remaining time saturates"
	isMaxDur := func(g *core.FuncInfo, e ast.Expr) bool {
		v, ok := core.ConstVal(g.Info(), e)
		if !ok {
			return false
		}
		v = constant.ToInt(v)
		return v.Kind() == constant.Int && constant.Compare(v, token.EQL, constant.MakeInt64(1<<63-1))
	}
	// analyse a function/closure body g where `sub` is a subtraction: is there a substitution of the max duration,
	// guarded by a condition, on a path between the subtraction and the use?
	hasWrapCheck := func(g *core.FuncInfo) bool {
		found := false
		// return MaxInt64 under a guard
		for _, rp := range g.ReturnPoints() {
			r := rp.Node().(*ast.ReturnStmt)
			for _, res := range r.Results {
				if isMaxDur(g, res) {
					if ok, _ := g.GuardedBy(rp, func(ft core.Fact) bool { _, k := core.NormCmp(ft); return k }); ok {
						found = true
					}
				}
			}
		}
		// x = MaxInt64 under a guard
		for _, a := range assignments(g) {
			if a.RHS != nil && isMaxDur(g, a.RHS) {
				if ok, _ := g.GuardedBy(a.Pt, func(ft core.Fact) bool { _, k := core.NormCmp(ft); return k }); ok {
					found = true
				}
			}
		}
		return found
	}
	switch x := arg.(type) {
	case *ast.BinaryExpr:
		if x.Op == token.SUB {
			c.Fail(construct, "T19 SaturatingArith", ap.Pos(), "the wait is the plain difference threshold - since("+short(stamp)+"): since() saturates at the most negative duration for a far-future timestamp, the difference wraps to a negative value, the maximum keeper ignores it and emission is permitted although the timestamp is not threshold in the past")
			return
		}
	case *ast.CallExpr:
		if fn, ok := f.ObjOf(x.Fun).(*types.Func); ok {
			if g := f.P.FuncOf(fn); g != nil {
				if hasWrapCheck(g) {
					c.Pass(construct, "T19 SaturatingArith", "the wait is computed by "+short(g.Name)+", which substitutes the maximum duration when the subtraction wraps")
				} else {
					c.Fail(construct, "T19 SaturatingArith", ap.Pos(), short(g.Name)+" computes the wait without a wrap check that substitutes the maximum duration")
				}
				return
			}
		}
	case *ast.Ident:
		if hasWrapCheck(f) {
			c.Pass(construct, "T19 SaturatingArith", "the wait variable is replaced by the maximum duration under a wrap check")
			return
		}
		c.Fail(construct, "T19 SaturatingArith", ap.Pos(), "the wait variable is never replaced by the maximum duration: the subtraction can wrap for a far-future timestamp")
		return
	}
	c.Undecided(construct, "T19 SaturatingArith", ap.Pos(), "the wait argument has a form the rule cannot classify: "+exprStr(arg))
}
