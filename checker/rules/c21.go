package rules

import (
	"go/ast"
	"go/token"
	"go/types"
	"sort"

	"lachk/core"
)

const dsP = "emitter/doublesign."

func init() {
	register("C21", "other", "T8 DecisionTable (field coverage; scenario evaluation of the parallel-instance truth table), T19 SaturatingArith (no-wrap edge facts), T4 GuardedBy (normalised comparisons, disjunctive edges), inlined view of helpers (parameter binding)",
		"Decides the decision-table shape of the double-sign guard: no peers and unfinished P2P sync lead only to error returns; each of the five timestamps (last connected, P2P synced, became validator, external self-event created / detected) has a test since(t) < threshold that feeds the remaining time threshold - since(t) of the same timestamp, with a non-nil error, into the maximum keeper, and no emission is permitted on a path that neither recorded that wait nor saw the test fail. A row is the set of apply calls guarded by the test of one timestamp (the row is found by its guard, so the wait may be held in a re-assigned variable, be the cap constant, or be recorded by several applies, one per case). The test, the wait computation and the keeper update may live in SyncedToEmit itself or in helper functions / local closures it calls: the rule works on the inlined view (parameters and receivers of a helper are bound to the caller's argument expressions, single-definition locals are looked through), so the same facts are decided whether the five tests are written out or share one helper. The maximum keeper is located by what SyncedToEmit returns (the two fields of one local that every permitting return hands back), its updates by the assignments to that wait field anywhere in the inlined view (in SyncedToEmit, in an update method of the keeper, or in a helper/closure that tests, computes and records; the status and the threshold may be grouped with the keeper in a small struct built by a literal: a selection of a literal-only field denotes the literal's element); no type, method or field name of the keeper is assumed. The keeper replaces its wait only over current < new, the error is stored next to it on the same edge, an update is skipped only over new <= current, and the function returns the keeper's wait and error. The remaining-time subtraction is saturating: since(t) is the saturating Time.Sub and is very negative for a far-future timestamp, so the plain difference wraps negative and emission would be permitted; wherever a value reaching apply is the plain difference threshold - since, every path from the subtraction to that use takes an edge that excludes wrap-around (since >= c with c >= 0, difference >= threshold, or difference >= c with c >= 0, whichever alternative of a disjunctive edge holds), any other value reaching it is the constant MaxInt64 or zero; a test of the saturated value alone (since == MinInt64) does not qualify, because differences just below saturation wrap too. Parallel-instance detection is decided by scenario evaluation: DetectParallelInstance (with predicate helpers / closures inlined, locals looked through) is evaluated in three-valued logic under each truth assignment to the two tests Created.Before(Startup) and since(Created) < threshold; a condition the scenario does not decide is followed both ways, and every return reachable in a scenario yields exactly !before && recent (so an additional early exit, or a differently spelled age test, is reported with the offending return and the condition it was reached over). The age helper SyncStatus.Since itself is decided on its inlined view: every return yields <receiver>.Now.Sub(<parameter>), the saturating time.Time.Sub (an age computed from UnixNano/Unix readings in 64-bit integer arithmetic wraps for timestamps more than 2^63 ns from Now and makes a far-future timestamp look old); an age helper under another name is recognised by the same inlined form. Concrete time arithmetic beyond wrap-around is not decided.",
		[]string{"time.Time.Sub saturates at the minimum/maximum Duration (time package contract)", "threshold is positive"},
		runC21)
}

var c21Stamps = []string{"LastConnected", "P2PSynced", "BecameValidator", "ExternalSelfEventCreated", "ExternalSelfEventDetected"}

// ---------------------------------------------------------------------------
// inlined view of SyncedToEmit
//
// c21Frame is one activation in the inlined view: the function (declared helper or local closure), the
// call site in the caller's frame that enters it, and the binding of its parameters / receiver to the
// caller's argument expressions. Expressions are always interpreted relative to a frame.

type c21Frame struct {
	F    *core.FuncInfo
	Up   *c21Frame
	Site *core.CallSite
	Bind map[*types.Var]ast.Expr
}

// c21Keeper is the maximum keeper of SyncedToEmit, found by what the permitting return hands back: a
// local of SyncedToEmit whose two fields (the longest wait and its error) are the function's result.
// Neither the keeper's type nor the name of the method that updates it is assumed.
type c21Keeper struct {
	v         *types.Var // the local of SyncedToEmit
	wait, err *types.Var // its fields
}

// c21Apply is one update of the keeper in the inlined view: the assignment to the keeper's wait field
// (in SyncedToEmit, in an update method of the keeper, in a helper or closure that tests, computes and
// records), with the value stored and the error stored next to it in the same activation.
type c21Apply struct {
	Fr    *c21Frame
	Pt    core.Point
	Pos   token.Pos
	Wait  ast.Expr
	Err   ast.Expr // nil: no error is stored in the activation that stores the wait
	ErrPt core.Point
}

// chain lists the frames from the root down to the frame of the update, together with the point
// that leads towards the update in each of them (the helper call site, or the update itself).
func (a c21Apply) chain() (frames []*c21Frame, pts []core.Point) {
	for fr := a.Fr; fr != nil; fr = fr.Up {
		frames = append([]*c21Frame{fr}, frames...)
	}
	for i := range frames {
		if i+1 < len(frames) {
			pts = append(pts, frames[i+1].Site.Pt)
		} else {
			pts = append(pts, a.Pt)
		}
	}
	return
}

// c21Callee returns the module function a call site enters: a declared function/method, or a function
// literal held by a single-definition local (`check := func(...) {...}; check(x)`).
func c21Callee(fr *c21Frame, cs *core.CallSite) *core.FuncInfo {
	switch o := cs.Callee.(type) {
	case *types.Func:
		return fr.F.P.FuncOf(o)
	case *types.Var:
		if d := singleDef(fr.F, o); d != nil {
			if lit, ok := ast.Unparen(d).(*ast.FuncLit); ok {
				return fr.F.P.LitInfo(lit)
			}
		}
	}
	return nil
}

// c21Enter builds the frame of callee g entered at cs.
func c21Enter(fr *c21Frame, cs *core.CallSite, g *core.FuncInfo) *c21Frame {
	sub := &c21Frame{F: g, Up: fr, Site: cs, Bind: map[*types.Var]ast.Expr{}}
	variadic := false
	if n := len(g.Type.Params.List); n > 0 {
		_, variadic = g.Type.Params.List[n-1].Type.(*ast.Ellipsis)
	}
	nParams := 0
	for _, fl := range g.Type.Params.List {
		if len(fl.Names) == 0 {
			nParams++
		} else {
			nParams += len(fl.Names)
		}
	}
	for i, a := range cs.Call.Args {
		if variadic && i >= nParams-1 {
			break
		}
		if p := g.Param(i); p != nil {
			sub.Bind[p] = a
		}
	}
	if r := g.Recv(); r != nil {
		if x := cs.Recv(); x != nil {
			sub.Bind[r] = x
		}
	}
	return sub
}

// c21KeeperField: e selects field fld of the keeper variable (through receivers / parameters bound to it).
func (k *c21Keeper) field(fr *c21Frame, e ast.Expr, fld *types.Var) bool {
	sel, ok := ast.Unparen(e).(*ast.SelectorExpr)
	if !ok || fld == nil {
		return false
	}
	s, ok := fr.F.Info().Selections[sel]
	if !ok || s.Obj() != types.Object(fld) {
		return false
	}
	return c21RootVar(fr, sel.X) == k.v
}

// c21ApplySites enumerates the keeper updates reachable from the frame through helper calls (bounded depth,
// no recursion, `go` statements excluded).
func c21ApplySites(fr *c21Frame, k *c21Keeper, depth int, out *[]c21Apply) {
	as := assignments(fr.F)
	for _, a := range as {
		if !k.field(fr, a.LHS, k.wait) {
			continue
		}
		ap := c21Apply{Fr: fr, Pt: a.Pt, Pos: a.Stmt.Pos(), Wait: a.RHS}
		for _, b := range as {
			if k.field(fr, b.LHS, k.err) && b.RHS != nil {
				ap.Err, ap.ErrPt = b.RHS, b.Pt
			}
		}
		*out = append(*out, ap)
	}
	if depth <= 0 {
		return
	}
	for _, cs := range fr.F.Calls() {
		if cs.InGo || cs.IsConv {
			continue
		}
		g := c21Callee(fr, cs)
		if g == nil {
			continue
		}
		rec := false
		for up := fr; up != nil; up = up.Up {
			if up.F == g {
				rec = true
			}
		}
		if rec {
			continue
		}
		c21ApplySites(c21Enter(fr, cs, g), k, depth-1, out)
	}
}

// c21RootVar follows an expression through parentheses, & and *, and through parameters / receivers
// bound to the caller's arguments, to the variable it names (locals are not looked through).
func c21RootVar(fr *c21Frame, e ast.Expr) *types.Var {
	_, r := c21ResolveX(fr, e, false)
	id, ok := r.(*ast.Ident)
	if !ok {
		return nil
	}
	v, _ := fr.F.Info().ObjectOf(id).(*types.Var)
	if v == nil {
		// the identifier belongs to another frame's package info only when packages differ; all frames of
		// this view are in one package
		return nil
	}
	return v
}

// c21Resolve follows an expression to what it denotes in the inlined view: parentheses, & and * are
// dropped (a helper may take the status by pointer), a parameter or receiver that is never reassigned
// stands for the caller's argument, a single-definition local for its defining expression.
func c21Resolve(fr *c21Frame, e ast.Expr) (*c21Frame, ast.Expr) { return c21ResolveX(fr, e, true) }

// c21FrozenField: the struct field is set only by composite literals: no assignment, ++/-- or address-of
// of a selection of it anywhere in its package. A selection x.f of a value built by a literal then
// denotes the literal's element for f.
func c21FrozenField(p *core.Prog, fld *types.Var) bool {
	if fld == nil || fld.Pkg() == nil {
		return false
	}
	frozen := true
	for _, g := range p.Funcs() {
		if g.Lit != nil || g.Pkg.Types != fld.Pkg() {
			continue
		}
		is := func(e ast.Expr) bool {
			sel, ok := ast.Unparen(e).(*ast.SelectorExpr)
			if !ok {
				return false
			}
			s, ok := g.Info().Selections[sel]
			return ok && s.Obj() == types.Object(fld)
		}
		g.InspectAll(func(n ast.Node) bool {
			switch x := n.(type) {
			case *ast.AssignStmt:
				for _, l := range x.Lhs {
					if is(l) {
						frozen = false
					}
				}
			case *ast.IncDecStmt:
				if is(x.X) {
					frozen = false
				}
			case *ast.UnaryExpr:
				if x.Op == token.AND && is(x.X) {
					frozen = false
				}
			}
			return frozen
		})
	}
	return frozen
}

// c21LitField: sel selects a literal-only field of a struct value that resolves to a composite literal:
// returns the frame and expression of the literal's element for that field.
func c21LitField(fr *c21Frame, sel *ast.SelectorExpr) (*c21Frame, ast.Expr) {
	s, ok := fr.F.Info().Selections[sel]
	if !ok || s.Kind() != types.FieldVal || len(s.Index()) != 1 {
		return nil, nil
	}
	fld, _ := s.Obj().(*types.Var)
	if fld == nil {
		return nil, nil
	}
	bf, be := c21ResolveX(fr, sel.X, true)
	cl, ok := be.(*ast.CompositeLit)
	if !ok || !c21FrozenField(fr.F.P, fld) {
		return nil, nil
	}
	tv, ok := bf.F.Info().Types[cl]
	if !ok {
		return nil, nil
	}
	st, _ := tv.Type.Underlying().(*types.Struct)
	if st == nil {
		return nil, nil
	}
	for i, el := range cl.Elts {
		if kv, ok := el.(*ast.KeyValueExpr); ok {
			if id, ok := kv.Key.(*ast.Ident); ok && bf.F.Info().ObjectOf(id) == types.Object(fld) {
				return bf, kv.Value
			}
		} else if i < st.NumFields() && st.Field(i) == fld {
			return bf, el
		}
	}
	return nil, nil
}

func c21ResolveX(fr *c21Frame, e ast.Expr, locals bool) (*c21Frame, ast.Expr) {
	for i := 0; i < 24 && e != nil; i++ {
		e = ast.Unparen(e)
		switch x := e.(type) {
		case *ast.UnaryExpr:
			if x.Op == token.AND {
				e = x.X
				continue
			}
			return fr, e
		case *ast.StarExpr:
			e = x.X
			continue
		case *ast.SelectorExpr:
			// a field of a small state struct built by a literal (the status and the threshold grouped
			// with the keeper): the literal's element, when the field is never assigned otherwise
			if locals {
				if lf, le := c21LitField(fr, x); le != nil {
					fr, e = lf, le
					continue
				}
			}
			return fr, e
		}
		id, ok := e.(*ast.Ident)
		if !ok {
			return fr, e
		}
		v, _ := fr.F.Info().ObjectOf(id).(*types.Var)
		if v == nil {
			return fr, e
		}
		if b, bound := fr.Bind[v]; bound && fr.Up != nil {
			if n, addr := c19AssignCount(fr.F, v); n != 0 || addr {
				return fr, e
			}
			fr, e = fr.Up, b
			continue
		}
		// a parameter of an enclosing activation captured by a function literal (the literal's frame hangs
		// below the activation of the function that contains it): it stands for that activation's argument
		if up := c21Binder(fr, v); up != nil {
			if n, addr := c19AssignCount(up.F, v); n != 0 || addr {
				return fr, e
			}
			fr, e = up.Up, up.Bind[v]
			continue
		}
		if !locals {
			return fr, e
		}
		r := resolveLocal(fr.F, e)
		if r == e {
			// a variable captured by a closure frame belongs to an enclosing frame
			return fr, e
		}
		e = r
	}
	return fr, e
}

// c21Binder finds the activation above fr that binds v as one of its parameters, when fr's function is a
// literal written inside that activation's function (so v is a captured variable of the literal).
func c21Binder(fr *c21Frame, v *types.Var) *c21Frame {
	if fr.F.Lit == nil {
		return nil
	}
	for up := fr.Up; up != nil; up = up.Up {
		if _, bound := up.Bind[v]; bound && up.Up != nil && c19Within(up.F.Body, fr.F.Body.Pos()) {
			return up
		}
	}
	return nil
}

// c21View holds the roles of SyncedToEmit's parameters.
type c21View struct {
	status, threshold *types.Var
}

func (v *c21View) isVar(fr *c21Frame, e ast.Expr, want *types.Var) bool {
	fr2, r := c21Resolve(fr, e)
	id, ok := r.(*ast.Ident)
	return ok && want != nil && fr2.F.Info().ObjectOf(id) == types.Object(want)
}

// statusField: e denotes <status>.<field> of the SyncStatus parameter; returns the bare field name.
func (v *c21View) statusField(fr *c21Frame, e ast.Expr) string {
	fr2, r := c21Resolve(fr, e)
	sel, ok := r.(*ast.SelectorExpr)
	if !ok {
		return ""
	}
	s, ok := fr2.F.Info().Selections[sel]
	if !ok {
		return ""
	}
	fv, ok := s.Obj().(*types.Var)
	if !ok || !fv.IsField() {
		return ""
	}
	fn := fr2.F.P.FieldName(fv)
	const pre = dsP + "SyncStatus."
	if len(fn) <= len(pre) || fn[:len(pre)] != pre || !v.isVar(fr2, sel.X, v.status) {
		return ""
	}
	return fn[len(pre):]
}

// stampOf: e denotes one of the five timestamps of the status.
func (v *c21View) stampOf(fr *c21Frame, e ast.Expr) string {
	fn := v.statusField(fr, e)
	for _, st := range c21Stamps {
		if fn == st {
			return fn
		}
	}
	return ""
}

// sinceOf: e denotes status.Since(status.X) (or its body status.Now.Sub(status.X)); returns X.
func (v *c21View) sinceOf(fr *c21Frame, e ast.Expr) string { return v.sinceOfDepth(fr, e, 2) }

// c21IsDuration: the expression has type time.Duration.
func c21IsDuration(f *core.FuncInfo, e ast.Expr) bool {
	tv, ok := f.Info().Types[e]
	if !ok || tv.Type == nil {
		return false
	}
	nt, ok := tv.Type.(*types.Named)
	return ok && nt.Obj().Pkg() != nil && nt.Obj().Pkg().Path() == "time" && nt.Obj().Name() == "Duration"
}

func (v *c21View) sinceOfDepth(fr *c21Frame, e ast.Expr, depth int) string {
	fr2, r := c21Resolve(fr, e)
	call, ok := r.(*ast.CallExpr)
	if !ok {
		return ""
	}
	name := calleeName(fr2.F, call)
	if name != dsP+"SyncStatus.Since" && name != "time.Time.Sub" {
		// an age helper under any name (declared function or local closure): every return of its inlined
		// body is the age of one and the same timestamp
		if depth <= 0 || !c21IsDuration(fr2.F, call) {
			return ""
		}
		sub := c21EnterCall(fr2, call)
		if sub == nil {
			return ""
		}
		stamp := ""
		for i, rp := range sub.F.ReturnPoints() {
			rs := rp.Node().(*ast.ReturnStmt)
			if len(rs.Results) != 1 {
				return ""
			}
			s := v.sinceOfDepth(sub, rs.Results[0], depth-1)
			if s == "" || (i > 0 && s != stamp) {
				return ""
			}
			stamp = s
		}
		return stamp
	}
	if len(call.Args) != 1 {
		return ""
	}
	sel, ok := ast.Unparen(call.Fun).(*ast.SelectorExpr)
	if !ok {
		return ""
	}
	switch name {
	case dsP + "SyncStatus.Since":
		if !v.isVar(fr2, sel.X, v.status) {
			return ""
		}
	case "time.Time.Sub":
		if v.statusField(fr2, sel.X) != "Now" {
			return ""
		}
	default:
		return ""
	}
	return v.stampOf(fr2, call.Args[0])
}

func (v *c21View) namer(fr *c21Frame) core.AtomNamer {
	return func(e ast.Expr) string {
		if s := v.sinceOf(fr, e); s != "" {
			return "since." + s
		}
		if v.isVar(fr, e, v.threshold) {
			return "threshold"
		}
		return ""
	}
}

// recent / notRecent: fact predicates since(stamp) < threshold and since(stamp) >= threshold in a frame.
func (v *c21View) recent(fr *c21Frame, stamp string) func(core.Fact) bool {
	return c19LinMatch(fr.F, v.namer(fr), "since."+stamp+" - threshold + 1 <= 0")
}

func (v *c21View) notRecent(fr *c21Frame, stamp string) func(core.Fact) bool {
	return c19LinMatch(fr.F, v.namer(fr), "threshold - since."+stamp+" <= 0")
}

// stampsIn lists the timestamps an expression talks about (through Since(), or the field itself handed
// to a helper), in the inlined view.
func (v *c21View) stampsIn(fr *c21Frame, e ast.Expr) []string {
	fr2, r := c21Resolve(fr, e)
	seen := map[string]bool{}
	var walk func(fr *c21Frame, n ast.Node, depth int)
	walk = func(fr *c21Frame, n ast.Node, depth int) {
		ast.Inspect(n, func(m ast.Node) bool {
			if _, isLit := m.(*ast.FuncLit); isLit {
				return false
			}
			x, ok := m.(ast.Expr)
			if !ok {
				return true
			}
			if s := v.sinceOf(fr, x); s != "" {
				seen[s] = true
				return false
			}
			if s := v.stampOf(fr, x); s != "" {
				seen[s] = true
				return false
			}
			// an identifier standing for a larger expression (local / parameter): look inside once
			if id, isId := x.(*ast.Ident); isId && depth < 4 {
				if fr3, r3 := c21Resolve(fr, id); r3 != ast.Expr(id) {
					walk(fr3, r3, depth+1)
				}
			}
			return true
		})
	}
	walk(fr2, r, 0)
	var out []string
	for s := range seen {
		out = append(out, s)
	}
	sort.Strings(out)
	return out
}

// ---------------------------------------------------------------------------

func runC21(c *core.Ctx) {
	c.Clause("C21.table", func() {
		f := c.Fn(dsP + "SyncedToEmit")
		status := f.Param(0)
		threshold := f.Param(1)
		c.Need(status != nil && threshold != nil, "SyncedToEmit(s, threshold)")
		errRet := func(r *ast.ReturnStmt) bool {
			if len(r.Results) != 2 || core.IsNil(f.Info(), r.Results[1]) {
				return false
			}
			v, ok := f.ObjOf(r.Results[1]).(*types.Var)
			return ok && v.Pkg() != nil && v.Parent() == v.Pkg().Scope()
		}
		// no peers => error
		// the final return hands back the keeper's error, which is nil only if no wait was recorded: for this
		// row "rejecting" means an early error return; the keeper return counts as accepting
		ok1, why1 := rejectedWhen(f, func(ft core.Fact) bool {
			cm, ok := core.NormCmp(ft)
			if !ok || cm.R == nil || cm.Op != token.EQL {
				return false
			}
			root, path := fieldPath(f, cm.L)
			return len(path) == 1 && path[0] == dsP+"SyncStatus.PeersNum" && varOf(f, root) == status && core.IsConstInt(f.Info(), cm.R, 0)
		}, errRet)
		c.Check(ok1, "no peers => refused", "T8 DecisionTable", f.Pos(), "PeersNum == 0 leads only to error returns and the remaining tests are reached only with a peer", "emission can be permitted without any peer: "+why1)
		e2 := edgesWithFact(f, func(ft core.Fact) bool {
			if !ft.Truth {
				return false
			}
			call := isCallTo(f, ft.Expr, "time.Time.IsZero")
			if call == nil {
				return false
			}
			sel, ok := call.Fun.(*ast.SelectorExpr)
			if !ok {
				return false
			}
			_, path := fieldPath(f, sel.X)
			return len(path) == 1 && path[0] == dsP+"SyncStatus.P2PSynced"
		})
		ok2 := len(e2) >= 1
		for _, e := range e2 {
			if o, _ := edgeLeadsOnlyTo(f, e.B, e.Succ, errRet); !o {
				ok2 = false
			}
		}
		c.Check(ok2, "P2P sync unfinished => refused", "T8 DecisionTable", f.Pos(), "P2PSynced.IsZero() leads only to error returns", "emission can be permitted before P2P sync finished")

		// the per-timestamp tests, on the inlined view (the test/apply pair may sit in a helper)
		view := &c21View{status: status, threshold: threshold}
		root := &c21Frame{F: f}
		keeper, nFinal := c21FindKeeper(f, errRet)
		c.Check(keeper != nil && nFinal >= 1, "result is the longest wait and its error", "provenance", f.Pos(), "the non-early return yields the keeper's wait and error fields", "SyncedToEmit does not return the maximum keeper's wait/error")
		if keeper == nil {
			return
		}
		var applies []c21Apply
		c21ApplySites(root, keeper, 4, &applies)
		c.ExpectAtLeast("apply sites in SyncedToEmit", len(applies), 1)
		accepting := func(pt core.Point) bool {
			r, ok := pt.Node().(*ast.ReturnStmt)
			return ok && !errRet(r)
		}
		// the rows of the table, one per timestamp (c21_table.go)
		c21StampRows(c, f, view, keeper, applies, accepting)
	})

	c.Clause("C21.max", func() {
		f := c.Fn(dsP + "SyncedToEmit")
		keeper, _ := c21FindKeeper(f, func(r *ast.ReturnStmt) bool {
			if len(r.Results) != 2 || core.IsNil(f.Info(), r.Results[1]) {
				return false
			}
			v, ok := f.ObjOf(r.Results[1]).(*types.Var)
			return ok && v.Pkg() != nil && v.Parent() == v.Pkg().Scope()
		})
		c.Need(keeper != nil, "SyncedToEmit returns the two fields of a local maximum keeper")
		var applies []c21Apply
		c21ApplySites(&c21Frame{F: f}, keeper, 4, &applies)
		type site struct {
			f  *core.FuncInfo
			pt core.Point
		}
		seen := map[site]bool{}
		n := 0
		for _, ap := range applies {
			if seen[site{ap.Fr.F, ap.Pt}] {
				continue
			}
			seen[site{ap.Fr.F, ap.Pt}] = true
			g := ap.Fr.F
			longer := keeper.longer(ap)
			n++
			ok, _ := g.GuardedBy(ap.Pt, longer)
			c.Check(ok, keeper.wait.Name()+" replaced only by a longer wait", "T4 GuardedBy", ap.Pos, "assigned on the cur < new edge, new being the value stored", "the keeper does not keep the maximum wait and its error")
			okE := ap.Err != nil
			if okE {
				n++
				okE, _ = g.GuardedBy(ap.ErrPt, longer)
				// stored together: whenever the wait is replaced so is the error, and the other way round
				if okE {
					p1, _ := pairedWith(g, ap.Pt, []core.Point{ap.ErrPt})
					p2, _ := pairedWith(g, ap.ErrPt, []core.Point{ap.Pt})
					okE = p1 && p2
				}
			}
			c.Check(okE, keeper.err.Name()+" replaced only by a longer wait", "T4 GuardedBy", ap.Pos, "the error is stored next to the wait, on the same cur < new edge", "the keeper does not keep the maximum wait and its error")
		}
		c.ExpectAtLeast("keeper field updates", n, 2)
	})

	// truth table of DetectParallelInstance, by scenario evaluation (c21_parallel.go)
	c.Clause("C21.parallel", func() { c21ParallelClause(c) })

	// the age helper is the saturating time subtraction (c21_since.go)
	c.Clause("C21.since", func() { c21SinceClause(c) })
}

// c21FindKeeper locates the maximum keeper from the permitting (non-error) returns of SyncedToEmit: each
// of them yields K.a, K.b for one local K of the function and the same two distinct fields a, b.
func c21FindKeeper(f *core.FuncInfo, errRet func(*ast.ReturnStmt) bool) (*c21Keeper, int) {
	var k *c21Keeper
	nFinal := 0
	for _, rp := range f.ReturnPoints() {
		r := rp.Node().(*ast.ReturnStmt)
		if errRet(r) {
			continue
		}
		nFinal++
		if len(r.Results) != 2 {
			return nil, nFinal
		}
		var flds [2]*types.Var
		var roots [2]*types.Var
		for i, res := range r.Results {
			sel, ok := ast.Unparen(res).(*ast.SelectorExpr)
			if !ok {
				return nil, nFinal
			}
			s, ok := f.Info().Selections[sel]
			if !ok || s.Kind() != types.FieldVal {
				return nil, nFinal
			}
			flds[i], _ = s.Obj().(*types.Var)
			roots[i] = varOf(f, sel.X)
		}
		if flds[0] == nil || flds[1] == nil || flds[0] == flds[1] || roots[0] == nil || roots[0] != roots[1] || !c19Within(f.Body, roots[0].Pos()) {
			return nil, nFinal
		}
		if k != nil && (k.v != roots[0] || k.wait != flds[0] || k.err != flds[1]) {
			return nil, nFinal
		}
		k = &c21Keeper{v: roots[0], wait: flds[0], err: flds[1]}
	}
	return k, nFinal
}

// longer: the fact "the keeper's current wait < the value this update stores" in the update's function.
func (k *c21Keeper) longer(ap c21Apply) func(core.Fact) bool {
	return c19LinMatch(ap.Fr.F, k.namer(ap), "cur - new + 1 <= 0")
}

// notLonger: the fact "the value this update would store <= the keeper's current wait".
func (k *c21Keeper) notLonger(ap c21Apply) func(core.Fact) bool {
	return c19LinMatch(ap.Fr.F, k.namer(ap), "new - cur <= 0")
}

func (k *c21Keeper) namer(ap c21Apply) core.AtomNamer {
	g := ap.Fr.F
	nv := varOf(g, ap.Wait)
	return func(e ast.Expr) string {
		if k.field(ap.Fr, e, k.wait) {
			return "cur"
		}
		if ap.Wait == nil {
			return ""
		}
		if v := varOf(g, e); v != nil {
			if v == nv {
				return "new"
			}
			return ""
		}
		if nv == nil && exprStr(ast.Unparen(e)) == exprStr(ast.Unparen(ap.Wait)) {
			return "new"
		}
		return ""
	}
}

func joinStr(xs []string) string {
	out := ""
	for i, x := range xs {
		if i > 0 {
			out += ", "
		}
		out += x
	}
	return out
}
