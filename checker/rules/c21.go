package rules

import (
	"go/ast"
	"go/constant"
	"go/token"
	"go/types"
	"sort"

	"lachk/core"
)

const dsP = "emitter/doublesign."

func init() {
	register("C21", "other", "T8 DecisionTable (field coverage), T19 SaturatingArith, T4 GuardedBy (normalised comparisons), inlined view of helpers (parameter binding)",
		"Decides the decision-table shape of the double-sign guard: no peers and unfinished P2P sync lead only to error returns; each of the five timestamps (last connected, P2P synced, became validator, external self-event created / detected) has a test since(t) < threshold that feeds the remaining time threshold - since(t) of the same timestamp, with a non-nil error, into the maximum keeper, and no emission is permitted on a path that neither recorded that wait nor saw the test fail. The test, the wait computation and the keeper update may live in SyncedToEmit itself or in helper functions / local closures it calls: the rule works on the inlined view (parameters and receivers of a helper are bound to the caller's argument expressions, single-definition locals are looked through), so the same facts are decided whether the five tests are written out or share one helper. The keeper replaces its value only by a larger wait and the function returns the keeper's wait and error; the remaining-time subtraction is saturating (since(t) is the saturating Time.Sub and can be the most negative duration for a far-future timestamp, so the plain difference wraps negative and emission would be permitted). Parallel-instance detection: created-before-startup leads only to false, otherwise the result is since(created) < threshold. Concrete time arithmetic beyond wrap-around is not decided.",
		[]string{"time.Time.Sub saturates at the minimum/maximum Duration (time package contract)", "threshold is positive"},
		runC21)
}

var c21Stamps = []string{"LastConnected", "P2PSynced", "BecameValidator", "ExternalSelfEventCreated", "ExternalSelfEventDetected"}

// ---------------------------------------------------------------------------
// inlined view of SyncedToEmit
//
// c21Frame is one activation in the inlined view: the function (declared helper or local closure), the
// call site in the caller's frame that enters it, and the binding of its parameters / receiver to the
// caller's argument expressions. Expressions are always interpreted relative to a frame.

type c21Frame struct {
	F    *core.FuncInfo
	Up   *c21Frame
	Site *core.CallSite
	Bind map[*types.Var]ast.Expr
}

// c21Apply is one call of the keeper's apply in the inlined view.
type c21Apply struct {
	Fr *c21Frame
	CS *core.CallSite
}

// chain lists the frames from the root down to the frame of the apply call, together with the point
// that leads towards the apply in each of them (the helper call site, or the apply call itself).
func (a c21Apply) chain() (frames []*c21Frame, pts []core.Point) {
	for fr := a.Fr; fr != nil; fr = fr.Up {
		frames = append([]*c21Frame{fr}, frames...)
	}
	for i := range frames {
		if i+1 < len(frames) {
			pts = append(pts, frames[i+1].Site.Pt)
		} else {
			pts = append(pts, a.CS.Pt)
		}
	}
	return
}

// c21Callee returns the module function a call site enters: a declared function/method, or a function
// literal held by a single-definition local (`check := func(...) {...}; check(x)`).
func c21Callee(fr *c21Frame, cs *core.CallSite) *core.FuncInfo {
	switch o := cs.Callee.(type) {
	case *types.Func:
		return fr.F.P.FuncOf(o)
	case *types.Var:
		if d := singleDef(fr.F, o); d != nil {
			if lit, ok := ast.Unparen(d).(*ast.FuncLit); ok {
				return fr.F.P.LitInfo(lit)
			}
		}
	}
	return nil
}

// c21Enter builds the frame of callee g entered at cs.
func c21Enter(fr *c21Frame, cs *core.CallSite, g *core.FuncInfo) *c21Frame {
	sub := &c21Frame{F: g, Up: fr, Site: cs, Bind: map[*types.Var]ast.Expr{}}
	variadic := false
	if n := len(g.Type.Params.List); n > 0 {
		_, variadic = g.Type.Params.List[n-1].Type.(*ast.Ellipsis)
	}
	nParams := 0
	for _, fl := range g.Type.Params.List {
		if len(fl.Names) == 0 {
			nParams++
		} else {
			nParams += len(fl.Names)
		}
	}
	for i, a := range cs.Call.Args {
		if variadic && i >= nParams-1 {
			break
		}
		if p := g.Param(i); p != nil {
			sub.Bind[p] = a
		}
	}
	if r := g.Recv(); r != nil {
		if x := cs.Recv(); x != nil {
			sub.Bind[r] = x
		}
	}
	return sub
}

// c21ApplySites enumerates the apply calls reachable from the frame through helper calls (bounded depth,
// no recursion, `go` statements excluded).
func c21ApplySites(fr *c21Frame, depth int, out *[]c21Apply) {
	for _, cs := range fr.F.Calls() {
		if cs.InGo || cs.IsConv {
			continue
		}
		if cs.Name == dsP+"maxWaitError.apply" {
			*out = append(*out, c21Apply{fr, cs})
			continue
		}
		if depth <= 0 {
			continue
		}
		g := c21Callee(fr, cs)
		if g == nil {
			continue
		}
		rec := false
		for up := fr; up != nil; up = up.Up {
			if up.F == g {
				rec = true
			}
		}
		if rec {
			continue
		}
		c21ApplySites(c21Enter(fr, cs, g), depth-1, out)
	}
}

// c21Resolve follows an expression to what it denotes in the inlined view: parentheses, & and * are
// dropped (a helper may take the status by pointer), a parameter or receiver that is never reassigned
// stands for the caller's argument, a single-definition local for its defining expression.
func c21Resolve(fr *c21Frame, e ast.Expr) (*c21Frame, ast.Expr) {
	for i := 0; i < 24 && e != nil; i++ {
		e = ast.Unparen(e)
		switch x := e.(type) {
		case *ast.UnaryExpr:
			if x.Op == token.AND {
				e = x.X
				continue
			}
			return fr, e
		case *ast.StarExpr:
			e = x.X
			continue
		}
		id, ok := e.(*ast.Ident)
		if !ok {
			return fr, e
		}
		v, _ := fr.F.Info().ObjectOf(id).(*types.Var)
		if v == nil {
			return fr, e
		}
		if b, bound := fr.Bind[v]; bound && fr.Up != nil {
			if n, addr := c19AssignCount(fr.F, v); n != 0 || addr {
				return fr, e
			}
			fr, e = fr.Up, b
			continue
		}
		r := resolveLocal(fr.F, e)
		if r == e {
			// a variable captured by a closure frame belongs to an enclosing frame
			return fr, e
		}
		e = r
	}
	return fr, e
}

// c21View holds the roles of SyncedToEmit's parameters.
type c21View struct {
	status, threshold *types.Var
}

func (v *c21View) isVar(fr *c21Frame, e ast.Expr, want *types.Var) bool {
	fr2, r := c21Resolve(fr, e)
	id, ok := r.(*ast.Ident)
	return ok && want != nil && fr2.F.Info().ObjectOf(id) == types.Object(want)
}

// statusField: e denotes <status>.<field> of the SyncStatus parameter; returns the bare field name.
func (v *c21View) statusField(fr *c21Frame, e ast.Expr) string {
	fr2, r := c21Resolve(fr, e)
	sel, ok := r.(*ast.SelectorExpr)
	if !ok {
		return ""
	}
	s, ok := fr2.F.Info().Selections[sel]
	if !ok {
		return ""
	}
	fv, ok := s.Obj().(*types.Var)
	if !ok || !fv.IsField() {
		return ""
	}
	fn := fr2.F.P.FieldName(fv)
	const pre = dsP + "SyncStatus."
	if len(fn) <= len(pre) || fn[:len(pre)] != pre || !v.isVar(fr2, sel.X, v.status) {
		return ""
	}
	return fn[len(pre):]
}

// stampOf: e denotes one of the five timestamps of the status.
func (v *c21View) stampOf(fr *c21Frame, e ast.Expr) string {
	fn := v.statusField(fr, e)
	for _, st := range c21Stamps {
		if fn == st {
			return fn
		}
	}
	return ""
}

// sinceOf: e denotes status.Since(status.X) (or its body status.Now.Sub(status.X)); returns X.
func (v *c21View) sinceOf(fr *c21Frame, e ast.Expr) string {
	fr2, r := c21Resolve(fr, e)
	call, ok := r.(*ast.CallExpr)
	if !ok || len(call.Args) != 1 {
		return ""
	}
	sel, ok := ast.Unparen(call.Fun).(*ast.SelectorExpr)
	if !ok {
		return ""
	}
	switch calleeName(fr2.F, call) {
	case dsP + "SyncStatus.Since":
		if !v.isVar(fr2, sel.X, v.status) {
			return ""
		}
	case "time.Time.Sub":
		if v.statusField(fr2, sel.X) != "Now" {
			return ""
		}
	default:
		return ""
	}
	return v.stampOf(fr2, call.Args[0])
}

func (v *c21View) namer(fr *c21Frame) core.AtomNamer {
	return func(e ast.Expr) string {
		if s := v.sinceOf(fr, e); s != "" {
			return "since." + s
		}
		if v.isVar(fr, e, v.threshold) {
			return "threshold"
		}
		return ""
	}
}

// recent / notRecent: fact predicates since(stamp) < threshold and since(stamp) >= threshold in a frame.
func (v *c21View) recent(fr *c21Frame, stamp string) func(core.Fact) bool {
	return c19LinMatch(fr.F, v.namer(fr), "since."+stamp+" - threshold + 1 <= 0")
}

func (v *c21View) notRecent(fr *c21Frame, stamp string) func(core.Fact) bool {
	return c19LinMatch(fr.F, v.namer(fr), "threshold - since."+stamp+" <= 0")
}

// stampsIn lists the timestamps an expression talks about (through Since(), or the field itself handed
// to a helper), in the inlined view.
func (v *c21View) stampsIn(fr *c21Frame, e ast.Expr) []string {
	fr2, r := c21Resolve(fr, e)
	seen := map[string]bool{}
	var walk func(fr *c21Frame, n ast.Node, depth int)
	walk = func(fr *c21Frame, n ast.Node, depth int) {
		ast.Inspect(n, func(m ast.Node) bool {
			if _, isLit := m.(*ast.FuncLit); isLit {
				return false
			}
			x, ok := m.(ast.Expr)
			if !ok {
				return true
			}
			if s := v.sinceOf(fr, x); s != "" {
				seen[s] = true
				return false
			}
			if s := v.stampOf(fr, x); s != "" {
				seen[s] = true
				return false
			}
			// an identifier standing for a larger expression (local / parameter): look inside once
			if id, isId := x.(*ast.Ident); isId && depth < 4 {
				if fr3, r3 := c21Resolve(fr, id); r3 != ast.Expr(id) {
					walk(fr3, r3, depth+1)
				}
			}
			return true
		})
	}
	walk(fr2, r, 0)
	var out []string
	for s := range seen {
		out = append(out, s)
	}
	sort.Strings(out)
	return out
}

// ---------------------------------------------------------------------------

func runC21(c *core.Ctx) {
	c.Clause("C21.table", func() {
		f := c.Fn(dsP + "SyncedToEmit")
		status := f.Param(0)
		threshold := f.Param(1)
		c.Need(status != nil && threshold != nil, "SyncedToEmit(s, threshold)")
		errRet := func(r *ast.ReturnStmt) bool {
			if len(r.Results) != 2 || core.IsNil(f.Info(), r.Results[1]) {
				return false
			}
			v, ok := f.ObjOf(r.Results[1]).(*types.Var)
			return ok && v.Pkg() != nil && v.Parent() == v.Pkg().Scope()
		}
		// no peers => error
		// the final return hands back the keeper's error, which is nil only if no wait was recorded: for this
		// row "rejecting" means an early error return; the keeper return counts as accepting
		ok1, why1 := rejectedWhen(f, func(ft core.Fact) bool {
			cm, ok := core.NormCmp(ft)
			if !ok || cm.R == nil || cm.Op != token.EQL {
				return false
			}
			root, path := fieldPath(f, cm.L)
			return len(path) == 1 && path[0] == dsP+"SyncStatus.PeersNum" && varOf(f, root) == status && core.IsConstInt(f.Info(), cm.R, 0)
		}, errRet)
		c.Check(ok1, "no peers => refused", "T8 DecisionTable", f.Pos(), "PeersNum == 0 leads only to error returns and the remaining tests are reached only with a peer", "emission can be permitted without any peer: "+why1)
		e2 := edgesWithFact(f, func(ft core.Fact) bool {
			if !ft.Truth {
				return false
			}
			call := isCallTo(f, ft.Expr, "time.Time.IsZero")
			if call == nil {
				return false
			}
			sel, ok := call.Fun.(*ast.SelectorExpr)
			if !ok {
				return false
			}
			_, path := fieldPath(f, sel.X)
			return len(path) == 1 && path[0] == dsP+"SyncStatus.P2PSynced"
		})
		ok2 := len(e2) >= 1
		for _, e := range e2 {
			if o, _ := edgeLeadsOnlyTo(f, e.B, e.Succ, errRet); !o {
				ok2 = false
			}
		}
		c.Check(ok2, "P2P sync unfinished => refused", "T8 DecisionTable", f.Pos(), "P2PSynced.IsZero() leads only to error returns", "emission can be permitted before P2P sync finished")

		// the per-timestamp tests, on the inlined view (the test/apply pair may sit in a helper)
		view := &c21View{status: status, threshold: threshold}
		root := &c21Frame{F: f}
		var applies []c21Apply
		c21ApplySites(root, 3, &applies)
		c.ExpectAtLeast("apply sites in SyncedToEmit", len(applies), 5)
		accepting := func(pt core.Point) bool {
			r, ok := pt.Node().(*ast.ReturnStmt)
			return ok && !errRet(r)
		}
		covered := map[string]bool{}
		var keeper *types.Var
		keeperOK := true
		for _, ap := range applies {
			c.Need(len(ap.CS.Call.Args) == 2, "apply(wait, err)")
			frames, pts := ap.chain()
			leaf := frames[len(frames)-1]
			// which stamp does the wait argument talk about?
			stamps := view.stampsIn(ap.Fr, ap.CS.Call.Args[0])
			if len(stamps) != 1 {
				c.Undecided("apply site without a recognisable timestamp", "T8 DecisionTable", ap.CS.Pos(), "cannot tell which single timestamp this wait is computed from (found: "+joinStr(stamps)+")")
				continue
			}
			stamp := stamps[0]
			// only when: in some frame of the chain the way to the apply is guarded by since(stamp) < threshold
			jg := -1
			var wit []core.Point
			for j := len(frames) - 1; j >= 0; j-- {
				ok, w := frames[j].F.GuardedBy(pts[j], view.recent(frames[j], stamp))
				if ok {
					jg = j
					break
				}
				if j == len(frames)-1 {
					wit = w
				}
			}
			c.Check(jg >= 0, stamp+"|wait recorded exactly when since < threshold", "T4 GuardedBy", ap.CS.Pos(), "apply is reached only on the since("+stamp+") < threshold edge of the same timestamp", "the wait for "+stamp+" is recorded under a different test: "+leaf.F.DescribePath(wit))
			if jg >= 0 {
				g := frames[jg].F
				// and always on that edge: the test's true edge always reaches this apply
				okAlways := true
				for _, e := range edgesWithFact(g, view.recent(frames[jg], stamp)) {
					if _, miss := (core.PathQuery{F: g, From: blockEntry(e.B.Succs[e.Succ]), Avoid: core.PointSet(pts[jg]), TargetExit: true}).Find(); miss {
						okAlways = false
					}
				}
				for j := jg + 1; j < len(frames); j++ {
					if _, miss := (core.PathQuery{F: frames[j].F, From: frames[j].F.Entry(), Avoid: core.PointSet(pts[j]), TargetExit: true}).Find(); miss {
						okAlways = false
					}
				}
				c.Check(okAlways, stamp+"|too-recent timestamp always records a wait", "T3 PostDominates", ap.CS.Pos(), "the since < threshold edge always reaches apply", "a too-recent "+stamp+" can be ignored")
				// and the test is made before emission is permitted: no accepting path skips both the apply and the
				// since >= threshold edge
				okTested := true
				var witT []core.Point
				var witF *core.FuncInfo
				for j := 0; j <= jg; j++ {
					q := core.PathQuery{F: frames[j].F, From: frames[j].F.Entry(), Avoid: core.PointSet(pts[j])}
					if j == jg {
						q.AvoidEdge = c19Edges(frames[j].F, view.notRecent(frames[j], stamp))
					}
					if j == 0 {
						q.Target = accepting
					} else {
						q.TargetExit = true
					}
					if path, found := q.Find(); found {
						okTested, witT, witF = false, path, frames[j].F
					}
				}
				detail := ""
				if witF != nil {
					detail = witF.DescribePath(witT)
				}
				c.Check(okTested, stamp+"|tested before emission is permitted", "T8 DecisionTable", ap.CS.Pos(), "every path to the permitting return records the wait for "+stamp+" or takes the since("+stamp+") >= threshold edge", "SyncedToEmit can return its result (permit emission, or report a wait that is not the longest) on a path that never compared since("+stamp+") with the threshold: "+detail)
			}
			// error argument: a package-level error variable (non-nil)
			efr, ee := c21Resolve(ap.Fr, ap.CS.Call.Args[1])
			ev, _ := efr.F.ObjOf(ee).(*types.Var)
			okE := ev != nil && ev.Pkg() != nil && ev.Parent() == ev.Pkg().Scope()
			c.Check(okE, stamp+"|refusal carries an error", "T8 DecisionTable", ap.CS.Pos(), "apply receives a package-level error value", "the wait is recorded without an error (emission would be permitted)")
			checkSaturating(c, ap, stamp)
			covered[stamp] = true
			// the keeper all waits go into
			kfr, ke := c21Resolve(ap.Fr, ap.CS.Recv())
			kv := varOf(kfr.F, ke)
			if kv == nil || !c19Within(f.Body, kv.Pos()) || (keeper != nil && keeper != kv) {
				keeperOK = false
			}
			keeper = kv
		}
		var missing []string
		for _, s := range c21Stamps {
			if !covered[s] {
				missing = append(missing, s)
			}
		}
		sort.Strings(missing)
		c.Check(len(missing) == 0, "all five timestamps are tested", "T8 field coverage", f.Pos(), "LastConnected, P2PSynced, BecameValidator, ExternalSelfEventCreated, ExternalSelfEventDetected each have a test", "timestamps without a since < threshold test: "+joinStr(missing))

		// result: the keeper's fields
		okRet := keeper != nil && keeperOK
		nFinal := 0
		for _, rp := range f.ReturnPoints() {
			r := rp.Node().(*ast.ReturnStmt)
			if errRet(r) {
				continue
			}
			nFinal++
			if len(r.Results) != 2 {
				okRet = false
				continue
			}
			r0, p0 := fieldPath(f, r.Results[0])
			r1, p1 := fieldPath(f, r.Results[1])
			if !(len(p0) == 1 && p0[0] == dsP+"maxWaitError.wait" && varOf(f, r0) == keeper && len(p1) == 1 && p1[0] == dsP+"maxWaitError.waitErr" && varOf(f, r1) == keeper) {
				okRet = false
			}
		}
		c.Check(okRet && nFinal >= 1, "result is the longest wait and its error", "provenance", f.Pos(), "the non-early return yields the keeper's wait and waitErr", "SyncedToEmit does not return the maximum keeper's wait/error")
	})

	c.Clause("C21.max", func() {
		f := c.Fn(dsP + "maxWaitError.apply")
		wait, werr := f.Param(0), f.Param(1)
		namer := func(e ast.Expr) string {
			if fieldNameOf(f, e) == dsP+"maxWaitError.wait" {
				return "cur"
			}
			if varOf(f, e) == wait {
				return "new"
			}
			return ""
		}
		want := core.ParseLinCmp("cur - new + 1 <= 0")
		n := 0
		for _, a := range assignments(f) {
			fn := fieldNameOf(f, a.LHS)
			if fn != dsP+"maxWaitError.wait" && fn != dsP+"maxWaitError.waitErr" {
				continue
			}
			n++
			ok, _ := f.GuardedBy(a.Pt, func(ft core.Fact) bool {
				lc, k := core.NormLinCmp(f.Info(), ft, namer)
				return k && lc.Equal(want)
			})
			src := wait
			if fn == dsP+"maxWaitError.waitErr" {
				src = werr
			}
			c.Check(ok && varOf(f, a.RHS) == src, short(fn)+" replaced only by a longer wait", "T4 GuardedBy", a.Stmt.Pos(), "assigned from the argument on the cur < new edge", "the keeper does not keep the maximum wait and its error")
		}
		c.ExpectAtLeast("keeper field updates", n, 2)
	})

	c.Clause("C21.parallel", func() {
		f := c.Fn(dsP + "DetectParallelInstance")
		threshold := f.Param(1)
		// created before startup => false. The test is Created.Before(Startup) or, equivalently,
		// Startup.After(Created); it may be a branch condition or a conjunct of the returned expression.
		isField := func(e ast.Expr, name string) bool {
			_, p := fieldPath(f, e)
			return len(p) == 1 && p[0] == dsP+"SyncStatus."+name
		}
		// notBefore: the fact says "created is not before startup"
		notBefore := func(ft core.Fact) bool {
			if ft.Truth {
				return false
			}
			call := isCallTo(f, ft.Expr, "time.Time.Before", "time.Time.After")
			if call == nil || len(call.Args) != 1 {
				return false
			}
			sel, ok := ast.Unparen(call.Fun).(*ast.SelectorExpr)
			if !ok {
				return false
			}
			if sel.Sel.Name == "Before" {
				return isField(sel.X, "ExternalSelfEventCreated") && isField(call.Args[0], "Startup")
			}
			return isField(sel.X, "Startup") && isField(call.Args[0], "ExternalSelfEventCreated")
		}
		isConstBool := func(e ast.Expr, want bool) bool {
			cv, ok := core.ConstVal(f.Info(), e)
			return ok && cv.Kind() == constant.Bool && constant.BoolVal(cv) == want
		}
		// every return that can yield true is reached only over a not-before edge, or has not-before as a conjunct
		ok, nMaybeTrue := true, 0
		for _, rp := range f.ReturnPoints() {
			r := rp.Node().(*ast.ReturnStmt)
			if len(r.Results) != 1 {
				ok = false
				continue
			}
			if isConstBool(r.Results[0], false) {
				continue
			}
			nMaybeTrue++
			protected, _ := f.GuardedBy(rp, notBefore)
			for _, ft := range core.Decompose(resolveLocal(f, r.Results[0]), true) {
				if notBefore(ft) {
					protected = true
				}
			}
			if !protected {
				ok = false
			}
		}
		c.Check(ok && nMaybeTrue >= 1, "event created before startup is not a parallel instance", "T8 DecisionTable", f.Pos(), "a result other than false is produced only when Created.Before(Startup) is false", "a self-event older than startup can be reported as a parallel instance")
		// otherwise: since(created) < threshold
		namer := func(e ast.Expr) string {
			if call := isCallTo(f, e, dsP+"SyncStatus.Since"); call != nil {
				_, path := fieldPath(f, call.Args[0])
				if len(path) == 1 {
					return "since." + short(path[0])
				}
			}
			if varOf(f, e) == threshold {
				return "threshold"
			}
			return ""
		}
		want := core.ParseLinCmp("since.SyncStatus.ExternalSelfEventCreated - threshold + 1 <= 0")
		okR := false
		for _, rp := range f.ReturnPoints() {
			r := rp.Node().(*ast.ReturnStmt)
			if len(r.Results) == 1 && !isConstBool(r.Results[0], false) && !isConstBool(r.Results[0], true) {
				// the returned expression is the comparison, possibly conjoined with the not-before test
				nRecent, nOther := 0, 0
				for _, ft := range core.Decompose(resolveLocal(f, r.Results[0]), true) {
					if lc, k := core.NormLinCmp(f.Info(), core.Fact{Expr: resolveLocal(f, ft.Expr), Truth: ft.Truth}, namer); k && lc.Equal(want) {
						nRecent++
					} else if !notBefore(ft) {
						nOther++
					}
				}
				if nRecent >= 1 && nOther == 0 {
					okR = true
				}
			}
		}
		// or branch form: return true guarded by the comparison
		for _, rp := range returnsWith(f, 0, func(e ast.Expr) bool { return isIdentNamed(e, "true") }) {
			if o, _ := f.GuardedBy(rp, func(ft core.Fact) bool {
				lc, k := core.NormLinCmp(f.Info(), ft, namer)
				return k && lc.Equal(want)
			}); o {
				okR = true
			}
		}
		c.Check(okR, "parallel instance iff the external event is younger than the threshold", "T8 DecisionTable", f.Pos(), "the remaining result is since(ExternalSelfEventCreated) < threshold", "the parallel-instance test is not since(created) < threshold")
	})
}

func joinStr(xs []string) string {
	out := ""
	for i, x := range xs {
		if i > 0 {
			out += ", "
		}
		out += x
	}
	return out
}

// checkSaturating is T19 for one apply site: the wait argument must not be a plain difference
// threshold - since(t); it has to go through a wrap check that substitutes the maximum duration.
func checkSaturating(c *core.Ctx, ap c21Apply, stamp string) {
	fr, arg := c21Resolve(ap.Fr, ap.CS.Call.Args[0])
	f := fr.F
	construct := stamp + "|remaining time saturates"
	isMaxDur := func(g *core.FuncInfo, e ast.Expr) bool {
		v, ok := core.ConstVal(g.Info(), e)
		if !ok {
			return false
		}
		v = constant.ToInt(v)
		return v.Kind() == constant.Int && constant.Compare(v, token.EQL, constant.MakeInt64(1<<63-1))
	}
	// analyse a function/closure body g where `sub` is a subtraction: is there a substitution of the max duration,
	// guarded by a condition, on a path between the subtraction and the use?
	hasWrapCheck := func(g *core.FuncInfo) bool {
		found := false
		// return MaxInt64 under a guard
		for _, rp := range g.ReturnPoints() {
			r := rp.Node().(*ast.ReturnStmt)
			for _, res := range r.Results {
				if isMaxDur(g, res) {
					if ok, _ := g.GuardedBy(rp, func(ft core.Fact) bool { _, k := core.NormCmp(ft); return k }); ok {
						found = true
					}
				}
			}
		}
		// x = MaxInt64 under a guard
		for _, a := range assignments(g) {
			if a.RHS != nil && isMaxDur(g, a.RHS) {
				if ok, _ := g.GuardedBy(a.Pt, func(ft core.Fact) bool { _, k := core.NormCmp(ft); return k }); ok {
					found = true
				}
			}
		}
		return found
	}
	switch x := arg.(type) {
	case *ast.BinaryExpr:
		if x.Op == token.SUB {
			c.Fail(construct, "T19 SaturatingArith", ap.CS.Pos(), "the wait is the plain difference threshold - since("+stamp+"): since() saturates at the most negative duration for a far-future timestamp, the difference wraps to a negative value, the maximum keeper ignores it and emission is permitted although the timestamp is not threshold in the past")
			return
		}
	case *ast.CallExpr:
		if fn, ok := f.ObjOf(x.Fun).(*types.Func); ok {
			if g := f.P.FuncOf(fn); g != nil {
				if hasWrapCheck(g) {
					c.Pass(construct, "T19 SaturatingArith", "the wait is computed by "+short(g.Name)+", which substitutes the maximum duration when the subtraction wraps")
				} else {
					c.Fail(construct, "T19 SaturatingArith", ap.CS.Pos(), short(g.Name)+" computes the wait without a wrap check that substitutes the maximum duration")
				}
				return
			}
		}
	case *ast.Ident:
		if hasWrapCheck(f) {
			c.Pass(construct, "T19 SaturatingArith", "the wait variable is replaced by the maximum duration under a wrap check")
			return
		}
		c.Fail(construct, "T19 SaturatingArith", ap.CS.Pos(), "the wait variable is never replaced by the maximum duration: the subtraction can wrap for a far-future timestamp")
		return
	}
	c.Undecided(construct, "T19 SaturatingArith", ap.CS.Pos(), "the wait argument has a form the rule cannot classify: "+exprStr(arg))
}
