package rules

import (
	"fmt"
	"go/token"
	"sort"
	"strings"

	"lachk/core"
)

// Guard tables (T1): discovered from the majority of accesses, confirmed by reading, frozen here.
const (
	fFlush = "kvdb/flushable."
)

func flushableLockSpec() core.LockSpec {
	return core.LockSpec{
		Pkgs: []string{"kvdb/flushable"},
		Guarded: map[string]string{
			fFlush + "flushableReader.modified":   fFlush + "flushableReader.lock",
			fFlush + "flushableReader.underlying": fFlush + "flushableReader.lock",
			fFlush + "Flushable.underlying":       fFlush + "flushableReader.lock",
			fFlush + "Flushable.sizeEstimation":   fFlush + "flushableReader.lock",
			fFlush + "LazyFlushable.producer":     fFlush + "flushableReader.lock",
			fFlush + "flushableIterator.tree":     fFlush + "flushableIterator.lock",
			fFlush + "SyncedPool.wrappers":        fFlush + "SyncedPool.Mutex",
			fFlush + "SyncedPool.queuedDrops":     fFlush + "SyncedPool.queuedDropsMu",
		},
		Alias: map[string]string{
			// the iterator carries a pointer to the lock of the reader it was made from
			fFlush + "flushableIterator.lock": fFlush + "flushableReader.lock",
		},
		Mutating: func(callee string) bool { return core.ExternalMutators[callee] },
	}
}

func semaphoreLockSpec() core.LockSpec {
	return core.LockSpec{
		Pkgs: []string{"utils/datasemaphore"},
		Guarded: map[string]string{
			"utils/datasemaphore.DataSemaphore.processing":    "utils/datasemaphore.DataSemaphore.mu",
			"utils/datasemaphore.DataSemaphore.maxProcessing": "utils/datasemaphore.DataSemaphore.mu",
		},
	}
}

func wlruLockSpec(p *core.Prog) (core.LockSpec, core.PurityResult) {
	pur := core.Purity(p, "utils/simplewlru")
	mut := map[string]bool{}
	for f, reason := range pur {
		if reason != "" {
			mut[f.Name] = true
		}
	}
	return core.LockSpec{
		Pkgs:     []string{"utils/wlru"},
		Guarded:  map[string]string{"utils/wlru.Cache.lru": "utils/wlru.Cache.lock"},
		Mutating: func(callee string) bool { return mut[callee] },
	}, pur
}

func bufferLockSpec(p *core.Prog) core.LockSpec {
	pur := core.Purity(p, "utils/simplewlru")
	// a wlru.Cache method mutates iff the simplewlru method of the same name does
	mut := map[string]bool{}
	for f, reason := range pur {
		if reason != "" && f.RecvTypeName() == "utils/simplewlru.Cache" {
			mut["utils/wlru.Cache."+f.Obj.Name()] = true
		}
	}
	mut["utils/wlru.Cache.ContainsOrAdd"] = true
	mut["utils/wlru.Cache.PeekOrAdd"] = true
	return core.LockSpec{
		Pkgs: []string{"gossip/dagordering"},
		Guarded: map[string]string{
			"gossip/dagordering.event.released":           "gossip/dagordering.EventsBuffer.mu",
			"gossip/dagordering.event.err":                "gossip/dagordering.EventsBuffer.mu",
			"gossip/dagordering.EventsBuffer.incompletes": "gossip/dagordering.EventsBuffer.mu",
		},
		// incompletes is an immutable pointer to the internally synchronised wlru.Cache:
		// single read-only calls are linearizable on their own; every mutating call needs buf.mu
		ReadFree: map[string]bool{"gossip/dagordering.EventsBuffer.incompletes": true},
		Mutating: func(callee string) bool { return mut[callee] },
	}
}

// C28 exceptions: each (function, field) with one line of reason.
var c28Exceptions = []lockException{
	{"SyncedPool.flush", "Flushable.underlying", "reads the underlying DB of a wrapper that flush has just removed from the pool and closed while holding the pool mutex and the flushing lock; no other goroutine can reach that wrapper through the pool any more"},
	{"New", "EventsBuffer.incompletes", "constructor: the buffer is not yet shared"},
}

// c28WidenExceptions extends each (function, field) exception to the code that runs only as part of
// that function: unexported helpers of the analysed packages all of whose call sites lie in functions
// the exception already covers, and function literals written inside such functions. The reason given
// for the exception is about what the operation has established before the access, so it holds for a
// loop or block of the operation that is moved into a helper of its own.
func c28WidenExceptions(res *core.LockResult, exceptions []lockException) []lockException {
	out := append([]lockException(nil), exceptions...)
	for _, e := range exceptions {
		covered := map[string]bool{e.Func: true}
		for changed := true; changed; {
			changed = false
			for _, f := range res.Analysed {
				nm := short(f.Name)
				if covered[nm] {
					continue
				}
				ok := false
				switch {
				case f.Obj == nil:
					// literal: covered with its enclosing function
					ok = f.Parent != nil && covered[short(f.Parent.Name)]
				case !f.Obj.Exported() && len(res.CallIns[f]) > 0:
					ok = true
					for _, ci := range res.CallIns[f] {
						if !covered[short(ci.Caller.Name)] {
							ok = false
						}
					}
				}
				if ok {
					covered[nm] = true
					changed = true
					out = append(out, lockException{nm, e.Field, e.Reason + " (" + nm + " runs only as part of " + e.Func + ")"})
				}
			}
		}
	}
	return out
}

// c28FieldFloors is the vacuity guard of a lockset clause: the analysis has seen at least one access to
// every guarded field of its table (a field that is never reached would make the clause pass on nothing).
// How many functions touch a field is not part of the property: the obligation is on every access.
func c28FieldFloors(c *core.Ctx, res *core.LockResult, spec core.LockSpec) {
	seen := map[string]int{}
	for _, a := range res.Accesses {
		seen[a.Field]++
	}
	var fields []string
	for f := range spec.Guarded {
		fields = append(fields, f)
	}
	sort.Strings(fields)
	for _, f := range fields {
		c.ExpectAtLeast("accesses to "+short(f), seen[f], 1)
	}
}

func init() {
	register("C28", "other", "T1 LockSet, T12 Purity, atomicity (single critical section)",
		"Decides the lock discipline that race freedom and linearizability of the five thread-safe components depend on: every access to a guarded field holds its mutex (write mode for writes and for calls classified mutating by the purity analysis), every exit releases what it acquired, helper functions are checked with the meet of the lock states at all their call sites, and every exported operation touches guarded state inside one critical section (so lock order is a linearization order); an operation that does run several critical sections of its own mutex (inline or through methods of the same receiver that lock themselves) must neither overwrite blindly what an earlier section read (C28.rmw) nor see in separate sections fields that a writer updates together (C28.views, view consistency); an operation on a container that accessors read without the component's mutex must not insert a key and remove the same key again before it returns, because those accessors see the entry in between (C28.transient). Lock exceptions granted to a function extend to unexported helpers called only from it. Methods of an unexported adapter type whose values are created only by composite literals handed directly to functions of the package that merely call the parameter's methods (a direct call replaced by a call through a small interface) are entered with the meet of the lock states at those hand-over calls (c28_adapter.go). Sequential correctness of each operation is not decided here (C22/C29/C30).",
		[]string{"lock identity is by mutex field, not by instance (RacerD-style)", "unexported helpers have no callers outside their package; exported methods are assumed to be entered with no lock held", "constructors (composite literals) publish the object only after initialisation"},
		runC28)
}

func runC28(c *core.Ctx) {
	p := c.P
	c.Clause("C28.flushable", func() {
		for f := range flushableLockSpec().Guarded {
			c.Fld(f)
		}
		res := c28RunLockset(p, flushableLockSpec())
		reportLockset(c, res, c28WidenExceptions(res, c28Exceptions), nil)
		c28FieldFloors(c, res, flushableLockSpec())
		c.Extra["flushable_acquires"] = res.Acquires
	})
	c.Clause("C28.semaphore", func() {
		for f := range semaphoreLockSpec().Guarded {
			c.Fld(f)
		}
		res := c28RunLockset(p, semaphoreLockSpec())
		reportLockset(c, res, nil, nil)
		c28FieldFloors(c, res, semaphoreLockSpec())
	})
	c.Clause("C28.wlru", func() {
		spec, pur := wlruLockSpec(p)
		c.Fld("utils/wlru.Cache.lru")
		res := c28RunLockset(p, spec)
		reportLockset(c, res, nil, nil)
		c28FieldFloors(c, res, spec)
		// purity table itself is evidence
		var ro, mu []string
		for f, reason := range pur {
			if f.RecvTypeName() != "utils/simplewlru.Cache" {
				continue
			}
			if reason == "" {
				ro = append(ro, f.Obj.Name())
			} else {
				mu = append(mu, f.Obj.Name())
			}
		}
		sort.Strings(ro)
		sort.Strings(mu)
		c.Note("T12 purity of simplewlru.Cache: read-only=%v mutating=%v", ro, mu)
	})
	c.Clause("C28.buffer", func() {
		spec := bufferLockSpec(p)
		for f := range spec.Guarded {
			c.Fld(f)
		}
		res := c28RunLockset(p, spec)
		reportLockset(c, res, c28WidenExceptions(res, c28Exceptions), nil)
		c28FieldFloors(c, res, spec)
	})
	c.Clause("C28.atomic", func() {
		// every exported method of the five components acquires each of its mutexes at most once
		// (one critical section => the lock order is a linearization order)
		type comp struct {
			typ  string
			spec core.LockSpec
		}
		bs := bufferLockSpec(p)
		ws, _ := wlruLockSpec(p)
		comps := []comp{
			{"kvdb/flushable.Flushable", flushableLockSpec()},
			{"kvdb/flushable.LazyFlushable", flushableLockSpec()},
			{"kvdb/flushable.flushableReader", flushableLockSpec()},
			{"kvdb/flushable.SyncedPool", flushableLockSpec()},
			{"utils/wlru.Cache", ws},
			{"utils/datasemaphore.DataSemaphore", semaphoreLockSpec()},
			{"gossip/dagordering.EventsBuffer", bs},
		}
		cache := map[string]*core.LockResult{}
		perPkg := map[string]int{}
		for _, cm := range comps {
			key := strings.Join(cm.spec.Pkgs, ",")
			res := cache[key]
			if res == nil {
				res = c28RunLockset(p, cm.spec)
				cache[key] = res
			}
			for _, f := range p.MethodsOf(cm.typ) {
				if !f.Obj.Exported() {
					continue
				}
				perPkg[key]++
				worst, wm := 0, ""
				for m, k := range res.Sections[f] {
					if k > worst {
						worst, wm = k, m
					}
				}
				if worst > 1 {
					c.Fail(short(f.Name), "atomicity", f.Pos(), fmt.Sprintf("acquires %s %d times: the operation is split over several critical sections", short(wm), worst))
				} else {
					c.Pass(short(f.Name), "atomicity", fmt.Sprintf("at most one critical section per mutex (%d acquire sites)", len(res.Sections[f])))
				}
			}
		}
		// vacuity: every component contributes at least one exported operation (how many it has is its API,
		// not part of the property)
		for _, cm := range comps {
			key := strings.Join(cm.spec.Pkgs, ",")
			if perPkg[key] >= 0 {
				c.ExpectAtLeast("exported operations in "+key, perPkg[key], 1)
				perPkg[key] = -1
			}
		}
	})
}

var _ = token.NoPos
