package rules

import (
	"go/ast"
	"go/token"
	"go/types"

	"lachk/core"
)

// C21.since — the age of a timestamp is the saturating time subtraction.
//
// Every test of the guard (since(t) < threshold in SyncedToEmit, the age test of DetectParallelInstance)
// and the wrap-around reasoning of c21_sat.go take since(t) to be Now.Sub(t): time.Time.Sub saturates at
// the minimum/maximum Duration, so a timestamp centuries in the future has a very negative age and is
// "younger than the threshold". An age computed in 64-bit nanosecond arithmetic instead (UnixNano
// differences, Unix seconds scaled, Duration(a) - Duration(b) …) wraps for timestamps more than 2^63 ns
// from Now: a far-future timestamp then looks old, SyncedToEmit permits emission and
// DetectParallelInstance reports nothing. The property quantifies over all representable timestamps,
// so the saturating subtraction is a necessary condition.
//
// Decided on the inlined view of the age helper SyncStatus.Since (locals looked through, a further
// helper or local closure entered with its parameters bound): every return yields
// <receiver>.Now.Sub(<parameter>) — time.Time.Sub applied to the Now field of the receiver's status and
// to the timestamp handed in. If the helper does not exist the ages are written in place and the table
// clauses accept only Now.Sub(t) themselves.

// c21AgeOf: e denotes <status>.Now.Sub(<t>) in the inlined view rooted at the age helper.
func c21AgeOf(view *c21View, t *types.Var, fr *c21Frame, e ast.Expr, depth int) (ok bool, at ast.Expr, fin *c21Frame) {
	fr2, r := c21Resolve(fr, e)
	r = core.StripConv(fr2.F.Info(), r)
	if rr, isId := r.(*ast.Ident); isId {
		fr2, r = c21Resolve(fr2, rr)
	}
	call, isCall := r.(*ast.CallExpr)
	if !isCall {
		return false, r, fr2
	}
	if calleeName(fr2.F, call) == "time.Time.Sub" && len(call.Args) == 1 {
		sel, isSel := ast.Unparen(call.Fun).(*ast.SelectorExpr)
		if isSel && view.statusField(fr2, sel.X) == "Now" && view.isVar(fr2, call.Args[0], t) {
			return true, r, fr2
		}
		return false, r, fr2
	}
	if depth > 0 {
		if sub := c21EnterCall(fr2, call); sub != nil {
			rets := sub.F.ReturnPoints()
			if len(rets) == 0 {
				return false, r, fr2
			}
			for _, rp := range rets {
				rs := rp.Node().(*ast.ReturnStmt)
				if len(rs.Results) != 1 {
					return false, r, fr2
				}
				if ok, at, fin := c21AgeOf(view, t, sub, rs.Results[0], depth-1); !ok {
					return false, at, fin
				}
			}
			return true, r, fr2
		}
	}
	return false, r, fr2
}

// c21IntegerTimeArith: the expression computes with integer readings of a time (UnixNano, Unix, …) or
// subtracts/adds plain integers: wrapping arithmetic.
func c21IntegerTimeArith(f *core.FuncInfo, e ast.Expr) bool {
	found := false
	ast.Inspect(e, func(n ast.Node) bool {
		switch x := n.(type) {
		case *ast.FuncLit:
			return false
		case *ast.BinaryExpr:
			if x.Op == token.SUB || x.Op == token.ADD {
				if tv, ok := f.Info().Types[x]; ok && tv.Type != nil {
					if b, isBasic := tv.Type.Underlying().(*types.Basic); isBasic && b.Info()&types.IsInteger != 0 {
						found = true
					}
				}
			}
		case *ast.CallExpr:
			switch calleeName(f, x) {
			case "time.Time.UnixNano", "time.Time.Unix", "time.Time.UnixMilli", "time.Time.UnixMicro":
				found = true
			}
		}
		return !found
	})
	return found
}

func c21SinceClause(c *core.Ctx) {
	const construct = "age of a timestamp is the saturating Now.Sub(t)"
	const rule = "T19 SaturatingArith (provenance on the inlined view)"
	f := c.P.Func(dsP + "SyncStatus.Since")
	if f == nil {
		c.Pass(construct, rule, "no SyncStatus.Since helper: ages are written in place and the table clauses recognise only <status>.Now.Sub(t)")
		return
	}
	recv, t := f.Recv(), f.Param(0)
	c.Need(recv != nil && t != nil, "Since(t) with a named receiver and parameter")
	for _, v := range []*types.Var{recv, t} {
		if n, addr := c19AssignCount(f, v); n != 0 || addr {
			c.Need(false, "Since does not reassign its receiver or parameter")
		}
	}
	for _, g := range append([]*core.FuncInfo{f}, allLits(f)...) {
		for _, a := range assignments(g) {
			if root, path := fieldPath(g, a.LHS); len(path) > 0 && varOf(g, root) == recv {
				c.Need(false, "Since does not modify the status")
			}
		}
	}
	view := &c21View{status: recv}
	root := &c21Frame{F: f}
	rets := f.ReturnPoints()
	c.Need(len(rets) > 0, "Since returns")
	for _, rp := range rets {
		rs := rp.Node().(*ast.ReturnStmt)
		if len(rs.Results) != 1 {
			c.Undecided(construct, rule, rs.Pos(), "Since does not return the age as its single explicit result")
			continue
		}
		ok, at, fin := c21AgeOf(view, t, root, rs.Results[0], 2)
		switch {
		case ok:
			c.Pass(construct, rule, "Since(t) returns status.Now.Sub(t): time.Time.Sub saturates, a far-future timestamp has a very negative age")
		case at != nil && fin != nil && c21IntegerTimeArith(fin.F, at):
			c.Fail(construct, rule, rs.Pos(), short(f.Name)+" computes the age as `"+exprStr(at)+"` in wrapping 64-bit integer arithmetic instead of the saturating Now.Sub(t): for a timestamp more than 2^63 ns (~292 years) away from Now the difference wraps, a far-future LastConnected/P2PSynced/BecameValidator/external self-event time looks older than the threshold, SyncedToEmit returns (0, nil) and DetectParallelInstance returns false although the timestamp is not threshold in the past")
		default:
			what := ""
			if at != nil {
				what = ": `" + exprStr(at) + "`"
			}
			c.Undecided(construct, rule, rs.Pos(), short(f.Name)+" does not return <status>.Now.Sub(t) of its own receiver and parameter"+what+"; every test of the guard and the wrap-around reasoning assume the saturating age of the timestamp handed in")
		}
	}
}
