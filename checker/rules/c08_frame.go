package rules

import (
	"go/ast"
	"go/types"

	"lachk/core"
)

// ---------------------------------------------------------------------------
// reaching definitions of a local at a use (c08 prefix; candidate for core)

// c08rdef is one definition that may supply the value an expression has at a use point.
type c08rdef struct {
	E      ast.Expr   // the defining expression; nil when the definition is not a plain one (range, multi-value, inc/dec)
	Pt     core.Point // where E is evaluated
	Zero   bool       // `var x T` without a value
	Direct bool       // the expression itself, evaluated at the use
}

// c08reaching lists the definitions of the expression e that reach the use point `at`. For anything
// but a local variable assigned in f's own body that is the expression itself, evaluated at the use.
// For such a local (`var next T; if c { next = a } else { next = b }; use(next)`) it is every
// assignment from which the use can be reached without passing another assignment of the variable
// (plus the value on entry for parameters / named results). Locals defined from another such local
// are followed (bounded depth). A variable written by a nested literal is not looked through, nor
// are the variables listed in keep (the ones the caller wants to recognise by identity).
func c08reaching(f *core.FuncInfo, e ast.Expr, at core.Point, keep ...*types.Var) []c08rdef {
	return c08reachingN(f, e, at, 0, keep)
}

func c08reachingN(f *core.FuncInfo, e ast.Expr, at core.Point, depth int, keep []*types.Var) []c08rdef {
	direct := []c08rdef{{E: e, Pt: at, Direct: true}}
	if e == nil || depth > 3 {
		return direct
	}
	v := varOfRaw(f, e)
	if v == nil || v.IsField() || v.Pkg() == nil || v.Parent() == v.Pkg().Scope() {
		return direct
	}
	for _, k := range keep {
		if k == v {
			return direct
		}
	}
	as := assignsToVar(f, v)
	if len(as) == 0 {
		return direct
	}
	for _, l := range allLits(f) {
		for _, a := range assignments(l) {
			if varOfRaw(l, a.LHS) == v {
				return direct
			}
		}
	}
	var pts []core.Point
	for _, a := range as {
		pts = append(pts, a.Pt)
	}
	var out []c08rdef
	for _, a := range as {
		var others []core.Point
		for _, q := range pts {
			if q != a.Pt {
				others = append(others, q)
			}
		}
		if a.Pt == at {
			continue // `x = g(x)`: the use reads an earlier definition
		}
		if _, reach := (core.PathQuery{F: f, From: a.Pt, FromAfter: true, Target: core.PointSet(at), Avoid: core.PointSet(others...)}).Find(); !reach {
			continue
		}
		switch {
		case a.RHS == nil && c33isValueSpec(a.Stmt):
			out = append(out, c08rdef{Pt: a.Pt, Zero: true})
		case a.RHS == nil:
			out = append(out, c08rdef{Pt: a.Pt})
		default:
			if as2, isAs := a.Stmt.(*ast.AssignStmt); isAs && len(as2.Lhs) != len(as2.Rhs) {
				out = append(out, c08rdef{Pt: a.Pt}) // one of several results of a call
				continue
			}
			if w := varOfRaw(f, a.RHS); w != nil && w != v && len(assignsToVar(f, w)) > 1 {
				for _, d := range c08reachingN(f, a.RHS, a.Pt, depth+1, keep) {
					d.Direct = false
					out = append(out, d)
				}
				continue
			}
			out = append(out, c08rdef{E: a.RHS, Pt: a.Pt})
		}
	}
	// the value on entry (parameters, named results): no assignment of v declares it
	if c24paramIndex(f, v) >= 0 || c08isNamedResult(f, v) {
		if _, reach := (core.PathQuery{F: f, From: f.Entry(), Target: core.PointSet(at), Avoid: core.PointSet(pts...)}).Find(); reach || at == f.Entry() {
			out = append(out, c08rdef{E: e, Pt: at, Direct: true})
		}
	}
	if len(out) == 0 {
		return direct
	}
	return out
}

func c08isNamedResult(f *core.FuncInfo, v *types.Var) bool {
	if f.Type == nil || f.Type.Results == nil {
		return false
	}
	for _, fl := range f.Type.Results.List {
		for _, nm := range fl.Names {
			if f.Info().Defs[nm] == types.Object(v) {
				return true
			}
		}
	}
	return false
}

// c08sameRun: can the definition and the point w lie on one run of the function (one reaches the
// other, or they coincide)? Definitions made on a branch that excludes w say nothing about w's paths.
func c08sameRun(f *core.FuncInfo, d c08rdef, w core.Point) bool {
	return d.Pt == w || f.CanReach(w, d.Pt) || f.CanReach(d.Pt, w)
}

// ---------------------------------------------------------------------------
// frame bookkeeping of onFrameDecided / Bootstrap (C08.frame, shared with C09.seal)
//
// Per path instead of per syntactic pair: whatever frame an election Reset is given — directly or
// through a local assigned on several branches — and whatever is assigned to LastDecidedFrame on a
// run that also contains that definition differ by exactly one; every successful return has passed a
// Reset and the persisting setter, and the persisted state has been given a last decided frame first.
// How many Reset calls or assignments the function is written with does not matter.

// c08oneApart: a - b == 1 for two linear forms over the same atoms.
func c08oneApart(a, b *core.Lin) bool {
	if !a.C.IsInt64() || !b.C.IsInt64() || a.C.Int64()-b.C.Int64() != 1 || len(a.Coef) != len(b.Coef) {
		return false
	}
	for k, v := range a.Coef {
		if w, has := b.Coef[k]; !has || v.Cmp(w) != 0 {
			return false
		}
	}
	return true
}

func c08FrameBookkeeping(c *core.Ctx) {
	p := c.P
	f := c.Fn("abft.Orderer.onFrameDecided")
	frame := f.Param(0)
	ldfF := "abft.LastDecidedState.LastDecidedFrame"
	namer := func(e ast.Expr) string {
		if varOf(f, e) == frame {
			return "frame"
		}
		if cst, ok := f.ObjOf(e).(*types.Const); ok && p.ObjName(cst) == "abft.FirstFrame" {
			return "first"
		}
		if sel, isSel := ast.Unparen(e).(*ast.SelectorExpr); isSel && fieldNameOf(f, sel) == ldfF {
			return "ldf"
		}
		return ""
	}
	// election resets of onFrameDecided: in place, or in a helper on the same receiver that resets the
	// election on every path on which no step failed (the helper's parameters are bound to the arguments)
	type c08reset struct {
		site c08site
		Pt   core.Point     // the call in onFrameDecided
		G    *core.FuncInfo // where the frame argument is written
		Arg  ast.Expr       // the frame argument (nil when the Reset has not two arguments)
	}
	var resets []c08reset
	var resetSites []c08site
	for _, st := range c09effectSites(f, func(cs *core.CallSite) bool { return cs.Name == "abft/election.Election.Reset" }, 2) {
		r := c08reset{site: st, Pt: st.Outer().Pt}
		if len(st.Inner().Call.Args) == 2 {
			r.G, r.Arg = c08arg(st, 1)
		}
		resets = append(resets, r)
		resetSites = append(resetSites, st)
	}
	c.ExpectAtLeast("election resets in onFrameDecided", len(resets), 1)
	sets := assignsToField(f, ldfF)
	c.Need(len(sets) >= 1, "onFrameDecided assigns LastDecidedFrame")
	// which side of "the callback returned validators" a point lies on (+1 sealed, -1 not, 0 either):
	// a definition on one side and an assignment on the other never meet in one run
	newV := c09sealVar(f)
	side := func(pt core.Point) int {
		if newV == nil {
			return 0
		}
		if o, _ := f.GuardedBy(pt, c09lift(f, varNilFact(f, newV, false))); o {
			return 1
		}
		if o, _ := f.GuardedBy(pt, c09lift(f, varNilFact(f, newV, true))); o {
			return -1
		}
		return 0
	}
	for _, r := range resets {
		ok := r.Arg != nil && r.G != nil
		nPairs := 0
		inHelper := ok && r.G != f
		if inHelper {
			// the frame is chosen inside the helper: only a constant expression can be compared with what
			// onFrameDecided assigns (the helper's own variables mean nothing here)
			a := core.Linearize(r.G.Info(), resolveLocal(r.G, r.Arg), namer)
			for _, at := range a.Atom {
				if _, isC := r.G.ObjOf(at).(*types.Const); !isC {
					ok = false
				}
			}
			partners := 0
			for i := range sets {
				s := &sets[i]
				if !ok || !(f.CanReach(s.Pt, r.Pt) || f.CanReach(r.Pt, s.Pt)) {
					continue
				}
				if side(r.Pt)*side(s.Pt) < 0 {
					continue // the two lie on different sides of "the callback returned validators"
				}
				partners++
				if s.RHS == nil || !c08oneApart(a, core.Linearize(f.Info(), resolveLocal(f, s.RHS), namer)) {
					ok = false
				}
			}
			c.Check(ok && partners > 0, "election restarts one frame above the persisted last decided frame", "linear normaliser (helper bound to its arguments)", r.site.Inner().Pos(), "the constant frame the helper resets the election to is one above the LastDecidedFrame assigned on that path", "the election is restarted at a frame that is not last-decided + 1: frames would be skipped or decided twice")
			continue
		}
		// first as written: Reset(·, next) with LastDecidedFrame = next - 1, whatever `next` holds, is one
		// apart as long as nothing assigns the locals both sides mention between the two statements
		if ok {
			a := core.Linearize(f.Info(), resolveLocal(f, r.Arg), namer)
			direct, n := true, 0
			for i := range sets {
				s := &sets[i]
				if !(f.CanReach(s.Pt, r.Pt) || f.CanReach(r.Pt, s.Pt)) {
					continue
				}
				n++
				if s.RHS == nil {
					direct = false
					continue
				}
				b := core.Linearize(f.Info(), resolveLocal(f, s.RHS), namer)
				if !c08oneApart(a, b) {
					direct = false
					continue
				}
				for _, at := range a.Atom {
					if v := varOfRaw(f, at); v != nil {
						for _, as := range assignsToVar(f, v) {
							if f.CanReach(s.Pt, as.Pt) && f.CanReach(as.Pt, r.Pt) || f.CanReach(r.Pt, as.Pt) && f.CanReach(as.Pt, s.Pt) {
								direct = false
							}
						}
					} else if _, isC := f.ObjOf(at).(*types.Const); !isC {
						direct = false // a field read or a call: not compared by spelling
					}
				}
			}
			if direct && n > 0 {
				c.Pass("election restarts one frame above the persisted last decided frame", "linear normaliser", "Reset(·, x+1) is paired with LastDecidedFrame = x as written")
				continue
			}
		}
		if ok {
			for _, d := range c08reaching(f, r.Arg, r.Pt) {
				if d.E == nil {
					ok = false // the zero frame / an unknown value reaches the Reset
					continue
				}
				a := core.Linearize(f.Info(), resolveLocal(f, d.E), namer)
				sd := side(d.Pt)
				partners := 0
				for i := range sets {
					s := &sets[i]
					if !c08sameRun(f, d, s.Pt) || !(f.CanReach(s.Pt, r.Pt) || f.CanReach(r.Pt, s.Pt)) {
						continue
					}
					if ss := side(s.Pt); sd*ss < 0 {
						continue
					}
					partners++
					if len(a.Coef) == 1 && coefIs(a, "ldf", 1) && a.C.IsInt64() && a.C.Int64() == 1 {
						// Reset(·, state.LastDecidedFrame + 1): one above whatever was assigned, provided the
						// field of the same state object is read after the assignment, on every path
						rd, _ := fieldPath(f, a.Atom["ldf"])
						rs, _ := fieldPath(f, s.LHS)
						dom, _ := f.MustPassBefore(pointsOfAssign(sets), d.Pt)
						if !dom || !f.CanReach(s.Pt, d.Pt) || varOf(f, rd) == nil || varOf(f, rd) != varOf(f, rs) {
							ok = false
						}
						continue
					}
					if s.RHS == nil {
						ok = false
						continue
					}
					b := core.Linearize(f.Info(), resolveLocal(f, s.RHS), namer)
					if !c08oneApart(a, b) {
						ok = false
					}
				}
				if partners == 0 {
					ok = false
				}
				nPairs += partners
			}
		}
		c.Check(ok && nPairs > 0, "election restarts one frame above the persisted last decided frame", "linear normaliser (reaching definitions)", r.site.Outer().Pos(), "every frame that reaches Reset(·, x+1) is paired with LastDecidedFrame = x on the same path", "the election is restarted at a frame that is not last-decided + 1: frames would be skipped or decided twice")
	}
	// the state is persisted on every non-error path, after it was given a last decided frame, and the
	// election has been reset on that path
	persCalls := f.CallsTo("abft.Store.SetLastDecidedState")
	pers := core.Points(persCalls)
	okP := len(pers) >= 1
	okR := len(resets) >= 1
	for _, rp := range returnsWith(f, 1, func(e ast.Expr) bool { return core.IsNil(f.Info(), e) }) {
		if o, _ := f.MustPassBefore(pers, rp); !o {
			okP = false
		}
		if o, _ := c09mustPassSitesBefore(f, resetSites, rp); !o {
			okR = false
		}
	}
	c.Check(okP, "last decided frame is persisted on every successful path", "T2 Dominates", f.Pos(), "SetLastDecidedState dominates every nil-error return", "a decided frame can be left unpersisted")
	c.Check(okR, "election is restarted on every successful path", "T2 Dominates", f.Pos(), "an election Reset dominates every nil-error return", "a frame can be decided (and persisted) without restarting the election for the next frame: the running election keeps deciding the same frame while a restarted instance starts at last decided + 1")
	okA := true
	for _, pc := range persCalls {
		if o, _ := f.MustPassBefore(pointsOfAssign(sets), pc.Pt); !o {
			okA = false
		}
	}
	c.Check(okA, "the persisted state was given the new last decided frame", "T2 Dominates", f.Pos(), "an assignment of LastDecidedFrame dominates every SetLastDecidedState", "the decided state can be persisted with the previous last decided frame: the frame is decided again after a restart")
	// Bootstrap: election.New(validators, last decided + 1, ...)
	bs := c.Fn("abft.Orderer.Bootstrap")
	news := bs.CallsTo("abft/election.New")
	okN := len(news) == 1 && len(news[0].Call.Args) == 4
	if okN {
		l := core.Linearize(bs.Info(), resolveLocal(bs, news[0].Call.Args[1]), func(e ast.Expr) string {
			if isCallTo(bs, e, "abft.Store.GetLastDecidedFrame") != nil {
				return "last"
			}
			return ""
		})
		okN = len(l.Coef) == 1 && coefIs(l, "last", 1) && l.C.Int64() == 1
		okN = okN && isCallTo(bs, news[0].Call.Args[0], "abft.Store.GetValidators") != nil
	}
	c.Check(okN, "Bootstrap creates the election at last decided + 1 with the stored validators", "provenance", bs.Pos(), "election.New(store.GetValidators(), store.GetLastDecidedFrame()+1, ·, ·)", "a restarted election does not continue at the persisted frame / validators")
}
