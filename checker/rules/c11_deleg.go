package rules

import (
	"go/ast"
	"go/token"
	"go/types"

	"lachk/core"
)

// Delegation (shared by the who-may-write rule of C11/C12, the alias rule of C12 and the "private slice"
// check of the counter).
//
// A store `p.f[i] = x` in a function h, where p is a parameter or the receiver of h, is an effect of h's
// callers on whatever they pass as p. When h is a *delegate* - a declared, unexported function that is only
// ever called (never used as a function value), never in a go statement - the callers are known exactly
// (an unexported function cannot be called from outside its package), so the store is attributed to each
// caller, through the caller's operand: `cache.put(i, v)` in calcCaches with `c.weights[i] = ...` in put is
// calcCaches writing cache.weights. The attribution is transitive (bounded depth) as long as the operand is
// again reached through a parameter of a delegate. A store whose target is not reached through a parameter,
// and any store in a function that is not a delegate, stays attributed to the function that contains it.
// So extracting a helper from an owner keeps the owner the writer, while a helper that is also called by a
// non-owner, exported, or leaked as a function value makes the new writer visible.

type c11Site struct {
	from *core.FuncInfo
	cs   *core.CallSite
}

type c11Deleg struct {
	p       *core.Prog
	callers map[*core.FuncInfo][]c11Site
	refs    map[*types.Func]int
}

var c11DelegCache = map[*core.Prog]*c11Deleg{}

func c11DelegOf(p *core.Prog) *c11Deleg {
	if d, ok := c11DelegCache[p]; ok {
		return d
	}
	d := &c11Deleg{p: p, callers: map[*core.FuncInfo][]c11Site{}, refs: map[*types.Func]int{}}
	c11DelegCache[p] = d
	for _, f := range p.Funcs() {
		for _, cs := range f.Calls() {
			if fn, ok := cs.Callee.(*types.Func); ok && !cs.IsConv {
				if g := p.FuncOf(fn); g != nil {
					d.callers[g] = append(d.callers[g], c11Site{f, cs})
				}
			}
		}
	}
	// every mention of a function, anywhere in the module (package-level initialisers included)
	for _, pk := range p.All {
		for _, file := range pk.Syntax {
			ast.Inspect(file, func(n ast.Node) bool {
				if id, ok := n.(*ast.Ident); ok {
					if fn, ok := pk.TypesInfo.Uses[id].(*types.Func); ok {
						d.refs[fn.Origin()]++
					}
				}
				return true
			})
		}
	}
	return d
}

// isDelegate: see the file comment.
func (d *c11Deleg) isDelegate(h *core.FuncInfo) bool {
	if h == nil || h.Obj == nil || h.Obj.Exported() {
		return false
	}
	cs := d.callers[h]
	if len(cs) == 0 || d.refs[h.Obj.Origin()] != len(cs) {
		return false
	}
	for _, s := range cs {
		if s.cs.InGo {
			return false
		}
	}
	// a method that an interface of its package asks for can also be reached by dynamic dispatch
	if sig, _ := h.Obj.Type().(*types.Signature); sig != nil && sig.Recv() != nil && h.Obj.Pkg() != nil {
		rt := sig.Recv().Type()
		if _, isPtr := rt.(*types.Pointer); !isPtr {
			rt = types.NewPointer(rt)
		}
		sc := h.Obj.Pkg().Scope()
		for _, nm := range sc.Names() {
			tn, ok := sc.Lookup(nm).(*types.TypeName)
			if !ok {
				continue
			}
			iface, ok := tn.Type().Underlying().(*types.Interface)
			if !ok || !types.Implements(rt, iface) {
				continue
			}
			for i := 0; i < iface.NumMethods(); i++ {
				if iface.Method(i).Name() == h.Obj.Name() {
					return false
				}
			}
		}
	}
	return true
}

// c11Attr is one function to which an effect is attributed, with the fields crossed by the operands of
// the call chain (outermost first).
type c11Attr struct {
	F      *core.FuncInfo
	Prefix []string
}

// c11ParamPos: the position of v among h's receiver (-1) and parameters (0..), ok=false if v is neither or
// is reassigned / has its address taken in h (then it no longer stands for the caller's operand).
func c11ParamPos(h *core.FuncInfo, v *types.Var) (int, bool) {
	if v == nil {
		return 0, false
	}
	pos, found := 0, false
	if h.Recv() == v {
		pos, found = -1, true
	} else {
		for i := 0; i < c11NumParams(h); i++ {
			if h.Param(i) == v {
				pos, found = i, true
			}
		}
	}
	if !found {
		return 0, false
	}
	for _, g := range append([]*core.FuncInfo{h}, allLits(h)...) {
		if len(assignsToVar(g, v)) > 0 {
			return 0, false
		}
		addr := false
		g.InspectOwn(func(n ast.Node) bool {
			if u, ok := n.(*ast.UnaryExpr); ok && u.Op == token.AND && varOf(g, u.X) == v {
				addr = true
			}
			return true
		})
		if addr {
			return 0, false
		}
	}
	return pos, true
}

// attributed lists the functions to which an effect in h on memory reached through variable r is attributed.
func (d *c11Deleg) attributed(h *core.FuncInfo, r *types.Var, depth int) []c11Attr {
	self := []c11Attr{{F: h}}
	if depth <= 0 {
		return self
	}
	var sites []c11Site
	if h.Lit != nil {
		// a function literal that cannot run anywhere but inside the function that contains it (it is
		// invoked on the spot, or bound to a local that is only ever called) acts for that function:
		// through its own parameters on the operands of those calls, through captured variables directly
		var local bool
		sites, local = d.localLit(h)
		if !local {
			return self
		}
		if _, isParam := c11ParamPos(h, r); !isParam {
			return d.attributed(h.Parent, r, depth)
		}
	} else {
		if !d.isDelegate(h) {
			return self
		}
		sites = d.callers[h]
	}
	k, ok := c11ParamPos(h, r)
	if !ok {
		return self
	}
	var out []c11Attr
	seen := map[*core.FuncInfo]bool{}
	for _, s := range sites {
		var arg ast.Expr
		if k < 0 {
			arg = s.cs.Recv()
		} else if k < len(s.cs.Call.Args) && len(s.cs.Call.Args) == c11NumParams(h) {
			arg = s.cs.Call.Args[k]
		}
		if arg == nil {
			if !seen[s.from] {
				seen[s.from] = true
				out = append(out, c11Attr{F: s.from})
			}
			continue
		}
		e := ast.Unparen(arg)
		if u, isU := e.(*ast.UnaryExpr); isU && u.Op == token.AND {
			e = u.X
		}
		root, chain := c11Chain(s.from, e)
		for _, at := range d.attributed(s.from, varOf(s.from, root), depth-1) {
			out = append(out, c11Attr{F: at.F, Prefix: append(append([]string(nil), at.Prefix...), chain...)})
		}
	}
	if len(out) == 0 {
		return self
	}
	return out
}

// roots lists the functions on whose behalf a delegate runs (its transitive non-delegate callers); h itself
// when it is not a delegate.
func (d *c11Deleg) roots(h *core.FuncInfo, depth int) []*core.FuncInfo {
	if depth > 0 && h.Lit != nil {
		if _, local := d.localLit(h); local {
			return d.roots(h.Parent, depth)
		}
	}
	if depth <= 0 || !d.isDelegate(h) {
		return []*core.FuncInfo{h}
	}
	var out []*core.FuncInfo
	seen := map[*core.FuncInfo]bool{}
	for _, s := range d.callers[h] {
		for _, r := range d.roots(s.from, depth-1) {
			if !seen[r] {
				seen[r] = true
				out = append(out, r)
			}
		}
	}
	return out
}

const c11DelegDepth = 3

// c11NumParams counts the parameters of g (named or not).
func c11NumParams(g *core.FuncInfo) int {
	n := 0
	for _, fl := range g.Type.Params.List {
		if len(fl.Names) == 0 {
			n++
		} else {
			n += len(fl.Names)
		}
	}
	return n
}

// localLit: the literal h runs only as a part of the function that contains it: it is the operand of a
// call (not of a go statement), or the single definition of a local variable that is never reassigned and
// whose every other mention is a call of it (not in a go statement). Returns its call sites.
func (d *c11Deleg) localLit(h *core.FuncInfo) ([]c11Site, bool) {
	if h == nil || h.Lit == nil || h.Parent == nil {
		return nil, false
	}
	par := h.Parent
	// invoked on the spot
	for _, cs := range par.Calls() {
		if ast.Unparen(cs.Call.Fun) == ast.Expr(h.Lit) {
			if cs.InGo {
				return nil, false
			}
			return []c11Site{{par, cs}}, true
		}
	}
	// bound to a local
	var v *types.Var
	for _, a := range assignments(par) {
		if a.RHS != nil && ast.Unparen(a.RHS) == ast.Expr(h.Lit) {
			if a.Tok != token.DEFINE {
				return nil, false
			}
			v = varOf(par, a.LHS)
		}
	}
	if v == nil || v.IsField() {
		return nil, false
	}
	top := par
	for top.Parent != nil {
		top = top.Parent
	}
	var sites []c11Site
	calls := map[*ast.Ident]bool{}
	for _, g := range append([]*core.FuncInfo{top}, allLits(top)...) {
		if len(assignsToVar(g, v)) > 0 && g != par {
			return nil, false
		}
		if g == par && len(assignsToVar(g, v)) != 1 {
			return nil, false
		}
		for _, cs := range g.Calls() {
			if id, ok := ast.Unparen(cs.Call.Fun).(*ast.Ident); ok && g.Info().Uses[id] == types.Object(v) {
				if cs.InGo {
					return nil, false
				}
				calls[id] = true
				sites = append(sites, c11Site{g, cs})
			}
		}
	}
	ok := true
	top.InspectAll(func(n ast.Node) bool {
		if id, isID := n.(*ast.Ident); isID && top.Info().Uses[id] == types.Object(v) && !calls[id] {
			ok = false
		}
		return ok
	})
	if !ok || len(sites) == 0 {
		return nil, false
	}
	return sites, true
}

// c11DeadLit: the literal l (nested in top) is bound to a local variable whose only remaining mentions are
// the keep-alive statements `_ = w` of an inlined view: all its calls have been looked through, so its body
// runs nowhere in this function.
func c11DeadLit(top, l *core.FuncInfo) bool {
	if l == nil || l.Lit == nil || l.Parent == nil {
		return false
	}
	var w *types.Var
	for _, a := range assignments(l.Parent) {
		if a.RHS != nil && ast.Unparen(a.RHS) == ast.Expr(l.Lit) && a.Tok == token.DEFINE {
			w = varOf(l.Parent, a.LHS)
		}
	}
	if w == nil {
		return false
	}
	keep := map[*ast.Ident]bool{}
	for _, g := range append([]*core.FuncInfo{top}, allLits(top)...) {
		for _, a := range assignments(g) {
			if l, isID := ast.Unparen(a.LHS).(*ast.Ident); isID && l.Name == "_" && a.Tok == token.ASSIGN && a.RHS != nil {
				if r, isID := ast.Unparen(a.RHS).(*ast.Ident); isID {
					keep[r] = true
				}
			}
		}
	}
	dead := true
	top.InspectAll(func(n ast.Node) bool {
		if id, ok := n.(*ast.Ident); ok && top.Info().Uses[id] == types.Object(w) && !keep[id] {
			dead = false
		}
		return dead
	})
	return dead
}

// c11LitEffect: some function literal of f whose body can still run (not c11DeadLit) stores through one of
// the watched fields, or stores through / rebinds / mentions (when mention is set) one of the watched
// variables. The intraprocedural clauses read the own body of a function (of its inlined view, in which the
// calls of local closures have been looked through); what a remaining literal does is outside their sight
// and must not be taken for absent.
func c11LitEffect(f *core.FuncInfo, fields map[string]bool, vars map[*types.Var]bool, mention bool) (token.Pos, bool) {
	for _, l := range allLits(f) {
		if c11DeadLit(f, l) {
			continue
		}
		for _, st := range c11Stores(l) {
			root, chain := c11Chain(l, st.Target)
			for _, fld := range chain {
				if fields[fld] {
					return st.Pos, true
				}
			}
			if v := varOf(l, root); v != nil && vars[v] {
				return st.Pos, true
			}
		}
		if mention {
			pos, hit := token.NoPos, false
			l.InspectOwn(func(n ast.Node) bool {
				if id, ok := n.(*ast.Ident); ok {
					if v, _ := l.Info().Uses[id].(*types.Var); v != nil && vars[v] {
						pos, hit = id.Pos(), true
					}
				}
				return !hit
			})
			if hit {
				return pos, true
			}
		}
	}
	return token.NoPos, false
}
