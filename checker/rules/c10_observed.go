package rules

// C10 — observedRoots / observedRootsMap: "the roots of the frame that observe(root, ·) accepts".
// The loop may be written in the function itself (range or counted) or live in a higher-order helper
// of the election ("for each observed root call fn") to which the function passes the recording closure.

import (
	"go/ast"
	"go/types"

	"golang.org/x/tools/go/cfg"

	"lachk/core"
)

// c10Sink finds, in fn's own body, the statements that record a root into a collection: m[k] = v on a
// map, or s = append(s, v). ok says that each of them records the current element (isElem) — a map
// store under the element's own validator — and that they all feed one collection variable.
func c10Sink(fn *core.FuncInfo, isElem func(ast.Expr) bool, isElemPath func(ast.Expr, []string) bool) (pts []core.Point, res *types.Var, ok bool) {
	ok = true
	note := func(v *types.Var) {
		if v == nil || (res != nil && res != v) {
			ok = false
		}
		res = v
	}
	for _, a := range assignments(fn) {
		if ix, isIx := ast.Unparen(a.LHS).(*ast.IndexExpr); isIx {
			if _, isMap := fn.Info().Types[ix.X].Type.Underlying().(*types.Map); isMap {
				pts = append(pts, a.Pt)
				note(varOf(fn, ix.X))
				if !isElemPath(ix.Index, []string{c10SlotF, c10SlotVal}) || !isElem(a.RHS) {
					ok = false
				}
			}
		} else if call := isCallTo(fn, a.RHS, "builtin.append"); call != nil {
			pts = append(pts, a.Pt)
			note(varOf(fn, a.LHS))
			if len(call.Args) != 2 || varOf(fn, call.Args[0]) != res || !isElem(call.Args[1]) {
				ok = false
			}
		}
	}
	return pts, res, ok && res != nil
}

// c10ObservedLoop decides, for function g with the observing root held in rootV and the frame in
// frameV: g iterates over all of getFrameRoots(frameV), and the points emit(it) yields (exactly one)
// are reached exactly for the elements with observe(rootV, element.ID): guarded by that edge in every
// iteration, and not avoidable once the edge was taken.
func c10ObservedLoop(g *core.FuncInfo, rootV, frameV *types.Var, emit func(it *core.Iteration) ([]core.Point, bool)) (bool, string) {
	var it *core.Iteration
	g.InspectOwn(func(n ast.Node) bool {
		switch n.(type) {
		case *ast.RangeStmt, *ast.ForStmt:
			if cand := c10Iter(g, n.(ast.Stmt)); cand != nil && cand.Coll != nil && isCallTo(g, cand.Coll, c10El+".getFrameRoots") != nil && it == nil {
				it = cand
			}
		}
		return true
	})
	if it == nil {
		return false, "no iteration over getFrameRoots(frame) in " + short(g.Name)
	}
	call := isCallTo(g, it.Coll, c10El+".getFrameRoots")
	if len(call.Args) != 1 || frameV == nil || varOf(g, c15Through(g, call.Args[0])) != frameV {
		return false, "the roots iterated are not those of the frame asked for"
	}
	if !c10Forward(it) {
		return false, "the loop does not cover all the roots of the frame"
	}
	observes := c15BoolFact(true, func(e ast.Expr) bool {
		oc := isCallTo(g, e, c10El+".observe")
		return oc != nil && len(oc.Args) == 2 && rootV != nil && varOf(g, c15Through(g, oc.Args[0])) == rootV && c10ElemPath(g, it, oc.Args[1], []string{c10IDF})
	})
	pts, okShape := emit(it)
	if len(pts) != 1 || !okShape {
		return false, "there is not exactly one place that records the visited root itself"
	}
	if gd, _ := g.GuardedBy(pts[0], observes); !gd {
		return false, "a root can be recorded without observe(root, frameRoot.ID) having held"
	}
	if gd, _ := g.GuardedBetween(pts[0], pts[0], observes); !gd {
		return false, "a root can be recorded without observe(root, frameRoot.ID) having held for it (only for an earlier one)"
	}
	edges := edgesWithFact(g, observes)
	if len(edges) == 0 {
		return false, "observe(root, frameRoot.ID) is never tested"
	}
	for _, e := range edges {
		if _, skip := (core.PathQuery{F: g, From: blockEntry(e.B.Succs[e.Succ]), Avoid: core.PointSet(pts...), TargetExit: true,
			TargetBlock: func(b *cfg.Block) bool { return b == it.Head }}).Find(); skip {
			return false, "an observed root can be left unrecorded"
		}
	}
	return true, ""
}

// c10CheckObserved checks observedRootsMap / observedRoots: the collection returned holds exactly the
// roots fr of getFrameRoots(frame) for which observe(root, fr.ID) is true (the map keyed by fr's validator).
func c10CheckObserved(c *core.Ctx, f *core.FuncInfo, name string) {
	root, frame := f.Param(0), f.Param(1)
	c.Need(root != nil && frame != nil, name+"(root, frame)")
	ok, why := false, ""
	var res *types.Var
	// (a) the loop is in the function itself
	direct := false
	f.InspectOwn(func(n ast.Node) bool {
		switch n.(type) {
		case *ast.RangeStmt, *ast.ForStmt:
			direct = true
		}
		return true
	})
	if direct {
		ok, why = c10ObservedLoop(f, root, frame, func(it *core.Iteration) ([]core.Point, bool) {
			pts, r, okS := c10Sink(f, func(e ast.Expr) bool { return c10IsElem(f, it, e) }, func(e ast.Expr, p []string) bool { return c10ElemPath(f, it, e, p) })
			res = r
			return pts, okS
		})
	} else {
		// (b) the function hands a recording closure to a helper of the election that does the visiting
		why = "neither a loop over getFrameRoots(frame) nor a helper of the election visiting the observed roots"
		for _, cs := range f.Calls() {
			h := c10ModuleCallee(cs)
			if h == nil || h == f || core.RelPkg(h.Pkg.PkgPath) != c10Pkg || !c10SameReceiver(f, cs, h) {
				continue
			}
			var lit *core.FuncInfo
			var cb, hRoot, hFrame *types.Var
			for i := range cs.Call.Args {
				if l := litArg(f, cs.Call, i); l != nil && lit == nil {
					lit, cb = l, h.Param(i)
				}
				switch varOf(f, c15Through(f, cs.Call.Args[i])) {
				case root:
					hRoot = h.Param(i)
				case frame:
					hFrame = h.Param(i)
				}
			}
			if lit == nil || cb == nil {
				continue
			}
			if hRoot == nil || hFrame == nil || len(c15DefsOf(h, hRoot)) != 0 || len(c15DefsOf(h, hFrame)) != 0 || len(c15DefsOf(h, cb)) != 0 {
				ok, why = false, short(h.Name)+" is not given this function's own root and frame"
				break
			}
			ok, why = c10ObservedLoop(h, hRoot, hFrame, func(it *core.Iteration) ([]core.Point, bool) {
				var pts []core.Point
				okE := true
				for _, hc := range h.Calls() {
					if hc.Callee == types.Object(cb) {
						pts = append(pts, hc.Pt)
						if len(hc.Call.Args) != 1 || !c10IsElem(h, it, hc.Call.Args[0]) || hc.InGo || hc.InDefer {
							okE = false
						}
					}
				}
				return pts, okE
			})
			if !ok {
				break
			}
			// the closure records its argument, on every path, and the helper runs on every path of f
			arg := lit.Param(0)
			pts, r, okS := c10Sink(lit, func(e ast.Expr) bool { return arg != nil && varOf(lit, c15Through(lit, e)) == arg },
				func(e ast.Expr, p []string) bool { return c15SamePath(lit, c15Through(lit, e), arg, p) })
			res = r
			switch {
			case len(pts) != 1 || !okS:
				ok, why = false, "the closure given to "+short(h.Name)+" does not record exactly the root it is called with"
			case !c10OnEveryPath(lit, pts[0]):
				ok, why = false, "the closure given to "+short(h.Name)+" can return without recording the root"
			case !c10OnEveryPath(f, cs.Pt):
				ok, why = false, short(h.Name)+" is not called on every path"
			}
			break
		}
	}
	if ok {
		for _, rp := range f.ReturnPoints() {
			r := rp.Node().(*ast.ReturnStmt)
			if len(r.Results) != 1 || varOf(f, r.Results[0]) != res {
				ok, why = false, "the collection returned is not the one the roots were recorded in"
			}
		}
	}
	if why != "" {
		why = " [" + why + "]"
	}
	c.Check(ok, name+" = roots of the frame that observe(root, ·) accepts", "T8 DecisionTable", f.Pos(),
		"visits all of getFrameRoots(frame) and records a root (under its own validator) exactly on the observe(root, frameRoot.ID) edge",
		name+" does not return exactly the frame's roots for which observe(root, frameRoot.ID) holds: yes-votes and voter sets are computed from other roots"+why)
}
