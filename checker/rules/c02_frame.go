package rules

import (
	"go/ast"
	"go/types"
	"strings"

	"lachk/core"
)

// Generic helpers written for C02 (round 3; candidates for promotion to core/helpers):
//
//	c02ValuesAt     the expressions whose value an operand can have at a point: the operand itself
//	                (single-definition locals looked through) or, for a local with several definitions
//	                (`next = a` in one branch, `next = b` in the other), the right-hand sides of the
//	                definitions that reach the point
//	c02OnOnePath    a set of points lies on one control-flow path (pairwise ordered by reachability)
//	c02FieldCalls   the calls of a function-valued field, made on the field itself or on a local that
//	                holds it (`if cb := p.callback.X; cb != nil { cb(…) }`)

// c02Val is one value an operand can have at a point.
type c02Val struct {
	Expr ast.Expr   // nil: not known (zero-value declaration, multi-value definition, inc/dec)
	Def  core.Point // the definition supplying it (invalid when the operand is read in place)
}

func c02ValuesAt(f *core.FuncInfo, e ast.Expr, at core.Point) []c02Val {
	r := resolveLocal(f, e)
	v := varOf(f, r)
	if v == nil {
		return []c02Val{{Expr: r}}
	}
	defs := assignsToVar(f, v)
	if len(defs) == 0 {
		return []c02Val{{Expr: r}} // a parameter, a captured variable
	}
	var out []c02Val
	for i, d := range defs {
		if !d.Pt.Valid() {
			out = append(out, c02Val{})
			continue
		}
		var others []core.Point
		for j, o := range defs {
			if j != i && o.Pt.Valid() && o.Pt != d.Pt {
				others = append(others, o.Pt)
			}
		}
		if _, found := (core.PathQuery{F: f, From: d.Pt, FromAfter: true, Target: core.PointSet(at), Avoid: core.PointSet(others...)}).Find(); !found {
			continue
		}
		val := c02Val{Def: d.Pt}
		if as, isAs := d.Stmt.(*ast.AssignStmt); d.RHS != nil && (!isAs || len(as.Lhs) == len(as.Rhs)) {
			val.Expr = d.RHS
		}
		if _, isSpec := d.Stmt.(*ast.ValueSpec); isSpec && d.RHS != nil {
			val.Expr = d.RHS
		}
		out = append(out, val)
	}
	return out
}

// c02OnOnePath: the (valid) points are pairwise ordered by reachability; in a loop-free function such a
// set lies on one path.
func c02OnOnePath(f *core.FuncInfo, pts ...core.Point) bool {
	for i, a := range pts {
		if !a.Valid() {
			continue
		}
		for _, b := range pts[i+1:] {
			if !b.Valid() || a == b {
				continue
			}
			if !f.CanReach(a, b) && !f.CanReach(b, a) {
				return false
			}
		}
	}
	return true
}

// c02FieldCalls: call sites of f whose callee is the function-valued field, read in place or through a
// single-definition local.
func c02FieldCalls(f *core.FuncInfo, field string) []*core.CallSite {
	return f.CallsMatching(func(cs *core.CallSite) bool {
		if cs.Name == field {
			return true
		}
		if _, isVar := cs.Callee.(*types.Var); !isVar {
			return false
		}
		return fieldNameOf(f, cs.Call.Fun) == field
	})
}

// c02DecideView: the inlined view of Orderer.onFrameDecided; the methods of Store are anchors and stay calls.
func c02DecideView(c *core.Ctx) *core.FuncInfo {
	f := c.Fn("abft.Orderer.onFrameDecided")
	var keep []string
	for _, g := range c.P.FuncsInPkg("abft") {
		if strings.HasPrefix(g.Name, "abft.Store.") {
			keep = append(keep, g.Name)
		}
	}
	return c01View(f, keep...)
}

// c02MustPassBefore: every path from the entry to `to` passes one of `via`; values of plain locals
// (errors handed on by folded-in helpers) are followed.
func c02MustPassBefore(f *core.FuncInfo, via []core.Point, to core.Point) (bool, []core.Point) {
	if core.PointSet(via...)(f.Entry()) {
		return true, nil
	}
	path, found := c01EnvQuery{F: f, From: f.Entry(), Target: core.PointSet(to), Avoid: core.PointSet(via...)}.Find()
	return !found, path
}

// frameBookkeeping is shared by C02, C08 and C09. It is stated per path, not per branch: however many
// Reset calls and LastDecidedFrame assignments onFrameDecided has (one per branch, or one Reset fed by
// locals that the branches set), on every path the frame the election restarts at is one above the
// frame persisted as last decided.
func frameBookkeeping(c *core.Ctx) {
	// decided on the inlined view of onFrameDecided in which the store's own methods stay calls: the
	// restart of the election and the epoch switch may live in helpers (sealEpoch, a common "start epoch"
	// routine shared with Reset); error results that such a helper hands on are followed by value
	// (c01EnvQuery), so that `if err := helper(); err != nil { return true, err }` is not read as a way
	// round the restart
	f := c02DecideView(c)
	frame := f.Param(0)
	ldfF := "abft.LastDecidedState.LastDecidedFrame"
	namer := func(e ast.Expr) string {
		if v := varOf(f, e); v != nil && canonVar(f, v) == frame {
			return "frame"
		}
		return ""
	}
	resets := f.CallsTo("abft/election.Election.Reset")
	c.ExpectAtLeast("election resets in onFrameDecided", len(resets), 1)
	sets := assignsToField(f, ldfF)
	c.Need(len(sets) >= 1, "onFrameDecided assigns LastDecidedFrame")
	setPts := pointsOfAssign(sets)
	for _, r := range resets {
		ok := len(r.Call.Args) == 2
		why := ""
		nPairs := 0
		if ok {
			for _, rv := range c02ValuesAt(f, r.Call.Args[1], r.Pt) {
				for _, s := range sets {
					if s.RHS == nil {
						ok, why = false, "LastDecidedFrame is not assigned a single value"
						continue
					}
					for _, sv := range c02ValuesAt(f, s.RHS, s.Pt) {
						if !c02OnOnePath(f, rv.Def, sv.Def, s.Pt, r.Pt) {
							continue // these two values never meet on a path
						}
						nPairs++
						if rv.Expr == nil || sv.Expr == nil {
							ok, why = false, "the frame passed to Reset or the frame persisted is not a single known expression on some path"
							continue
						}
						a := core.Linearize(f.Info(), resolveLocal(f, rv.Expr), namer)
						b := core.Linearize(f.Info(), resolveLocal(f, sv.Expr), namer)
						// a - b == 1 (constants folded: FirstFrame and FirstFrame-1, however named)
						diffOK := a.C.IsInt64() && b.C.IsInt64() && a.C.Int64()-b.C.Int64() == 1 && len(a.Coef) == len(b.Coef)
						for k, v := range a.Coef {
							if w, has := b.Coef[k]; !has || v.Cmp(w) != 0 {
								diffOK = false
							}
						}
						if !diffOK {
							ok, why = false, "Reset(·, "+a.String()+") meets LastDecidedFrame = "+b.String()
						}
					}
				}
			}
		}
		// no path reaches the restart (and leaves) without the frame having been recorded
		if before, _ := c02MustPassBefore(f, setPts, r.Pt); !before {
			if after, _ := f.MustPassAfter(r.Pt, setPts); !after {
				ok, why = false, "a path restarts the election without assigning LastDecidedFrame"
			}
		}
		if nPairs == 0 && why == "" {
			why = "no LastDecidedFrame assignment shares a path with the Reset"
		}
		if why != "" {
			why = " (" + why + ")"
		}
		c.Check(ok && nPairs > 0, "election restarts one frame above the persisted last decided frame", "linear normaliser (per path, reaching definitions)", r.Pos(), "on every path Reset(·, x+1) meets LastDecidedFrame = x", "the election is restarted at a frame that is not last-decided + 1: frames would be skipped or decided twice"+why)
	}
	// every successful path records the frame and restarts the election
	okE := len(resets) >= 1
	for _, rp := range returnsWith(f, 1, func(e ast.Expr) bool { return core.IsNil(f.Info(), e) }) {
		if o, _ := c02MustPassBefore(f, core.Points(resets), rp); !o {
			okE = false
		}
		if o, _ := c02MustPassBefore(f, setPts, rp); !o {
			okE = false
		}
	}
	c.Check(okE, "every decided frame advances the last decided frame and restarts the election", "T2 Dominates", f.Pos(), "a LastDecidedFrame assignment and an election Reset dominate every nil-error return", "a frame can be decided without advancing LastDecidedFrame or without restarting the election: the same frame is decided again or the next one is never started")
	// the state is persisted on every non-error path
	pers := core.Points(f.CallsTo("abft.Store.SetLastDecidedState"))
	okP := len(pers) >= 1
	for _, rp := range returnsWith(f, 1, func(e ast.Expr) bool { return core.IsNil(f.Info(), e) }) {
		if o, _ := c02MustPassBefore(f, pers, rp); !o {
			okP = false
		}
	}
	c.Check(okP, "last decided frame is persisted on every successful path", "T2 Dominates", f.Pos(), "SetLastDecidedState dominates every nil-error return", "a decided frame can be left unpersisted")
	// Bootstrap: election.New(validators, last decided + 1, ...)
	bs := c.Fn("abft.Orderer.Bootstrap")
	news := bs.CallsTo("abft/election.New")
	okN := len(news) == 1 && len(news[0].Call.Args) == 4
	if okN {
		l := core.Linearize(bs.Info(), resolveLocal(bs, news[0].Call.Args[1]), func(e ast.Expr) string {
			if isCallTo(bs, e, "abft.Store.GetLastDecidedFrame") != nil {
				return "last"
			}
			return ""
		})
		okN = len(l.Coef) == 1 && coefIs(l, "last", 1) && l.C.Int64() == 1
		okN = okN && isCallTo(bs, news[0].Call.Args[0], "abft.Store.GetValidators") != nil
	}
	c.Check(okN, "Bootstrap creates the election at last decided + 1 with the stored validators", "provenance", bs.Pos(), "election.New(store.GetValidators(), store.GetLastDecidedFrame()+1, ·, ·)", "a restarted election does not continue at the persisted frame / validators")
}
