package rules

import (
	"go/ast"
	"go/types"

	"lachk/core"
)

// c26VerifyScope: verification has to look at the records of every database the node can open,
// including database types the current routing table no longer refers to — those are exactly the
// databases whose recorded requests have moved.
func c26VerifyScope(c *core.Ctx) {
	c.Clause("C26.verify.scope", func() {
		gr := c.Fn(mdP + "Producer.getRecords")
		resolve := func(e ast.Expr) ast.Expr { return resolveLocal(gr, e) }
		// the loops around the place where a database's records are read (directly or in a helper),
		// outermost first: over the producers, then over the names of one producer
		reads := gr.SitesMay(func(cs *core.CallSite) bool { return cs.Name == mdP+"ReadTablesList" }, 2)
		c.Need(len(reads) > 0, "getRecords reads the recorded requests (ReadTablesList)")
		var around []ast.Stmt
		for _, lp := range c26Loops(gr) {
			if p := posOf(reads[0]); lp.Pos() <= p && p < lp.End() {
				around = append(around, lp)
			}
		}
		c.Need(len(around) >= 1, "getRecords ranges over the producers")
		outer, isOuter := core.IterationOf(gr, around[0], resolve)
		c.Need(isOuter && outer.Coll != nil, "getRecords ranges over the producers")
		c.Check(fieldNameOf(gr, outer.Coll) == mdP+"Producer.allProducers", "records are collected from every producer", "T8 coverage", outer.Stmt.Pos(),
			"getRecords ranges over allProducers (all database types given to NewProducer)",
			"verification collects records only from "+exprStr(outer.Coll)+": requests recorded in databases of a type the routing table no longer uses are never checked, so Verify accepts although a request moved")
		// every database of each producer is read, and its records are filed under (type, name)
		var inner *core.Iteration
		okInner := false
		if len(around) >= 2 {
			if in, isIn := core.IterationOf(gr, around[1], resolve); isIn && in.Coll != nil {
				inner = in
				if call, ok := ast.Unparen(in.Coll).(*ast.CallExpr); ok && methodNamed(calleeName(gr, call), "Names") {
					if sel, k := ast.Unparen(call.Fun).(*ast.SelectorExpr); k && outer.IsElem(sel.X, resolve) {
						okInner = true
					}
				}
			}
		}
		c.Check(okInner, "every database of a producer is read", "T8 coverage", gr.Pos(), "ranges over producer.Names()", "not every database of a producer is inspected")
		c.Check(c26FullIteration(outer) && (inner == nil || c26FullIteration(inner)), "record collection loops are complete", "T2 (loop)", gr.Pos(), "left only by returning an error or when exhausted", "record collection can stop early without an error")
		// constructor: allProducers is the producers argument, not a filtered map
		np := c.Fn(mdP + "NewProducer")
		okAll, nDef := false, 0
		isArg := func(e ast.Expr) bool { return e != nil && varOf(np, resolveLocal(np, e)) == np.Param(0) }
		np.InspectOwn(func(n ast.Node) bool {
			kv, ok := n.(*ast.KeyValueExpr)
			if !ok {
				return true
			}
			if id, k := kv.Key.(*ast.Ident); k {
				if v, k2 := np.Info().ObjectOf(id).(*types.Var); k2 && c.P.FieldName(v) == mdP+"Producer.allProducers" {
					nDef++
					okAll = isArg(kv.Value)
				}
			}
			return true
		})
		for _, a := range assignsToField(np, mdP+"Producer.allProducers") {
			nDef++
			okAll = isArg(a.RHS)
		}
		c.Check(okAll && nDef == 1, "allProducers is the constructor's producers argument", "provenance", np.Pos(), "allProducers: producers", "allProducers does not hold every database type given to NewProducer")
		// Verify = getRecords then verifyRecords on its result
		vf := c.Fn(mdP + "Producer.Verify")
		g := vf.CallsTo(mdP + "Producer.getRecords")
		v := vf.CallsTo(mdP + "Producer.verifyRecords")
		ok := len(g) == 1 && len(v) == 1 && afterSuccess(vf, g[0], v[0].Pt)
		if ok {
			var rv *types.Var
			vf.InspectOwn(func(n ast.Node) bool {
				if as, k := n.(*ast.AssignStmt); k && len(as.Rhs) == 1 && ast.Unparen(as.Rhs[0]) == ast.Expr(g[0].Call) {
					rv = varOf(vf, as.Lhs[0])
				}
				return true
			})
			ok = rv != nil && varOf(vf, v[0].Call.Args[0]) == rv
		}
		c.Check(ok, "Verify checks the collected records", "provenance", vf.Pos(), "verifyRecords(getRecords())", "Verify does not check what getRecords collected")
	})
}
