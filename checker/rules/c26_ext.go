package rules

import (
	"fmt"
	"go/ast"
	"go/token"
	"go/types"
	"sort"
	"strings"

	"lachk/core"
)

var _ = fmt.Sprint
var _ ast.Node
var _ token.Pos
var _ types.Object
var _ = sort.Strings
var _ = strings.TrimSpace

// c26VerifyScope: verification has to look at the records of every database the node can open,
// including database types the current routing table no longer refers to — those are exactly the
// databases whose recorded requests have moved.
func c26VerifyScope(c *core.Ctx) {
	c.Clause("C26.verify.scope", func() {
		gr := c.Fn(mdP + "Producer.getRecords")
		var outer *ast.RangeStmt
		gr.InspectOwn(func(n ast.Node) bool {
			if rs, ok := n.(*ast.RangeStmt); ok && outer == nil {
				outer = rs
			}
			return true
		})
		c.Need(outer != nil, "getRecords ranges over the producers")
		c.Check(fieldNameOf(gr, outer.X) == mdP+"Producer.allProducers", "records are collected from every producer", "T8 coverage", outer.Pos(),
			"getRecords ranges over allProducers (all database types given to NewProducer)",
			"verification collects records only from "+exprStr(outer.X)+": requests recorded in databases of a type the routing table no longer uses are never checked, so Verify accepts although a request moved")
		// every database of each producer is read, and its records are filed under (type, name)
		var inner *ast.RangeStmt
		ast.Inspect(outer.Body, func(n ast.Node) bool {
			if rs, ok := n.(*ast.RangeStmt); ok && inner == nil {
				inner = rs
			}
			return true
		})
		okInner := false
		if inner != nil {
			if call, ok := ast.Unparen(inner.X).(*ast.CallExpr); ok && methodNamed(calleeName(gr, call), "Names") {
				if sel, k := call.Fun.(*ast.SelectorExpr); k && varOf(gr, sel.X) == varOf(gr, outer.Value) {
					okInner = true
				}
			}
		}
		c.Check(okInner, "every database of a producer is read", "T8 coverage", gr.Pos(), "ranges over producer.Names()", "not every database of a producer is inspected")
		_, c1 := loopDone(gr, outer)
		c2 := true
		if inner != nil {
			_, c2 = loopDone(gr, inner)
		}
		c.Check(c1 && c2, "record collection loops are complete", "T2 (loop)", gr.Pos(), "left only by returning an error or when exhausted", "record collection can stop early without an error")
		// constructor: allProducers is the producers argument, not a filtered map
		np := c.Fn(mdP + "NewProducer")
		okAll := false
		np.InspectOwn(func(n ast.Node) bool {
			kv, ok := n.(*ast.KeyValueExpr)
			if !ok {
				return true
			}
			if id, k := kv.Key.(*ast.Ident); k {
				if v, k2 := np.Info().ObjectOf(id).(*types.Var); k2 && c.P.FieldName(v) == mdP+"Producer.allProducers" {
					okAll = varOf(np, kv.Value) == np.Param(0)
				}
			}
			return true
		})
		c.Check(okAll, "allProducers is the constructor's producers argument", "provenance", np.Pos(), "allProducers: producers", "allProducers does not hold every database type given to NewProducer")
		// Verify = getRecords then verifyRecords on its result
		vf := c.Fn(mdP + "Producer.Verify")
		g := vf.CallsTo(mdP + "Producer.getRecords")
		v := vf.CallsTo(mdP + "Producer.verifyRecords")
		ok := len(g) == 1 && len(v) == 1 && afterSuccess(vf, g[0], v[0].Pt)
		if ok {
			var rv *types.Var
			vf.InspectOwn(func(n ast.Node) bool {
				if as, k := n.(*ast.AssignStmt); k && len(as.Rhs) == 1 && ast.Unparen(as.Rhs[0]) == ast.Expr(g[0].Call) {
					rv = varOf(vf, as.Lhs[0])
				}
				return true
			})
			ok = rv != nil && varOf(vf, v[0].Call.Args[0]) == rv
		}
		c.Check(ok, "Verify checks the collected records", "provenance", vf.Pos(), "verifyRecords(getRecords())", "Verify does not check what getRecords collected")
	})
}
