package rules

import (
	"go/ast"
	"go/token"
	"go/types"

	"lachk/core"
)

const (
	blT    = "gossip/basestream/basestreamleecher.BaseLeecher"
	blCB   = "gossip/basestream/basestreamleecher.Callbacks."
	blPkg  = "gossip/basestream/basestreamleecher"
	plT    = "gossip/basestream/basestreamleecher/basepeerleecher.BasePeerLeecher"
	plP    = "gossip/basestream/basestreamleecher/basepeerleecher."
	plPkg  = "gossip/basestream/basestreamleecher/basepeerleecher"
	plCB   = plP + "EpochDownloaderCallbacks."
	plCfgP = plP + "EpochDownloaderConfig.ParallelChunksDownload"
)

func init() {
	register("C18", "other", "T4 GuardedBy (normalised window test, through the call chains), T2 Dominates (peer removed before a session can start), T1 LockSet, T17 (close once)",
		"Decides the flow-control and peer-removal shape: every RequestChunks call of the peer leecher is reached — on every call chain from an entry of the package — only on the not-suspended edge, only on the Done()==false edge, and only when requested < processed + parallelism, after which requested equals processed + parallelism and exactly the difference is requested; processed chunks are counted once, on the IsProcessed edge (the test may sit in a side-effect-free helper that returns the deficit, the count may be made by a helper that gets the callback), and every run that advances the processed counter also replaces the processing list. Every StartSession call of the base leecher is reached only when not terminated, no session is ongoing and candidates exist; in UnregisterPeer the peer is removed from the peer set before anything that can start a new session runs; Terminate sets the terminated flag before terminating the session; the exported methods hold the mutex (Routine is lock-required: checked at its call sites); the peer leecher closes its quit channel at most once under its mutex. What the application's session callbacks do is not decided.",
		[]string{"session callbacks (StartSession, SelectSessionPeerCandidates, ...) are opaque and may read the Peers set", "Routine() is called by embedding leechers only with Mu held (documented convention)"},
		runC18)
}

// c18CallSites lists, per frame of the scope, the direct calls of the named callees.
func c18CallSites(names ...string) func(*c17Frame) []core.Point {
	return func(fr *c17Frame) []core.Point {
		var out []core.Point
		for _, cs := range fr.Calls() {
			for _, n := range names {
				if cs.Name == n {
					out = append(out, cs.Pt)
				}
			}
		}
		return out
	}
}

// c18CallFact: the fact says that a call of the named callback returned the given truth value.
func c18CallFact(name string, truth bool) func(*core.FuncInfo) func(core.Fact) bool {
	return func(g *core.FuncInfo) func(core.Fact) bool {
		return func(ft core.Fact) bool {
			e, t, ok := c17BoolFact(g.Info(), ft)
			return ok && t == truth && isCallTo(g, e, name) != nil
		}
	}
}

func runC18(c *core.Ctx) {
	p := c.P

	c.Clause("C18.window", func() {
		c.Fn(plT + ".Terminate") // anchor: the package is loaded
		sc := c17PkgScope(p, plPkg)
		namerOf := func(g *core.FuncInfo) core.AtomNamer {
			return func(e ast.Expr) string {
				switch fieldNameOf(g, e) {
				case plT + ".totalRequested":
					return "requested"
				case plT + ".totalProcessed":
					return "processed"
				case plCfgP:
					return "P"
				}
				return ""
			}
		}
		want := core.ParseLinCmp("requested - processed - P + 1 <= 0")
		amount := map[string]int64{"processed": 1, "P": 1, "requested": -1}
		// locals holding parts of the comparison (target := processed + P) are looked through while current
		belowDirect := func(g *core.FuncInfo) func(core.Fact) bool {
			return func(ft core.Fact) bool {
				lc, k := c18NormLinCmp(g, ft, namerOf(g))
				return k && lc.Equal(want)
			}
		}
		// the comparison may be made inside a side-effect-free helper that returns the deficit (0 when
		// the window is full): `n != 0` / `n > 0` about its current result then states the same
		below := func(g *core.FuncInfo) func(core.Fact) bool {
			direct := belowDirect(g)
			return func(ft core.Fact) bool {
				return direct(ft) || c18ResultImplies(g, ft, belowDirect, namerOf, amount)
			}
		}
		nReq := 0
		hasReq := map[*core.FuncInfo]bool{}
		for _, fr := range sc.Frames {
			f := fr.F
			namer := namerOf(f)
			for _, r := range fr.Calls() {
				if r.Name != plCB+"RequestChunks" || len(r.Call.Args) < 3 {
					continue
				}
				nReq++
				hasReq[f] = true
				ok, why := sc.Guarded(fr, r.Pt, c18CallFact(plCB+"Suspend", false), false)
				c.Check(ok, "no request while suspended", "T4 GuardedBy", r.Pos(), "RequestChunks is reached only on the Suspend()==false edge", "chunks can be requested while suspended: "+why)
				ok, why = sc.Guarded(fr, r.Pt, c18CallFact(plCB+"Done", false), false)
				c.Check(ok, "no request once the download is done", "T4 GuardedBy", r.Pos(), "on every call chain RequestChunks is reached only on the Done()==false edge", "requests continue after the download is reported done: "+why)
				ok, why = sc.Guarded(fr, r.Pt, below, false)
				c.Check(ok, "request only below the window", "T4 GuardedBy", r.Pos(), "RequestChunks is reached only when requested < processed + ParallelChunksDownload", "chunks can be requested with the window already full: "+why)
				// the amount requested: n = processed + P - requested; requested += n; RequestChunks(.., uint32(n))
				nv := varOf(f, core.StripConv(f.Info(), r.Call.Args[2]))
				okN := false
				if nv != nil {
					as := assignsToVar(f, nv)
					switch {
					case len(as) == 1 && as[0].RHS != nil:
						// n's defining expression, evaluated where it is defined
						okN = c18AmountIs(f, as[0].RHS, as[0].Pt, namerOf, amount)
					case len(as) == 0 && c18ParamIndex(f, nv) >= 0 && !fr.Root && len(fr.Callers) > 0:
						// n is handed in: the argument of every call, evaluated at the call
						okN = true
						for _, cl := range fr.Callers {
							pf, i := cl.Parent.F, c18ParamIndex(f, nv)
							if cl.Detached || i >= len(cl.Site.Call.Args) || !c18AmountIs(pf, cl.Site.Call.Args[i], cl.Site.Pt, namerOf, amount) {
								okN = false
							}
						}
					}
					// the counter is advanced by n (requested += n, requested = requested + n, or set to
					// processed + P, which is the same value) before the call, and in no other way
					namerN := func(e ast.Expr) string {
						if varOf(f, e) == nv {
							return "n"
						}
						return namer(e)
					}
					okInc, okOnly := false, true
					for _, a := range assignsToField(f, plT+".totalRequested") {
						good := false
						switch a.Tok {
						case token.ADD_ASSIGN:
							good = a.RHS != nil && c18LinIs(c18LinAt(f, a.RHS, namerN, a.Pt), map[string]int64{"n": 1})
						case token.ASSIGN:
							if a.RHS != nil {
								l := c18LinAt(f, a.RHS, namerN, a.Pt)
								good = c18LinIs(l, map[string]int64{"requested": 1, "n": 1}) || c18LinIs(l, map[string]int64{"processed": 1, "P": 1})
							}
						}
						if !good {
							okOnly = false
							continue
						}
						if o, _ := f.MustPassBefore([]core.Point{a.Pt}, r.Pt); o {
							okInc = true
						}
					}
					okN = okN && okInc && okOnly
				}
				c.Check(okN, "window is filled exactly", "provenance", r.Pos(), "n = processed + P - requested is added to requested and exactly n chunks are requested", "the number of chunks requested does not match the bookkeeping (requested-but-unprocessed can exceed the parallelism limit)")
			}
		}
		c.ExpectAtLeast("RequestChunks sites", nReq, 1)
		// who else writes totalRequested
		for _, fr := range sc.Frames {
			if g := fr.F; !hasReq[g] && len(assignsToField(g, plT+".totalRequested")) > 0 {
				c.Fail("totalRequested written in "+short(g.Name), "T6 WhoMayWrite", g.Pos(), "the request counter is modified in a function that does not issue the request")
			}
		}
		// the Done() edge terminates the peer leecher
		terminated := func(fr *c17Frame) []core.Point { return sc.MustSites(fr, c18CallSites(plT+".Terminate")) }
		nDone := 0
		for _, fr := range sc.Frames {
			rt := fr.F
			for _, e := range edgesWithFact(rt, c18CallFact(plCB+"Done", true)(rt)) {
				nDone++
				_, found := core.PathQuery{F: rt, From: blockEntry(e.B.Succs[e.Succ]), Avoid: core.PointSet(terminated(fr)...), TargetExit: true}.Find()
				c.Check(!found, "done => terminate", "T3 PostDominates", rt.Pos(), "the Done() edge always terminates the peer leecher", "the leecher keeps running after Done()")
			}
		}
		c.ExpectAtLeast("tests of Done()", nDone, 1)
		// processed counted on the IsProcessed edge (re-tested for every chunk), by one
		nInc := 0
		for _, fr := range sc.Frames {
			sw := fr.F
			for _, a := range assignsToField(sw, plT+".totalProcessed") {
				nInc++
				ok, _ := sc.Guarded(fr, a.Pt, c18CallbackFact(sc, plCB+"IsProcessed", true), true)
				// processed++ / processed += 1 / processed = processed + 1
				byOne := a.Tok == token.INC
				// or: processed += n with n the count, returned by a helper, of the chunks for which
				// IsProcessed answered true
				byCount := false
				if a.RHS != nil {
					// the local (if any) of the right-hand side that holds a call's result
					var amt *types.Var
					ast.Inspect(a.RHS, func(n ast.Node) bool {
						if id, isID := n.(*ast.Ident); isID && amt == nil {
							if v := varOf(sw, id); v != nil {
								if call, _, _ := c18TupleDef(sw, v); call != nil {
									amt = v
								}
							}
						}
						return true
					})
					swNamer := func(e ast.Expr) string {
						if fieldNameOf(sw, e) == plT+".totalProcessed" {
							return "processed"
						}
						if v := varOf(sw, e); v != nil && v == amt {
							return "n"
						}
						return ""
					}
					l := c18LinAt(sw, a.RHS, swNamer, a.Pt)
					isCount := false
					switch a.Tok {
					case token.ADD_ASSIGN:
						byOne = len(l.Coef) == 0 && l.C.IsInt64() && l.C.Int64() == 1
						isCount = c18LinIs(l, map[string]int64{"n": 1})
					case token.ASSIGN:
						byOne = len(l.Coef) == 1 && coefIs(l, "processed", 1) && l.C.IsInt64() && l.C.Int64() == 1
						isCount = c18LinIs(l, map[string]int64{"processed": 1, "n": 1})
					}
					if isCount && amt != nil {
						call, idx, _ := c18TupleDef(sw, amt)
						if h := c18CalleeOfExpr(sw, call); h != nil && sc.FrameOf(h) != nil {
							byCount = c18CountsCallbackTrue(sc, sc.FrameOf(h), idx, plCB+"IsProcessed")
						}
					}
				}
				c.Check(ok && byOne || byCount, "processed counted once per processed chunk", "T4 GuardedBy", a.Stmt.Pos(), "totalProcessed++ on the IsProcessed edge, tested again for every chunk (or the count of such edges, made by a helper, is added)", "processed chunks are miscounted")
				// a counted chunk leaves the processing list: whenever the counter is advanced, the list is
				// replaced (by the chunks not yet processed) before the handler finishes — earlier in the
				// same run, or on every continuation after the count
				replaced := func(g *c17Frame) []core.Point {
					var out []core.Point
					for _, s := range assignsToField(g.F, plT+".processingChunks") {
						if s.RHS != nil && (s.Tok == token.ASSIGN || s.Tok == token.DEFINE) && !mentionsField(g.F, s.RHS, plT+".processingChunks") {
							out = append(out, s.Pt)
						}
					}
					return out
				}
				okR, whyR := sc.PrecededBy(fr, a.Pt, replaced)
				if !okR {
					okR, whyR = c18FollowedBy(sc, fr, a.Pt, replaced, map[*c17Frame]bool{}, 4)
				}
				c.Check(okR, "counted chunks leave the processing list", "T7 Pairing", a.Stmt.Pos(), "every run that advances totalProcessed also replaces processingChunks", "chunks are counted as processed but stay in the processing list: they are counted again on the next sweep, so totalProcessed runs ahead and more chunks are requested than the parallelism limit allows ("+whyR+")")
			}
		}
		c.ExpectAtLeast("totalProcessed updates", nInc, 1)
	})

	c.Clause("C18.session", func() {
		c.Fn(blT + ".Routine") // anchor
		sc := c17PkgScope(p, blPkg)
		notTerminated := func(g *core.FuncInfo) func(core.Fact) bool {
			return func(ft core.Fact) bool {
				e, t, ok := c17BoolFact(g.Info(), ft)
				return ok && !t && fieldNameOf(g, e) == blT+".Terminated"
			}
		}
		n := 0
		for _, fr := range sc.Frames {
			for _, s := range fr.Calls() {
				if s.Name != blCB+"StartSession" || len(s.Call.Args) < 1 {
					continue
				}
				n++
				ok1, why1 := sc.Guarded(fr, s.Pt, notTerminated, false)
				c.Check(ok1, "no session after termination", "T4 GuardedBy", s.Pos(), "on every call chain StartSession is reached only on the !Terminated edge", "a session can be started after Terminate(): "+why1)
				ok2, why2 := sc.Guarded(fr, s.Pt, c18CallFact(blCB+"OngoingSession", false), false)
				c.Check(ok2, "one session at a time", "T4 GuardedBy", s.Pos(), "on every call chain StartSession is reached only on the !OngoingSession() edge", "a second session can be started while one is ongoing: "+why2)
				// candidates non-empty and passed on (the list may be handed down through helpers, the
				// emptiness test may be made at any level)
				ok3 := c18Candidates(fr, s.Pt, s.Call.Args[0], false, 3)
				c.Check(ok3, "session only with candidates", "T4 GuardedBy", s.Pos(), "StartSession gets the non-empty result of SelectSessionPeerCandidates", "a session can be started without candidates")
			}
		}
		c.ExpectAtLeast("StartSession sites", n, 1)
	})

	c.Clause("C18.unreg", func() {
		f := c.Fn(blT + ".UnregisterPeer")
		sc := c17PkgScope(p, blPkg)
		fr := sc.FrameOf(f)
		c.Need(fr != nil, "UnregisterPeer is a function of the base leecher package")
		peer := f.Param(0)
		del := f.CallsMatching(func(cs *core.CallSite) bool {
			return cs.Name == "builtin.delete" && fieldNameOf(f, cs.Call.Args[0]) == blT+".Peers" && c17SameVar(f, cs.Call.Args[1], peer)
		})
		c.Need(len(del) >= 1, "UnregisterPeer deletes the peer from Peers")
		// every return passes the delete
		okDel := true
		for _, rp := range f.ReturnPoints() {
			if o, _ := f.MustPassBefore(core.Points(del), rp); !o {
				okDel = false
			}
		}
		c.Check(okDel, "peer is removed on every path", "T2 Dominates", f.Pos(), "delete(Peers, peer) dominates every return", "UnregisterPeer can return without removing the peer")
		// anything that can start a session (directly or in a callee) comes after the removal
		n := 0
		for _, pt := range sc.MaySites(fr, c18CallSites(blCB+"StartSession")) {
			n++
			what := "the call"
			if call, ok := pt.Node().(*ast.CallExpr); ok {
				what = short(calleeName(f, call))
			} else {
				for _, cs := range f.Calls() {
					if cs.Pt == pt {
						what = short(cs.Name)
					}
				}
			}
			ok, wit := f.MustPassBefore(core.Points(del), pt)
			c.Check(ok, "peer removed before a new session can start", "T2 Dominates", posOf(pt),
				"delete(Peers, peer) dominates the call of "+what,
				what+" runs while the peer being unregistered is still in the peer set: the session-start callbacks can pick it again, so a session with the unregistered peer is started; path "+f.DescribePath(wit))
		}
		c.ExpectAtLeast("session-restart sites in UnregisterPeer", n, 1)
		// an ongoing session with that peer is terminated
		// (the callback may be called directly or in a helper that calls it on every path: the helper's
		// call site is then the guarded place)
		ts := sc.MustSites(fr, c18CallSites(blCB+"TerminateSession"))
		okT := len(ts) >= 1
		for _, t := range ts {
			o, _ := f.GuardedBy(t, func(ft core.Fact) bool {
				cm, k := core.NormCmp(ft)
				if !k || cm.R == nil || cm.Op != token.EQL {
					return false
				}
				l, r := cm.L, cm.R
				if c17SameVar(f, l, peer) {
					l, r = r, l
				}
				return isCallTo(f, resolveLocal(f, l), blCB+"OngoingSessionPeer") != nil && c17SameVar(f, r, peer)
			})
			okT = okT && o
		}
		c.Check(okT, "ongoing session with the peer is terminated", "T4 GuardedBy", f.Pos(), "TerminateSession runs on the OngoingSessionPeer() == peer edge", "the session with the unregistered peer is not terminated")
	})

	c.Clause("C18.terminate", func() {
		f := c.Fn(blT + ".Terminate")
		var set []core.Point
		for _, a := range assignsToField(f, blT+".Terminated") {
			if isIdentNamed(a.RHS, "true") {
				set = append(set, a.Pt)
			}
		}
		ts := f.CallsTo(blCB + "TerminateSession")
		ok := len(set) >= 1 && len(ts) >= 1
		for _, t := range ts {
			if o, _ := f.MustPassBefore(set, t.Pt); !o {
				ok = false
			}
		}
		c.Check(ok, "terminated flag set before the session is terminated", "T2 Dominates", f.Pos(), "Terminated = true dominates TerminateSession()", "the session is terminated before the flag is set (a routine could start a new one)")
		// peer leecher: quit closed at most once
		pt := c.Fn(plT + ".Terminate")
		cl := pt.CallsMatching(func(cs *core.CallSite) bool {
			return cs.Name == "builtin.close" && fieldNameOf(pt, cs.Call.Args[0]) == plT+".quit"
		})
		okC := len(cl) == 1
		if okC {
			notDone := func(ft core.Fact) bool {
				cm, k := core.NormCmp(ft)
				return k && cm.R == nil && cm.Op == token.NEQ && fieldNameOf(pt, cm.L) == plT+".done"
			}
			o1, _ := pt.GuardedBy(cl[0].Pt, notDone)
			var sets []core.Point
			for _, a := range assignsToField(pt, plT+".done") {
				if isIdentNamed(a.RHS, "true") {
					sets = append(sets, a.Pt)
				}
			}
			o2, _ := pairedWith(pt, cl[0].Pt, sets)
			locks := pt.CallsMatching(func(cs *core.CallSite) bool {
				return cs.Name == "sync.Mutex.Lock" && fieldNameOf(pt, cs.Recv()) == plT+".quitMu"
			})
			o3, _ := pt.MustPassBefore(core.Points(locks), cl[0].Pt)
			okC = o1 && o2 && o3 && len(locks) > 0
		}
		c.Check(okC, "peer leecher closes quit once", "T17 Typestate", pt.Pos(), "close(quit) only on the !done edge, paired with done = true, under quitMu", "the quit channel can be closed twice (panic) or without the latch")
		// nobody else closes quit
		for _, g := range p.FuncsInPkg(plPkg) {
			if g == pt {
				continue
			}
			for _, cs := range g.CallsTo("builtin.close") {
				if fieldNameOf(g, cs.Call.Args[0]) == plT+".quit" {
					c.Fail("quit closed in "+short(g.Name), "T6 WhoMayCall", cs.Pos(), "the quit channel is closed outside Terminate")
				}
			}
		}
	})

	c.Clause("C18.lock", func() {
		spec := core.LockSpec{
			Pkgs: []string{blPkg},
			Guarded: map[string]string{
				c.Fld(blT + ".Peers"):      blT + ".Mu",
				c.Fld(blT + ".Terminated"): blT + ".Mu",
			},
			// Routine is exported but lock-required: its in-package call sites are checked below,
			// embedding leechers call it with Mu held (that is how the Mu field is meant to be used)
			AssumeHeld: map[string]map[string]int8{blT + ".Routine": {blT + ".Mu": core.LWrite}},
		}
		res := core.RunLockset(p, spec)
		reportLockset(c, res, []lockException{{"New", "BaseLeecher.Peers", "constructor"}}, nil)
		// vacuity only: each guarded field is accessed somewhere (every access is an obligation above)
		perField := map[string]int{}
		for _, a := range res.Accesses {
			perField[a.Field]++
		}
		for _, fld := range []string{c.Fld(blT + ".Peers"), c.Fld(blT + ".Terminated")} {
			c.ExpectAtLeast("accesses of "+short(fld), perField[fld], 1)
		}
		rt := c.Fn(blT + ".Routine")
		nCalls := 0
		for _, ci := range res.CallIns[rt] {
			nCalls++
			c.Check(ci.State[blT+".Mu"] >= core.LWrite, "Routine called under Mu in "+short(ci.Caller.Name), "T1 LockSet", ci.Pos, "the caller holds Mu in write mode", "Routine() is called without Mu")
		}
		c.ExpectAtLeast("in-package call sites of Routine", nCalls, 1)
	})
	var _ *types.Var
}

// c18NonEmpty: the fact says that len(v) is not zero (len(v) != 0, len(v) > 0, len(v) >= 1, …).
func c18NonEmpty(g *core.FuncInfo, v *types.Var) func(core.Fact) bool {
	namer := func(e ast.Expr) string {
		if call := isCallTo(g, e, "builtin.len"); call != nil && len(call.Args) == 1 && c17SameVar(g, call.Args[0], v) {
			return "n"
		}
		return ""
	}
	ne, pos := core.ParseLinCmp("n != 0"), core.ParseLinCmp("1 - n <= 0")
	return func(ft core.Fact) bool {
		lc, ok := core.NormLinCmp(g.Info(), ft, namer)
		return ok && (lc.Equal(ne) || lc.Equal(pos))
	}
}

// c18Candidates decides that the value `arg` used at pt (in frame fr) is the result of
// SelectSessionPeerCandidates and is known to be non-empty there: the variable is defined once by the
// callback's call, or is a parameter that receives such a value at every call site; the emptiness test
// guards the use in the frame itself or the call in a caller.
func c18Candidates(fr *c17Frame, pt core.Point, arg ast.Expr, tested bool, depth int) bool {
	f := fr.F
	v := varOf(f, arg)
	if v == nil {
		return false
	}
	v = canonVar(f, v)
	if ok, _ := fr.regionGuarded(pt, c18NonEmpty(f, v)); ok {
		tested = true
	}
	as := assignsToVar(f, v)
	if len(as) == 1 && as[0].RHS != nil && isCallTo(f, as[0].RHS, blCB+"SelectSessionPeerCandidates") != nil {
		return tested
	}
	i := c18ParamIndex(f, v)
	if len(as) != 0 || i < 0 || fr.Root || len(fr.Callers) == 0 || depth <= 0 {
		return false
	}
	for _, cl := range fr.Callers {
		if cl.Detached || i >= len(cl.Site.Call.Args) || !c18Candidates(cl.Parent, cl.Site.Pt, cl.Site.Call.Args[i], tested, depth-1) {
			return false
		}
	}
	return true
}

// c18ParamIndex returns the position of parameter v of g (-1 if v is not a parameter).
func c18ParamIndex(g *core.FuncInfo, v *types.Var) int {
	if v == nil || g.Type == nil || g.Type.Params == nil {
		return -1
	}
	for i := 0; i < g.Type.Params.NumFields(); i++ {
		if g.Param(i) == v {
			return i
		}
	}
	return -1
}

func coefIs(l *core.Lin, name string, v int64) bool {
	c, ok := l.Coef[name]
	return ok && c.IsInt64() && c.Int64() == v
}
