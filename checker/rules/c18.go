package rules

import (
	"go/ast"
	"go/token"
	"go/types"

	"lachk/core"
)

const (
	blT  = "gossip/basestream/basestreamleecher.BaseLeecher"
	blCB = "gossip/basestream/basestreamleecher.Callbacks."
	plT  = "gossip/basestream/basestreamleecher/basepeerleecher.BasePeerLeecher"
	plP  = "gossip/basestream/basestreamleecher/basepeerleecher."
)

func init() {
	register("C18", "other", "T4 GuardedBy (normalised window test), T2 Dominates (peer removed before a session can start), T1 LockSet, T17 (close once)",
		"Decides the flow-control and peer-removal shape: the peer leecher requests chunks only on the not-suspended edge, only while the download is not done, and only when requested < processed + parallelism, after which requested equals processed + parallelism and exactly the difference is requested; processed chunks are counted once when swept. The base leecher starts a session only when not terminated, no session is ongoing and candidates exist; in UnregisterPeer the peer is removed from the peer set before anything that can start a new session runs; Terminate sets the terminated flag before terminating the session; the exported methods hold the mutex (Routine is lock-required: checked at its call sites); the peer leecher closes its quit channel at most once under its mutex. What the application's session callbacks do is not decided.",
		[]string{"session callbacks (StartSession, SelectSessionPeerCandidates, ...) are opaque and may read the Peers set", "Routine() is called by embedding leechers only with Mu held (documented convention)"},
		runC18)
}

func runC18(c *core.Ctx) {
	p := c.P

	c.Clause("C18.window", func() {
		f := c.Fn(plT + ".tryToSync")
		reqs := f.CallsTo(plP + "EpochDownloaderCallbacks.RequestChunks")
		c.ExpectAtLeast("RequestChunks sites", len(reqs), 1)
		namer := func(e ast.Expr) string {
			switch fieldNameOf(f, e) {
			case plT + ".totalRequested":
				return "requested"
			case plT + ".totalProcessed":
				return "processed"
			case plP + "EpochDownloaderConfig.ParallelChunksDownload":
				return "P"
			}
			return ""
		}
		for _, r := range reqs {
			ok, wit := f.GuardedBy(r.Pt, func(ft core.Fact) bool {
				return !ft.Truth && isCallTo(f, ft.Expr, plP+"EpochDownloaderCallbacks.Suspend") != nil
			})
			c.Check(ok, "no request while suspended", "T4 GuardedBy", r.Pos(), "RequestChunks is reached only on the Suspend()==false edge", "chunks can be requested while suspended: "+f.DescribePath(wit))
			want := core.ParseLinCmp("requested - processed - P + 1 <= 0")
			// locals holding parts of the comparison (target := processed + P) are looked through while current
			ok2, wit2 := f.GuardedBy(r.Pt, func(ft core.Fact) bool {
				lc, k := c18NormLinCmp(f, ft, namer)
				return k && lc.Equal(want)
			})
			c.Check(ok2, "request only below the window", "T4 GuardedBy", r.Pos(), "RequestChunks is reached only when requested < processed + ParallelChunksDownload", "chunks can be requested with the window already full: "+f.DescribePath(wit2))
			// the amount requested: n = processed + P - requested; requested += n; RequestChunks(.., uint32(n))
			nv := varOf(f, core.StripConv(f.Info(), r.Call.Args[2]))
			okN := false
			if nv != nil {
				as := assignsToVar(f, nv)
				if len(as) == 1 && as[0].RHS != nil {
					// n's defining expression, evaluated where it is defined
					okN = c18LinIs(c18LinAt(f, as[0].RHS, namer, as[0].Pt), map[string]int64{"processed": 1, "P": 1, "requested": -1})
				}
				// the counter is advanced by n (requested += n, requested = requested + n, or set to
				// processed + P, which is the same value) before the call, and in no other way
				namerN := func(e ast.Expr) string {
					if varOf(f, e) == nv {
						return "n"
					}
					return namer(e)
				}
				okInc, okOnly := false, true
				for _, a := range assignsToField(f, plT+".totalRequested") {
					good := false
					switch a.Tok {
					case token.ADD_ASSIGN:
						good = a.RHS != nil && c18LinIs(c18LinAt(f, a.RHS, namerN, a.Pt), map[string]int64{"n": 1})
					case token.ASSIGN:
						if a.RHS != nil {
							l := c18LinAt(f, a.RHS, namerN, a.Pt)
							good = c18LinIs(l, map[string]int64{"requested": 1, "n": 1}) || c18LinIs(l, map[string]int64{"processed": 1, "P": 1})
						}
					}
					if !good {
						okOnly = false
						continue
					}
					if o, _ := f.MustPassBefore([]core.Point{a.Pt}, r.Pt); o {
						okInc = true
					}
				}
				okN = okN && okInc && okOnly
			}
			c.Check(okN, "window is filled exactly", "provenance", r.Pos(), "n = processed + P - requested is added to requested and exactly n chunks are requested", "the number of chunks requested does not match the bookkeeping (requested-but-unprocessed can exceed the parallelism limit)")
		}
		// who else writes totalRequested
		for _, g := range p.FuncsInPkg("gossip/basestream/basestreamleecher/basepeerleecher") {
			if g != f && len(assignsToField(g, plT+".totalRequested")) > 0 {
				c.Fail("totalRequested written in "+short(g.Name), "T6 WhoMayWrite", g.Pos(), "the request counter is modified outside tryToSync")
			}
		}
		// routine: Done() stops everything
		rt := c.Fn(plT + ".routine")
		for _, cs := range rt.CallsTo(plT + ".tryToSync") {
			ok, wit := rt.GuardedBy(cs.Pt, func(ft core.Fact) bool {
				return !ft.Truth && isCallTo(rt, ft.Expr, plP+"EpochDownloaderCallbacks.Done") != nil
			})
			c.Check(ok, "no request once the download is done", "T4 GuardedBy", cs.Pos(), "tryToSync is reached only on the Done()==false edge", "requests continue after the download is reported done: "+rt.DescribePath(wit))
		}
		c.ExpectAtLeast("tryToSync sites in routine", len(rt.CallsTo(plT+".tryToSync")), 1)
		// tryToSync is called only from routine
		for _, g := range p.FuncsInPkg("gossip/basestream/basestreamleecher/basepeerleecher") {
			if g != rt && len(g.CallsTo(plT+".tryToSync")) > 0 {
				c.Fail("tryToSync called in "+short(g.Name), "T6 WhoMayCall", g.Pos(), "tryToSync is reachable without the Done() test")
			}
		}
		// Done edge terminates
		for _, e := range edgesWithFact(rt, func(ft core.Fact) bool {
			return ft.Truth && isCallTo(rt, ft.Expr, plP+"EpochDownloaderCallbacks.Done") != nil
		}) {
			tm := core.Points(rt.CallsTo(plT + ".Terminate"))
			_, found := core.PathQuery{F: rt, From: blockEntry(e.B.Succs[e.Succ]), Avoid: core.PointSet(tm...), TargetExit: true}.Find()
			c.Check(!found, "done => terminate", "T3 PostDominates", rt.Pos(), "the Done() edge always terminates the peer leecher", "the leecher keeps running after Done()")
		}
		// sweep: processed counted on the IsProcessed edge, others kept
		sw := c.Fn(plT + ".sweepProcessedChunks")
		nInc := 0
		for _, a := range assignsToField(sw, plT+".totalProcessed") {
			nInc++
			ok, _ := sw.GuardedBy(a.Pt, func(ft core.Fact) bool {
				return ft.Truth && isCallTo(sw, ft.Expr, plP+"EpochDownloaderCallbacks.IsProcessed") != nil
			})
			// processed++ / processed += 1 / processed = processed + 1
			byOne := a.Tok == token.INC
			if a.RHS != nil {
				swNamer := func(e ast.Expr) string {
					if fieldNameOf(sw, e) == plT+".totalProcessed" {
						return "processed"
					}
					return ""
				}
				l := c18LinAt(sw, a.RHS, swNamer, a.Pt)
				switch a.Tok {
				case token.ADD_ASSIGN:
					byOne = len(l.Coef) == 0 && l.C.IsInt64() && l.C.Int64() == 1
				case token.ASSIGN:
					byOne = len(l.Coef) == 1 && coefIs(l, "processed", 1) && l.C.IsInt64() && l.C.Int64() == 1
				}
			}
			c.Check(ok && byOne, "processed counted once per processed chunk", "T4 GuardedBy", a.Stmt.Pos(), "totalProcessed++ on the IsProcessed edge; the chunk is dropped from the list there", "processed chunks are miscounted")
		}
		c.ExpectAtLeast("totalProcessed updates", nInc, 1)
	})

	c.Clause("C18.session", func() {
		f := c.Fn(blT + ".Routine")
		starts := f.CallsTo(blCB + "StartSession")
		c.ExpectAtLeast("StartSession sites", len(starts), 1)
		for _, s := range starts {
			ok1, _ := f.GuardedBy(s.Pt, func(ft core.Fact) bool {
				cm, k := core.NormCmp(ft)
				return k && cm.R == nil && cm.Op == token.NEQ && fieldNameOf(f, cm.L) == blT+".Terminated"
			})
			c.Check(ok1, "no session after termination", "T4 GuardedBy", s.Pos(), "StartSession is reached only on the !Terminated edge", "a session can be started after Terminate()")
			ok2, _ := f.GuardedBy(s.Pt, func(ft core.Fact) bool {
				return !ft.Truth && isCallTo(f, ft.Expr, blCB+"OngoingSession") != nil
			})
			c.Check(ok2, "one session at a time", "T4 GuardedBy", s.Pos(), "StartSession is reached only on the !OngoingSession() edge", "a second session can be started while one is ongoing")
			// candidates non-empty and passed on
			cv := varOf(f, s.Call.Args[0])
			ok3 := false
			if cv != nil {
				as := assignsToVar(f, cv)
				if len(as) == 1 && as[0].RHS != nil && isCallTo(f, as[0].RHS, blCB+"SelectSessionPeerCandidates") != nil {
					ok3, _ = f.GuardedBy(s.Pt, func(ft core.Fact) bool {
						cm, k := core.NormCmp(ft)
						if !k || cm.R == nil || cm.Op != token.NEQ {
							return false
						}
						call := isCallTo(f, cm.L, "builtin.len")
						return call != nil && varOf(f, call.Args[0]) == cv && core.IsConstInt(f.Info(), cm.R, 0)
					})
				}
			}
			c.Check(ok3, "session only with candidates", "T4 GuardedBy", s.Pos(), "StartSession gets the non-empty result of SelectSessionPeerCandidates", "a session can be started without candidates")
		}
		// StartSession is invoked only from Routine
		for _, g := range p.FuncsInPkg("gossip/basestream/basestreamleecher") {
			if g != f && len(g.CallsTo(blCB+"StartSession")) > 0 {
				c.Fail("StartSession called in "+short(g.Name), "T6 WhoMayCall", g.Pos(), "a session is started outside Routine (bypasses the terminated / ongoing tests)")
			}
		}
	})

	c.Clause("C18.unreg", func() {
		f := c.Fn(blT + ".UnregisterPeer")
		peer := f.Param(0)
		del := f.CallsMatching(func(cs *core.CallSite) bool {
			return cs.Name == "builtin.delete" && fieldNameOf(f, cs.Call.Args[0]) == blT+".Peers" && varOf(f, cs.Call.Args[1]) == peer
		})
		c.Need(len(del) >= 1, "UnregisterPeer deletes the peer from Peers")
		// every return passes the delete
		okDel := true
		for _, rp := range f.ReturnPoints() {
			if o, _ := f.MustPassBefore(core.Points(del), rp); !o {
				okDel = false
			}
		}
		c.Check(okDel, "peer is removed on every path", "T2 Dominates", f.Pos(), "delete(Peers, peer) dominates every return", "UnregisterPeer can return without removing the peer")
		// anything that can start a session comes after the removal
		n := 0
		for _, cs := range f.CallsTo(blT+".Routine", blCB+"StartSession") {
			n++
			ok, wit := f.MustPassBefore(core.Points(del), cs.Pt)
			c.Check(ok, "peer removed before a new session can start", "T2 Dominates", cs.Pos(),
				"delete(Peers, peer) dominates the call of "+short(cs.Name),
				short(cs.Name)+" runs while the peer being unregistered is still in the peer set: the session-start callbacks can pick it again, so a session with the unregistered peer is started; path "+f.DescribePath(wit))
		}
		c.ExpectAtLeast("session-restart sites in UnregisterPeer", n, 1)
		// an ongoing session with that peer is terminated
		ts := f.CallsTo(blCB + "TerminateSession")
		okT := len(ts) >= 1
		for _, t := range ts {
			o, _ := f.GuardedBy(t.Pt, func(ft core.Fact) bool {
				cm, k := core.NormCmp(ft)
				if !k || cm.R == nil || cm.Op != token.EQL {
					return false
				}
				l, r := cm.L, cm.R
				if varOf(f, l) == peer {
					l, r = r, l
				}
				return isCallTo(f, l, blCB+"OngoingSessionPeer") != nil && varOf(f, r) == peer
			})
			okT = okT && o
		}
		c.Check(okT, "ongoing session with the peer is terminated", "T4 GuardedBy", f.Pos(), "TerminateSession runs on the OngoingSessionPeer() == peer edge", "the session with the unregistered peer is not terminated")
	})

	c.Clause("C18.terminate", func() {
		f := c.Fn(blT + ".Terminate")
		var set []core.Point
		for _, a := range assignsToField(f, blT+".Terminated") {
			if isIdentNamed(a.RHS, "true") {
				set = append(set, a.Pt)
			}
		}
		ts := f.CallsTo(blCB + "TerminateSession")
		ok := len(set) >= 1 && len(ts) >= 1
		for _, t := range ts {
			if o, _ := f.MustPassBefore(set, t.Pt); !o {
				ok = false
			}
		}
		c.Check(ok, "terminated flag set before the session is terminated", "T2 Dominates", f.Pos(), "Terminated = true dominates TerminateSession()", "the session is terminated before the flag is set (a routine could start a new one)")
		// peer leecher: quit closed at most once
		pt := c.Fn(plT + ".Terminate")
		cl := pt.CallsMatching(func(cs *core.CallSite) bool {
			return cs.Name == "builtin.close" && fieldNameOf(pt, cs.Call.Args[0]) == plT+".quit"
		})
		okC := len(cl) == 1
		if okC {
			notDone := func(ft core.Fact) bool {
				cm, k := core.NormCmp(ft)
				return k && cm.R == nil && cm.Op == token.NEQ && fieldNameOf(pt, cm.L) == plT+".done"
			}
			o1, _ := pt.GuardedBy(cl[0].Pt, notDone)
			var sets []core.Point
			for _, a := range assignsToField(pt, plT+".done") {
				if isIdentNamed(a.RHS, "true") {
					sets = append(sets, a.Pt)
				}
			}
			o2, _ := pairedWith(pt, cl[0].Pt, sets)
			locks := pt.CallsMatching(func(cs *core.CallSite) bool {
				return cs.Name == "sync.Mutex.Lock" && fieldNameOf(pt, cs.Recv()) == plT+".quitMu"
			})
			o3, _ := pt.MustPassBefore(core.Points(locks), cl[0].Pt)
			okC = o1 && o2 && o3 && len(locks) > 0
		}
		c.Check(okC, "peer leecher closes quit once", "T17 Typestate", pt.Pos(), "close(quit) only on the !done edge, paired with done = true, under quitMu", "the quit channel can be closed twice (panic) or without the latch")
		// nobody else closes quit
		for _, g := range p.FuncsInPkg("gossip/basestream/basestreamleecher/basepeerleecher") {
			if g == pt {
				continue
			}
			for _, cs := range g.CallsTo("builtin.close") {
				if fieldNameOf(g, cs.Call.Args[0]) == plT+".quit" {
					c.Fail("quit closed in "+short(g.Name), "T6 WhoMayCall", cs.Pos(), "the quit channel is closed outside Terminate")
				}
			}
		}
	})

	c.Clause("C18.lock", func() {
		spec := core.LockSpec{
			Pkgs: []string{"gossip/basestream/basestreamleecher"},
			Guarded: map[string]string{
				c.Fld(blT + ".Peers"):      blT + ".Mu",
				c.Fld(blT + ".Terminated"): blT + ".Mu",
			},
			// Routine is exported but lock-required: its in-package call sites are checked below,
			// embedding leechers call it with Mu held (that is how the Mu field is meant to be used)
			AssumeHeld: map[string]map[string]int8{blT + ".Routine": {blT + ".Mu": core.LWrite}},
		}
		res := core.RunLockset(p, spec)
		n := reportLockset(c, res, []lockException{{"New", "BaseLeecher.Peers", "constructor"}}, nil)
		c.ExpectAtLeast("base-leecher access groups", n, 6)
		rt := c.Fn(blT + ".Routine")
		nCalls := 0
		for _, ci := range res.CallIns[rt] {
			nCalls++
			c.Check(ci.State[blT+".Mu"] >= core.LWrite, "Routine called under Mu in "+short(ci.Caller.Name), "T1 LockSet", ci.Pos, "the caller holds Mu in write mode", "Routine() is called without Mu")
		}
		c.ExpectAtLeast("in-package call sites of Routine", nCalls, 2)
	})
	var _ *types.Var
}

func coefIs(l *core.Lin, name string, v int64) bool {
	c, ok := l.Coef[name]
	return ok && c.IsInt64() && c.Int64() == v
}
