package rules

import (
	"fmt"
	"go/ast"
	"go/types"

	"lachk/core"
)

// checkMapInit is T16a: wherever a value of the state struct comes into existence in the package, each
// map-typed field that some function of the package assigns into is made. The obligation is put on every
// creation site, not on their number:
//
//	state literals     every composite literal of the struct gives each written map field a made map
//	                   (make / map literal, directly or through a single-definition local; keyed or
//	                   positional);
//	holders            every composite literal of a struct that holds the state by value (the producer
//	                   wrappers) gives that field explicitly, as a state literal or as the result of a
//	                   module function every return of which is such a literal (a constructor helper,
//	                   bounded depth) — a holder literal without the field leaves the maps nil;
//	new(T)             of the state struct or of a holder leaves the maps nil;
//	completion         a map that the allocation (literal, holder literal, new) leaves nil is accepted when the
//	                   object is kept in a fresh local and, on every path from the allocation to a use that
//	                   hands the object out (return, alias, capture, foreign call), the field is assigned a
//	                   made map — directly, or in a package function that receives (the address of) the
//	                   object or of its state and makes the map on every path (c27Constr.completed).
//
// minLits only guards against vacuity (a rule that finds no creation site decides nothing).
func checkMapInit(c *core.Ctx, pkg, structName string, minLits int) {
	p := c.P
	tn := p.LookupType(structName)
	c.Need(tn != nil, "type "+structName)
	st, ok := tn.Type().Underlying().(*types.Struct)
	c.Need(ok, structName+" is a struct")
	var funcs []*core.FuncInfo
	for _, f := range p.Funcs() {
		if core.RelPkg(f.Pkg.PkgPath) == pkg {
			funcs = append(funcs, f)
		}
	}
	written := map[string]string{} // field -> where
	for _, f := range funcs {
		for _, a := range assignments(f) {
			ix, ok := ast.Unparen(a.LHS).(*ast.IndexExpr)
			if !ok {
				continue
			}
			fn := fieldNameOf(f, ix.X)
			if fn == "" {
				continue
			}
			if _, isMap := f.Info().TypeOf(ix.X).Underlying().(*types.Map); isMap {
				if _, seen := written[fn]; !seen {
					written[fn] = short(f.Name) + " at " + p.Pos(a.Stmt.Pos())
				}
			}
		}
	}
	isState := func(t types.Type) bool { return t != nil && types.Identical(t, tn.Type()) }
	// the field of a struct type that holds the state by value (-1: none)
	stateField := func(t types.Type) int {
		if t == nil || isState(t) {
			return -1
		}
		hs, ok := t.Underlying().(*types.Struct)
		if !ok {
			return -1
		}
		for i := 0; i < hs.NumFields(); i++ {
			if isState(hs.Field(i).Type()) {
				return i
			}
		}
		return -1
	}
	// the value given to field i of the struct by a composite literal (nil: left at its zero value)
	elemOf := func(f *core.FuncInfo, cl *ast.CompositeLit, s *types.Struct, i int) ast.Expr {
		for pos, el := range cl.Elts {
			kv, keyed := el.(*ast.KeyValueExpr)
			if !keyed {
				if pos == i {
					return el
				}
				continue
			}
			if id, ok := kv.Key.(*ast.Ident); ok {
				if v, ok := f.Info().ObjectOf(id).(*types.Var); ok && v == s.Field(i) {
					return kv.Value
				}
			}
		}
		return nil
	}
	isMade := func(f *core.FuncInfo, e ast.Expr) bool {
		switch x := resolveLocal(f, e).(type) {
		case *ast.CallExpr:
			return calleeName(f, x) == "builtin.make"
		case *ast.CompositeLit:
			return true
		}
		return false
	}

	nLits, nHolders := 0, 0
	// does the expression (evaluated in f) denote a freshly built state whose literal is checked below?
	var isBuilt func(f *core.FuncInfo, e ast.Expr, depth int) (bool, string)
	isBuilt = func(f *core.FuncInfo, e ast.Expr, depth int) (bool, string) {
		switch x := resolveLocal(f, e).(type) {
		case *ast.CompositeLit:
			if isState(f.Info().TypeOf(x)) {
				return true, ""
			}
		case *ast.CallExpr:
			obj, _ := p.ResolveCallee(f.Info(), x)
			h := p.FuncOf(c27AsFunc(obj))
			if h == nil || h.Body == nil || depth <= 0 {
				return false, "it is the result of " + exprStr(x.Fun) + ", which is not a module function within reach"
			}
			rets := h.ReturnPoints()
			if len(rets) == 0 {
				return false, short(h.Name) + " has no return"
			}
			for _, rp := range rets {
				r := rp.Node().(*ast.ReturnStmt)
				if len(r.Results) != 1 {
					return false, short(h.Name) + " does not return the state as its single explicit result"
				}
				if ok, why := isBuilt(h, r.Results[0], depth-1); !ok {
					return false, why
				}
			}
			return true, ""
		}
		return false, exprStr(e) + " is neither a " + short(structName) + " literal nor the result of a constructor helper"
	}
	// a map that the allocation leaves nil may be made before the object is handed out: the allocation,
	// the field stores and the initialising helper are one construction (see c27Constr.completed)
	constr := c27NewConstr(p, pkg)
	making := c27Making{
		isMade: isMade,
		whole: func(f *core.FuncInfo, lhs, rhs ast.Expr) bool {
			if !isState(f.Info().TypeOf(lhs)) {
				return false
			}
			ok, _ := isBuilt(f, rhs, 2)
			return ok
		},
	}
	// are all written maps of the state inside the object allocated by x made before it is handed out?
	completedAll := func(f *core.FuncInfo, x ast.Expr) (bool, string) {
		n := 0
		for i := 0; i < st.NumFields(); i++ {
			fld := st.Field(i)
			if _, isMap := fld.Type().Underlying().(*types.Map); !isMap {
				continue
			}
			mf := p.FieldName(fld)
			if _, w := written[mf]; !w {
				continue
			}
			n++
			if ok, why := constr.completed(f, x, mf, making); !ok {
				return false, why
			}
		}
		return n > 0, "no map of the state is assigned into"
	}
	nCompleted := 0
	for _, f := range funcs {
		f := f
		f.InspectOwn(func(n ast.Node) bool {
			switch x := n.(type) {
			case *ast.CompositeLit:
				t := f.Info().TypeOf(x)
				if isState(t) {
					nLits++
					for i := 0; i < st.NumFields(); i++ {
						fld := st.Field(i)
						if _, isMap := fld.Type().Underlying().(*types.Map); !isMap {
							continue
						}
						mf := p.FieldName(fld)
						where, w := written[mf]
						if !w {
							continue
						}
						v := elemOf(f, x, st, i)
						made, later := v != nil && isMade(f, v), ""
						if !made {
							made, later = constr.completed(f, x, mf, making)
						}
						c.Check(made, short(f.Name)+"|"+short(mf)+" initialised", "T16a SiblingAgreement", x.Pos(),
							"the map that "+where+" assigns into is made by the literal, or before the state is handed out",
							fmt.Sprintf("this constructor leaves %s nil although %s assigns into it: the first such assignment panics (assignment to entry in nil map); %s", short(mf), where, later))
					}
					return true
				}
				if i := stateField(t); i >= 0 {
					nHolders++
					hs := t.Underlying().(*types.Struct)
					v := elemOf(f, x, hs, i)
					key := short(f.Name) + "|cache state of " + types.TypeString(t, func(*types.Package) string { return "" }) + " initialised"
					if v == nil {
						if ok, why := completedAll(f, x); ok {
							nCompleted++
							c.Pass(key, "T16a SiblingAgreement", "the literal leaves the "+short(structName)+" empty, and every map that is assigned into is made before the producer is handed out")
						} else {
							c.Fail(key, "T16a SiblingAgreement", x.Pos(), "this literal does not give the embedded "+short(structName)+": its maps stay nil and the first open through this producer panics (assignment to entry in nil map); "+why)
						}
						return true
					}
					if ok, why := isBuilt(f, v, 2); ok {
						c.Pass(key, "T16a SiblingAgreement", "the "+short(structName)+" of this producer is built by a literal (here or in a constructor helper) whose maps are checked")
					} else {
						c.Undecided(key, "T16a SiblingAgreement", x.Pos(), "cannot tell that the "+short(structName)+" of this producer has its maps made: "+why)
					}
				}
			case *ast.CallExpr:
				if calleeName(f, x) == "builtin.new" && len(x.Args) == 1 {
					if t := f.Info().TypeOf(x.Args[0]); isState(t) || stateField(t) >= 0 {
						key := short(f.Name) + "|cache state made by new()"
						if ok, why := completedAll(f, x); ok {
							nCompleted++
							c.Pass(key, "T16a SiblingAgreement", "new() yields nil maps, and every map that is assigned into is made before the object is handed out")
						} else {
							c.Fail(key, "T16a SiblingAgreement", x.Pos(), "new() yields a "+short(structName)+" with nil maps: the first open panics (assignment to entry in nil map); "+why)
						}
					}
				}
			}
			return true
		})
	}
	// a creation site whose maps were checked: a state literal, or an allocation completed by field stores
	c.ExpectAtLeast("creation sites of "+short(structName)+" whose maps are checked", nLits+nCompleted, minLits)
	c.ExpectAtLeast("literals of producers holding a "+short(structName), nHolders, 1)
}
