package rules

import (
	"lachk/core"
)

func init() {
	register("C03", "other", "provenance (order/source of the cheater list), T6 WhoMayCall (merged API only), T20 WrapperDelegation, T17 Typestate (fork marker is absorbing)",
		"Decides the order/source clause of the cheater list and the absorbing fork marker it relies on: the list is built by appends inside one iteration that covers every validator in canonical order (a range over the canonical sorted IDs, an indexed loop over them, or a counted loop over the indexes 0..Len()-1, left only at its end), from the merged vector clock of the block's Atropos (the consensus package never reads the per-branch clock), in each iteration the append is reached on and only on the edge where entry i of the vector is fork-detected for validator i of that same order, the appended value is that validator, and the list is not reordered before it is put into the block, which carries that list; the adapter and the index delegate the merged query unchanged. Absorbing marker: when a vector collects a parent's vector an entry is overwritten only on the edge where it is not already fork-detected, and a fork-detected source entry always yields a fork-detected entry; when branches are merged, a fork-detected branch determines the merged entry; marking one branch marks all branches of that creator (the branch list may be read through an accessor). Pair scan (C03.forkscan): every loop that supplies an operand of the branch-overlap test (MinSeq/Seq ranges) is left by break/goto/return only behind the edge on which the overlap test held (directly or as the result of a module predicate), so no pair of a creator's branches is skipped for another reason. Persistence of the fork bookkeeping (C03.persist): Engine.Flush writes the BranchesInfo table on every path on which the BranchesInfo is loaded, or skips it only on a boolean engine field that every assignment to a BranchesInfo field sets on its path (consensus reloads the bookkeeping from the store after every event). That the marker is set for exactly the validators with two same-sequence events among the ancestors (vector values over all DAGs) is not decided.",
		[]string{"the merged vector has one entry per validator in validator-index order (index = position in the canonical order; C12)", "vector values themselves are C06's subject (not claimed)"},
		runC03)
}

func runC03(c *core.Ctx) {
	p := c.P
	c03Order(c)

	c.Clause("C03.merged", func() {
		// abft never reads the per-branch clock
		n := 0
		for _, g := range p.FuncsInPkg("abft") {
			all := append([]*core.FuncInfo{g}, allLits(g)...)
			for _, h := range all {
				n++
				for _, cs := range h.Calls() {
					if methodNamed(cs.Name, "GetHighestBefore") {
						c.Fail("per-branch clock read in "+short(h.Name), "T6 WhoMayCall", cs.Pos(), "the consensus package reads the per-branch (unmerged) vector clock: forks on side branches would be missed or double counted")
					}
				}
			}
		}
		c.Pass("consensus uses the merged clock only", "T6 WhoMayCall", "no GetHighestBefore call in package abft")
		c.ExpectAtLeast("abft functions scanned", n, 20) // vacuity guard: the package was loaded with its functions
		// delegation chain
		ad := c.Fn("utils/adapters.VectorToDagIndexer.GetMergedHighestBefore")
		ok := false
		for _, cs := range ad.CallsTo("vecfc.Index.GetMergedHighestBefore") {
			ok = varOf(ad, cs.Call.Args[0]) == ad.Param(0)
		}
		c.Check(ok, "adapter delegates the merged query", "T20 WrapperDelegation", ad.Pos(), "Index.GetMergedHighestBefore(id)", "the adapter does not forward the merged query for the same event")
		vi := c.Fn("vecfc.Index.GetMergedHighestBefore")
		ok = false
		for _, cs := range vi.CallsTo("vecengine.Engine.GetMergedHighestBefore") {
			ok = varOf(vi, cs.Call.Args[0]) == vi.Param(0)
		}
		c.Check(ok, "index delegates the merged query to the engine", "T20 WrapperDelegation", vi.Pos(), "Engine.GetMergedHighestBefore(id)", "the index does not forward the merged query")
		// adapter Get wraps the same entry
		ag := c.Fn("utils/adapters.VectorSeqToDagIndexSeq.Get")
		ok = false
		for _, cs := range ag.CallsTo("vecfc.HighestBeforeSeq.Get") {
			ok = varOf(ag, cs.Call.Args[0]) == ag.Param(0)
		}
		c.Check(ok, "adapter Get(i) reads entry i", "T20 WrapperDelegation", ag.Pos(), "HighestBeforeSeq.Get(i)", "the adapter reads a different entry")
		// engine merge: for each creator, GatherFrom(creatorIdx, scattered, branches of that creator)
		eg := c.Fn("vecengine.Engine.GetMergedHighestBefore")
		okG := false
		for _, cs := range eg.Calls() {
			if methodNamed(cs.Name, "GatherFrom") && len(cs.Call.Args) == 3 {
				// one call per creator index of an iteration over BranchIDByCreators (ranged or counted,
				// the table possibly kept in a local), with the index and the element of that iteration
				it, isIt := c01IterationOf(eg, enclosingLoop(eg, cs.Pos()))
				if !isIt || !it.FromZero || it.Coll == nil || it.Index == nil {
					continue
				}
				_, pth := fieldPath(eg, it.Coll)
				okG = len(pth) >= 1 && pth[len(pth)-1] == "vecengine.BranchesInfo.BranchIDByCreators" &&
					varOf(eg, core.StripConv(eg.Info(), resolveLocal(eg, cs.Call.Args[0]))) == it.Index && it.IsElem(cs.Call.Args[2], c01Resolver(eg))
				if okG {
					pts := []core.Point{cs.Pt}
					okG, _ = c01EveryIteration(eg, it.Head, it.Done, pts)
				}
			}
		}
		c.Check(okG, "merged entry i gathers the branches of creator i", "provenance", eg.Pos(), "range BranchIDByCreators: GatherFrom(creatorIdx, scattered, branches)", "the merged vector does not gather each creator's own branches")
	})

	c03Absorb(c)
	c03ForkScan(c)
	c03Persist(c)
}
