package rules

import (
	"go/ast"
	"go/token"
	"go/types"
	"strings"

	"lachk/core"
)

func init() {
	register("C03", "other", "provenance (order/source of the cheater list), T6 WhoMayCall (merged API only), T20 WrapperDelegation, T17 Typestate (fork marker is absorbing)",
		"Decides the order/source clause of the cheater list and the absorbing fork marker it relies on: the list is built by appends inside one range over the validator set's canonical sorted IDs, from the merged vector clock of the block's Atropos (the consensus package never reads the per-branch clock), entry i of the vector is tested for validator i of that same order, the appended value is that validator, and the list is not reordered before it is put into the block; the adapter and the index delegate the merged query unchanged. Absorbing marker: when a vector collects a parent's vector an entry is overwritten only on the edge where it is not already fork-detected, and a fork-detected source entry always yields a fork-detected entry; when branches are merged, a fork-detected branch determines the merged entry; marking one branch marks all branches of that creator. That the marker is set for exactly the validators with two same-sequence events among the ancestors (vector values over all DAGs) is not decided.",
		[]string{"the merged vector has one entry per validator in validator-index order (index = position in the canonical order; C12)", "vector values themselves are C06's subject (not claimed)"},
		runC03)
}

func runC03(c *core.Ctx) {
	p := c.P
	c.Clause("C03.order", func() {
		f := c.Fn("abft.Lachesis.applyAtropos")
		atropos := f.Param(1)
		// the vector
		var vec *types.Var
		for _, a := range assignments(f) {
			if call, ok := ast.Unparen(a.RHS).(*ast.CallExpr); ok && a.RHS != nil && methodNamed(calleeName(f, call), "GetMergedHighestBefore") && len(call.Args) == 1 && varOf(f, call.Args[0]) == atropos {
				vec = varOf(f, a.LHS)
			}
		}
		c.Check(vec != nil, "vector is the merged clock of the block's Atropos", "provenance", f.Pos(), "GetMergedHighestBefore(atropos)", "the cheater list is not computed from the Atropos' merged vector clock")
		// the loop over the validators: a range over the canonical ids, or a counted loop 0..Len()
		var loop ast.Stmt
		var ix, val *types.Var
		isCreator := func(e ast.Expr) bool { return val != nil && varOf(f, e) == val }
		f.InspectOwn(func(n ast.Node) bool {
			if loop != nil {
				return true
			}
			switch s := n.(type) {
			case *ast.RangeStmt:
				loop = s
				ix, val = varOf(f, s.Key), varOf(f, s.Value)
			case *ast.ForStmt:
				loop = s
				if as, ok := s.Init.(*ast.AssignStmt); ok && len(as.Lhs) == 1 && len(as.Rhs) == 1 && core.IsConstInt(f.Info(), core.StripConv(f.Info(), as.Rhs[0]), 0) {
					ix = varOf(f, as.Lhs[0])
				}
				okBound := false
				if ix != nil && s.Cond != nil {
					lc, k := core.NormLinCmp(f.Info(), core.Fact{Expr: s.Cond, Truth: true}, func(e ast.Expr) string {
						if varOf(f, e) == ix {
							return "i"
						}
						if call, isC := ast.Unparen(e).(*ast.CallExpr); isC && calleeName(f, call) == "inter/pos.Validators.Len" {
							return "n"
						}
						return ""
					})
					okBound = k && lc.Equal(core.ParseLinCmp("i - n + 1 <= 0"))
				}
				inc, isInc := s.Post.(*ast.IncDecStmt)
				okStep := isInc && inc.Tok == token.INC && varOf(f, inc.X) == ix
				c.Check(okBound && okStep, "counted loop covers every validator index", "T8 (normalised bound)", s.Pos(), "for i := 0; i < validators.Len(); i++", "the loop over validator indexes does not run from 0 to Len()-1 inclusive: the last (or first) validators can never be listed as cheaters")
				// creator of iteration i: validators.GetID(i) / ids[i]
				isCreator = func(e ast.Expr) bool {
					if call, isC := ast.Unparen(e).(*ast.CallExpr); isC && calleeName(f, call) == "inter/pos.Validators.GetID" && len(call.Args) == 1 {
						return varOf(f, core.StripConv(f.Info(), call.Args[0])) == ix
					}
					if ie, isI := ast.Unparen(e).(*ast.IndexExpr); isI {
						return varOf(f, core.StripConv(f.Info(), ie.Index)) == ix
					}
					return false
				}
			}
			return true
		})
		c.Need(loop != nil, "applyAtropos loops over the validators")
		// appends
		var cheaters *types.Var
		nApp := 0
		for _, a := range assignments(f) {
			ap := isCallTo(f, a.RHS, "builtin.append")
			if ap == nil || a.RHS == nil {
				continue
			}
			v := varOf(f, a.LHS)
			if v == nil || varOf(f, ap.Args[0]) != v {
				continue
			}
			if t, ok := v.Type().Underlying().(*types.Slice); !ok || !strings.HasSuffix(t.Elem().String(), "idx.ValidatorID") {
				continue
			}
			cheaters = v
			nApp++
			inLoop := enclosingLoop(f, a.Stmt.Pos()) == loop
			okVal := len(ap.Args) == 2 && isCreator(ap.Args[1])
			// guarded by vec.Get(idx(i)).IsForkDetected()
			okG, _ := f.GuardedBy(a.Pt, func(ft core.Fact) bool {
				if !ft.Truth {
					return false
				}
				call, ok := ast.Unparen(ft.Expr).(*ast.CallExpr)
				if !ok || !methodNamed(calleeName(f, call), "IsForkDetected") {
					return false
				}
				sel, ok := call.Fun.(*ast.SelectorExpr)
				if !ok {
					return false
				}
				get, ok := ast.Unparen(sel.X).(*ast.CallExpr)
				if !ok || !methodNamed(calleeName(f, get), "Get") || len(get.Args) != 1 {
					return false
				}
				gs, ok := get.Fun.(*ast.SelectorExpr)
				if !ok || varOf(f, gs.X) != vec {
					return false
				}
				return varOf(f, core.StripConv(f.Info(), get.Args[0])) == ix && ix != nil
			})
			c.Check(inLoop && okVal && okG, "validator i is listed iff entry i of the merged vector is fork-detected", "provenance + T4", a.Stmt.Pos(), "append(cheaters, creator) inside the canonical-order loop on the vec.Get(i).IsForkDetected() edge", "the cheater list is not built entry-by-entry from the merged vector in canonical order")
		}
		c.ExpectAtLeast("cheater appends", nApp, 1)
		// no reorder: cheaters is only appended to and used in the Block literal
		okUse := cheaters != nil
		if cheaters != nil {
			for _, cs := range f.Calls() {
				if strings.HasPrefix(cs.Name, "sort.") {
					for _, a := range cs.Call.Args {
						if mentionsObj(f, a, cheaters) {
							okUse = false
						}
					}
				}
			}
			for _, a := range assignments(f) {
				if r, through := ast.Unparen(a.LHS).(*ast.IndexExpr); through && varOf(f, r.X) == cheaters {
					okUse = false
				}
			}
		}
		c.Check(okUse, "cheater list is not reordered", "T6", f.Pos(), "the list is only appended to and handed to the block", "the cheater list is sorted or overwritten after it was built")
	})

	c.Clause("C03.merged", func() {
		// abft never reads the per-branch clock
		n := 0
		for _, g := range p.FuncsInPkg("abft") {
			all := append([]*core.FuncInfo{g}, allLits(g)...)
			for _, h := range all {
				n++
				for _, cs := range h.Calls() {
					if methodNamed(cs.Name, "GetHighestBefore") {
						c.Fail("per-branch clock read in "+short(h.Name), "T6 WhoMayCall", cs.Pos(), "the consensus package reads the per-branch (unmerged) vector clock: forks on side branches would be missed or double counted")
					}
				}
			}
		}
		c.Pass("consensus uses the merged clock only", "T6 WhoMayCall", "no GetHighestBefore call in package abft")
		c.ExpectAtLeast("abft functions scanned", n, 60)
		// delegation chain
		ad := c.Fn("utils/adapters.VectorToDagIndexer.GetMergedHighestBefore")
		ok := false
		for _, cs := range ad.CallsTo("vecfc.Index.GetMergedHighestBefore") {
			ok = varOf(ad, cs.Call.Args[0]) == ad.Param(0)
		}
		c.Check(ok, "adapter delegates the merged query", "T20 WrapperDelegation", ad.Pos(), "Index.GetMergedHighestBefore(id)", "the adapter does not forward the merged query for the same event")
		vi := c.Fn("vecfc.Index.GetMergedHighestBefore")
		ok = false
		for _, cs := range vi.CallsTo("vecengine.Engine.GetMergedHighestBefore") {
			ok = varOf(vi, cs.Call.Args[0]) == vi.Param(0)
		}
		c.Check(ok, "index delegates the merged query to the engine", "T20 WrapperDelegation", vi.Pos(), "Engine.GetMergedHighestBefore(id)", "the index does not forward the merged query")
		// adapter Get wraps the same entry
		ag := c.Fn("utils/adapters.VectorSeqToDagIndexSeq.Get")
		ok = false
		for _, cs := range ag.CallsTo("vecfc.HighestBeforeSeq.Get") {
			ok = varOf(ag, cs.Call.Args[0]) == ag.Param(0)
		}
		c.Check(ok, "adapter Get(i) reads entry i", "T20 WrapperDelegation", ag.Pos(), "HighestBeforeSeq.Get(i)", "the adapter reads a different entry")
		// engine merge: for each creator, GatherFrom(creatorIdx, scattered, branches of that creator)
		eg := c.Fn("vecengine.Engine.GetMergedHighestBefore")
		okG := false
		for _, cs := range eg.Calls() {
			if methodNamed(cs.Name, "GatherFrom") && len(cs.Call.Args) == 3 {
				if rs, isR := enclosingLoop(eg, cs.Pos()).(*ast.RangeStmt); isR {
					_, pth := fieldPath(eg, rs.X)
					okG = len(pth) >= 1 && pth[len(pth)-1] == "vecengine.BranchesInfo.BranchIDByCreators" &&
						varOf(eg, core.StripConv(eg.Info(), cs.Call.Args[0])) == varOf(eg, rs.Key) && varOf(eg, cs.Call.Args[2]) == varOf(eg, rs.Value)
				}
			}
		}
		c.Check(okG, "merged entry i gathers the branches of creator i", "provenance", eg.Pos(), "range BranchIDByCreators: GatherFrom(creatorIdx, scattered, branches)", "the merged vector does not gather each creator's own branches")
	})

	c.Clause("C03.absorb", func() {
		cf := c.Fn("vecfc.HighestBeforeSeq.CollectFrom")
		self := cf.Recv()
		// my entry / his entry variables
		var mine, his *types.Var
		for _, a := range assignments(cf) {
			call, ok := ast.Unparen(a.RHS).(*ast.CallExpr)
			if !ok || a.RHS == nil || calleeName(cf, call) != "vecfc.HighestBeforeSeq.Get" {
				continue
			}
			sel := call.Fun.(*ast.SelectorExpr)
			if varOf(cf, sel.X) == self {
				mine = varOf(cf, a.LHS)
			} else {
				his = varOf(cf, a.LHS)
			}
		}
		c.Need(mine != nil && his != nil, "CollectFrom reads its own and the other entry")
		forkOf := func(v *types.Var, want bool) func(core.Fact) bool {
			return func(ft core.Fact) bool {
				if ft.Truth != want {
					return false
				}
				call, ok := ast.Unparen(ft.Expr).(*ast.CallExpr)
				if !ok || !methodNamed(calleeName(cf, call), "IsForkDetected") {
					return false
				}
				sel, ok := call.Fun.(*ast.SelectorExpr)
				return ok && varOf(cf, sel.X) == v
			}
		}
		n := 0
		for _, cs := range cf.CallsTo("vecfc.HighestBeforeSeq.Set", "vecfc.HighestBeforeSeq.SetForkDetected") {
			if varOf(cf, cs.Recv()) != self {
				continue
			}
			n++
			ok, wit := cf.GuardedBy(cs.Pt, forkOf(mine, false))
			c.Check(ok, "an entry is overwritten only while not fork-detected", "T17 Typestate", cs.Pos(), "every write of self's entry is on the !mySeq.IsForkDetected() edge", "a fork-detected entry can be overwritten by a plain sequence: a cheater visible to a parent disappears from the child's view ("+cf.DescribePath(wit)+")")
		}
		c.ExpectAtLeast("entry writes in CollectFrom", n, 3)
		// his fork => my fork (unless already)
		edges := edgesWithFact(cf, forkOf(his, true))
		okF := false
		for _, e := range edges {
			// on this edge, within the iteration, SetForkDetected is reached before the loop continues, unless mine is already detected
			sfd := core.Points(cf.CallsTo("vecfc.HighestBeforeSeq.SetForkDetected"))
			if len(e.B.Succs[e.Succ].Nodes) > 0 {
				start := blockEntry(e.B.Succs[e.Succ])
				isSet := core.PointSet(sfd...)
				if isSet(start) {
					okF = true
					continue
				}
				_, miss := core.PathQuery{F: cf, From: start, Avoid: isSet, TargetExit: true}.Find()
				head, _ := cf.LoopOf(enclosingLoop(cf, posOf(start)))
				_, again := core.PathQuery{F: cf, From: start, Avoid: isSet, Target: func(pt core.Point) bool { return head != nil && pt.B == head }}.Find()
				okF = !miss && !again
			}
		}
		// the fork test of the source must not be skipped for fork-only entries (Seq == 0 but fork detected)
		c.Check(okF && len(edges) >= 1, "a fork-detected source entry makes the entry fork-detected", "T17 Typestate", cf.Pos(), "the hisSeq.IsForkDetected() edge always reaches SetForkDetected in the same iteration", "a fork seen by a parent is not propagated to the child")
		// GatherFrom: fork-detected branch determines the result
		gf := c.Fn("vecfc.HighestBeforeSeq.GatherFrom")
		var acc *types.Var
		for _, cs := range gf.CallsTo("vecfc.HighestBeforeSeq.Set") {
			if varOf(gf, cs.Recv()) == gf.Recv() && len(cs.Call.Args) == 2 {
				acc = varOf(gf, cs.Call.Args[1])
			}
		}
		c.Need(acc != nil, "GatherFrom stores an accumulated entry")
		var br *types.Var
		okA := false
		for _, a := range assignsToVar(gf, acc) {
			v := varOf(gf, a.RHS)
			if v == nil {
				continue
			}
			g, _ := gf.GuardedBy(a.Pt, func(ft core.Fact) bool {
				if !ft.Truth {
					return false
				}
				call, ok := ast.Unparen(ft.Expr).(*ast.CallExpr)
				if !ok || !methodNamed(calleeName(gf, call), "IsForkDetected") {
					return false
				}
				sel, ok := call.Fun.(*ast.SelectorExpr)
				return ok && varOf(gf, sel.X) == v
			})
			if g {
				br = v
				// after this assignment no other assignment of acc is reachable
				okA = true
				for _, b := range assignsToVar(gf, acc) {
					if b.Pt != a.Pt && gf.CanReach(a.Pt, b.Pt) {
						okA = false
					}
				}
			}
		}
		c.Check(okA && br != nil, "a fork-detected branch determines the merged entry", "T17 Typestate", gf.Pos(), "on the branch.IsForkDetected() edge the accumulator takes that branch and is not overwritten afterwards", "a fork-detected branch can be overridden by a later branch when merging: the cheater is not reported")
		// engine: marking one branch marks all branches of the creator
		sf := c.Fn("vecengine.Engine.setForkDetected")
		okM := false
		for _, cs := range sf.Calls() {
			if methodNamed(cs.Name, "SetForkDetected") {
				if rs, isR := enclosingLoop(sf, cs.Pos()).(*ast.RangeStmt); isR {
					ix, isIx := ast.Unparen(rs.X).(*ast.IndexExpr)
					if isIx {
						_, pth := fieldPath(sf, ix.X)
						okM = len(pth) >= 1 && pth[len(pth)-1] == "vecengine.BranchesInfo.BranchIDByCreators" && varOf(sf, cs.Call.Args[0]) == varOf(sf, rs.Value)
					}
				}
			}
		}
		c.Check(okM, "a detected fork marks every branch of the creator", "provenance", sf.Pos(), "range BranchIDByCreators[creator]: SetForkDetected(branch)", "only some branches of a forking creator are marked")
		// the marker value is recognised by IsForkDetected
		is := c.Fn("vecfc.BranchSeq.IsForkDetected")
		st := c.Fn("vecfc.HighestBeforeSeq.SetForkDetected")
		okV := false
		for _, cs := range st.CallsTo("vecfc.HighestBeforeSeq.Set") {
			if v, ok := st.ObjOf(cs.Call.Args[1]).(*types.Var); ok && p.ObjName(v) == "vecfc.forkDetectedSeq" {
				for _, rp := range is.ReturnPoints() {
					r := rp.Node().(*ast.ReturnStmt)
					if len(r.Results) == 1 {
						if be, isB := ast.Unparen(r.Results[0]).(*ast.BinaryExpr); isB && be.Op == token.EQL {
							if w, ok := is.ObjOf(be.Y).(*types.Var); ok && p.ObjName(w) == "vecfc.forkDetectedSeq" {
								okV = true
							}
							if w, ok := is.ObjOf(be.X).(*types.Var); ok && p.ObjName(w) == "vecfc.forkDetectedSeq" {
								okV = true
							}
						}
					}
				}
			}
		}
		c.Check(okV, "writer and reader of the fork marker agree", "T14 CodecPair", st.Pos(), "SetForkDetected stores forkDetectedSeq and IsForkDetected compares with it", "the fork marker written is not the one tested")
	})
}
