package rules

import (
	"go/ast"
	"go/constant"
	"go/token"
	"go/types"

	"lachk/core"
)

func init() {
	register("C09", "other", "T2/T3 Dominates (seal sequence), T4 GuardedBy (nothing of the old epoch after sealing), T16b SiblingAgreement (seal path vs Reset), linear normaliser",
		"Decides the seal sequence: when the block callback returns validators, sealEpoch persists an epoch state with the epoch incremented by exactly one and exactly those validators, then drops the old epoch database, opens the new one (purging the cached roots first) and tells the index; afterwards the election is reset with the new validators at the first frame and the last decided frame FirstFrame-1 is persisted; once a call reports 'sealed', no further root is processed and no further frame is applied in handleElection or bootstrapElection; and Orderer.Reset performs the same set of effects (epoch state and decided state persisted, epoch database dropped and reopened, election reset at the first frame with the same validators) as the seal path; and the vector engine's Reset (which the epoch-database callback runs on both paths) drops its cached branch info on every path, directly or in a method it always calls, so the new epoch is indexed from the new epoch's database only. That the new epoch's blocks are then identical for both instances is a runtime fact and is not decided.",
		[]string{"the block callback's validators are taken as they are", "epoch database producer returns an empty database for a new epoch"},
		runC09)
}

func runC09(c *core.Ctx) {
	p := c.P
	c.Clause("C09.seal", func() {
		od := c.Fn("abft.Orderer.onFrameDecided")
		// the function that seals (located by what it does: it persists the new epoch state): a helper
		// of onFrameDecided that is handed the validators (today sealEpoch), or onFrameDecided itself
		// when the seal is spelled in place; seals are the calls of the helper in onFrameDecided
		se, seals := c09sealHost(od)
		c.Need(se != nil, "onFrameDecided, or a helper it calls with the validators, persists the new epoch state (SetEpochState)")
		inPlace := se == od
		var nv *types.Var
		if inPlace {
			nv = c09sealVar(od)
		} else {
			nv = c09paramOfType(se, func(t types.Type) bool { return c09isValidators(p, t) })
		}
		c.Need(nv != nil, "the sealing function receives the callback's validators")
		// local copy of the epoch state
		var es *types.Var
		for _, a := range assignments(se) {
			if st, ok := ast.Unparen(a.RHS).(*ast.StarExpr); ok && a.RHS != nil && isCallTo(se, st.X, "abft.Store.GetEpochState") != nil {
				es = varOf(se, a.LHS)
			}
		}
		c.Need(es != nil, "sealEpoch copies the stored epoch state")
		okInc, okVal := false, false
		var incPt, valPt core.Point
		// the single-definition local whose value was stored as the new epoch (`n := es.Epoch + 1; es.Epoch = n`)
		var carrier *types.Var
		nEpochStores := 0
		isOldEpoch := func(e ast.Expr) string {
			if sel, isSel := ast.Unparen(e).(*ast.SelectorExpr); isSel && varOf(se, sel.X) == es && fieldNameOf(se, sel) == "abft.EpochState.Epoch" {
				return "epoch"
			}
			return ""
		}
		for _, a := range assignments(se) {
			root, path := fieldPath(se, a.LHS)
			if varOf(se, root) != es || len(path) != 1 {
				continue
			}
			switch path[0] {
			case "abft.EpochState.Epoch":
				nEpochStores++
				if a.Tok == token.INC {
					okInc, incPt = true, a.Pt
				} else if a.Tok == token.ADD_ASSIGN && core.IsConstInt(se.Info(), a.RHS, 1) {
					okInc, incPt = true, a.Pt
				} else if a.Tok == token.ASSIGN && a.RHS != nil {
					// es.Epoch = <the copy's epoch> + 1, spelled out or computed into a local beforehand (the local
					// is read before this statement stores, so only stores strictly in between would matter)
					rhs := ast.Unparen(a.RHS)
					var via *types.Var
					if v := varOfRaw(se, rhs); v != nil {
						if d := singleDef(se, v); d != nil {
							if pt, own := c09defPoint(se, v, d); own && c09stableAt(se, d, pt, a.Pt, true, true) {
								rhs, via = d, v
							}
						}
					}
					lin := core.Linearize(se.Info(), rhs, isOldEpoch)
					if len(lin.Coef) == 1 && coefIs(lin, "epoch", 1) && lin.C.IsInt64() && lin.C.Int64() == 1 {
						okInc, incPt, carrier = true, a.Pt, via
					}
				}
			case "abft.EpochState.Validators":
				if varOf(se, a.RHS) == nv {
					okVal, valPt = true, a.Pt
				}
			}
		}
		sets := se.CallsTo("abft.Store.SetEpochState")
		okSet := len(sets) == 1
		if okSet {
			u, isU := ast.Unparen(sets[0].Call.Args[0]).(*ast.UnaryExpr)
			okSet = isU && u.Op == token.AND && varOf(se, u.X) == es
			if okSet && okInc && okVal {
				a, _ := se.MustPassBefore([]core.Point{incPt}, sets[0].Pt)
				b, _ := se.MustPassBefore([]core.Point{valPt}, sets[0].Pt)
				okSet = a && b
			}
		}
		c.Check(okInc && nEpochStores == 1 && okVal && okSet, "next epoch number and exactly the callback's validators are persisted", "T2 Dominates + provenance", se.Pos(), "Epoch++ and Validators = newValidators precede SetEpochState(&copy)", "the sealed epoch state is not (old epoch + 1, callback's validators)")
		rs := se.CallsTo("abft.Orderer.resetEpochStore")
		okRS := len(rs) == 1 && okSet
		// where the epoch store is switched on the seal path: in sealEpoch itself (switchInSeal), or in
		// onFrameDecided after the seal call (sw), possibly inside a helper that hands the error on
		switchInSeal := len(rs) == 1
		var sw []c08site
		if len(rs) == 0 && okSet {
			sw = c08sitesOf(od, "abft.Orderer.resetEpochStore", 2)
			sealCalls := seals
			if len(sw) == 1 && len(sealCalls) == 1 && !inPlace {
				// the epoch handed to the switch is what sealEpoch returned, and every return of sealEpoch
				// yields the Epoch of the state it persisted, unchanged since the SetEpochState
				g, arg := c08arg(sw[0], 0)
				fromSeal := g == od && arg != nil && ast.Unparen(resolveLocal(od, arg)) == ast.Expr(sealCalls[0].Call)
				rets := se.ReturnPoints()
				okRet := fromSeal && len(rets) > 0
				for _, rp := range rets {
					r := rp.Node().(*ast.ReturnStmt)
					if !okRet || len(r.Results) != 1 {
						okRet = false
						break
					}
					root, pth := fieldPath(se, r.Results[0])
					isNew := len(pth) == 1 && pth[0] == "abft.EpochState.Epoch" && varOf(se, root) == es
					if !isNew && carrier != nil && varOfRaw(se, r.Results[0]) == carrier {
						isNew = true
					}
					dom, _ := se.MustPassBefore(core.Points(sets), rp)
					okRet = isNew && dom
					for _, a := range assignments(se) {
						aroot, apath := fieldPath(se, a.LHS)
						if varOf(se, aroot) == es && (len(apath) == 0 || apath[0] == "abft.EpochState.Epoch") && se.CanReach(sets[0].Pt, a.Pt) && se.CanReach(a.Pt, rp) {
							okRet = false // the copy's epoch is changed after it was persisted
						}
					}
				}
				after, _ := od.MustPassBefore(core.Points(sealCalls), sw[0].Outer().Pt)
				c.Check(okRet && after, "epoch database is switched after the new epoch state is persisted", "T2 Dominates (value handed from sealEpoch to the switch)", se.Pos(), "sealEpoch returns the persisted state's epoch and resetEpochStore(<that epoch>) follows the seal call", "the epoch database is switched before/without persisting the new epoch state, or for a different epoch")
			} else {
				c.Check(false, "epoch database is switched after the new epoch state is persisted", "T2 Dominates", se.Pos(), "", "the epoch database is switched before/without persisting the new epoch state, or for a different epoch")
			}
		} else if okRS {
			// a local holding the incremented epoch stands for the field when nothing stores to it afterwards
			_, pth := fieldPath(se, c09snapshot(se, rs[0].Call.Args[0]))
			okRS = len(pth) == 1 && pth[0] == "abft.EpochState.Epoch"
			// … and so does the very local whose value was stored as the new epoch
			if !okRS && carrier != nil && varOfRaw(se, rs[0].Call.Args[0]) == carrier {
				okRS = true
			}
			d, _ := se.MustPassBefore(core.Points(sets), rs[0].Pt)
			okRS = okRS && d
		}
		if !(len(rs) == 0 && okSet) {
			c.Check(okRS, "epoch database is switched after the new epoch state is persisted", "T2 Dominates", se.Pos(), "resetEpochStore(new epoch) follows SetEpochState", "the epoch database is switched before/without persisting the new epoch state, or for a different epoch")
		}

		re := c.Fn("abft.Orderer.resetEpochStore")
		// each of the three steps may sit in re itself or in a helper that always performs it and hands its
		// error on (drop/open), resp. performs it unless the callback is not set (the notification)
		drop := c08sitesOf(re, "abft.Store.dropEpochDB", 2)
		open := c08sitesOf(re, "abft.Store.openEpochDB", 2)
		// the callback may be invoked directly or through a local that holds the (unchanged) field value
		cb := c09callbackSites(re, "abft.OrdererCallbacks.EpochDBLoaded")
		okSeq := len(drop) == 1 && len(open) == 1 && len(cb) == 1
		if okSeq {
			og, oarg := c08arg(open[0], 0)
			cg, carg := c08arg(cb[0], 0)
			// (a step without an error result cannot fail: the next one only has to come after it)
			okSeq = c08after(re, drop[0].Outer(), open[0].Outer().Pt) && c08after(re, open[0].Outer(), cb[0].Outer().Pt) &&
				og == re && oarg != nil && varOf(re, oarg) == re.Param(0) && cg == re && carg != nil && varOf(re, carg) == re.Param(0)
		}
		c.Check(okSeq, "old epoch database dropped, new one opened, index notified — in that order", "T2+T4", re.Pos(), "dropEpochDB() ok -> openEpochDB(newEpoch) ok -> EpochDBLoaded(newEpoch)", "the epoch store switch is out of order or uses a different epoch")
		// every nil return passes the callback (unless nil)
		if len(cb) == 1 {
			_, miss := core.PathQuery{F: re, From: re.Entry(), Avoid: core.PointSet(cb[0].Outer().Pt), AvoidEdge: re.GuardEdges(c09fieldNilFact(re, "abft.OrdererCallbacks.EpochDBLoaded", true)), Target: func(pt core.Point) bool {
				r, ok := pt.Node().(*ast.ReturnStmt)
				return ok && len(r.Results) == 1 && core.IsNil(re.Info(), r.Results[0])
			}}.Find()
			c.Check(!miss, "index is always told about the new epoch database", "T3 PostDominates", re.Pos(), "every successful return passes EpochDBLoaded (when set)", "the epoch store can be switched without resetting the vector index")
		}
		// openEpochDB: purge before install
		oe := c.Fn("abft.Store.openEpochDB")
		purge := oe.CallsMatching(func(cs *core.CallSite) bool {
			return cs.Name == "utils/simplewlru.Cache.Purge" && fieldNameOf(oe, cs.Recv()) == "abft.Store.cache.FrameRoots"
		})
		inst := assignsToField(oe, "abft.Store.epochDB")
		okP := len(purge) >= 1 && len(inst) >= 1
		for _, a := range inst {
			if o, _ := oe.MustPassBefore(core.Points(purge), a.Pt); !o {
				okP = false
			}
		}
		c.Check(okP, "cached roots are purged before the new epoch database is installed", "T2 Dominates", oe.Pos(), "cache.FrameRoots.Purge() dominates epochDB = getEpochDB(n)", "roots of the old epoch can be served from the cache in the new epoch")
		okNew := false
		for _, a := range inst {
			if call, ok := ast.Unparen(a.RHS).(*ast.CallExpr); ok && a.RHS != nil && fieldNameOf(oe, call.Fun) == "abft.Store.getEpochDB" && varOf(oe, call.Args[0]) == oe.Param(0) {
				okNew = true
			}
		}
		c.Check(okNew, "the database of the requested epoch is installed", "provenance", oe.Pos(), "epochDB = getEpochDB(n)", "a different epoch's database is installed")

		// onFrameDecided: seal branch
		// (the callback may be invoked in place or in a helper that hands its result back)
		newV := c09sealVar(od)
		c.Need(newV != nil, "newValidators = ApplyAtropos(...)")
		// "the callback returned validators", whether tested directly or through a boolean local
		sealed := c09lift(od, varNilFact(od, newV, false))
		notSealed := c09lift(od, varNilFact(od, newV, true))
		// the seal as a point of onFrameDecided: the call of the sealing helper with the callback's
		// validators, or — spelled in place — the write of the epoch state that holds them
		var sealPts []core.Point
		okS := false
		if inPlace {
			sealPts = core.Points(sets)
			okS = len(sets) == 1 && okVal && nv == newV
		} else {
			sealPts = core.Points(seals)
			pi := c24paramIndex(se, nv)
			okS = len(seals) == 1 && pi >= 0 && pi < len(seals[0].Call.Args) && varOf(od, seals[0].Call.Args[pi]) == newV
		}
		if okS {
			okS, _ = od.GuardedBy(sealPts[0], sealed)
		}
		c.Check(okS, "epoch is sealed exactly when the callback returned validators", "T4 GuardedBy", od.Pos(), "sealEpoch(newValidators) on the newValidators != nil edge", "sealing does not depend on the callback's validators")
		// and that edge always seals
		for _, e := range edgesWithFact(od, sealed) {
			_, miss := core.PathQuery{F: od, From: blockEntry(e.B.Succs[e.Succ]), Avoid: core.PointSet(sealPts...), TargetExit: true}.Find()
			c.Check(!miss, "returned validators always seal the epoch", "T3 PostDominates", od.Pos(), "the newValidators != nil edge always reaches sealEpoch", "validators returned by the callback can be ignored")
		}
		// Reset with the new validators at FirstFrame after sealing
		// (the Reset may be shared with the other branch and be fed by locals assigned per branch: what
		// counts is which definitions reach it on a run through sealEpoch)
		okR := false
		// (the Reset may also sit in a helper — shared with Orderer.Reset — that switches the epoch store
		// first and resets the election once that succeeded: its parameters are bound to the arguments)
		for _, rsite := range c09effectSites(od, func(cs *core.CallSite) bool { return cs.Name == "abft/election.Election.Reset" }, 2) {
			r := rsite.Outer()
			if len(sealPts) != 1 || len(rsite.Inner().Call.Args) != 2 || !od.CanReach(sealPts[0], r.Pt) {
				continue
			}
			seal := struct{ Pt core.Point }{sealPts[0]}
			vg, varg := c08arg(rsite, 0)
			fg, farg := c08arg(rsite, 1)
			if vg != od || fg == nil {
				continue
			}
			one, nV, nF := true, 0, 0
			for _, d := range c08reaching(od, varg, r.Pt, newV) {
				if !c08sameRun(od, d, seal.Pt) {
					continue
				}
				nV++
				if d.E == nil || varOf(od, d.E) != newV {
					one = false
				}
			}
			if fg == od {
				for _, d := range c08reaching(od, farg, r.Pt) {
					if !c08sameRun(od, d, seal.Pt) {
						continue
					}
					nF++
					if d.E == nil {
						one = false
						continue
					}
					if cst, isC := od.ObjOf(d.E).(*types.Const); !isC || p.ObjName(cst) != "abft.FirstFrame" {
						one = false
					}
				}
			} else {
				// the frame is chosen inside the helper: the constant itself
				nF++
				if cst, isC := fg.ObjOf(resolveLocal(fg, farg)).(*types.Const); !isC || p.ObjName(cst) != "abft.FirstFrame" {
					one = false
				}
			}
			// reached only after the epoch store switch of the seal path succeeded, and from the "validators
			// returned" edge only through the seal
			succ := false
			if switchInSeal {
				// the step of the seal that can fail, as a call of onFrameDecided: the sealing helper, or —
				// with the seal spelled in place — the epoch store switch that follows the write
				fallible := rs[0]
				if !inPlace {
					fallible = seals[0]
				}
				if ev := errVarOfCall(od, fallible.Call); ev != nil {
					succ, _ = od.GuardedBetween(fallible.Pt, r.Pt, varNilFact(od, ev, true))
				}
				if inPlace && succ {
					succ, _ = od.MustPassBetween(seal.Pt, []core.Point{fallible.Pt}, r.Pt)
				}
			} else if len(sw) == 1 {
				succ = c09siteAfterSuccess(sw[0], rsite)
			}
			edges := edgesWithFact(od, sealed)
			for _, e := range edges {
				if _, skip := (core.PathQuery{F: od, From: blockEntry(e.B.Succs[e.Succ]), Target: core.PointSet(r.Pt), Avoid: core.PointSet(seal.Pt)}).Find(); skip {
					succ = false
				}
			}
			if one && nV > 0 && nF > 0 && succ && len(edges) > 0 {
				okR = true
			}
		}
		c.Check(okR, "election restarts at the first frame with the new validators after sealing", "T2+T4", od.Pos(), "election.Reset(newValidators, FirstFrame) after sealEpoch succeeded", "after sealing the election is not reset to (new validators, first frame)")
		// the return value reports sealing
		// every successful return yields "validators were returned": the comparison itself (possibly held
		// in a boolean local), or a constant that agrees with the branch the return lies on
		okRet, nRet := true, 0
		for _, rp := range od.ReturnPoints() {
			r := rp.Node().(*ast.ReturnStmt)
			if len(r.Results) != 2 || !core.IsNil(od.Info(), r.Results[1]) {
				continue
			}
			nRet++
			one := false
			if cv, isC := core.ConstVal(od.Info(), r.Results[0]); isC && cv.Kind() == constant.Bool {
				if constant.BoolVal(cv) {
					one, _ = od.GuardedBy(rp, sealed)
				} else {
					one, _ = od.GuardedBy(rp, notSealed)
				}
			} else {
				one = sealed(core.Fact{Expr: r.Results[0], Truth: true})
			}
			okRet = okRet && one
		}
		c.Check(okRet && nRet >= 1, "onFrameDecided reports whether it sealed", "provenance", od.Pos(), "every successful return yields newValidators != nil", "callers cannot tell that the epoch was sealed")
		c08FrameBookkeeping(c)
	})

	c.Clause("C09.stop", func() { c09Stop(c) })

	c.Clause("C09.sibling", func() {
		rs := c.Fn("abft.Orderer.Reset")
		epoch, vals := rs.Param(0), rs.Param(1)
		ag := rs.CallsTo("abft.Store.applyGenesis")
		// the store switch and the election reset may sit in Reset itself or in a helper (shared with the
		// seal path) that hands the switch's error on and resets the election once it succeeded: the
		// helper's parameters are bound to Reset's arguments
		re := c08sitesOf(rs, "abft.Orderer.resetEpochStore", 2)
		er := c09effectSites(rs, func(cs *core.CallSite) bool { return cs.Name == "abft/election.Election.Reset" }, 2)
		ok := len(ag) == 1 && len(re) == 1 && len(er) == 1 && len(ag[0].Call.Args) == 2 && len(er[0].Inner().Call.Args) == 2
		if ok {
			rg, rarg := c08arg(re[0], 0)
			vg, varg := c08arg(er[0], 0)
			fg, farg := c08arg(er[0], 1)
			ok = varOf(rs, ag[0].Call.Args[0]) == epoch && varOf(rs, ag[0].Call.Args[1]) == vals &&
				rg == rs && varOf(rs, rarg) == epoch && vg == rs && varOf(rs, varg) == vals && fg != nil
			if ok {
				cst, isC := fg.ObjOf(resolveLocal(fg, farg)).(*types.Const)
				ok = isC && p.ObjName(cst) == "abft.FirstFrame"
			}
			d1, _ := rs.MustPassBefore(core.Points(ag), re[0].Outer().Pt)
			ok = ok && d1 && c09siteAfterSuccess(re[0], er[0])
		}
		c.Check(ok, "Reset performs the seal path's effects", "T16b SiblingAgreement", rs.Pos(), "applyGenesis(epoch, validators); resetEpochStore(epoch); election.Reset(validators, FirstFrame)", "Reset does not persist the state, switch the epoch database and reset the election like the seal path does")
		// applyGenesis persists (epoch, validators) and FirstFrame-1: the object handed to each setter holds
		// these values at the call, whether it was built by a composite literal or filled in field by field;
		// the parameters are identified by the type of the field they fill
		g := c.Fn("abft.Store.applyGenesis")
		pe, pv := g.Param(0), g.Param(1)
		if fe, fv := p.Field("abft.EpochState.Epoch"), p.Field("abft.EpochState.Validators"); fe != nil && fv != nil && !types.Identical(fe.Type(), fv.Type()) {
			if a, b := c09paramOfType(g, func(t types.Type) bool { return types.Identical(t, fe.Type()) }), c09paramOfType(g, func(t types.Type) bool { return types.Identical(t, fv.Type()) }); a != nil && b != nil {
				pe, pv = a, b
			}
		}
		isParam := func(want *types.Var) func(c09fval) bool {
			return func(fv c09fval) bool {
				return want != nil && fv.E != nil && varOf(g, resolveLocal(g, fv.E)) == want
			}
		}
		noFrame := func(fv c09fval) bool {
			if fv.Zero {
				first, known := c09constIntOf(g, "FirstFrame")
				return known && first == 1
			}
			if fv.E == nil {
				return false
			}
			l := core.Linearize(g.Info(), fv.E, func(e ast.Expr) string {
				if cst, ok := g.ObjOf(e).(*types.Const); ok && p.ObjName(cst) == "abft.FirstFrame" {
					return "first"
				}
				return ""
			})
			if l == nil {
				return false
			}
			// FirstFrame is a typed constant: the expression folds to a constant 0
			return (len(l.Coef) == 0 && l.C.Int64() == 0) || (coefIs(l, "first", 1) && l.C.Int64() == -1)
		}
		okE, okD := false, false
		se, sd := g.CallsTo("abft.Store.SetEpochState"), g.CallsTo("abft.Store.SetLastDecidedState")
		setsE, setsD := len(se) == 1, len(sd) == 1
		if setsE && len(se[0].Call.Args) == 1 {
			if fields, _, built := c09structAt(g, se[0].Call.Args[0], se[0].Pt); built {
				okE = c09fieldAll(fields, "abft.EpochState.Epoch", isParam(pe)) && c09fieldAll(fields, "abft.EpochState.Validators", isParam(pv))
			}
		}
		if setsD && len(sd[0].Call.Args) == 1 {
			if fields, _, built := c09structAt(g, sd[0].Call.Args[0], sd[0].Pt); built {
				okD = c09fieldAll(fields, "abft.LastDecidedState.LastDecidedFrame", noFrame)
			}
		}
		c.Check(okE && okD && setsE && setsD, "applyGenesis persists the epoch state and 'no decided frames'", "T16b SiblingAgreement", g.Pos(), "EpochState{epoch, validators} and LastDecidedFrame = FirstFrame-1 are stored through the setters", "a reset instance does not start from (epoch, validators, no decided frames)")
	})

	c09Index(c)
}
