package rules

import (
	"go/ast"
	"go/types"
	"math/big"

	"lachk/core"
)

// The upper bound basiccheck puts on an event's sequence number (C20.fork compares the fork sentinel
// with it) is located by what it does, not by the name or kind of the function that holds the test:
// starting at the exported entry point basiccheck.Checker.Validate, the event parameter is followed
// into the declared functions of the same package it is handed to (methods of the checker or plain
// functions alike, a few levels deep); the bound is decided in every one of them (the entry point
// included, when the test is written in place) that returns nil only over Seq < K.

// c20LimitSite is one function on the way of the event through basiccheck, with the parameter that
// stands for the validated event there.
type c20LimitSite struct {
	F  *core.FuncInfo
	Ev *types.Var
}

// c20EventFlow lists the entry point and the same-package functions the event is passed on to.
func c20EventFlow(entry *core.FuncInfo, ev *types.Var) []c20LimitSite {
	out := []c20LimitSite{{entry, ev}}
	seen := map[*core.FuncInfo]bool{entry: true}
	for depth, frontier := 0, out; depth < 3 && len(frontier) > 0; depth++ {
		var next []c20LimitSite
		for _, s := range frontier {
			for _, cs := range s.F.Calls() {
				g := c20Callee(s.F, cs)
				if g == nil || seen[g] || g.Pkg != entry.Pkg || g.Body == nil {
					continue
				}
				for i, a := range cs.Call.Args {
					if varOf(s.F, core.StripConv(s.F.Info(), a)) != s.Ev {
						continue
					}
					if p := g.Param(i); p != nil && c20ParamIndex(g, p) == i {
						seen[g] = true
						next = append(next, c20LimitSite{g, p})
					}
					break
				}
			}
		}
		out = append(out, next...)
		frontier = next
	}
	return out
}

// c20SeqBoundFact builds the fact predicate "ev.Seq() <= K" (normalised) for function g; every match
// records K through got.
func c20SeqBoundFact(g *core.FuncInfo, ev *types.Var, got func(*big.Int)) func(core.Fact) bool {
	return func(ft core.Fact) bool {
		lc, ok := core.NormLinCmp(g.Info(), ft, func(e ast.Expr) string {
			if call := isCallTo(g, e, "inter/dag.Event.Seq"); call != nil {
				if sel, ok := ast.Unparen(call.Fun).(*ast.SelectorExpr); ok && varOf(g, sel.X) == ev {
					return "seq"
				}
			}
			return ""
		})
		if !ok || lc.Op != "<=" || len(lc.Form.Coef) != 1 || lc.Form.Coef["seq"] == nil || lc.Form.Coef["seq"].Cmp(big.NewInt(1)) != 0 {
			return false
		}
		// seq + C <= 0  =>  seq <= -C
		got(new(big.Int).Neg(lc.Form.C))
		return true
	}
}

// c20AcceptingReturns: the returns of g whose error result (the last one) is nil.
func c20AcceptingReturns(g *core.FuncInfo) []core.Point {
	var out []core.Point
	for _, rp := range g.ReturnPoints() {
		r, ok := rp.Node().(*ast.ReturnStmt)
		if ok && len(r.Results) > 0 && core.IsNil(g.Info(), r.Results[len(r.Results)-1]) {
			out = append(out, rp)
		}
	}
	return out
}

// c20SeqLimitSites returns the functions on the event's way through basiccheck that bound Seq: at
// least one of their accepting returns is reached only over Seq <= K.
func c20SeqLimitSites(c *core.Ctx) (entry *core.FuncInfo, sites []c20LimitSite) {
	entry = c.Fn("eventcheck/basiccheck.Checker.Validate")
	ev := entry.Param(0)
	c.Need(ev != nil && c20ParamIndex(entry, ev) == 0, "basiccheck.Validate has a named event parameter that is not reassigned")
	for _, s := range c20EventFlow(entry, ev) {
		bounded := false
		for _, rp := range c20AcceptingReturns(s.F) {
			if g, _ := c19GuardedLocally(s.F, rp, c20SeqBoundFact(s.F, s.Ev, func(*big.Int) {})); g {
				bounded = true
			}
		}
		if bounded {
			sites = append(sites, s)
		}
	}
	return entry, sites
}
