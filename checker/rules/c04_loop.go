package rules

import (
	"go/ast"
	"go/token"
	"go/types"

	"lachk/core"
)

// c04Loop decides the frame search of calcFrameIdx on the CFG, independent of how the loop is
// written (three-clause for, while-form with break, named result as the loop variable, …):
//
//	the frame variable fv is the second argument of the only forklessCausedByQuorumOn(e, fv) test;
//	every definition of fv is the self-parent's frame (INIT), a step by one (INC) or the 0 -> 1 fix;
//	INIT dominates the test and every return; the test and INC alternate, INC only on the test's true edge;
//	the test is evaluated only under fv < bound, and the search ends only on fv >= bound or a failed test;
//	the bound read by that comparison is e.Frame() on every check-mode path and self-parent frame + 100 on
//	every build-mode path (reaching definitions restricted to the paths of the mode);
//	a result 0 is replaced by 1 and (self-parent frame, fv) is what is returned.
func c04Loop(c *core.Ctx) {
	an := c04Locate(c)
	for _, pr := range an.problems {
		c.Need(false, pr)
	}
	c.Need(an.build != nil && an.check != nil, "the frame search has a build-side and a processing-side caller")
	f, e, checkOnly, q := an.search, an.e, an.modeP, an.q
	c.Need(an.nres == 1 || an.nres == 2, short(f.Name)+" returns the frame (optionally preceded by the self-parent's frame)")
	// the frame variable: the local integer variable the quorum test is asked for
	var fvar *types.Var
	for _, arg := range q.Call.Args {
		v := varOf(f, arg)
		if v == nil || canonVar(f, v) == e || c04ParamIndex(f, v) >= 0 {
			continue
		}
		if b, isBasic := v.Type().Underlying().(*types.Basic); isBasic && b.Info()&types.IsInteger != 0 {
			fvar = v
		}
	}
	c.Need(fvar != nil, "the quorum test is forklessCausedByQuorumOn(e, <frame variable>)")
	isInt := func(v *types.Var) bool {
		b, isBasic := v.Type().Underlying().(*types.Basic)
		return isBasic && b.Info()&types.IsInteger != 0
	}

	// named results
	var res []*types.Var
	if f.Type.Results != nil {
		for _, fl := range f.Type.Results.List {
			for _, nm := range fl.Names {
				v, _ := f.Info().Defs[nm].(*types.Var)
				res = append(res, v)
			}
		}
	}
	// the self-parent frame variable: with two results, named result 0, else the variable every return gives
	// as result 0; with one result, the variable the frame variable is started from (a local, or a parameter
	// whose value the callers compute)
	var spf *types.Var
	switch {
	case an.nres == 2 && len(res) == 2:
		spf = res[0]
	case an.nres == 2:
		for _, rp := range f.ReturnPoints() {
			r := rp.Node().(*ast.ReturnStmt)
			if len(r.Results) != 2 {
				spf = nil
				break
			}
			v := canonVar(f, varOf(f, r.Results[0]))
			if v == nil || (spf != nil && spf != v) {
				spf = nil
				break
			}
			spf = v
		}
	default:
		for _, a := range assignsToVar(f, fvar) {
			if a.RHS == nil || a.Tok == token.INC || a.Tok == token.ADD_ASSIGN {
				continue
			}
			if as, isAs := a.Stmt.(*ast.AssignStmt); isAs && len(as.Lhs) != len(as.Rhs) {
				continue
			}
			if v := canonVar(f, varOf(f, core.StripConv(f.Info(), a.RHS))); v != nil && v != fvar && isInt(v) && spf == nil {
				spf = v
			}
		}
	}
	c.Need(spf != nil, "calcFrameIdx starts the search from a variable holding the self-parent's frame")
	spfParam := c04ParamIndex(f, spf)
	isSpf := func(x ast.Expr) bool {
		return x != nil && canonVar(f, varOf(f, core.StripConv(f.Info(), x))) == spf
	}
	spfVal := c04Spf{2}

	// ---- definitions of the frame variable
	var inits, incs, ones []assignment
	var other *assignment
	for _, a := range assignsToVar(f, fvar) {
		a := a
		_, isSpec := a.Stmt.(*ast.ValueSpec)
		as, isAssign := a.Stmt.(*ast.AssignStmt)
		plain := a.RHS != nil && (isSpec || (isAssign && len(as.Lhs) == len(as.Rhs) && (as.Tok == token.ASSIGN || as.Tok == token.DEFINE)))
		stepByOne := func() bool {
			l := core.Linearize(f.Info(), a.RHS, func(x ast.Expr) string {
				if varOf(f, x) == fvar {
					return "f"
				}
				return ""
			})
			return c04LinIs(l, "f", 1)
		}
		switch {
		case a.RHS == nil && isSpec:
			// `var f idx.Frame`: zero value, must be overwritten by an INIT (dominance is checked below)
		case a.Tok == token.INC:
			incs = append(incs, a)
		case isAssign && as.Tok == token.ADD_ASSIGN && len(as.Lhs) == 1 && core.IsConstInt(f.Info(), a.RHS, 1):
			incs = append(incs, a)
		case plain && isSpf(a.RHS):
			inits = append(inits, a)
		case plain && stepByOne():
			incs = append(incs, a)
		case plain && core.IsConstInt(f.Info(), a.RHS, 1):
			ones = append(ones, a)
		default:
			if other == nil {
				other = &a
			}
		}
	}
	initPts, incPts, onePts := pointsOfAssign(inits), pointsOfAssign(incs), pointsOfAssign(ones)
	starts := append(append([]assignment{}, inits...), incs...)

	rets := f.ReturnPoints()
	{
		okS, whyS, posS := true, "", f.Pos()
		if spfParam >= 0 {
			// the callers compute the value: decided at each call site, for the caller's event
			if _, stable := c05StableParam(f, spf); !stable {
				okS, whyS = false, "the parameter holding the self-parent's frame is modified in "+short(f.Name)
			}
			for _, cl := range []*c04Caller{an.build, an.check} {
				if !okS {
					break
				}
				if spfParam >= len(cl.cs.Call.Args) || cl.ev == nil {
					okS, whyS, posS = false, "the call does not pass a starting frame for its event", cl.cs.Pos()
					continue
				}
				if o, w := spfVal.expr(cl.f, cl.ev, cl.cs.Call.Args[spfParam], cl.cs.Pt); !o {
					okS, whyS, posS = false, "in "+short(cl.f.Name)+": "+w, cl.cs.Pos()
				}
			}
		} else {
			uses := append([]core.Point{}, initPts...)
			if an.nres == 2 {
				uses = append(uses, rets...)
			}
			okS, whyS = spfVal.variable(f, e, spf, uses, len(res) == 2)
		}
		c.Check(okS, "self-parent frame is the stored self-parent's frame", "provenance (reaching definitions)", posS,
			"the starting frame is GetEvent(*e.SelfParent()).Frame() on every path where a self-parent exists, else 0 (decided in the search function or at its callers)", whyS)
	}

	// ---- start value and step
	{
		ok, pos, why := true, f.Pos(), ""
		fail := func(p token.Pos, s string) {
			if ok {
				ok, pos, why = false, p, s
			}
		}
		if other != nil {
			fail(other.Stmt.Pos(), "the frame variable is also given a value that is neither the self-parent's frame nor a step by one (a frame can be skipped without its quorum test)")
		}
		if len(inits) == 0 {
			fail(f.Pos(), "the frame search does not start at the self-parent's frame")
		}
		if len(incs) == 0 {
			fail(f.Pos(), "the frame variable is never advanced by one")
		}
		if ok {
			if d, wit := f.MustPassBefore(initPts, q.Pt); !d {
				fail(q.Pos(), "the quorum test can run before the frame variable is set to the self-parent's frame: "+f.DescribePath(wit))
			}
			for _, rp := range rets {
				if d, wit := f.MustPassBefore(initPts, rp); !d {
					fail(posOf(rp), "a result can be returned that was never set to the self-parent's frame: "+f.DescribePath(wit))
				}
			}
			for _, in := range inits {
				// re-initialisation inside the search would restart it
				if f.CanReach(q.Pt, in.Pt) {
					fail(in.Stmt.Pos(), "the frame variable is reset to the self-parent's frame after a quorum test")
				}
			}
		}
		c.Check(ok, "loop starts at the self-parent's frame and steps by one", "T8 DecisionTable (definitions of the frame variable)", pos,
			"every definition of the frame variable is the self-parent's frame (before the first test) or a step by one", why)
	}
	if len(inits) == 0 || len(incs) == 0 {
		return
	}

	// ---- continuation: test and step alternate; test only below the bound; leave only on f >= bound or a failed test
	isQ := func(truth bool) func(core.Fact) bool {
		return func(ft core.Fact) bool {
			cm, k := core.NormCmp(ft)
			if !k || cm.R != nil || (cm.Op == token.EQL) != truth {
				return false
			}
			call, isCall := resolveLocal(f, cm.L).(*ast.CallExpr)
			return isCall && call == q.Call
		}
	}
	boundOf := func(ft core.Fact) ast.Expr {
		if cm, k := core.NormCmp(ft); k && cm.R != nil && cm.Op == token.LSS && varOf(f, cm.L) == fvar {
			return cm.R
		}
		return nil
	}
	// the bound variable: among the variables B of the "fv < B" facts in the function, the one whose test
	// guards the quorum test for the current value of the frame variable (in the test's own short-circuit
	// condition, or on every path from a definition of the frame variable to the test)
	var condFacts []core.Fact
	if cond, isExpr := q.Pt.Node().(ast.Expr); isExpr {
		condFacts = c04EvalFacts(cond, q.Call)
	}
	type boundCand struct {
		v    *types.Var
		uses []core.Point
	}
	var cands []*boundCand
	noteBound := func(ft core.Fact, at core.Point) {
		v := varOf(f, boundOf(ft))
		if v == nil {
			return
		}
		for _, bc := range cands {
			if bc.v == v {
				bc.uses = append(bc.uses, at)
				return
			}
		}
		cands = append(cands, &boundCand{v, []core.Point{at}})
	}
	for _, ft := range condFacts {
		noteBound(ft, q.Pt)
	}
	for _, b := range f.CFG().Blocks {
		if !b.Live || f.BranchCond(b) == nil {
			continue
		}
		for s := 0; s < 2; s++ {
			for _, ft := range f.EdgeFacts(b, s) {
				noteBound(ft, core.Point{B: b, I: len(b.Nodes) - 1})
			}
		}
	}
	ltOf := func(v *types.Var) func(core.Fact) bool {
		return func(ft core.Fact) bool { return v != nil && varOf(f, boundOf(ft)) == v }
	}
	// guardWitness: "" when the test is evaluated only under fv < v
	guardWitness := func(v *types.Var) string {
		for _, ft := range condFacts {
			if ltOf(v)(ft) {
				return ""
			}
		}
		n := 0
		for _, d := range starts {
			if !f.CanReach(d.Pt, q.Pt) {
				continue
			}
			n++
			if g, wit := f.GuardedBetween(d.Pt, q.Pt, ltOf(v)); !g {
				return f.DescribePath(append([]core.Point{d.Pt}, wit...))
			}
		}
		if n == 0 {
			return "the test is not reached from a definition of the frame variable"
		}
		return ""
	}
	var bound *types.Var
	var guardUses []core.Point
	boundOK := false
	for _, bc := range cands {
		if guardWitness(bc.v) == "" {
			bound, guardUses, boundOK = bc.v, bc.uses, true
			break
		}
	}
	if bound == nil && len(cands) > 0 {
		bound, guardUses = cands[0].v, cands[0].uses
	}
	isLT := ltOf(bound)
	isGE := func(ft core.Fact) bool { return isLT(c04Negate(ft)) }
	{
		ok, pos, why := true, q.Pos(), ""
		fail := func(p token.Pos, s string) {
			if ok {
				ok, pos, why = false, p, s
			}
		}
		if bound == nil {
			fail(q.Pos(), "no test 'f < B' against a bound variable B exists in calcFrameIdx: the frame search is unbounded or bounded in a form the rule does not recognise")
		} else if !boundOK {
			fail(q.Pos(), "the quorum test is evaluated without 'f < bound' having been tested for the current frame: "+guardWitness(bound))
		}
		if !f.CanReach(q.Pt, q.Pt) {
			fail(q.Pos(), "the quorum test is not repeated frame by frame")
		}
		if ok {
			if d, wit := f.MustPassBetween(q.Pt, incPts, q.Pt); !d {
				fail(q.Pos(), "the quorum test can be repeated without advancing the frame: "+f.DescribePath(wit))
			}
			for _, in := range incs {
				if d, wit := f.MustPassBefore([]core.Point{q.Pt}, in.Pt); !d {
					fail(in.Stmt.Pos(), "the frame can be advanced without a quorum test: "+f.DescribePath(wit))
				}
				if g, wit := f.GuardedBetween(q.Pt, in.Pt, isQ(true)); !g {
					fail(in.Stmt.Pos(), "the frame is advanced although the quorum test failed: "+f.DescribePath(wit))
				}
				for _, in2 := range incs {
					if d, wit := f.MustPassBetween(in.Pt, []core.Point{q.Pt}, in2.Pt); !d {
						fail(in2.Stmt.Pos(), "the frame is advanced twice with one quorum test (a frame is skipped): "+f.DescribePath(wit))
					}
				}
			}
			// (the test is evaluated only below the bound: established when the bound variable was chosen)
			// the search is left only because the bound is reached or the test failed
			leave := c04AllAltsMatch(f, func(ft core.Fact) bool { return isGE(ft) || isQ(false)(ft) })
			for _, d := range starts {
				path, found := core.PathQuery{F: f, From: d.Pt, FromAfter: true, TargetExit: true, Avoid: core.PointSet(incPts...), AvoidEdge: leave}.Find()
				if found {
					fail(posOf(path[len(path)-1]), "the search can stop although the frame is below the bound and forkless-caused by a quorum (another condition ends it): "+f.DescribePath(path))
				}
			}
		}
		c.Check(ok, "loop continues only while below the bound and forkless-caused by a quorum at f", "T8 DecisionTable (CFG: test/step alternation, guards, exits)", pos,
			"test and step alternate; the test runs only under f < bound; the search ends only on f >= bound or a failed test", why)
	}

	// ---- the bound: claimed frame in check mode, self-parent frame + 100 in build mode
	if bound == nil {
		c.Undecided("build bound is the self-parent's frame + 100", "T15 ConstRelation", f.Pos(), "the bound of the frame search is not a single local variable")
		c.Undecided("processing bound is the claimed frame", "T8 DecisionTable", f.Pos(), "the bound of the frame search is not a single local variable")
	} else if bi := c04ParamIndex(f, bound); bi >= 0 {
		// the callers pass the bound in: decided at the call sites, each for its own event
		_, stable := c05StableParam(f, bound)
		bcl, ccl := an.build, an.check
		okB := stable && bi < len(bcl.cs.Call.Args) && bcl.ev != nil
		if okB {
			g := bcl.f
			l := core.Linearize(g.Info(), resolveLocal(g, bcl.cs.Call.Args[bi]), func(x ast.Expr) string {
				if o, _ := spfVal.expr(g, bcl.ev, x, bcl.cs.Pt); o {
					return "spf"
				}
				return ""
			})
			okB = c04LinIs(l, "spf", 100)
		}
		c.Check(okB, "build bound is the self-parent's frame + 100", "T15 ConstRelation (bound passed by the build-side caller)", bcl.cs.Pos(),
			"the build-side caller passes selfParentFrame + 100 as the bound of the search",
			"in build mode the bound of the frame search is not selfParentFrame + 100 (the value "+short(bcl.f.Name)+" passes)")
		okC := stable && bi < len(ccl.cs.Call.Args) && ccl.ev != nil
		if okC {
			call := c04MethodOn(ccl.f, ccl.cs.Call.Args[bi], "Frame", ccl.ev)
			okC = call != nil && len(call.Args) == 0
		}
		c.Check(okC, "processing bound is the claimed frame", "T8 DecisionTable (bound passed by the processing-side caller)", ccl.cs.Pos(),
			"the processing-side caller passes e.Frame() as the bound of the search",
			"in check mode the bound of the frame search is not the claimed frame e.Frame() (another limit, e.g. the Build cap, clamps processing, so an allowed claimed frame is answered with ErrWrongFrame): the value "+short(ccl.f.Name)+" passes")
	} else if checkOnly == nil {
		c.Undecided("build bound is the self-parent's frame + 100", "T15 ConstRelation", f.Pos(), "the bound of the frame search is a local of a search function without a mode parameter")
		c.Undecided("processing bound is the claimed frame", "T8 DecisionTable", f.Pos(), "the bound of the frame search is a local of a search function without a mode parameter")
	} else {
		claimed := func(a assignment) bool {
			call := c04MethodOn(f, a.RHS, "Frame", e)
			return call != nil && len(call.Args) == 0
		}
		capped := func(a assignment) bool {
			l := core.Linearize(f.Info(), resolveLocal(f, a.RHS), func(x ast.Expr) string {
				if isSpf(x) {
					return "spf"
				}
				return ""
			})
			return c04LinIs(l, "spf", 100)
		}
		okB, _, posB, witB := c04LastDef(f, bound, guardUses, f.GuardEdges(c04BoolFact(f, checkOnly, true)), capped, false)
		c.Check(okB, "build bound is the self-parent's frame + 100", "T15 ConstRelation (reaching definitions on the build-mode paths)", posB,
			"on every path with checkOnly false the bound read by the loop is selfParentFrame + 100",
			"in build mode the bound of the frame search is not selfParentFrame + 100: "+witB)
		okC, _, posC, witC := c04LastDef(f, bound, guardUses, f.GuardEdges(c04BoolFact(f, checkOnly, false)), claimed, false)
		c.Check(okC, "processing bound is the claimed frame", "T8 DecisionTable (reaching definitions on the check-mode paths)", posC,
			"on every path with checkOnly true the bound read by the loop is e.Frame()",
			"in check mode the bound of the frame search is not always the claimed frame e.Frame() (another limit, e.g. the Build cap, clamps processing, so an allowed claimed frame is answered with ErrWrongFrame): "+witC)
	}

	// ---- 0 -> 1 and the returned pair
	{
		isZero := func(ft core.Fact) bool {
			lc, k := core.NormLinCmp(f.Info(), ft, func(x ast.Expr) string {
				if varOf(f, x) == fvar {
					return "f"
				}
				return ""
			})
			return k && (lc.Equal(core.ParseLinCmp("f == 0")) || lc.Equal(core.ParseLinCmp("f <= 0")))
		}
		nonZero := func(ft core.Fact) bool { return isZero(c04Negate(ft)) }
		// with a single result, `return 1` behind the zero test is the replacement as well
		var oneRets []core.Point
		if an.nres == 1 {
			for _, rp := range rets {
				if r, _ := rp.Node().(*ast.ReturnStmt); r != nil && len(r.Results) == 1 && core.IsConstInt(f.Info(), r.Results[0], 1) {
					oneRets = append(oneRets, rp)
				}
			}
		}
		isOneRet := core.PointSet(oneRets...)
		ok, pos, why := len(ones)+len(oneRets) > 0, f.Pos(), "a calculated frame 0 is not replaced by 1"
		fail := func(p token.Pos, s string) {
			if ok {
				ok, pos, why = false, p, s
			}
		}
		for _, rp := range oneRets {
			if g, wit := f.GuardedBy(rp, isZero); !g {
				fail(posOf(rp), "1 is returned although the frame was not 0: "+f.DescribePath(wit))
			}
		}
		for _, o := range ones {
			if g, wit := f.GuardedBy(o.Pt, isZero); !g {
				fail(o.Stmt.Pos(), "the frame is set to 1 although it was not 0: "+f.DescribePath(wit))
			}
			if f.CanReach(o.Pt, q.Pt) {
				fail(o.Stmt.Pos(), "the frame is set to 1 inside the search")
			}
		}
		if ok {
			avoid := core.PointSet(append(append(append([]core.Point{}, onePts...), incPts...), oneRets...)...)
			for _, d := range starts {
				path, found := core.PathQuery{F: f, From: d.Pt, FromAfter: true, TargetExit: true, Avoid: avoid, AvoidEdge: f.GuardEdges(nonZero)}.Find()
				if found {
					fail(posOf(path[len(path)-1]), "frame 0 can be returned (an event without self-parent must get frame 1): "+f.DescribePath(path))
				}
			}
		}
		for _, rp := range rets {
			r := rp.Node().(*ast.ReturnStmt)
			good := false
			switch {
			case isOneRet(rp):
				good = true
			case len(r.Results) == 2 && an.nres == 2:
				good = isSpf(r.Results[0]) && varOf(f, r.Results[1]) == fvar
			case len(r.Results) == 1 && an.nres == 1:
				good = varOf(f, r.Results[0]) == fvar
			case len(r.Results) == 0:
				good = (len(res) == 2 && res[0] == spf && res[1] == fvar) || (len(res) == 1 && res[0] == fvar)
			}
			if !good {
				fail(r.Pos(), "a return does not give (self-parent frame, frame variable of the search)")
			}
		}
		c.Check(ok, "result 0 becomes 1 and the loop variable is returned", "T8 DecisionTable", pos, "a result 0 is replaced by 1 on every path; every return gives (selfParentFrame, f)", why)
	}
}
