package rules

import (
	"go/ast"
	"go/token"
	"go/types"

	"lachk/core"
)

// c32idWriter describes a function that writes the complete event ID layout on every path to return:
// the variable (receiver, parameter or local) whose id field it fills and the variable supplying the tail.
type c32idWriter struct {
	root *types.Var
	tail *types.Var
}

// c32rawRoot strips field selections, indexing, slicing, dereferences and address-of from e and returns
// the variable at the bottom (nil if there is none). Locals are NOT looked through: a local copy of an
// event is a different event.
func c32rawRoot(f *core.FuncInfo, e ast.Expr) *types.Var {
	for {
		e = ast.Unparen(e)
		switch x := e.(type) {
		case *ast.SelectorExpr:
			if s, ok := f.Info().Selections[x]; !ok || s.Kind() != types.FieldVal {
				return nil
			}
			e = x.X
			continue
		case *ast.IndexExpr:
			e = x.X
			continue
		case *ast.SliceExpr:
			e = x.X
			continue
		case *ast.StarExpr:
			e = x.X
			continue
		case *ast.UnaryExpr:
			if x.Op == token.AND {
				e = x.X
				continue
			}
		}
		break
	}
	return varOfRaw(f, e)
}

// c32resolveIDWriter decides whether f writes the whole ID on every path to return, itself (it is in
// `direct`) or by calling — on every path — a method that does so for its receiver; it returns whose ID
// is written in terms of f's variables and which of f's variables supplies the tail.
func c32resolveIDWriter(f *core.FuncInfo, direct map[*core.FuncInfo]c32idWriter, depth int) (c32idWriter, string) {
	if w, ok := direct[f]; ok {
		return w, ""
	}
	if depth <= 0 {
		return c32idWriter{}, "no complete ID write found within the helper depth"
	}
	why := "it neither writes the ID layout itself nor calls a helper that always does"
	for _, cs := range f.Calls() {
		if cs.InGo || cs.InDefer || cs.Recv() == nil {
			continue
		}
		fn, ok := cs.Callee.(*types.Func)
		if !ok {
			continue
		}
		g := f.P.FuncOf(fn)
		if g == nil || g == f {
			continue
		}
		w, gwhy := c32resolveIDWriter(g, direct, depth-1)
		if gwhy != "" {
			continue
		}
		if g.Recv() == nil || w.root != g.Recv() {
			why = "the helper " + short(g.Name) + " writes the ID of " + w.root.Name() + ", not of its receiver"
			continue
		}
		if _, isPtr := g.Recv().Type().Underlying().(*types.Pointer); !isPtr {
			why = "the helper " + short(g.Name) + " has a value receiver: it fills the ID of a copy"
			continue
		}
		ti := c24paramIndex(g, w.tail)
		if ti < 0 || ti >= len(cs.Call.Args) {
			why = "the helper " + short(g.Name) + " does not take the ID tail as a parameter"
			continue
		}
		tail := varOf(f, cs.Call.Args[ti])
		if tail == nil || c24paramIndex(f, tail) < 0 || len(assignsToVar(f, tail)) != 0 {
			why = "the ID tail handed to " + short(g.Name) + " does not come from the operation's rID parameter (unchanged)"
			continue
		}
		if _, skip := (core.PathQuery{F: f, From: f.Entry(), Avoid: core.PointSet(cs.Pt), TargetExit: true}).Find(); skip {
			why = "the call of " + short(g.Name) + " is not on every path to return"
			continue
		}
		root := c32rawRoot(f, cs.Recv())
		if root == nil {
			why = "the receiver of " + short(g.Name) + " is not a field path of a variable"
			continue
		}
		return c32idWriter{root: root, tail: tail}, ""
	}
	return c32idWriter{}, why
}
