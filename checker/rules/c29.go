package rules

import (
	"fmt"
	"go/ast"
	"go/token"
	"go/types"
	"sort"
	"strings"

	"lachk/core"
)

const lruT = "utils/simplewlru.Cache"

func init() {
	register("C29", "other", "T7 Pairing, T3 PostDominates, T12 Purity, T4 GuardedBy (normalised loop condition)",
		"Decides the bookkeeping shape the LRU model depends on: every removal from the item map is paired with the weight decrement, the list removal and a nil-guarded eviction callback (each removed entry reported once, weight consistent); every growth of weight or of the list and every change of the bounds is followed by normalize(), whose loop exits only when weight <= maxWeight and length <= maxSize and which evicts the list's back element; Get and Add-of-existing refresh recency (MoveToFront), while Peek/Contains/Keys/Len/Weight/Total/GetOldest are read-only by the purity analysis; Keys walks from the back via Prev (oldest to newest); the thread-safe wrapper delegates each exported method (calls made through its unexported helpers included) to the same-named method under its lock, the two check-then-add composites to one read-only lookup (Contains or Peek; Peek when the previous value is returned) plus Add. The back element and the 'list is empty' fact may come from an accessor with several results (`elem, found := c.oldest()`): they are read from the accessor's returns. Equivalence with an LRU model over histories is not decided.",
		[]string{"container/list contract (Back is the least recently moved-to-front element)", "eviction callbacks are opaque"},
		runC29)
}

func runC29(c *core.Ctx) {
	p := c.P
	itemsF, weightF, listF, evictF := lruT+".items", lruT+".weight", lruT+".evictList", lruT+".onEvict"

	c.Clause("C29.removal", func() {
		for _, n := range []string{itemsF, weightF, listF, evictF} {
			c.Fld(n)
		}
		nDel := 0
		for _, f := range p.MethodsOf(lruT) {
			for _, cs := range f.CallsTo("builtin.delete") {
				if len(cs.Call.Args) == 0 || fieldNameOf(f, cs.Call.Args[0]) != itemsF {
					continue
				}
				nDel++
				who := short(f.Name)
				// weight decrement
				var dec []core.Point
				for _, a := range assignsToField(f, weightF) {
					if a.Tok == token.SUB_ASSIGN {
						dec = append(dec, a.Pt)
					}
				}
				ok, wit := pairedWith(f, cs.Pt, dec)
				c.Check(ok, who+"|delete paired with weight-=", "T7 Pairing", cs.Pos(), "every path through delete(items,·) also decrements weight in the same iteration", "delete(items,·) without weight decrement on path "+f.DescribePath(wit))
				// eviction callback, nil-guarded, on every path where the callback is set
				ev := f.CallsTo(evictF)
				okCall := len(ev) > 0
				for _, e := range ev {
					if g, _ := f.GuardedBy(e.Pt, fieldNilFact(f, evictF, false)); !g {
						okCall = false
						c.Fail(who+"|onEvict nil-guarded", "T4 GuardedBy", e.Pos(), "eviction callback may be called when nil")
					}
				}
				if okCall {
					// every path through the delete passes the callback or the callback==nil edge (same iteration)
					nilEdge := f.GuardEdges(fieldNilFact(f, evictF, true))
					evSet := core.PointSet(core.Points(ev)...)
					// before or after
					pre, _ := core.PathQuery{F: f, From: f.Entry(), Target: core.PointSet(cs.Pt), Avoid: evSet, AvoidEdge: nilEdge}.Find()
					_, postFound := core.PathQuery{F: f, From: cs.Pt, FromAfter: true, Avoid: evSet, AvoidEdge: nilEdge, TargetExit: true}.Find()
					before := pre == nil
					if before && f.CanReach(cs.Pt, cs.Pt) {
						_, again := core.PathQuery{F: f, From: cs.Pt, FromAfter: true, Target: core.PointSet(cs.Pt), Avoid: evSet, AvoidEdge: nilEdge}.Find()
						before = !again
					}
					c.Check(before || !postFound, who+"|delete paired with onEvict", "T7 Pairing", cs.Pos(),
						"every removed entry is reported to the (non-nil) eviction callback on the path of its removal", "an entry can be removed without the eviction callback being invoked")
				} else if len(ev) == 0 {
					c.Fail(who+"|delete paired with onEvict", "T7 Pairing", cs.Pos(), "entries are deleted without any eviction callback call in this function")
				}
				// list removal: evictList.Remove in the same iteration or evictList.Init after the loop
				rm := core.Points(f.CallsMatching(func(x *core.CallSite) bool {
					return (x.Name == "container/list.List.Remove" || x.Name == "container/list.List.Init") && fieldNameOf(f, x.Recv()) == listF
				}))
				okL := false
				if len(rm) > 0 {
					if a, _ := f.MustPassBefore(rm, cs.Pt); a {
						okL = true
					} else if b, _ := f.MustPassAfter(cs.Pt, rm); b {
						okL = true
					}
				}
				c.Check(okL, who+"|delete paired with list removal", "T7 Pairing", cs.Pos(), "the list element is removed (Remove / Init) on every path through the map delete", "map entry deleted but its list element can stay in the eviction list")
			}
		}
		// (Purge may delete in a loop of its own or through removeElement: one site is enough against vacuity)
		c.ExpectAtLeast("delete(items,·) sites", nDel, 1)
		// who may remove from the list / map: only Purge and removeElement
		for _, f := range p.MethodsOf(lruT) {
			for _, cs := range f.Calls() {
				if (cs.Name == "container/list.List.Remove" || cs.Name == "container/list.List.Init") && fieldNameOf(f, cs.Recv()) == listF {
					del := f.CallsMatching(func(x *core.CallSite) bool {
						return x.Name == "builtin.delete" && len(x.Call.Args) > 0 && fieldNameOf(f, x.Call.Args[0]) == itemsF
					})
					ok, _ := pairedWith(f, cs.Pt, core.Points(del))
					// Init after a loop deleting every item: the deletes are in the loop that precedes
					if !ok && cs.Name == "container/list.List.Init" && len(del) > 0 {
						ok = true
						for _, d := range del {
							if !f.CanReach(d.Pt, cs.Pt) {
								ok = false
							}
						}
					}
					c.Check(ok, short(f.Name)+"|list removal paired with map delete", "T7 Pairing", cs.Pos(), "list removal is paired with the item-map delete", "list element removed without deleting the map entry")
				}
			}
		}
	})

	c.Clause("C29.insert", func() {
		// every insertion into items is paired with PushFront and weight += (same function)
		n := 0
		for _, f := range p.MethodsOf(lruT) {
			for _, a := range assignments(f) {
				ix, ok := ast.Unparen(a.LHS).(*ast.IndexExpr)
				if !ok || fieldNameOf(f, ix.X) != itemsF {
					continue
				}
				n++
				var inc []core.Point
				for _, w := range assignsToField(f, weightF) {
					if w.Tok == token.ADD_ASSIGN {
						inc = append(inc, w.Pt)
					}
				}
				ok1, _ := pairedWith(f, a.Pt, inc)
				push := core.Points(f.CallsMatching(func(x *core.CallSite) bool {
					return x.Name == "container/list.List.PushFront" && fieldNameOf(f, x.Recv()) == listF
				}))
				ok2, _ := pairedWith(f, a.Pt, push)
				c.Check(ok1 && ok2, short(f.Name)+"|insert paired with weight+= and PushFront", "T7 Pairing", a.Stmt.Pos(), "a new map entry is pushed to the front of the list and its weight added", "map insertion without PushFront / weight increment")
			}
		}
		c.ExpectAtLeast("items[k]= sites", n, 1)
	})

	c.Clause("C29.normalize", func() {
		norm := c.Fn(lruT + ".normalize")
		// (a) normalize post-dominates every growth of weight, every PushFront and every change of the bounds
		// The obligation is owed by the operation: a helper that grows the cache without normalizing
		// passes the obligation to its call sites (see c29_lift.go).
		n, nBound := 0, 0
		for _, f := range p.FuncsInPkg(c29Pkg) {
			if f == norm || f.Obj == nil {
				continue
			}
			calls := c29NormalizeSites(f)
			api := c29IsAPI(f)
			for _, s := range c29GrowthSites(f, norm, 3) {
				ok, wit := f.MustPassAfter(s.Pt, calls)
				if !ok && !api {
					continue // owed at the call sites of this helper, where it is checked as "call of …"
				}
				n += s.Leaves
				if strings.Contains(s.What, ".max") {
					nBound += s.Leaves
				}
				c.Check(ok, short(f.Name)+"|"+s.What+" followed by normalize", "T3 PostDominates", s.Pos,
					"every path from this growth/bound change to return passes normalize()", "bound can be exceeded at return: path without normalize() "+f.DescribePath(wit))
			}
		}
		// vacuity: one instance of each role (the obligation is owed by every site, however many there are)
		c.ExpectAtLeast("growth sites (weight / list)", n-nBound, 1)
		c.ExpectAtLeast("bound-change sites", nBound, 1)
		// (b) normalize returns only when both bounds hold
		// (the loop condition may be written in normalize or in a predicate helper such as overflown())
		normScope := &c30Scope{F: norm}
		for _, want := range []string{"weight - maxWeight <= 0", "len - maxSize <= 0"} {
			w := core.ParseLinCmp(want)
			for _, rp := range norm.ReturnPoints() {
				ok, wit := norm.GuardedBy(rp, func(ft core.Fact) bool {
					return c30ImpliesN(normScope, ft, w, c29BoundAtom, 2)
				})
				c.Check(ok, "normalize exits only with "+want, "T4 GuardedBy", posOf(rp), "normalize returns only on the edge establishing "+want, "normalize can return while the bound is exceeded: "+norm.DescribePath(wit))
			}
		}
		// Len is the list length
		lenF := c.Fn(lruT + ".Len")
		okLen := false
		for _, rp := range lenF.ReturnPoints() {
			r := rp.Node().(*ast.ReturnStmt)
			if len(r.Results) == 1 {
				if call := isCallTo(lenF, r.Results[0], "container/list.List.Len"); call != nil {
					if sel, ok := call.Fun.(*ast.SelectorExpr); ok && fieldNameOf(lenF, sel.X) == listF {
						okLen = true
					}
				}
			}
		}
		c.Check(okLen, "Len is evictList.Len()", "provenance", lenF.Pos(), "Len() returns the eviction list's length", "Len() is not the eviction list's length")
		// (c) normalize makes progress only by evicting the least recently used element: every cycle of its
		// CFG removes evictList.Back() (in place or in a helper) or has found the list empty
		sites, empty := c29BackEvictions(norm, 2)
		wit, idle, loops := c29IdleCycle(norm, sites, empty)
		if !loops {
			c.Undecided("normalize evicts the oldest entry per iteration", "T7 Pairing (loop)", norm.Pos(), "normalize contains no loop: cannot relate its iterations to evictions")
		} else {
			c.Check(!idle, "normalize evicts the oldest entry per iteration", "T7 Pairing (loop)", norm.Pos(),
				"every iteration of normalize removes evictList.Back() (the least recently used entry) unless the list is empty",
				"normalize can iterate without removing evictList.Back(): entries other than the least recently used are evicted, or none: "+norm.DescribePath(wit))
		}
		ro := c.Fn(lruT + ".RemoveOldest")
		c.Check(c29AlwaysEvictsBack(ro, 2), "RemoveOldest removes evictList.Back()", "provenance", ro.Pos(),
			"every path of RemoveOldest removes the list's back (least recently used) element or has found the list empty",
			"RemoveOldest can return without removing evictList.Back(): the evicted element is not the least recently used one")
	})

	c.Clause("C29.recency", func() {
		pur := core.Purity(p, "utils/simplewlru")
		wantRO := []string{"Peek", "Contains", "Keys", "Len", "Weight", "Total", "GetOldest"}
		for _, m := range wantRO {
			f := c.Fn(lruT + "." + m)
			c.Check(pur[f] == "", m+" read-only", "T12 Purity", f.Pos(), m+" contains no store, map update, list mutator or callback call", m+" is not read-only: "+pur[f])
		}
		// Get: MoveToFront on the found edge
		get := c.Fn(lruT + ".Get")
		mv := c29MoveToFrontSites(get)
		for _, rp := range returnsWith(get, 1, func(e ast.Expr) bool { return isIdentNamed(e, "true") }) {
			ok, wit := get.MustPassBefore(mv, rp)
			c.Check(ok, "Get refreshes recency", "T2 Dominates", posOf(rp), "a successful Get has moved the element to the front", "Get can return a hit without MoveToFront: "+get.DescribePath(wit))
		}
		c.ExpectAtLeast("successful returns of Get", len(returnsWith(get, 1, func(e ast.Expr) bool { return isIdentNamed(e, "true") })), 1)
		// Add existing: MoveToFront before the value update
		// (the update of an existing entry may be written in Add or in a helper Add delegates to: the
		// facts are decided for the operation, see c29_lift.go)
		c.Fn(lruT + ".Add")
		nUpd := 0
		for _, g := range p.FuncsInPkg(c29Pkg) {
			for _, a := range assignments(g) {
				if fieldNameOf(g, a.LHS) != "utils/simplewlru.entry.value" {
					continue
				}
				nUpd++
				ok, wit := c29PrecededBy(g, a.Pt, c29MoveToFrontSites, 2)
				c.Check(ok, "Add of existing key refreshes recency", "T2 Dominates", a.Stmt.Pos(), "updating an existing entry is preceded by MoveToFront", "existing entry updated without MoveToFront: "+g.DescribePath(wit))
				// and the weight is exchanged: -= old, += new
				o1, _ := c29PrecededBy(g, a.Pt, c29WeightSites(token.SUB_ASSIGN), 2)
				o2, _ := c29PrecededBy(g, a.Pt, c29WeightSites(token.ADD_ASSIGN), 2)
				if !o2 {
					o2, _ = c29FollowedBy(g, a.Pt, c29WeightSites(token.ADD_ASSIGN), 2)
				}
				c.Check(o1 && o2, "Add of existing key exchanges the weight", "T7 Pairing", a.Stmt.Pos(), "old weight subtracted and new weight added on the update path", "weight is not exchanged when an existing entry is updated")
			}
		}
		c.ExpectAtLeast("existing-entry updates in Add", nUpd, 1)
	})

	c.Clause("C29.keys", func() {
		f := c.Fn(lruT + ".Keys")
		// the cursor is the variable started at evictList.Back(); whatever the loop is written like, its
		// only other definitions must be cursor = cursor.Prev(), and every cycle of Keys must take that step
		var cur *types.Var
		for _, a := range assignments(f) {
			if a.RHS != nil && c29IsBack(f, a.RHS) {
				if v := varOf(f, a.LHS); v != nil {
					cur = v
				}
			}
		}
		if cur == nil {
			c.Fail("Keys walks Back -> Prev", "cursor provenance + loop", f.Pos(), "Keys has no cursor started at evictList.Back(): the keys are not listed from the oldest entry")
			return
		}
		var steps []core.Point
		onlyPrev := true
		for _, a := range assignsToVar(f, cur) {
			if a.RHS != nil && c29IsBack(f, a.RHS) {
				continue
			}
			stepped := false
			if a.RHS != nil && (a.Tok == token.ASSIGN || a.Tok == token.DEFINE) {
				if call := isCallTo(f, a.RHS, "container/list.Element.Prev"); call != nil {
					if sel, ok := ast.Unparen(call.Fun).(*ast.SelectorExpr); ok && varOf(f, sel.X) == cur {
						stepped = true
					}
				}
			}
			if stepped {
				steps = append(steps, a.Pt)
			} else {
				onlyPrev = false
			}
		}
		_, idle, loops := c29IdleCycle(f, steps, nil)
		c.Check(onlyPrev && loops && !idle, "Keys walks Back -> Prev", "cursor provenance + loop", f.Pos(), "Keys starts at evictList.Back() and every iteration steps with Prev(): oldest to newest", "Keys does not walk from Back() via Prev() on every iteration: order is not oldest-to-newest")
	})

	c.Clause("C29.wrapper", func() {
		// T20: each wlru.Cache method calls only same-named simplewlru methods (or the documented composites)
		// The obligation is owed by the operations (exported methods); the calls an operation makes through
		// unexported helpers of the wrapper (a locked implementation shared by two operations) are its own.
		// The two check-then-add composites look the key up without refreshing recency: which read-only
		// lookup they use is free as long as it yields what the operation returns (Contains or Peek for the
		// presence, Peek for the previous value); their mutating calls must be exactly Add.
		allowed := map[string][]string{
			"ContainsOrAdd": {"Contains", "Add"},
			"PeekOrAdd":     {"Peek", "Add"},
		}
		lookups := map[string][]string{
			"ContainsOrAdd": {"Contains", "Peek"},
			"PeekOrAdd":     {"Peek"},
		}
		pur := core.Purity(p, "utils/simplewlru")
		readOnly := map[string]bool{}
		for g, reason := range pur {
			if g.RecvTypeName() == lruT && g.Obj != nil && reason == "" {
				readOnly[g.Obj.Name()] = true
			}
		}
		var innerOf func(f *core.FuncInfo, depth int, seen map[*core.FuncInfo]bool) []string
		innerOf = func(f *core.FuncInfo, depth int, seen map[*core.FuncInfo]bool) []string {
			var inner []string
			for _, cs := range f.Calls() {
				if len(cs.Name) > len(lruT) && cs.Name[:len(lruT)+1] == lruT+"." {
					inner = append(inner, cs.Name[len(lruT)+1:])
					continue
				}
				fn, ok := cs.Callee.(*types.Func)
				if !ok || depth <= 0 {
					continue
				}
				if g := p.FuncOf(fn); g != nil && !seen[g] && g.Obj != nil && !g.Obj.Exported() && g.RecvTypeName() == "utils/wlru.Cache" {
					seen[g] = true
					inner = append(inner, innerOf(g, depth-1, seen)...)
					delete(seen, g)
				}
			}
			return inner
		}
		n := 0
		for _, f := range p.MethodsOf("utils/wlru.Cache") {
			if f.Obj == nil || !f.Obj.Exported() {
				continue
			}
			inner := innerOf(f, 2, map[*core.FuncInfo]bool{f: true})
			if len(inner) == 0 {
				continue
			}
			n++
			want := []string{f.Obj.Name()}
			if a, ok := allowed[f.Obj.Name()]; ok {
				want = a
			}
			sort.Strings(inner)
			w2 := append([]string(nil), want...)
			sort.Strings(w2)
			ok := fmt.Sprint(inner) == fmt.Sprint(w2)
			if lk, composite := lookups[f.Obj.Name()]; composite && !ok {
				// mutating calls: exactly those of the expected list; read-only calls: one of the lookups
				var mut, ro, wantMut []string
				for _, m := range inner {
					if readOnly[m] {
						ro = append(ro, m)
					} else {
						mut = append(mut, m)
					}
				}
				for _, m := range w2 {
					if !readOnly[m] {
						wantMut = append(wantMut, m)
					}
				}
				ok = fmt.Sprint(mut) == fmt.Sprint(wantMut) && len(ro) > 0
				for _, m := range ro {
					isLookup := false
					for _, l := range lk {
						if l == m {
							isLookup = true
						}
					}
					if !isLookup {
						ok = false
					}
				}
			}
			c.Check(ok, short(f.Name)+" delegates to "+fmt.Sprint(want), "T20 WrapperDelegation", f.Pos(), "calls exactly "+fmt.Sprint(inner)+" on the wrapped cache", fmt.Sprintf("calls %v on the wrapped cache, expected %v", inner, w2))
		}
		c.ExpectAtLeast("wlru wrapper methods", n, 1)
	})
}
