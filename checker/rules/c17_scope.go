package rules

import (
	"go/ast"
	"go/token"
	"go/types"

	"golang.org/x/tools/go/cfg"

	"lachk/core"
)

// A scope is the code that does one job, seen through the calls: a root region (a handler: one select
// case, a whole function) plus the bodies of the module functions it calls directly (transitively,
// bounded), each as a frame. Rules enumerate sites in every frame and decide path facts through the
// frames: a statement may live in the handler itself or in a helper the handler was split into, and a
// guard / an earlier statement / a later statement may live one or more calls up. Nothing here knows
// the names of particular helpers. (Candidate for promotion to core.)

// c17Frame is one function body (or region of it) of a scope.
type c17Frame struct {
	c17Region
	Root    bool // paths into the frame start outside the analysed code: nothing is known before From
	Callers []c17FrameCall
}

// c17FrameCall is a call site, inside a frame of the scope, of another frame's function.
type c17FrameCall struct {
	Parent *c17Frame
	Site   *core.CallSite
	// Detached: the call is a go/defer operand: what holds at the statement says nothing about the
	// time the callee runs
	Detached bool
}

type c17Scope struct {
	Frames []*c17Frame
	byFn   map[*core.FuncInfo]*c17Frame
}

func (sc *c17Scope) FrameOf(g *core.FuncInfo) *c17Frame { return sc.byFn[g] }

// Calls lists the call sites of the frame's own region (literals excluded).
func (fr *c17Frame) Calls() []*core.CallSite {
	var out []*core.CallSite
	for _, cs := range fr.F.Calls() {
		if fr.In(cs.Pos()) {
			out = append(out, cs)
		}
	}
	return out
}

// Assignments lists the assignments of the frame's own region.
func (fr *c17Frame) Assignments() []assignment {
	var out []assignment
	for _, a := range assignments(fr.F) {
		if fr.In(a.Stmt.Pos()) {
			out = append(out, a)
		}
	}
	return out
}

// Range is the lexical extent of the frame.
func (fr *c17Frame) Range() (lo, hi token.Pos) {
	if fr.End == nil {
		return fr.F.Body.Pos(), fr.F.Body.End()
	}
	lo, hi = token.NoPos, token.NoPos
	fr.F.InspectOwn(func(n ast.Node) bool {
		if n == nil {
			return true
		}
		if fr.In(n.Pos()) {
			if lo == token.NoPos || n.Pos() < lo {
				lo = n.Pos()
			}
			if n.End() > hi {
				hi = n.End()
			}
		}
		return true
	})
	return lo, hi
}

// c17ScopeFrom builds the scope of a handler region: the region and the functions of the same package
// that are called from it (not through go/defer/interfaces), up to the given call depth.
func c17ScopeFrom(root c17Region, depth int) *c17Scope {
	sc := &c17Scope{byFn: map[*core.FuncInfo]*c17Frame{}}
	rf := &c17Frame{c17Region: root, Root: true}
	sc.Frames = append(sc.Frames, rf)
	sc.byFn[root.F] = rf
	level := []*c17Frame{rf}
	for d := 0; d < depth && len(level) > 0; d++ {
		var next []*c17Frame
		for _, fr := range level {
			for _, cs := range fr.Calls() {
				g := c17ModuleCallee(cs)
				if g == nil || g.Pkg != root.F.Pkg || g == root.F {
					continue
				}
				gf := sc.byFn[g]
				if gf == nil {
					gf = &c17Frame{c17Region: c17WholeFunc(g)}
					sc.byFn[g] = gf
					sc.Frames = append(sc.Frames, gf)
					next = append(next, gf)
				}
				gf.Callers = append(gf.Callers, c17FrameCall{Parent: fr, Site: cs})
			}
		}
		level = next
	}
	return sc
}

// c17PkgScope builds the scope of a whole package: every declared function and every literal is a
// frame; a frame's callers are the in-package call sites of its function. A function is a root (can be
// entered with nothing known) when it is exported, is a literal, is never called in the package, or is
// used as a value (method value / function value).
func c17PkgScope(p *core.Prog, pkg string) *c17Scope {
	sc := &c17Scope{byFn: map[*core.FuncInfo]*c17Frame{}}
	var all []*core.FuncInfo
	for _, f := range p.FuncsInPkg(pkg) {
		all = append(all, f)
		all = append(all, allLits(f)...)
	}
	for _, f := range all {
		fr := &c17Frame{c17Region: c17WholeFunc(f)}
		fr.Root = f.Obj == nil || f.Obj.Exported()
		sc.byFn[f] = fr
		sc.Frames = append(sc.Frames, fr)
	}
	for _, f := range all {
		callFuns := map[*ast.Ident]bool{}
		for _, cs := range f.Calls() {
			switch fun := ast.Unparen(cs.Call.Fun).(type) {
			case *ast.Ident:
				callFuns[fun] = true
			case *ast.SelectorExpr:
				callFuns[fun.Sel] = true
			}
			fn, ok := cs.Callee.(*types.Func)
			if !ok {
				continue
			}
			g := p.FuncOf(fn)
			if g == nil || sc.byFn[g] == nil {
				continue
			}
			if g == f {
				continue // direct recursion adds no new way in
			}
			sc.byFn[g].Callers = append(sc.byFn[g].Callers, c17FrameCall{Parent: sc.byFn[f], Site: cs, Detached: cs.InGo || cs.InDefer})
		}
		// a function used as a value can be called from anywhere
		f.InspectOwn(func(n ast.Node) bool {
			id, ok := n.(*ast.Ident)
			if !ok || callFuns[id] {
				return true
			}
			if fn, ok := f.Info().Uses[id].(*types.Func); ok {
				if g := p.FuncOf(fn); g != nil && sc.byFn[g] != nil {
					sc.byFn[g].Root = true
				}
			}
			return true
		})
	}
	for _, fr := range sc.Frames {
		if len(fr.Callers) == 0 {
			fr.Root = true
		}
	}
	return sc
}

// regionGuarded: every path from the start of the frame's region to pt takes an edge implying a fact
// accepted by match.
func (fr *c17Frame) regionGuarded(pt core.Point, match func(core.Fact) bool) (bool, []core.Point) {
	path, found := core.PathQuery{F: fr.F, From: fr.From, Target: core.PointSet(pt), AvoidEdge: fr.F.GuardEdges(match)}.Find()
	return !found, path
}

// Guarded decides that pt (a point of frame fr) is reached only after a fact accepted by the matcher
// was established: either on every path from the start of the frame, or — when the frame is a helper —
// at every call site through which the frame is entered (recursively). matchFor builds the matcher for
// a function (facts are resolved through that function's objects). With perIteration, a point lying on
// a cycle must in addition be re-guarded on every way round: the fact is re-tested before each repeat.
func (sc *c17Scope) Guarded(fr *c17Frame, pt core.Point, matchFor func(*core.FuncInfo) func(core.Fact) bool, perIteration bool) (bool, string) {
	return sc.guarded(fr, pt, matchFor, perIteration, map[*c17Frame]bool{}, 4)
}

func (sc *c17Scope) guarded(fr *c17Frame, pt core.Point, matchFor func(*core.FuncInfo) func(core.Fact) bool, perIteration bool, busy map[*c17Frame]bool, depth int) (bool, string) {
	f := fr.F
	match := matchFor(f)
	if perIteration && fr.reaches(pt, pt) {
		if wit, again := fr.round(pt, nil, f.GuardEdges(match)); again {
			return false, "repeated without the test in " + short(f.Name) + ": " + f.DescribePath(wit)
		}
	}
	ok, wit := fr.regionGuarded(pt, match)
	if ok {
		return true, ""
	}
	here := "in " + short(f.Name) + ": " + f.DescribePath(wit)
	if fr.Root || len(fr.Callers) == 0 || depth <= 0 || busy[fr] {
		return false, here
	}
	busy[fr] = true
	defer delete(busy, fr)
	for _, cl := range fr.Callers {
		if cl.Detached {
			return false, here + "; started by go/defer in " + short(cl.Parent.F.Name)
		}
		if ok, why := sc.guarded(cl.Parent, cl.Site.Pt, matchFor, perIteration, busy, depth-1); !ok {
			return false, here + "; called " + why
		}
	}
	return true, ""
}

// MustSites returns the points of the frame at which an effect certainly happens: the frame's direct
// sites (as listed by direct) and the call sites of helper frames every returning path of which passes
// such a point.
func (sc *c17Scope) MustSites(fr *c17Frame, direct func(*c17Frame) []core.Point) []core.Point {
	return sc.mustSites(fr, direct, map[*c17Frame]bool{}, 4)
}

func (sc *c17Scope) mustSites(fr *c17Frame, direct func(*c17Frame) []core.Point, busy map[*c17Frame]bool, depth int) []core.Point {
	out := append([]core.Point{}, direct(fr)...)
	if depth <= 0 || busy[fr] {
		return out
	}
	busy[fr] = true
	defer delete(busy, fr)
	for _, cs := range fr.Calls() {
		g := c17ModuleCallee(cs)
		if g == nil {
			continue
		}
		gf := sc.byFn[g]
		if gf == nil || gf == fr || gf.End != nil {
			continue
		}
		if ok, _ := gf.mustPass(&c17Effect{Pts: sc.mustSites(gf, direct, busy, depth-1)}); ok {
			out = append(out, cs.Pt)
		}
	}
	return out
}

// MaySites returns the points of the frame at which an effect may happen: the direct sites and the
// call sites of helper frames that (transitively) contain one.
func (sc *c17Scope) MaySites(fr *c17Frame, direct func(*c17Frame) []core.Point) []core.Point {
	return sc.maySites(fr, direct, map[*c17Frame]bool{}, 4)
}

func (sc *c17Scope) maySites(fr *c17Frame, direct func(*c17Frame) []core.Point, busy map[*c17Frame]bool, depth int) []core.Point {
	out := append([]core.Point{}, direct(fr)...)
	if depth <= 0 || busy[fr] {
		return out
	}
	busy[fr] = true
	defer delete(busy, fr)
	for _, cs := range fr.Calls() {
		fn, ok := cs.Callee.(*types.Func)
		if !ok {
			continue
		}
		gf := sc.byFn[fr.F.P.FuncOf(fn)]
		if gf == nil || gf == fr {
			continue
		}
		if len(sc.maySites(gf, direct, busy, depth-1)) > 0 {
			out = append(out, cs.Pt)
		}
	}
	return out
}

// FollowedBy decides that after `from` (a point of frame fr) the job does not finish without passing
// one of the via points: on every path to the end of the frame, or — when the frame is a helper that
// can return first — on every continuation after each of its call sites. via lists the points of a
// frame that count (use MustSites to let helpers count).
func (sc *c17Scope) FollowedBy(fr *c17Frame, from core.Point, via func(*c17Frame) []core.Point) (bool, string) {
	return sc.followedBy(fr, from, via, map[*c17Frame]bool{}, 4)
}

func (sc *c17Scope) followedBy(fr *c17Frame, from core.Point, via func(*c17Frame) []core.Point, busy map[*c17Frame]bool, depth int) (bool, string) {
	f := fr.F
	path, found := core.PathQuery{F: f, From: from, FromAfter: true, Avoid: core.PointSet(via(fr)...), TargetBlock: fr.End, TargetExit: true}.Find()
	if !found {
		return true, ""
	}
	here := "in " + short(f.Name) + ": " + f.DescribePath(path)
	if fr.Root || len(fr.Callers) == 0 || depth <= 0 || busy[fr] {
		return false, here
	}
	busy[fr] = true
	defer delete(busy, fr)
	for _, cl := range fr.Callers {
		if cl.Detached {
			return false, here
		}
		if ok, why := sc.followedBy(cl.Parent, cl.Site.Pt, via, busy, depth-1); !ok {
			return false, here + "; then " + why
		}
	}
	return true, ""
}

// PrecededBy decides that pt is reached only after one of the via points, in the same round: on every
// path from the start of the frame and again on every way round a cycle through pt; when the frame is a
// helper and its own paths do not pass one, at every call site through which it is entered.
func (sc *c17Scope) PrecededBy(fr *c17Frame, pt core.Point, via func(*c17Frame) []core.Point) (bool, string) {
	return sc.precededBy(fr, pt, via, map[*c17Frame]bool{}, 4)
}

func (sc *c17Scope) precededBy(fr *c17Frame, pt core.Point, via func(*c17Frame) []core.Point, busy map[*c17Frame]bool, depth int) (bool, string) {
	f := fr.F
	vs := via(fr)
	if core.PointSet(vs...)(pt) {
		return true, ""
	}
	if fr.reaches(pt, pt) {
		if wit, again := fr.round(pt, core.PointSet(vs...), nil); again {
			return false, "repeated in " + short(f.Name) + ": " + f.DescribePath(wit)
		}
	}
	path, found := core.PathQuery{F: f, From: fr.From, Target: core.PointSet(pt), Avoid: core.PointSet(vs...)}.Find()
	if !found {
		return true, ""
	}
	here := "in " + short(f.Name) + ": " + f.DescribePath(path)
	if fr.Root || len(fr.Callers) == 0 || depth <= 0 || busy[fr] {
		return false, here
	}
	busy[fr] = true
	defer delete(busy, fr)
	for _, cl := range fr.Callers {
		if cl.Detached {
			return false, here
		}
		if ok, why := sc.precededBy(cl.Parent, cl.Site.Pt, via, busy, depth-1); !ok {
			return false, here + "; called " + why
		}
	}
	return true, ""
}

// round: is there a way from pt back to pt, inside the frame's region, that avoids the points and
// the edges?
func (fr *c17Frame) round(pt core.Point, avoid func(core.Point) bool, avoidEdge func(*cfg.Block, int) bool) ([]core.Point, bool) {
	return core.PathQuery{F: fr.F, From: pt, FromAfter: true, Target: core.PointSet(pt), Avoid: avoid,
		AvoidEdge: func(b *cfg.Block, i int) bool {
			return fr.End != nil && fr.End(b.Succs[i]) || avoidEdge != nil && avoidEdge(b, i)
		}}.Find()
}
