package rules

import (
	"go/ast"
	"go/types"
	"sort"

	"golang.org/x/tools/go/cfg"

	"lachk/core"
)

// C21.table — the per-timestamp rows of SyncedToEmit on the inlined view.
//
// A row is the set of apply calls recorded for one timestamp. Which timestamp an apply belongs to is
// decided by the test that guards it (the way to the apply, in some frame of its inlined chain, takes a
// since(t) < threshold edge), not by the spelling of its wait argument: the wait may be held in a
// re-assigned variable, be the cap constant, or the row may be split into several applies (one per case
// of the wait computation). Per row:
//   - the applies are reached only over since(t) < threshold of the row's timestamp;
//   - the wait argument talks about no other timestamp;
//   - the since(t) < threshold edge always reaches one of the row's applies;
//   - no permitting return is reached on a path that neither passed one of the applies nor took the
//     since(t) >= threshold edge;
//   - the error argument is a package-level error; the remaining time saturates (c21_sat.go).

// c21StampsFlow is stampsIn extended through re-assigned locals: a variable that has no single
// definition contributes the timestamps of each of its assigned values.
func (v *c21View) stampsFlow(fr *c21Frame, e ast.Expr) []string {
	seen := map[string]bool{}
	visited := map[*types.Var]bool{}
	var walk func(fr *c21Frame, e ast.Expr, depth int)
	walk = func(fr *c21Frame, e ast.Expr, depth int) {
		if e == nil || depth > 6 {
			return
		}
		for _, s := range v.stampsIn(fr, e) {
			seen[s] = true
		}
		fr2, r := c21Resolve(fr, e)
		ast.Inspect(r, func(n ast.Node) bool {
			if _, isLit := n.(*ast.FuncLit); isLit {
				return false
			}
			id, ok := n.(*ast.Ident)
			if !ok {
				return true
			}
			lv, _ := fr2.F.Info().ObjectOf(id).(*types.Var)
			if lv == nil || lv.IsField() || visited[lv] || !c19Within(fr2.F.Body, lv.Pos()) {
				return true
			}
			as := assignsToVar(fr2.F, lv)
			if len(as) < 2 {
				return true
			}
			visited[lv] = true
			for _, a := range as {
				walk(fr2, a.RHS, depth+1)
			}
			return true
		})
		// a helper call: the timestamps of what it returns, in its frame
		if call, ok := r.(*ast.CallExpr); ok {
			if sub := c21EnterCall(fr2, call); sub != nil {
				for _, rp := range sub.F.ReturnPoints() {
					for _, res := range rp.Node().(*ast.ReturnStmt).Results {
						walk(sub, res, depth+1)
					}
				}
			}
		}
	}
	walk(fr, e, 0)
	var out []string
	for s := range seen {
		out = append(out, s)
	}
	sort.Strings(out)
	return out
}

type c21RowApply struct {
	ap     c21Apply
	frames []*c21Frame
	pts    []core.Point
	jg     int
}

func c21StampRows(c *core.Ctx, f *core.FuncInfo, view *c21View, keeper *c21Keeper, applies []c21Apply, accepting func(core.Point) bool) {
	rows := map[string][]c21RowApply{}
	for _, ap := range applies {
		if ap.Wait == nil {
			c.Undecided("keeper update of an unrecognised form", "T8 DecisionTable", ap.Pos, "the keeper's wait is assigned by a multi-value or arithmetic form")
			continue
		}
		frames, pts := ap.chain()
		leaf := frames[len(frames)-1]
		// which timestamp's test guards this apply?
		type cand struct {
			stamp string
			j     int
		}
		var cands []cand
		for _, st := range c21Stamps {
			for j := len(frames) - 1; j >= 0; j-- {
				if ok, _ := frames[j].F.GuardedBy(pts[j], view.recent(frames[j], st)); ok {
					cands = append(cands, cand{st, j})
					break
				}
			}
		}
		mentioned := view.stampsFlow(ap.Fr, ap.Wait)
		if len(cands) > 1 && len(mentioned) == 1 {
			for _, cd := range cands {
				if cd.stamp == mentioned[0] {
					cands = []cand{cd}
				}
			}
		}
		switch {
		case len(cands) == 1:
		case len(cands) == 0 && len(mentioned) == 1:
			_, wit := leaf.F.GuardedBy(pts[len(pts)-1], view.recent(leaf, mentioned[0]))
			c.Fail(mentioned[0]+"|wait recorded exactly when since < threshold", "T4 GuardedBy", ap.Pos, "the wait for "+mentioned[0]+" is recorded under a different test: "+leaf.F.DescribePath(wit))
			c21CheckSaturating(c, view, ap, mentioned[0])
			continue
		default:
			c.Undecided("apply site without a recognisable timestamp", "T8 DecisionTable", ap.Pos, "cannot tell which single timestamp this wait belongs to (tests on the way: "+joinStr(func() []string {
				var s []string
				for _, cd := range cands {
					s = append(s, cd.stamp)
				}
				return s
			}())+"; timestamps in the wait: "+joinStr(mentioned)+")")
			continue
		}
		stamp := cands[0].stamp
		var foreign []string
		for _, m := range mentioned {
			if m != stamp {
				foreign = append(foreign, m)
			}
		}
		c.Check(len(foreign) == 0, stamp+"|wait is the remaining time of the tested timestamp", "provenance", ap.Pos, "the wait recorded under the test of "+stamp+" talks about no other timestamp", "the wait recorded under the test since("+stamp+") < threshold is computed from "+joinStr(foreign)+": the remaining time reported (and compared by the keeper) is that of another timestamp")
		// error argument: a package-level error variable (non-nil)
		okE := false
		if ap.Err != nil {
			efr, ee := c21Resolve(ap.Fr, ap.Err)
			ev, _ := efr.F.ObjOf(ee).(*types.Var)
			okE = ev != nil && ev.Pkg() != nil && ev.Parent() == ev.Pkg().Scope()
		}
		c.Check(okE, stamp+"|refusal carries an error", "T8 DecisionTable", ap.Pos, "apply receives a package-level error value", "the wait is recorded without an error (emission would be permitted)")
		c21CheckSaturating(c, view, ap, stamp)
		rows[stamp] = append(rows[stamp], c21RowApply{ap, frames, pts, cands[0].j})
	}
	var names []string
	for s := range rows {
		names = append(names, s)
	}
	sort.Strings(names)
	for _, stamp := range names {
		row := rows[stamp]
		first := row[0]
		guard := first.frames[first.jg]
		same := true
		for _, ra := range row {
			if ra.frames[ra.jg] != guard {
				same = false
			}
		}
		if !same {
			c.Undecided(stamp+"|one test per timestamp", "T8 DecisionTable", first.ap.Pos, "the waits for "+stamp+" are recorded under tests in different activations; the rule relates a row to one since("+stamp+") < threshold test")
			continue
		}
		c.Pass(stamp+"|wait recorded exactly when since < threshold", "T4 GuardedBy", "apply is reached only on the since("+stamp+") < threshold edge of the same timestamp")
		// points of each frame that lead towards one of the row's applies (may), and those that certainly
		// end in one (sure: the apply itself, or a call of a helper whose every path passes a sure point)
		may := map[*c21Frame][]core.Point{}
		child := map[*c21Frame]map[core.Point]*c21Frame{}
		for _, ra := range row {
			for j, fr := range ra.frames {
				may[fr] = append(may[fr], ra.pts[j])
				if j+1 < len(ra.frames) {
					if child[fr] == nil {
						child[fr] = map[core.Point]*c21Frame{}
					}
					child[fr][ra.pts[j]] = ra.frames[j+1]
				}
			}
		}
		// an update may be skipped only over "the value it would store is not longer than the kept one"
		skip := func(fr *c21Frame) func(*cfg.Block, int) bool {
			var preds []func(*cfg.Block, int) bool
			for _, ra := range row {
				if ra.ap.Fr == fr {
					preds = append(preds, c19Edges(fr.F, keeper.notLonger(ra.ap)))
				}
			}
			return func(b *cfg.Block, s int) bool {
				for _, p := range preds {
					if p(b, s) {
						return true
					}
				}
				return false
			}
		}
		var sure func(fr *c21Frame) []core.Point
		sure = func(fr *c21Frame) []core.Point {
			var out []core.Point
			for _, pt := range may[fr] {
				sub := child[fr][pt]
				if sub == nil {
					out = append(out, pt)
					continue
				}
				if _, miss := (core.PathQuery{F: sub.F, From: sub.F.Entry(), Avoid: core.PointSet(sure(sub)...), AvoidEdge: skip(sub), TargetExit: true}).Find(); !miss {
					out = append(out, pt)
				}
			}
			return out
		}
		g := guard.F
		okAlways := true
		sureG := core.PointSet(sure(guard)...)
		for _, e := range edgesWithFact(g, view.recent(guard, stamp)) {
			if _, miss := (core.PathQuery{F: g, From: blockEntry(e.B.Succs[e.Succ]), Avoid: sureG, AvoidEdge: skip(guard), TargetExit: true}).Find(); miss {
				okAlways = false
			}
		}
		c.Check(okAlways, stamp+"|too-recent timestamp always records a wait", "T3 PostDominates", first.ap.Pos, "the since < threshold edge always reaches apply", "a too-recent "+stamp+" can be ignored")
		// the test is made before emission is permitted: no accepting path skips both the applies and the
		// since >= threshold edge
		okTested := true
		var witT []core.Point
		var witF *core.FuncInfo
		for j := 0; j <= first.jg; j++ {
			fr := first.frames[j]
			q := core.PathQuery{F: fr.F, From: fr.F.Entry(), Avoid: core.PointSet(may[fr]...), AvoidEdge: skip(fr)}
			if j == first.jg {
				old, nr := q.AvoidEdge, c19Edges(fr.F, view.notRecent(fr, stamp))
				q.AvoidEdge = func(b *cfg.Block, s int) bool { return old(b, s) || nr(b, s) }
			}
			if j == 0 {
				q.Target = accepting
			} else {
				q.TargetExit = true
			}
			if path, found := q.Find(); found {
				okTested, witT, witF = false, path, fr.F
			}
		}
		detail := ""
		if witF != nil {
			detail = witF.DescribePath(witT)
		}
		c.Check(okTested, stamp+"|tested before emission is permitted", "T8 DecisionTable", first.ap.Pos, "every path to the permitting return records the wait for "+stamp+" or takes the since("+stamp+") >= threshold edge", "SyncedToEmit can return its result (permit emission, or report a wait that is not the longest) on a path that never compared since("+stamp+") with the threshold: "+detail)
	}
	var missing []string
	for _, s := range c21Stamps {
		if len(rows[s]) == 0 {
			missing = append(missing, s)
		}
	}
	sort.Strings(missing)
	c.Check(len(missing) == 0, "all five timestamps are tested", "T8 field coverage", f.Pos(), "LastConnected, P2PSynced, BecameValidator, ExternalSelfEventCreated, ExternalSelfEventDetected each have a test", "timestamps without a since < threshold test: "+joinStr(missing))
}
