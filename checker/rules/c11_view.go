package rules

import (
	"bytes"
	"fmt"
	"go/ast"
	"go/constant"
	"go/printer"
	"go/token"
	"go/types"
	"os"
	"path/filepath"
	"reflect"
	"sort"
	"strings"

	"golang.org/x/tools/go/ast/astutil"
	"golang.org/x/tools/go/types/typeutil"

	"lachk/core"
)

// Inlined views (shared by C11 and C12).
//
// The clauses of C11/C12 are intraprocedural: they decide facts about the bodies of a fixed set of anchor
// functions (Quorum, calcCaches, CountByIdx, sortedArray, Build ...). A maintainer may move a part of such a
// body into a helper (extract method / extract function / named predicate / named constant expression). The
// behaviour is unchanged, and so must be the verdict. Instead of teaching every clause about helpers, the
// clause is decided on an *inlined view* of the anchor: a copy of the function in which every statically
// dispatched call of a same-package function that is not itself an anchor is replaced by the callee's body
// (parameters bound or substituted, returns turned into assignments and a jump to the end of the inlined
// block; bounded depth, no recursion). The copies are added to the package as an extra in-memory file and
// the package is type-checked again, so a view is an ordinary function with its own CFG and type information
// and every existing clause applies to it unchanged. The original file contents are taken from the loaded
// syntax trees (not from disk), so a view of an overlay-loaded program sees the overlay.
//
// A clause is first decided on the functions as written; only when that does not discharge is it decided
// again on the views (c11Clause). Both are the same program, so discharging either one is sufficient.
// Nothing in the construction depends on names introduced by a refactor: the only names are the anchors,
// which are the vocabulary of the rules themselves.

const c11ViewSuffix = "_lachkview"

// c11Anchors: the functions the rules of C11 and C12 name. Calls of them are never looked through (the
// rules reason about those calls), everything else that is statically dispatched inside the package is.
var c11Anchors = []string{
	c11V + ".Quorum", c11V + ".TotalWeight", c11V + ".calcCaches", c11V + ".GetWeightByIdx", c11V + ".GetIdx",
	c11V + ".NewCounter", c11V + ".sortedArray", c11V + ".EncodeRLP", c11V + ".DecodeRLP", c11V + ".Copy",
	c11Pkg + ".newValidators", c11Pkg + ".NewBuilder", c12B + ".Set", c12B + ".Build",
	c12Big + ".Build", c12Big + ".TotalWeight", c12Big + ".Set",
	c12Arr + ".Less", c12Arr + ".Swap", c12Arr + ".Len",
	c11WC + ".CountByIdx", c11WC + ".Count", c11WC + ".HasQuorum", c11WC + ".Sum", c11Pkg + ".newWeightCounter",
}

// c11View is the re-typechecked package with the view functions.
type c11View struct {
	P      *core.Prog
	Has    map[string]bool // canonical anchor name -> a view exists
	Looked []string        // helpers looked through (for the evidence)
}

var (
	c11ViewCache  = map[*core.Prog]*c11View{} // original program -> view (nil: none)
	c11ViewOfProg = map[*core.Prog]*c11View{} // view program -> view
)

// c11Fn resolves an anchor: on a view program the view of the function, if it has one.
// calcCaches and sortedArray are located by their role when the method of that name does not exist
// (c11_anchor.go); an anchor that cannot be located aborts the clause as undecided.
func c11Fn(c *core.Ctx, name string) *core.FuncInfo {
	actual := c11ActualName(c.P, name)
	if actual == "" {
		return c.Fn(name)
	}
	if v := c11ViewOfProg[c.P]; v != nil && v.Has[actual] {
		if f := c.P.Func(actual + c11ViewSuffix); f != nil {
			return f
		}
	}
	return c.Fn(actual)
}

func c11Alarms(c *core.Ctx) int {
	n := 0
	for _, o := range c.Obs {
		if o.Status != core.Discharged {
			n++
		}
	}
	return n
}

// c11Clause decides one clause: on the program as written and, if that leaves something open and some
// anchor has an inlined view, on the views. The better outcome is reported.
func c11Clause(c *core.Ctx, name string, body func(c *core.Ctx)) {
	sub := core.NewCtx(c.P, c.Prop, c.Tier)
	sub.Clause(name, func() { body(sub) })
	if c11Alarms(sub) == 0 {
		c.Merge("", sub)
		return
	}
	v := c11ViewFor(c.P)
	if v == nil {
		c.Merge("", sub)
		return
	}
	sub2 := core.NewCtx(v.P, c.Prop, c.Tier)
	sub2.Clause(name, func() { body(sub2) })
	// fewer open obligations on the views, or as many but other ones (the view names the statement
	// inside the helper, the function as written only says that its shape was not recognised)
	if c11Alarms(sub2) < c11Alarms(sub) || (c11Alarms(sub2) == c11Alarms(sub) && c11AlarmKeys(sub2) != c11AlarmKeys(sub)) {
		c.Merge("", sub2)
		c.Note("%s decided on the inlined views of %v (helpers looked through: %v)", name, c11Keys(v.Has), v.Looked)
		return
	}
	c.Merge("", sub)
}

func c11AlarmKeys(c *core.Ctx) string {
	var ks []string
	for _, o := range c.Obs {
		if o.Status != core.Discharged {
			ks = append(ks, o.Key)
		}
	}
	sort.Strings(ks)
	return strings.Join(ks, "\n")
}

func c11Keys(m map[string]bool) []string {
	var out []string
	for k := range m {
		out = append(out, short(k))
	}
	sort.Strings(out)
	return out
}

// c11ViewFor builds (once per program) the inlined views of the anchors.
func c11ViewFor(p *core.Prog) (view *c11View) {
	if v, ok := c11ViewCache[p]; ok {
		return v
	}
	c11ViewCache[p] = nil
	// a view is an aid: if it cannot be built, the clauses stand as decided on the functions as written
	defer func() {
		if r := recover(); r != nil {
			if os.Getenv("LACHK_DEBUG_VIEW") != "" {
				fmt.Fprintf(os.Stderr, "---- inlined views: panic: %v\n", r)
			}
			view = nil
		}
	}()
	if c11ViewOfProg[p] != nil {
		return nil // p is itself a view program
	}
	pk := p.Pkg(c11Pkg)
	if pk == nil || pk.Types == nil || len(pk.Syntax) == 0 {
		return nil
	}
	in := &c11Inl{p: p, pk: pk.Types, info: pk.TypesInfo, keep: map[string]bool{}, orig: map[ast.Node]ast.Node{},
		done: map[ast.Node]bool{}, onStack: map[*core.FuncInfo]bool{}, looked: map[string]bool{}, imports: map[string]string{}, fresh: map[*ast.Ident]bool{}}
	anchors := c11AnchorsOf(p)
	for _, a := range anchors {
		in.keep[a] = true
	}
	has := map[string]bool{}
	var decls []*ast.FuncDecl
	for _, a := range anchors {
		f := p.Func(a)
		if f == nil || f.Decl == nil || f.Decl.Body == nil {
			continue
		}
		if d := in.viewDecl(f); d != nil {
			decls = append(decls, d)
			has[a] = true
		}
	}
	if len(decls) == 0 {
		return nil
	}
	var src bytes.Buffer
	fmt.Fprintf(&src, "// Code generated by lachk for analysis only (inlined views). DO NOT EDIT.\n\npackage %s\n\n", pk.Types.Name())
	cfg := printer.Config{Mode: printer.UseSpaces | printer.TabIndent | printer.SourcePos, Tabwidth: 8}
	var body bytes.Buffer
	for _, d := range decls {
		if err := cfg.Fprint(&body, p.Fset, d); err != nil {
			return nil
		}
		body.WriteString("\n\n")
		in.collectImports(d)
	}
	var paths []string
	for path := range in.imports {
		paths = append(paths, path)
	}
	sort.Strings(paths)
	if len(paths) > 0 {
		src.WriteString("import (\n")
		for _, path := range paths {
			fmt.Fprintf(&src, "\t%s %q\n", in.imports[path], path)
		}
		src.WriteString(")\n\n")
	}
	src.Write(body.Bytes())
	// the package as loaded (syntax trees, so that an overlay-loaded program is reproduced) plus the views
	overlay := map[string][]byte{}
	dir := ""
	plain := printer.Config{Mode: printer.UseSpaces | printer.TabIndent | printer.SourcePos, Tabwidth: 8}
	for _, file := range pk.Syntax {
		fn := p.Fset.Position(file.Package).Filename
		if fn == "" {
			return nil
		}
		var buf bytes.Buffer
		if err := plain.Fprint(&buf, p.Fset, file); err != nil {
			return nil
		}
		overlay[fn] = buf.Bytes()
		dir = filepath.Dir(fn)
	}
	overlay[filepath.Join(dir, "zz_lachk_views.go")] = src.Bytes()
	rel, err := filepath.Rel(p.Repo, dir)
	if err != nil {
		return nil
	}
	p2, err := core.Load(core.LoadOpts{Repo: p.Repo, Patterns: []string{"./" + filepath.ToSlash(rel)}, GOARCH: p.GOARCH, Overlay: overlay})
	if os.Getenv("LACHK_DEBUG_VIEW") != "" {
		fmt.Fprintf(os.Stderr, "---- inlined views ----\n%s\n---- load error: %v\n", src.String(), err)
	}
	if err != nil {
		return nil
	}
	v := &c11View{P: p2, Has: has}
	for h := range in.looked {
		v.Looked = append(v.Looked, short(h))
	}
	sort.Strings(v.Looked)
	c11ViewCache[p] = v
	c11ViewOfProg[p2] = v
	return v
}

// ---------------------------------------------------------------------------
// the inliner

type c11Inl struct {
	p       *core.Prog
	pk      *types.Package
	info    *types.Info
	keep    map[string]bool
	orig    map[ast.Node]ast.Node // cloned node -> node of the loaded syntax (type information lives there)
	done    map[ast.Node]bool     // inlined blocks: already processed to their own depth
	onStack map[*core.FuncInfo]bool
	frames  []token.Pos // call positions (in the loaded syntax) of the inlines being expanded, outermost first
	looked  map[string]bool
	imports map[string]string // import path -> local name needed by the view file
	changed bool
	n       int
	failed  bool
	bad     bool                // the inline being built must be abandoned
	fresh   map[*ast.Ident]bool // synthetic identifiers that declare a new variable
	hosts   []*core.FuncInfo    // declared functions of the package
}

const c11InlineDepth = 3

// viewDecl returns the inlined copy of f's declaration (nil if nothing was inlined).
func (in *c11Inl) viewDecl(f *core.FuncInfo) *ast.FuncDecl {
	in.changed, in.failed = false, false
	d := in.clone(f.Decl).(*ast.FuncDecl)
	d.Doc = nil
	in.onStack[f] = true
	in.frames = nil
	in.exprPass(d.Body, c11InlineDepth)
	in.stmtPass(d.Body, c11InlineDepth)
	delete(in.onStack, f)
	if !in.changed || in.failed {
		return nil
	}
	d.Name = &ast.Ident{Name: f.Decl.Name.Name + c11ViewSuffix, NamePos: f.Decl.Name.NamePos}
	return d
}

// clone deep-copies a syntax tree (positions kept, comments and resolver objects dropped) and records, for
// every copied node, the node of the loaded syntax it stands for.
func (in *c11Inl) clone(n ast.Node) ast.Node {
	if n == nil {
		return nil
	}
	v := in.cloneVal(reflect.ValueOf(n))
	return v.Interface().(ast.Node)
}

func (in *c11Inl) cloneVal(v reflect.Value) reflect.Value {
	switch v.Kind() {
	case reflect.Interface:
		if v.IsNil() {
			return v
		}
		c := in.cloneVal(v.Elem())
		r := reflect.New(v.Type()).Elem()
		r.Set(c)
		return r
	case reflect.Ptr:
		if v.IsNil() {
			return v
		}
		switch v.Interface().(type) {
		case *ast.Object, *ast.Scope, *ast.CommentGroup, *ast.Comment:
			return reflect.Zero(v.Type())
		}
		if v.Elem().Kind() != reflect.Struct {
			return v
		}
		nv := reflect.New(v.Elem().Type())
		for i := 0; i < v.Elem().NumField(); i++ {
			if nv.Elem().Field(i).CanSet() {
				nv.Elem().Field(i).Set(in.cloneVal(v.Elem().Field(i)))
			}
		}
		if on, ok := v.Interface().(ast.Node); ok {
			o := on
			if oo, ok := in.orig[on]; ok {
				o = oo
			}
			in.orig[nv.Interface().(ast.Node)] = o
		}
		return nv
	case reflect.Slice:
		if v.IsNil() {
			return v
		}
		s := reflect.MakeSlice(v.Type(), v.Len(), v.Len())
		for i := 0; i < v.Len(); i++ {
			s.Index(i).Set(in.cloneVal(v.Index(i)))
		}
		return s
	}
	return v
}

func (in *c11Inl) cloneExpr(e ast.Expr) ast.Expr {
	if e == nil {
		return nil
	}
	return in.clone(e).(ast.Expr)
}

// origOf: the loaded-syntax node a (cloned) node stands for; the node itself if it is loaded syntax.
func (in *c11Inl) origOf(n ast.Node) ast.Node {
	if o, ok := in.orig[n]; ok {
		return o
	}
	return n
}

func (in *c11Inl) objOf(id *ast.Ident) types.Object {
	o, _ := in.origOf(id).(*ast.Ident)
	if o == nil {
		return nil
	}
	return in.info.ObjectOf(o)
}

// collectImports notes the imported packages the identifiers of a view refer to.
func (in *c11Inl) collectImports(d *ast.FuncDecl) {
	ast.Inspect(d, func(n ast.Node) bool {
		if id, ok := n.(*ast.Ident); ok {
			if pn, ok := in.objOf(id).(*types.PkgName); ok {
				in.imports[pn.Imported().Path()] = id.Name
			}
		}
		return true
	})
}

// exprPass replaces calls of single-expression helpers by the (parenthesised) expression.
func (in *c11Inl) exprPass(root ast.Node, depth int) ast.Node {
	if depth <= 0 {
		return root
	}
	return astutil.Apply(root, func(cur *astutil.Cursor) bool {
		return !in.done[cur.Node()]
	}, func(cur *astutil.Cursor) bool {
		call, ok := cur.Node().(*ast.CallExpr)
		if !ok {
			return true
		}
		if r := in.inlineExpr(call, depth); r != nil {
			cur.Replace(r)
			in.changed = true
		}
		return true
	})
}

// stmtPass replaces statement-level helper calls (h(..); x := h(..); x = h(..); var x = h(..); return h(..))
// in every statement list under root.
func (in *c11Inl) stmtPass(root ast.Node, depth int) {
	if depth <= 0 {
		return
	}
	ast.Inspect(root, func(n ast.Node) bool {
		if n == nil || in.done[n] {
			return false
		}
		switch x := n.(type) {
		case *ast.BlockStmt:
			x.List = in.rewriteList(x.List, depth)
		case *ast.CaseClause:
			x.Body = in.rewriteList(x.Body, depth)
		case *ast.CommClause:
			x.Body = in.rewriteList(x.Body, depth)
		}
		return true
	})
}

func (in *c11Inl) rewriteList(list []ast.Stmt, depth int) []ast.Stmt {
	var out []ast.Stmt
	for _, s := range list {
		if in.done[s] {
			out = append(out, s)
			continue
		}
		for _, h := range in.hoist(s) {
			in.changed = true
			if repl := in.inlineStmt(h, depth); repl != nil {
				out = append(out, repl...)
			} else {
				out = append(out, h)
			}
		}
		if repl := in.inlineStmt(s, depth); repl != nil {
			out = append(out, repl...)
			in.changed = true
			continue
		}
		out = append(out, s)
	}
	return out
}

// c11Callee describes a call that can be looked through.
type c11Callee struct {
	g       *core.FuncInfo
	oc      *ast.CallExpr // the call in the loaded syntax
	sig     *types.Signature
	recvArg ast.Expr // receiver operand (cloned tree), nil for plain functions
	addr    bool     // the receiver operand is implicitly addressed (x.m() with pointer receiver, x a variable)
	deref   bool     // the receiver operand is implicitly dereferenced
	closure bool     // the callee is a function literal bound to a local variable
}

func (in *c11Inl) callee(call *ast.CallExpr) *c11Callee {
	oc, _ := in.origOf(call).(*ast.CallExpr)
	if oc == nil || oc.Ellipsis.IsValid() {
		return nil
	}
	var g *core.FuncInfo
	var sig *types.Signature
	closure := false
	if fn := typeutil.StaticCallee(in.info, oc); fn != nil {
		if fn.Pkg() != in.pk {
			return nil
		}
		g = in.p.FuncOf(fn)
		if g == nil || g.Decl == nil {
			return nil
		}
		sig, _ = fn.Type().(*types.Signature)
	} else if id, isID := ast.Unparen(oc.Fun).(*ast.Ident); isID {
		// a local closure: f := func(..) {..}; f(..)
		v, _ := in.info.Uses[id].(*types.Var)
		lit := in.litOf(v)
		if lit == nil {
			return nil
		}
		g = in.p.LitInfo(lit)
		sig, _ = in.info.TypeOf(lit).(*types.Signature)
		closure = true
	}
	if g == nil || g.Body == nil || in.keep[g.Name] || in.onStack[g] {
		return nil
	}
	if sig == nil || sig.Variadic() || sig.TypeParams() != nil || sig.RecvTypeParams() != nil || len(oc.Args) != sig.Params().Len() {
		return nil
	}
	if len(call.Args) != len(oc.Args) {
		return nil
	}
	ok := true
	ast.Inspect(g.Body, func(n ast.Node) bool {
		switch x := n.(type) {
		case *ast.DeferStmt:
			ok = false
		case *ast.TypeSwitchStmt:
			if _, isAssign := x.Assign.(*ast.AssignStmt); isAssign {
				ok = false
			}
		case *ast.CallExpr:
			if id, isID := ast.Unparen(x.Fun).(*ast.Ident); isID {
				if b, isB := in.info.Uses[id].(*types.Builtin); isB && b.Name() == "recover" {
					ok = false
				}
			}
		}
		return ok
	})
	if !ok {
		return nil
	}
	cl := &c11Callee{g: g, oc: oc, sig: sig, closure: closure}
	if sig.Recv() != nil {
		osel, _ := ast.Unparen(oc.Fun).(*ast.SelectorExpr)
		csel, _ := ast.Unparen(call.Fun).(*ast.SelectorExpr)
		if osel == nil || csel == nil {
			return nil
		}
		s := in.info.Selections[osel]
		if s == nil || s.Kind() != types.MethodVal || len(s.Index()) != 1 {
			return nil
		}
		if g.Decl.Recv == nil || len(g.Decl.Recv.List) != 1 {
			return nil
		}
		at := in.info.TypeOf(osel.X)
		if at == nil {
			return nil
		}
		_, pPtr := sig.Recv().Type().(*types.Pointer)
		_, aPtr := at.Underlying().(*types.Pointer)
		cl.recvArg = csel.X
		cl.addr = pPtr && !aPtr
		cl.deref = !pPtr && aPtr
	}
	// every free identifier of the callee must mean the same thing where the body is going to stand
	if !in.captureFree(g, g.Body, oc.Pos()) {
		return nil
	}
	return cl
}

// typeExpr copies a type expression of the callee's signature to where the body is going to stand; the
// inline is abandoned (in.bad) if one of its names means something else there.
func (in *c11Inl) typeExpr(cl *c11Callee, e ast.Expr) ast.Expr {
	if !in.captureFree(cl.g, e, cl.oc.Pos()) {
		in.bad = true
	}
	return in.cloneExpr(e)
}

// captureFree: the identifiers under root (a part of g's declaration) that refer to package-level,
// file-level (imports) or universe objects resolve to the same objects at every position where the body
// will be nested.
func (in *c11Inl) captureFree(g *core.FuncInfo, root ast.Node, at token.Pos) bool {
	ok := true
	positions := append(append([]token.Pos(nil), in.frames...), at)
	ast.Inspect(root, func(n ast.Node) bool {
		id, isID := n.(*ast.Ident)
		if !isID || !ok {
			return ok
		}
		o := in.info.Uses[id]
		if o == nil || id.Name == "_" {
			return true
		}
		if in.localOf(g, o) {
			return true
		}
		if _, isPkg := o.(*types.PkgName); !isPkg {
			if o.Parent() == nil {
				return true // field, method: not a lexical reference
			}
			if _, isLabel := o.(*types.Label); isLabel {
				return true
			}
			if o.Parent() != in.pk.Scope() && o.Parent() != types.Universe && o.Pkg() != in.pk {
				return true // a member of another package (qualified identifier)
			}
		}
		for _, pos := range positions {
			sc := in.pk.Scope().Innermost(pos)
			if sc == nil {
				ok = false
				return false
			}
			_, found := sc.LookupParent(id.Name, pos)
			if found == o {
				continue
			}
			pa, isA := o.(*types.PkgName)
			pb, isB := found.(*types.PkgName)
			if isA && isB && pa.Imported() == pb.Imported() {
				continue
			}
			ok = false
			return false
		}
		return true
	})
	return ok
}

// localOf: o is declared inside g's declaration (parameter, result, receiver, local, label).
func (in *c11Inl) localOf(g *core.FuncInfo, o types.Object) bool {
	lo, hi := c11Span(g)
	if o == nil || !(lo <= o.Pos() && o.Pos() < hi) {
		return false
	}
	if _, isLabel := o.(*types.Label); isLabel {
		return true
	}
	if v, isVar := o.(*types.Var); isVar && v.IsField() {
		return false
	}
	return o.Parent() != nil && o.Parent() != in.pk.Scope() && o.Parent() != types.Universe
}

// pure: evaluating e (a cloned tree) has no effect and may be repeated.
func (in *c11Inl) pure(e ast.Expr) bool {
	switch x := e.(type) {
	case nil:
		return false
	case *ast.Ident, *ast.BasicLit:
		return true
	case *ast.ParenExpr:
		return in.pure(x.X)
	case *ast.SelectorExpr:
		o, _ := in.origOf(x).(*ast.SelectorExpr)
		if o == nil {
			return false
		}
		if s := in.info.Selections[o]; s != nil {
			return s.Kind() == types.FieldVal && in.pure(x.X)
		}
		switch in.info.Uses[o.Sel].(type) {
		case *types.Var, *types.Const:
			return true
		}
		return false
	case *ast.IndexExpr:
		return in.pure(x.X) && in.pure(x.Index)
	case *ast.StarExpr:
		return in.pure(x.X)
	case *ast.UnaryExpr:
		return x.Op != token.ARROW && in.pure(x.X)
	case *ast.BinaryExpr:
		return in.pure(x.X) && in.pure(x.Y)
	case *ast.CallExpr:
		o, _ := in.origOf(x).(*ast.CallExpr)
		if o == nil || len(x.Args) != 1 {
			return false
		}
		if tv, ok := in.info.Types[o.Fun]; ok && tv.IsType() {
			return in.pure(x.Args[0])
		}
		if id, ok := ast.Unparen(o.Fun).(*ast.Ident); ok {
			if b, ok := in.info.Uses[id].(*types.Builtin); ok && (b.Name() == "len" || b.Name() == "cap") {
				return in.pure(x.Args[0])
			}
		}
	}
	return false
}

// c11Param is one parameter (or the receiver) of a callee together with the caller's operand.
type c11Param struct {
	obj     *types.Var // nil: unnamed or blank
	typ     ast.Expr   // type expression in the callee's declaration
	arg     ast.Expr   // operand in the cloned tree (receiver: with the implicit & or * made explicit)
	argType types.Type // type of the operand as written in the loaded syntax
	argOrig ast.Expr
	isRecv  bool
	addrOf  ast.Expr // receiver operand x when arg is the implicit &x
}

func (in *c11Inl) params(cl *c11Callee, call *ast.CallExpr) []c11Param {
	var out []c11Param
	g := cl.g
	if cl.recvArg != nil {
		fl := g.Decl.Recv.List[0]
		pr := c11Param{typ: fl.Type, isRecv: true, arg: cl.recvArg}
		if len(fl.Names) == 1 && fl.Names[0].Name != "_" {
			pr.obj, _ = in.info.Defs[fl.Names[0]].(*types.Var)
		}
		osel := ast.Unparen(cl.oc.Fun).(*ast.SelectorExpr)
		pr.argOrig = osel.X
		pr.argType = in.info.TypeOf(osel.X)
		switch {
		case cl.addr:
			pr.addrOf = cl.recvArg
			pr.arg = &ast.UnaryExpr{Op: token.AND, X: cl.recvArg}
			pr.argType = types.NewPointer(pr.argType)
		case cl.deref:
			pr.arg = &ast.StarExpr{X: cl.recvArg}
			if pt, ok := pr.argType.Underlying().(*types.Pointer); ok {
				pr.argType = pt.Elem()
			}
		}
		out = append(out, pr)
	}
	k := 0
	for _, fl := range g.Type.Params.List {
		names := fl.Names
		if len(names) == 0 {
			names = []*ast.Ident{nil}
		}
		for _, nm := range names {
			pr := c11Param{typ: fl.Type, arg: call.Args[k], argOrig: cl.oc.Args[k], argType: in.info.TypeOf(cl.oc.Args[k])}
			if nm != nil && nm.Name != "_" {
				pr.obj, _ = in.info.Defs[nm].(*types.Var)
			}
			out = append(out, pr)
			k++
		}
	}
	return out
}

// c11Uses summarises how a callee uses one of its variables.
type c11Uses struct {
	n          int
	assigned   bool // assigned, incremented, range target or address taken (anywhere, literals included)
	onlySelect bool // every use is the operand of a selector (v.f, v.m())
	inLit      bool
}

func (in *c11Inl) usesOf(g *core.FuncInfo, v *types.Var) c11Uses {
	u := c11Uses{onlySelect: true}
	if v == nil {
		return u
	}
	var stack []ast.Node
	ast.Inspect(g.Body, func(n ast.Node) bool {
		if n == nil {
			stack = stack[:len(stack)-1]
			return true
		}
		if id, ok := n.(*ast.Ident); ok && in.info.Uses[id] == types.Object(v) {
			u.n++
			var parent ast.Node
			up := len(stack) - 1
			for up >= 0 {
				if _, isParen := stack[up].(*ast.ParenExpr); !isParen {
					break
				}
				up--
			}
			if up >= 0 {
				parent = stack[up]
			}
			for _, s := range stack {
				if _, isLit := s.(*ast.FuncLit); isLit {
					u.inLit = true
				}
			}
			sel, isSel := parent.(*ast.SelectorExpr)
			if !isSel || ast.Unparen(sel.X) != ast.Expr(id) {
				u.onlySelect = false
			}
			switch p := parent.(type) {
			case *ast.AssignStmt:
				for _, l := range p.Lhs {
					if ast.Unparen(l) == ast.Expr(id) {
						u.assigned = true
					}
				}
			case *ast.IncDecStmt:
				u.assigned = true
			case *ast.RangeStmt:
				if p.Key == ast.Expr(id) || p.Value == ast.Expr(id) {
					u.assigned = true
				}
			case *ast.UnaryExpr:
				if p.Op == token.AND {
					u.assigned = true
				}
			}
		}
		stack = append(stack, n)
		return true
	})
	return u
}

// scalarOrRef: copying a value of this type and naming the same variable are indistinguishable as long as
// the variable is not reassigned (basic types, pointers, slices, maps, channels, functions, interfaces).
func c11ScalarOrRef(t types.Type) bool {
	if t == nil {
		return false
	}
	switch t.Underlying().(type) {
	case *types.Basic, *types.Pointer, *types.Slice, *types.Map, *types.Chan, *types.Signature, *types.Interface:
		return true
	}
	return false
}

// substitute decides whether the uses of a parameter can be replaced by the operand itself and returns a
// generator of the replacement (nil: bind the parameter to a fresh local instead).
func (in *c11Inl) substitute(cl *c11Callee, pr c11Param, exprLevel bool) func() ast.Expr {
	if pr.obj == nil {
		return nil
	}
	u := in.usesOf(cl.g, pr.obj)
	if u.assigned || u.inLit {
		return nil
	}
	// p *T bound to &x, x a variable: p.f is x.f
	if pr.addrOf != nil || c11IsAddrOfIdent(pr.arg) {
		x := pr.addrOf
		if x == nil {
			x = ast.Unparen(pr.arg).(*ast.UnaryExpr).X
		}
		if id, ok := ast.Unparen(x).(*ast.Ident); ok && u.onlySelect {
			if _, isVar := in.objOf(id).(*types.Var); isVar {
				return func() ast.Expr { return in.cloneExpr(id) }
			}
		}
		// p bound to &x.f.g (fields of a variable, no calls or indexing on the way): p.h is x.f.g.h
		if u.onlySelect && in.fieldPath(x) {
			return func() ast.Expr { return in.cloneExpr(ast.Unparen(x)) }
		}
		return nil
	}
	ptype := pr.obj.Type()
	same := pr.argType != nil && types.Identical(pr.argType, ptype)
	isConst := false
	if tv, ok := in.info.Types[pr.argOrig]; ok && tv.Value != nil {
		isConst = true
	}
	wrap := func(e ast.Expr) ast.Expr {
		if same && !isConst {
			return e
		}
		return &ast.CallExpr{Fun: &ast.ParenExpr{X: in.typeExpr(cl, pr.typ)}, Args: []ast.Expr{e}}
	}
	if id, ok := ast.Unparen(pr.arg).(*ast.Ident); ok && !pr.isRecv || ok && pr.isRecv && !cl.deref {
		switch in.objOf(id).(type) {
		case *types.Var:
			if c11ScalarOrRef(ptype) && same {
				return func() ast.Expr { return in.cloneExpr(id) }
			}
		case *types.Const, *types.Nil:
			if c11ScalarOrRef(ptype) {
				return func() ast.Expr { return wrap(in.cloneExpr(id)) }
			}
		}
	}
	if isConst && c11ScalarOrRef(ptype) {
		return func() ast.Expr { return wrap(in.cloneExpr(pr.arg)) }
	}
	if exprLevel && in.pure(pr.arg) && u.n >= 1 {
		return func() ast.Expr { return &ast.ParenExpr{X: wrap(in.cloneExpr(pr.arg))} }
	}
	return nil
}

func c11IsAddrOfIdent(e ast.Expr) bool {
	u, ok := ast.Unparen(e).(*ast.UnaryExpr)
	if !ok || u.Op != token.AND {
		return false
	}
	_, isID := ast.Unparen(u.X).(*ast.Ident)
	return isID
}

// replaceUses replaces, under root (a cloned tree of the callee), the identifiers that denote v.
func (in *c11Inl) replaceUses(root ast.Node, v *types.Var, gen func() ast.Expr) ast.Node {
	return astutil.Apply(root, nil, func(cur *astutil.Cursor) bool {
		if id, ok := cur.Node().(*ast.Ident); ok && in.objOf(id) == types.Object(v) {
			if o, _ := in.origOf(id).(*ast.Ident); o != nil && in.info.Uses[o] != nil {
				r := gen()
				if ri, isID := r.(*ast.Ident); isID {
					ri.NamePos = id.NamePos // keep the statement on the callee's line
				}
				cur.Replace(r)
			}
		}
		return true
	})
}

// rename gives the callee's own names (parameters, results, locals, labels) a suffix unique to this inline.
func (in *c11Inl) rename(root ast.Node, g *core.FuncInfo, suffix string) {
	ast.Inspect(root, func(n ast.Node) bool {
		if id, ok := n.(*ast.Ident); ok && id.Name != "_" {
			if o := in.objOf(id); o != nil && in.localOf(g, o) {
				id.Name += suffix
			}
		}
		return true
	})
}

// inlineExpr: the call is h(args) for a helper whose body is `return e`: (e[params := args]).
func (in *c11Inl) inlineExpr(call *ast.CallExpr, depth int) ast.Expr {
	cl := in.callee(call)
	if cl == nil {
		return nil
	}
	g := cl.g
	if cl.closure || cl.sig.Results().Len() != 1 {
		return nil
	}
	// the body is `return e`, or the predicate form `if c { return true }; return false` (either
	// polarity, with or without else), which is `return c` / `return !c`
	var res ast.Expr
	negate := false
	switch len(g.Body.List) {
	case 1:
		if r, ok := g.Body.List[0].(*ast.ReturnStmt); ok && len(r.Results) == 1 {
			res = r.Results[0]
		} else if ifs, ok := g.Body.List[0].(*ast.IfStmt); ok && ifs.Init == nil {
			if eb, ok := ifs.Else.(*ast.BlockStmt); ok {
				if k1, ok1 := in.constBoolReturn(ifs.Body); ok1 {
					if k2, ok2 := in.constBoolReturn(eb); ok2 && k1 != k2 {
						res, negate = ifs.Cond, !k1
					}
				}
			}
		}
	case 2:
		if ifs, ok := g.Body.List[0].(*ast.IfStmt); ok && ifs.Init == nil && ifs.Else == nil {
			if k1, ok1 := in.constBoolReturn(ifs.Body); ok1 {
				if k2, ok2 := in.constBoolReturn(&ast.BlockStmt{List: g.Body.List[1:]}); ok2 && k1 != k2 {
					res, negate = ifs.Cond, !k1
				}
			}
		}
	}
	if res == nil {
		return nil
	}
	ret := &ast.ReturnStmt{Results: []ast.Expr{res}}
	hasLit := false
	ast.Inspect(ret, func(n ast.Node) bool {
		if _, ok := n.(*ast.FuncLit); ok {
			hasLit = true
		}
		return !hasLit
	})
	if hasLit {
		return nil
	}
	saved := in.bad
	in.bad = false
	defer func() { in.bad = saved }()
	prs := in.params(cl, call)
	gens := make([]func() ast.Expr, len(prs))
	for i, pr := range prs {
		if pr.obj == nil {
			if !in.pure(pr.arg) {
				return nil
			}
			continue
		}
		gens[i] = in.substitute(cl, pr, true)
		if gens[i] == nil {
			if in.usesOf(g, pr.obj).n == 0 && in.pure(pr.arg) {
				continue
			}
			return nil
		}
	}
	in.n++
	var e ast.Node = in.cloneExpr(ret.Results[0])
	// the result has the declared result type (a conversion is a no-op when it already has it)
	rt := cl.sig.Results().At(0).Type()
	// (a comparison has the untyped boolean type, which becomes bool wherever it stands)
	needConv := !types.Identical(types.Default(in.info.TypeOf(ret.Results[0])), rt)
	if tv, ok := in.info.Types[ret.Results[0]]; ok && tv.Value != nil {
		needConv = true
	}
	in.rename(e, g, fmt.Sprintf("_i%d", in.n))
	holder := &ast.ParenExpr{X: e.(ast.Expr)}
	if negate {
		holder = &ast.ParenExpr{X: &ast.UnaryExpr{Op: token.NOT, X: holder}}
	}
	for i, pr := range prs {
		if gens[i] != nil {
			in.replaceUses(holder, pr.obj, gens[i])
		}
	}
	if needConv {
		holder = &ast.ParenExpr{X: &ast.CallExpr{Fun: &ast.ParenExpr{X: in.typeExpr(cl, g.Type.Results.List[0].Type)}, Args: []ast.Expr{holder.X}}}
	}
	if in.bad {
		return nil
	}
	in.orig[holder] = cl.oc
	in.looked[g.Name] = true
	// helpers used by the helper
	in.onStack[g] = true
	in.frames = append(in.frames, cl.oc.Pos())
	in.exprPass(holder, depth-1)
	in.frames = in.frames[:len(in.frames)-1]
	delete(in.onStack, g)
	return holder
}

// rvoVars: the callee ends in its only return statement, which returns top-level locals of its own, one per
// result and of exactly the result types (`x := ...; ...; return x` / `return xs, err`). Those locals can
// then stand for the caller's result variables directly (no copy), which is how the code read before the
// helper was extracted.
func (in *c11Inl) rvoVars(cl *c11Callee) []*types.Var {
	g := cl.g
	list := g.Body.List
	nres := cl.sig.Results().Len()
	if len(list) == 0 || nres == 0 {
		return nil
	}
	last, ok := list[len(list)-1].(*ast.ReturnStmt)
	if !ok || len(last.Results) != nres {
		return nil
	}
	nret := 0
	ast.Inspect(g.Body, func(n ast.Node) bool {
		switch n.(type) {
		case *ast.FuncLit:
			return false
		case *ast.ReturnStmt:
			nret++
		}
		return true
	})
	if nret != 1 {
		return nil
	}
	var out []*types.Var
	seen := map[*types.Var]bool{}
	for k, r := range last.Results {
		id, ok := ast.Unparen(r).(*ast.Ident)
		if !ok {
			return nil
		}
		v, _ := in.info.Uses[id].(*types.Var)
		if v == nil || seen[v] || !in.localOf(g, v) || !types.Identical(v.Type(), cl.sig.Results().At(k).Type()) || in.usesOf(g, v).inLit {
			return nil
		}
		seen[v] = true
		// declared by a top-level `x := e` (possibly among others) or `var x T [= e]`
		declared := false
		for _, st := range list {
			switch x := st.(type) {
			case *ast.AssignStmt:
				if x.Tok == token.DEFINE {
					for _, l := range x.Lhs {
						if lid, ok := l.(*ast.Ident); ok && in.info.Defs[lid] == types.Object(v) {
							declared = true
						}
					}
				}
			case *ast.DeclStmt:
				if gd, ok := x.Decl.(*ast.GenDecl); ok && gd.Tok == token.VAR {
					for _, sp := range gd.Specs {
						if vs, ok := sp.(*ast.ValueSpec); ok {
							for _, nm := range vs.Names {
								if in.info.Defs[nm] == types.Object(v) {
									declared = true
								}
							}
						}
					}
				}
			}
		}
		if !declared {
			return nil
		}
		out = append(out, v)
	}
	return out
}

// mentions: the name occurs as an identifier somewhere under n.
func c11Mentions(n ast.Node, name string) bool {
	found := false
	ast.Inspect(n, func(m ast.Node) bool {
		if id, ok := m.(*ast.Ident); ok && id.Name == name {
			found = true
		}
		return !found
	})
	return found
}

// hoist moves helper calls nested in the expressions of a simple statement in front of it
// (`x := T{f: h(a)}` becomes `t := h(a); x := T{f: t}`), so that they can be inlined as statements. Only
// calls that are evaluated unconditionally and before every other call of the statement are moved (the
// language evaluates calls in lexical order and leaves the order of other operand evaluations open).
func (in *c11Inl) hoist(s ast.Stmt) []ast.Stmt {
	var roots []*ast.Expr
	switch x := s.(type) {
	case *ast.AssignStmt:
		if len(x.Rhs) == 1 {
			if c, ok := ast.Unparen(x.Rhs[0]).(*ast.CallExpr); ok && in.callee(c) != nil {
				return nil // the statement itself is the inlinable form
			}
		}
		for i := range x.Lhs {
			if _, isID := x.Lhs[i].(*ast.Ident); !isID {
				return nil // operands on the left are evaluated first: leave such statements alone
			}
		}
		for i := range x.Rhs {
			roots = append(roots, &x.Rhs[i])
		}
	case *ast.ExprStmt:
		if c, ok := ast.Unparen(x.X).(*ast.CallExpr); ok && in.callee(c) != nil {
			return nil
		}
		roots = append(roots, &x.X)
	case *ast.ReturnStmt:
		if len(x.Results) == 1 {
			if c, ok := ast.Unparen(x.Results[0]).(*ast.CallExpr); ok && in.callee(c) != nil {
				return nil
			}
		}
		for i := range x.Results {
			roots = append(roots, &x.Results[i])
		}
	case *ast.DeclStmt:
		gd, ok := x.Decl.(*ast.GenDecl)
		if !ok || gd.Tok != token.VAR || len(gd.Specs) != 1 {
			return nil
		}
		vs, ok := gd.Specs[0].(*ast.ValueSpec)
		if !ok {
			return nil
		}
		if len(vs.Values) == 1 {
			if c, ok := ast.Unparen(vs.Values[0]).(*ast.CallExpr); ok && in.callee(c) != nil {
				return nil
			}
		}
		for i := range vs.Values {
			roots = append(roots, &vs.Values[i])
		}
	case *ast.IfStmt:
		if x.Init != nil {
			return nil
		}
		roots = append(roots, &x.Cond)
	case *ast.RangeStmt:
		roots = append(roots, &x.X)
	case *ast.SwitchStmt:
		if x.Init != nil || x.Tag == nil {
			return nil
		}
		roots = append(roots, &x.Tag)
	default:
		return nil
	}
	var out []ast.Stmt
	blocked := false
	var walk func(pe *ast.Expr, cond bool)
	walk = func(pe *ast.Expr, cond bool) {
		if pe == nil || *pe == nil {
			return
		}
		switch x := (*pe).(type) {
		case *ast.ParenExpr:
			walk(&x.X, cond)
		case *ast.SelectorExpr:
			walk(&x.X, cond)
		case *ast.IndexExpr:
			walk(&x.X, cond)
			walk(&x.Index, cond)
		case *ast.SliceExpr:
			walk(&x.X, cond)
			walk(&x.Low, cond)
			walk(&x.High, cond)
			walk(&x.Max, cond)
		case *ast.StarExpr:
			walk(&x.X, cond)
		case *ast.TypeAssertExpr:
			walk(&x.X, cond)
		case *ast.UnaryExpr:
			walk(&x.X, cond)
			if x.Op == token.ARROW {
				blocked = true
			}
		case *ast.BinaryExpr:
			walk(&x.X, cond)
			walk(&x.Y, cond || x.Op == token.LAND || x.Op == token.LOR)
		case *ast.KeyValueExpr:
			walk(&x.Key, cond)
			walk(&x.Value, cond)
		case *ast.CompositeLit:
			for i := range x.Elts {
				walk(&x.Elts[i], cond)
			}
		case *ast.CallExpr:
			walk(&x.Fun, cond)
			for i := range x.Args {
				walk(&x.Args[i], cond)
			}
			o, _ := in.origOf(x).(*ast.CallExpr)
			if o != nil {
				if tv, ok := in.info.Types[o.Fun]; ok && tv.IsType() {
					return // conversion
				}
				if id, ok := ast.Unparen(o.Fun).(*ast.Ident); ok {
					if _, isB := in.info.Uses[id].(*types.Builtin); isB && id.Name != "panic" && id.Name != "recover" && id.Name != "append" && id.Name != "copy" && id.Name != "delete" && id.Name != "close" && id.Name != "print" && id.Name != "println" && id.Name != "clear" {
						return // len, cap, make, new, ... : no observable effect
					}
				}
			}
			if !cond && !blocked {
				if cl := in.callee(x); cl != nil && cl.sig.Results().Len() == 1 {
					in.n++
					name := fmt.Sprintf("h%d%s", in.n, c11ViewSuffix)
					t := ast.NewIdent(name)
					in.fresh[t] = true
					out = append(out, &ast.AssignStmt{Lhs: []ast.Expr{t}, Tok: token.DEFINE, TokPos: x.Pos(), Rhs: []ast.Expr{x}})
					u := ast.NewIdent(name)
					u.NamePos = x.Pos()
					in.orig[u] = cl.oc // the temporary has the type of the call it stands for
					*pe = u
					return
				}
			}
			blocked = true
		case *ast.FuncLit:
			// evaluated later, if at all
		}
	}
	for _, r := range roots {
		walk(r, false)
	}
	return out
}

// inlineStmt: the statement is a helper call whose results (if any) go to plain targets.
func (in *c11Inl) inlineStmt(s ast.Stmt, depth int) []ast.Stmt {
	asCall := func(e ast.Expr) *ast.CallExpr {
		c, _ := ast.Unparen(e).(*ast.CallExpr)
		return c
	}
	var call *ast.CallExpr
	switch x := s.(type) {
	case *ast.ExprStmt:
		call = asCall(x.X)
	case *ast.AssignStmt:
		if len(x.Rhs) == 1 && (x.Tok == token.DEFINE || x.Tok == token.ASSIGN) {
			call = asCall(x.Rhs[0])
		}
	case *ast.ReturnStmt:
		if len(x.Results) == 1 {
			call = asCall(x.Results[0])
		}
	case *ast.DeclStmt:
		if gd, ok := x.Decl.(*ast.GenDecl); ok && gd.Tok == token.VAR && len(gd.Specs) == 1 {
			if vs, ok := gd.Specs[0].(*ast.ValueSpec); ok && len(vs.Values) == 1 {
				call = asCall(vs.Values[0])
			}
		}
	}
	if call == nil {
		return nil
	}
	cl := in.callee(call)
	if cl == nil {
		return nil
	}
	g := cl.g
	nres := cl.sig.Results().Len()
	// result type expressions of the callee, one per result
	var resTypes []ast.Expr
	var resNames []*ast.Ident
	if g.Type.Results != nil {
		for _, fl := range g.Type.Results.List {
			if len(fl.Names) == 0 {
				resTypes = append(resTypes, fl.Type)
				resNames = append(resNames, nil)
			}
			for _, nm := range fl.Names {
				resTypes = append(resTypes, fl.Type)
				resNames = append(resNames, nm)
			}
		}
	}
	if len(resTypes) != nres {
		return nil
	}
	saved := in.bad
	in.bad = false
	defer func() { in.bad = saved }()
	in.n++
	suffix := fmt.Sprintf("_i%d", in.n)
	// free names of the callee: a direct target must not shadow one of them inside the inlined code
	free := map[string]bool{}
	for _, root := range []ast.Node{g.Type, g.Body} {
		ast.Inspect(root, func(n ast.Node) bool {
			if id, ok := n.(*ast.Ident); ok {
				if o := in.info.Uses[id]; o != nil && !in.localOf(g, o) {
					free[id.Name] = true
				}
			}
			return true
		})
	}
	varDecl := func(name *ast.Ident, typ ast.Expr) ast.Stmt {
		return &ast.DeclStmt{Decl: &ast.GenDecl{Tok: token.VAR, TokPos: call.Pos(), Specs: []ast.Spec{&ast.ValueSpec{Names: []*ast.Ident{name}, Type: typ}}}}
	}
	// where the results go (nil: discarded); declared[k]: the k-th target is a variable this statement
	// declares (its declaration `var x T` is emitted in front unless the callee's own local becomes it)
	var post []ast.Stmt
	var targets []ast.Expr
	var declared []bool
	var declType []ast.Expr
	temps := func() {
		targets, declared, declType = nil, nil, nil
		for k := 0; k < nres; k++ {
			nm := fmt.Sprintf("r%d%s", k, suffix)
			targets = append(targets, ast.NewIdent(nm))
			declared = append(declared, true)
			declType = append(declType, resTypes[k])
		}
	}
	tempExprs := func() []ast.Expr {
		var out []ast.Expr
		for _, t := range targets {
			out = append(out, ast.NewIdent(t.(*ast.Ident).Name))
		}
		return out
	}
	isNew := func(id *ast.Ident) bool {
		if in.fresh[id] {
			return true
		}
		o, _ := in.origOf(id).(*ast.Ident)
		return o != nil && in.info.Defs[o] != nil
	}
	explicitType := false
	switch x := s.(type) {
	case *ast.ExprStmt:
	case *ast.AssignStmt:
		if len(x.Lhs) != nres {
			return nil
		}
		direct := true
		for _, l := range x.Lhs {
			id, ok := l.(*ast.Ident)
			// a target that the callee's free names or the operands of the call mention cannot be
			// assigned inside the inlined code
			if !ok || (id.Name != "_" && (free[id.Name] || c11Mentions(call, id.Name))) {
				direct = false
			}
		}
		if direct {
			for k, l := range x.Lhs {
				id := l.(*ast.Ident)
				targets = append(targets, id)
				declared = append(declared, x.Tok == token.DEFINE && id.Name != "_" && isNew(id))
				declType = append(declType, resTypes[k])
			}
		} else {
			temps()
			post = append(post, &ast.AssignStmt{Lhs: x.Lhs, Tok: x.Tok, TokPos: x.TokPos, Rhs: tempExprs()})
		}
	case *ast.ReturnStmt:
		if nres == 0 {
			return nil
		}
		temps()
		post = append(post, &ast.ReturnStmt{Return: x.Return, Results: tempExprs()})
	case *ast.DeclStmt:
		vs := x.Decl.(*ast.GenDecl).Specs[0].(*ast.ValueSpec)
		if len(vs.Names) != nres {
			return nil
		}
		for k, id := range vs.Names {
			if id.Name != "_" && (free[id.Name] || c11Mentions(call, id.Name)) {
				return nil
			}
			targets = append(targets, id)
			declared = append(declared, id.Name != "_")
			if vs.Type != nil {
				explicitType = true
				declType = append(declType, vs.Type)
			} else {
				declType = append(declType, resTypes[k])
			}
		}
	}
	// the callee's body
	body := in.clone(g.Body).(*ast.BlockStmt)
	in.rename(body, g, suffix)
	var binds []ast.Stmt
	for _, pr := range in.params(cl, call) {
		if pr.obj == nil {
			if !in.pure(pr.arg) {
				binds = append(binds, &ast.AssignStmt{Lhs: []ast.Expr{ast.NewIdent("_")}, Tok: token.ASSIGN, TokPos: call.Pos(), Rhs: []ast.Expr{pr.arg}})
			}
			continue
		}
		if gen := in.substitute(cl, pr, false); gen != nil {
			in.replaceUses(body, pr.obj, gen)
			continue
		}
		name := ast.NewIdent(pr.obj.Name() + suffix)
		isConst := false
		if tv, ok := in.info.Types[pr.argOrig]; ok && tv.Value != nil {
			isConst = true
		}
		if pr.argType != nil && types.Identical(pr.argType, pr.obj.Type()) && !isConst {
			binds = append(binds, &ast.AssignStmt{Lhs: []ast.Expr{name}, Tok: token.DEFINE, TokPos: call.Pos(), Rhs: []ast.Expr{pr.arg}})
		} else {
			binds = append(binds, &ast.DeclStmt{Decl: &ast.GenDecl{Tok: token.VAR, TokPos: call.Pos(), Specs: []ast.Spec{&ast.ValueSpec{Names: []*ast.Ident{name}, Type: in.typeExpr(cl, pr.typ), Values: []ast.Expr{pr.arg}}}}})
		}
		if in.usesOf(g, pr.obj).n == 0 {
			binds = append(binds, &ast.AssignStmt{Lhs: []ast.Expr{ast.NewIdent("_")}, Tok: token.ASSIGN, Rhs: []ast.Expr{ast.NewIdent(name.Name)}})
		}
	}
	// named results are locals of the inlined code
	var named []ast.Expr
	hasNamed := false
	for k, nm := range resNames {
		if nm == nil || nm.Name == "_" {
			named = append(named, nil)
			continue
		}
		hasNamed = true
		id := ast.NewIdent(nm.Name + suffix)
		binds = append(binds, varDecl(id, in.typeExpr(cl, resTypes[k])),
			&ast.AssignStmt{Lhs: []ast.Expr{ast.NewIdent("_")}, Tok: token.ASSIGN, Rhs: []ast.Expr{ast.NewIdent(id.Name)}})
		named = append(named, ast.NewIdent(id.Name))
	}
	if hasNamed {
		for _, e := range named {
			if e == nil {
				return nil // mixed blank and named results: not handled
			}
		}
	}
	// the callee's own result variable becomes the caller's freshly declared target
	rvo := false
	if rvs := in.rvoVars(cl); rvs != nil && len(targets) == len(rvs) && !explicitType && !hasNamed {
		all := true
		names := map[string]bool{}
		for k := range targets {
			id, isID := targets[k].(*ast.Ident)
			if !declared[k] || !isID || names[id.Name] {
				all = false
			} else {
				names[id.Name] = true
			}
		}
		if all {
			for k, rv := range rvs {
				tname := targets[k].(*ast.Ident).Name
				ast.Inspect(body, func(n ast.Node) bool {
					if id, ok := n.(*ast.Ident); ok && in.objOf(id) == types.Object(rv) {
						id.Name = tname
					}
					return true
				})
			}
			body.List = body.List[:len(body.List)-1]
			rvo = true
		}
	}
	// returns: assign the targets and leave the inlined code
	label := "inl" + suffix
	needLabel := false
	top := body
	var rewriteReturns func(list []ast.Stmt, isTop bool) []ast.Stmt
	bad := false
	rewriteReturns = func(list []ast.Stmt, isTop bool) []ast.Stmt {
		var out []ast.Stmt
		for i, st := range list {
			r, ok := st.(*ast.ReturnStmt)
			if !ok {
				out = append(out, st)
				continue
			}
			vals := r.Results
			if len(vals) == 0 && hasNamed {
				for _, e := range named {
					vals = append(vals, ast.NewIdent(e.(*ast.Ident).Name))
				}
			}
			if len(vals) > 0 {
				var lhs []ast.Expr
				if targets != nil {
					for _, t := range targets {
						lhs = append(lhs, in.cloneTarget(t))
					}
				} else {
					n := len(vals)
					if n == 1 {
						n = nres
					}
					allPure := true
					for _, v := range vals {
						if !in.pure(v) {
							allPure = false
						}
					}
					if !allPure {
						for k := 0; k < n; k++ {
							lhs = append(lhs, ast.NewIdent("_"))
						}
					}
				}
				if lhs != nil {
					if len(vals) != len(lhs) && len(vals) != 1 {
						bad = true
					}
					out = append(out, &ast.AssignStmt{Lhs: lhs, Tok: token.ASSIGN, TokPos: r.Return, Rhs: vals})
				}
			}
			if !(isTop && i == len(list)-1) {
				out = append(out, &ast.BranchStmt{Tok: token.BREAK, TokPos: r.Return, Label: ast.NewIdent(label)})
				needLabel = true
			}
		}
		return out
	}
	ast.Inspect(body, func(n ast.Node) bool {
		switch x := n.(type) {
		case *ast.FuncLit:
			return false
		case *ast.BlockStmt:
			x.List = rewriteReturns(x.List, x == top)
		case *ast.CaseClause:
			x.Body = rewriteReturns(x.Body, false)
		case *ast.CommClause:
			x.Body = rewriteReturns(x.Body, false)
		case *ast.LabeledStmt:
			if _, isRet := x.Stmt.(*ast.ReturnStmt); isRet {
				bad = true
			}
		}
		return true
	})
	if bad {
		in.failed = true
		return nil
	}
	var pre []ast.Stmt
	if !rvo {
		for k, t := range targets {
			if declared[k] {
				var typ ast.Expr
				if explicitType {
					typ = in.cloneExpr(declType[k])
				} else {
					typ = in.typeExpr(cl, declType[k])
				}
				pre = append(pre, varDecl(in.cloneTarget(t).(*ast.Ident), typ))
			}
		}
	}
	if in.bad {
		return nil
	}
	list := append(binds, body.List...)
	// helpers called by the helper
	holder := &ast.BlockStmt{Lbrace: body.Lbrace, List: list, Rbrace: body.Rbrace}
	in.looked[g.Name] = true
	in.onStack[g] = true
	in.frames = append(in.frames, cl.oc.Pos())
	in.exprPass(holder, depth-1)
	in.stmtPass(holder, depth-1)
	in.frames = in.frames[:len(in.frames)-1]
	delete(in.onStack, g)
	if cl.closure {
		// the closure variable stays used even when all its calls are looked through
		if id, ok := ast.Unparen(call.Fun).(*ast.Ident); ok {
			pre = append(pre, &ast.AssignStmt{Lhs: []ast.Expr{ast.NewIdent("_")}, Tok: token.ASSIGN, TokPos: call.Pos(), Rhs: []ast.Expr{in.cloneExpr(id)}})
		}
	}
	var out []ast.Stmt
	out = append(out, pre...)
	if needLabel {
		// several exits: the inlined code is the body of a labelled one-case switch, a return is `break label`
		sw := &ast.LabeledStmt{Label: ast.NewIdent(label), Stmt: &ast.SwitchStmt{Switch: call.Pos(), Body: &ast.BlockStmt{List: []ast.Stmt{&ast.CaseClause{Case: call.Pos(), Body: holder.List}}}}}
		in.done[sw] = true
		out = append(out, sw)
	} else {
		// one exit at the end: the statements stand where the call stood (all their names are unique)
		for _, st := range holder.List {
			in.done[st] = true
		}
		out = append(out, holder.List...)
	}
	for _, st := range pre {
		in.done[st] = true
	}
	for _, st := range post {
		in.done[st] = true
	}
	return append(out, post...)
}

// cloneTarget copies a result target (an identifier of the caller or a synthetic temporary).
func (in *c11Inl) cloneTarget(t ast.Expr) ast.Expr {
	if id, ok := t.(*ast.Ident); ok {
		if _, known := in.orig[id]; !known {
			return ast.NewIdent(id.Name)
		}
	}
	return in.cloneExpr(t)
}

// c11Span: the source range of a function (declaration or literal).
func c11Span(g *core.FuncInfo) (token.Pos, token.Pos) {
	if g.Decl != nil {
		return g.Decl.Pos(), g.Decl.End()
	}
	return g.Lit.Pos(), g.Lit.End()
}

// litOf: v is a local variable whose one and only assignment is its definition `v := func(..) {..}`
// (never reassigned, address never taken): calling v is calling that literal.
func (in *c11Inl) litOf(v *types.Var) *ast.FuncLit {
	if v == nil || v.IsField() || v.Parent() == nil || v.Parent() == in.pk.Scope() {
		return nil
	}
	if in.hosts == nil {
		for _, f := range in.p.Funcs() {
			if f.Decl != nil && f.Pkg.Types == in.pk {
				in.hosts = append(in.hosts, f)
			}
		}
	}
	var host *core.FuncInfo
	for _, f := range in.hosts {
		if f.Decl.Pos() <= v.Pos() && v.Pos() < f.Decl.End() {
			host = f
		}
	}
	if host == nil {
		return nil
	}
	var lit *ast.FuncLit
	n := 0
	for _, g := range append([]*core.FuncInfo{host}, allLits(host)...) {
		for _, a := range assignsToVar(g, v) {
			n++
			if a.Tok == token.DEFINE && a.RHS != nil {
				lit, _ = ast.Unparen(a.RHS).(*ast.FuncLit)
			}
		}
	}
	if n != 1 || lit == nil {
		return nil
	}
	addr := false
	host.InspectAll(func(m ast.Node) bool {
		if u, ok := m.(*ast.UnaryExpr); ok && u.Op == token.AND {
			if id, ok := ast.Unparen(u.X).(*ast.Ident); ok && in.info.Uses[id] == types.Object(v) {
				addr = true
			}
		}
		return !addr
	})
	if addr {
		return nil
	}
	return lit
}

// constBoolReturn: the block is exactly `return true` or `return false`.
func (in *c11Inl) constBoolReturn(b *ast.BlockStmt) (bool, bool) {
	if b == nil || len(b.List) != 1 {
		return false, false
	}
	r, ok := b.List[0].(*ast.ReturnStmt)
	if !ok || len(r.Results) != 1 {
		return false, false
	}
	tv, ok := in.info.Types[r.Results[0]]
	if !ok || tv.Value == nil || tv.Value.Kind() != constant.Bool {
		return false, false
	}
	return constant.BoolVal(tv.Value), true
}

// fieldPath: e is v.f1.f2... for a variable v (field selections only).
func (in *c11Inl) fieldPath(e ast.Expr) bool {
	e = ast.Unparen(e)
	sel, ok := e.(*ast.SelectorExpr)
	if !ok {
		return false
	}
	for {
		o, _ := in.origOf(sel).(*ast.SelectorExpr)
		if o == nil {
			return false
		}
		if s := in.info.Selections[o]; s == nil || s.Kind() != types.FieldVal {
			return false
		}
		switch x := ast.Unparen(sel.X).(type) {
		case *ast.SelectorExpr:
			sel = x
		case *ast.Ident:
			_, isVar := in.objOf(x).(*types.Var)
			return isVar
		default:
			return false
		}
	}
}
