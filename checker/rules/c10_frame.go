package rules

// C10.frame — the frame rule as far as it is a rule constant of calcFrameIdx: which frames are tested
// with forklessCausedByQuorumOn. Decided by reaching definitions of the tested frame (data flow over the
// CFG), not by the spelling of the loop.

import (
	"go/ast"
	"go/token"
	"go/types"

	"lachk/core"
)

const (
	c10Ord  = "abft.Orderer"
	c10Calc = c10Ord + ".calcFrameIdx"
	c10FCQ  = c10Ord + ".forklessCausedByQuorumOn"
)

// c10MentionsMethod: is n (nested literals excluded) computed from a call of a method with this name:
// the call occurs in n itself, or in the defining expression of a single-definition local that n reads
// (`sp := e.SelfParent(); … GetEvent(*sp).Frame()` is the same value as `GetEvent(*e.SelfParent()).Frame()`).
func c10MentionsMethod(f *core.FuncInfo, n ast.Node, method string) bool {
	return c10MentionsMethodVia(f, n, method, 4)
}

func c10MentionsMethodVia(f *core.FuncInfo, n ast.Node, method string, depth int) bool {
	found := false
	ast.Inspect(n, func(m ast.Node) bool {
		if _, ok := m.(*ast.FuncLit); ok || found {
			return false
		}
		switch x := m.(type) {
		case *ast.CallExpr:
			if methodNamed(calleeName(f, x), method) {
				found = true
			}
		case *ast.Ident:
			if depth > 0 {
				if v, ok := f.Info().Uses[x].(*types.Var); ok && !v.IsField() {
					if rhs, _ := c15SingleDef(f, v); rhs != nil && c10MentionsMethodVia(f, rhs, method, depth-1) {
						found = true
					}
				}
			}
		}
		return true
	})
	return found
}

// c10IsCopyOf: e (conversions aside) reads the variable v, directly or through single-definition locals
// that are plain copies. v itself is not looked through: when v is a named result with one assignment
// in a branch, its value is that assignment's or its zero value, and the reader means the variable.
func c10IsCopyOf(f *core.FuncInfo, e ast.Expr, v *types.Var) bool {
	for i := 0; i < 6 && e != nil && v != nil; i++ {
		e = ast.Unparen(core.StripConv(f.Info(), e))
		w := varOf(f, e)
		if w == nil {
			return false
		}
		if w == v {
			return true
		}
		e, _ = c15SingleDef(f, w)
	}
	return false
}

// c10ReachingDefs lists the assignments to v whose value can still be in v at point `at` (no other
// assignment to v on some path in between); entry says that v's initial value (zero value of a named
// result, or the caller's argument) can reach `at` as well.
func c10ReachingDefs(f *core.FuncInfo, v *types.Var, at core.Point) (defs []assignment, entry bool) {
	all := assignsToVar(f, v)
	kill := core.PointSet(pointsOfAssign(all)...)
	for _, d := range all {
		if _, ok := (core.PathQuery{F: f, From: d.Pt, FromAfter: true, Target: core.PointSet(at), Avoid: kill}).Find(); ok {
			defs = append(defs, d)
		}
	}
	if !kill(at) {
		_, entry = core.PathQuery{F: f, From: f.Entry(), Target: core.PointSet(at), Avoid: kill}.Find()
	}
	return defs, entry
}

// c10SpfVar finds the variable of f that receives <…SelfParent()…>.Frame() (its other values are 0) and
// the event whose self-parent that is (nil when it cannot be named).
func c10SpfVar(f *core.FuncInfo) (spf, owner *types.Var) {
	for _, a := range assignments(f) {
		if v := varOf(f, a.LHS); v != nil && a.RHS != nil {
			if call, ok := ast.Unparen(core.StripConv(f.Info(), a.RHS)).(*ast.CallExpr); ok && methodNamed(calleeName(f, call), "Frame") && c10MentionsMethod(f, call, "SelfParent") {
				spf = v
				owner = c10MethodOwner(f, call, "SelfParent", 4)
			}
		}
	}
	return spf, owner
}

// c10MethodOwner: the variable on which the method mentioned in n (see c10MentionsMethod) is invoked.
func c10MethodOwner(f *core.FuncInfo, n ast.Node, method string, depth int) *types.Var {
	var out *types.Var
	ast.Inspect(n, func(m ast.Node) bool {
		if _, ok := m.(*ast.FuncLit); ok || out != nil {
			return false
		}
		switch x := m.(type) {
		case *ast.CallExpr:
			if methodNamed(calleeName(f, x), method) {
				if sel, ok := ast.Unparen(x.Fun).(*ast.SelectorExpr); ok {
					out = varOf(f, c15Through(f, sel.X))
				}
			}
		case *ast.Ident:
			if depth > 0 {
				if v, ok := f.Info().Uses[x].(*types.Var); ok && !v.IsField() {
					if rhs, _ := c15SingleDef(f, v); rhs != nil {
						out = c10MethodOwner(f, rhs, method, depth-1)
					}
				}
			}
		}
		return true
	})
	return out
}

// c10FrameViews locates the frame search by what it does: the functions of the package that test frames
// with forklessCausedByQuorumOn, each as an inlined view in which the self-parent's frame is computed.
// When the searching function receives its start frame from its callers (the self-parent lookup lives
// there), the views of those callers are taken instead: the search is then part of their bodies and the
// parameter is bound to the caller's value.
func c10FrameViews(p *core.Prog) (views []*core.FuncInfo, why string) {
	fcq := p.Func(c10FCQ)
	if fcq == nil || fcq.Obj == nil {
		return nil, "forklessCausedByQuorumOn does not resolve"
	}
	pkgFuncs := p.FuncsInPkg(core.RelPkg(fcq.Pkg.PkgPath))
	callsObj := func(g *core.FuncInfo, obj *types.Func) bool {
		for _, h := range append([]*core.FuncInfo{g}, c10AllLits(g)...) {
			for _, cs := range h.Calls() {
				if fn, ok := cs.Callee.(*types.Func); ok && fn == obj {
					return true
				}
			}
		}
		return false
	}
	seen := map[*core.FuncInfo]bool{}
	var visit func(g *core.FuncInfo, depth int)
	visit = func(g *core.FuncInfo, depth int) {
		if seen[g] {
			return
		}
		seen[g] = true
		v := c10Inlined(g, c10FCQ)
		if len(v.CallsTo(c10FCQ)) == 0 {
			why = "the frame search of " + short(g.Name) + " cannot be seen as part of its caller's body"
			views = append(views, nil)
			return
		}
		if spf, _ := c10SpfVar(v); spf != nil || depth == 0 || g.Obj == nil {
			views = append(views, v)
			return
		}
		n := 0
		for _, h := range pkgFuncs {
			if h != g && h.Obj != nil && callsObj(h, g.Obj) {
				n++
				visit(h, depth-1)
			}
		}
		if n == 0 {
			views = append(views, v)
		}
	}
	for _, g := range pkgFuncs {
		if g != fcq && g.Obj != nil && callsObj(g, fcq.Obj) {
			visit(g, 2)
		}
	}
	return views, why
}

func c10Frame(c *core.Ctx) {
	c.Clause("C10.frame", func() {
		c.Fn(c10FCQ)
		views, why := c10FrameViews(c.P)
		c.Need(len(views) > 0, "some function tests frames with forklessCausedByQuorumOn")
		minStart, minStep := -1, -1
		for _, f := range views {
			c.Need(f != nil, why)
			nStart, nStep := c10FrameSearch(c, f)
			if minStart < 0 || nStart < minStart {
				minStart = nStart
			}
			if minStep < 0 || nStep < minStep {
				minStep = nStep
			}
		}
		c.ExpectAtLeast("start values of the frame search", minStart, 1)
		c.ExpectAtLeast("steps of the frame search", minStep, 1)
	})
}

// c10FrameSearch decides the frame search in one view (calcFrameIdx as one body with the helpers it calls
// seen through, or a caller with calcFrameIdx as part of its body; the quorum test stays a call).
func c10FrameSearch(c *core.Ctx, f *core.FuncInfo) (nStart, nStep int) {
	{
		// the self-parent's frame: the variable that receives <…SelfParent()…>.Frame(); its other values are 0
		spf, ev := c10SpfVar(f)
		c.Need(spf != nil, "calcFrameIdx reads the self-parent's frame into a variable")
		if ev == nil {
			ev = f.Param(0)
		}
		c.Need(ev != nil, "calcFrameIdx names its event parameter")
		isSpfValue := func(a assignment) bool { // a value the self-parent-frame variable may hold
			if a.RHS == nil {
				_, isSpec := a.Stmt.(*ast.ValueSpec)
				return isSpec
			}
			if a.Tok != token.ASSIGN && a.Tok != token.DEFINE {
				return false
			}
			rhs := core.StripConv(f.Info(), a.RHS)
			if core.IsConstInt(f.Info(), rhs, 0) {
				return true
			}
			call, ok := ast.Unparen(rhs).(*ast.CallExpr)
			return ok && methodNamed(calleeName(f, call), "Frame") && c10MentionsMethod(f, call, "SelfParent")
		}
		spfDefs := assignsToVar(f, spf)
		qs := f.CallsTo(c10FCQ)
		c.ExpectAtLeast("quorum tests in calcFrameIdx", len(qs), 1)
		passed := c15BoolFact(true, func(e ast.Expr) bool { return isCallTo(f, e, c10FCQ) != nil })
		for _, q := range qs {
			if len(q.Call.Args) != 2 || varOf(f, c15Through(f, q.Call.Args[0])) != ev {
				c.Fail("quorum is tested for the event itself", "T8 provenance", q.Pos(), "forklessCausedByQuorumOn is not asked about calcFrameIdx's own event: the frame is derived from another event's observations")
				continue
			}
			fv := varOf(f, core.StripConv(f.Info(), q.Call.Args[1]))
			if fv == nil {
				c.Undecided("frame search starts at the self-parent's frame", "T19 ReachingDefs", q.Pos(), "the frame passed to forklessCausedByQuorumOn is "+exprStr(q.Call.Args[1])+", not a variable: cannot enumerate the frames that are tested")
				continue
			}
			defs, entry := c10ReachingDefs(f, fv, q.Pt)
			if entry {
				c.Fail("frame search starts at the self-parent's frame", "T19 ReachingDefs", q.Pos(), "the frame tested by forklessCausedByQuorumOn can still hold its initial value (not the self-parent's frame) when the test is made")
			}
			for _, d := range defs {
				// (1) a start value: the self-parent's frame, read after it was computed
				isStart := false
				if fv == spf {
					isStart = isSpfValue(d)
				} else if d.RHS != nil && (d.Tok == token.ASSIGN || d.Tok == token.DEFINE) && c10IsCopyOf(f, d.RHS, spf) {
					isStart = true
					for _, sd := range spfDefs {
						if !isSpfValue(sd) || f.CanReach(d.Pt, sd.Pt) {
							isStart = false
						}
					}
				}
				if isStart {
					nStart++
					c.Pass("frame search starts at the self-parent's frame", "T19 ReachingDefs", "the first frame tested with forklessCausedByQuorumOn is the self-parent's frame (0 without self-parent: no roots, no climb)")
					continue
				}
				// (2) a step: the tested frame + 1, only after the test passed for the frame below
				isStep := d.Tok == token.INC
				if !isStep && d.RHS != nil {
					l := core.Linearize(f.Info(), d.RHS, func(e ast.Expr) string {
						if varOf(f, e) == fv {
							return "f"
						}
						return ""
					})
					one := l.C.IsInt64() && l.C.Int64() == 1
					switch d.Tok {
					case token.ADD_ASSIGN:
						isStep = one && len(l.Coef) == 0
					case token.ASSIGN:
						isStep = one && len(l.Coef) == 1 && l.Coef["f"] != nil && l.Coef["f"].IsInt64() && l.Coef["f"].Int64() == 1
					}
				}
				if isStep {
					nStep++
					okG, _ := f.MustPassBefore(core.Points(qs), d.Pt)
					var wit []core.Point
					for _, q2 := range qs {
						if g, w := f.GuardedBetween(q2.Pt, d.Pt, passed); !g {
							okG, wit = false, w
						}
					}
					c.Check(okG, "frame advances by one only past a quorum at the frame below", "T4 GuardedBy", d.Stmt.Pos(),
						"the tested frame is incremented only on the edge where forklessCausedByQuorumOn(e, frame) held",
						"the frame can be advanced without the event being forkless-caused by a quorum of roots at the frame below ("+f.DescribePath(wit)+"): events climb to frames the rules do not allow")
					continue
				}
				what := "its zero value"
				if d.RHS != nil {
					what = exprStr(d.RHS)
				}
				c.Fail("frame search starts at the self-parent's frame", "T19 ReachingDefs", d.Stmt.Pos(),
					"in "+short(f.Name)+" the frame tested by forklessCausedByQuorumOn can be "+what+" (assigned here), which is neither the self-parent's frame nor the previously tested frame plus one: the climb no longer starts at the self-parent's frame, so e.g. an event without self-parent (frame 0, no roots to observe) is tested against the roots of frame 1 and is built into / accepted in a frame above 1, and the roots, votes and Atropos of the following frames differ from the specified rules")
			}
		}
	}
	return nStart, nStep
}
