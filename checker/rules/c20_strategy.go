package rules

import (
	"go/ast"
	"go/token"
	"go/types"

	"lachk/core"
)

// C20.recache — what the search strategy is rebuilt over.
//
// The strategy must be a MetricStrategy whose metric source is a MetricFnCache created in this very
// recache over the indexer's own GetMetricOf. How the source is handed to the strategy is not part of the
// property: as a bound method value (NewMetricStrategy(cache.GetMetricOf)), as the cache object through a
// small interface (a constructor taking the source), or by a literal. A constructor is recognised by
// what it does: every return yields a MetricStrategy literal whose only element is (a conversion of) one
// of its unmodified parameters, or the result of another such constructor applied to that parameter.

// c20StrategyCtor returns the position of the parameter of g that becomes the metric source of the
// MetricStrategy g returns on every path (-1: g is not such a constructor).
func c20StrategyCtor(g *core.FuncInfo, depth int) int {
	if g == nil || depth <= 0 || g.Lit != nil {
		return -1
	}
	rets := g.ReturnPoints()
	if len(rets) == 0 {
		return -1
	}
	k := -1
	for _, rp := range rets {
		r := rp.Node().(*ast.ReturnStmt)
		if len(r.Results) != 1 {
			return -1
		}
		src := c20StrategySource(g, c19Resolve(g, r.Results[0], rp), rp, depth)
		if src == nil {
			return -1
		}
		i := c20ParamIndex(g, varOf(g, core.StripConv(g.Info(), src)))
		if i < 0 || (k >= 0 && k != i) {
			return -1
		}
		k = i
	}
	return k
}

// c20StrategySource: e (in g) builds a MetricStrategy; returns the expression that becomes its metric
// source (nil when e is not a recognised construction).
func c20StrategySource(g *core.FuncInfo, e ast.Expr, use core.Point, depth int) ast.Expr {
	e = ast.Unparen(e)
	if u, ok := e.(*ast.UnaryExpr); ok && u.Op == token.AND {
		e = ast.Unparen(u.X)
	}
	switch x := e.(type) {
	case *ast.CompositeLit:
		tv, ok := g.Info().Types[x]
		if !ok || !c20IsNamed(g.P, tv.Type, c19MetricStr) || len(x.Elts) != 1 {
			return nil
		}
		if kv, ok := x.Elts[0].(*ast.KeyValueExpr); ok {
			return kv.Value
		}
		return x.Elts[0]
	case *ast.CallExpr:
		fn, ok := func() (*types.Func, bool) {
			o, _ := g.P.ResolveCallee(g.Info(), x)
			f, ok := o.(*types.Func)
			return f, ok
		}()
		if !ok {
			return nil
		}
		k := c20StrategyCtor(g.P.FuncOf(fn), depth-1)
		if k < 0 || k >= len(x.Args) {
			return nil
		}
		return x.Args[k]
	}
	return nil
}

// c20FreshStrategy: the value assigned at a (in g, a method of the indexer) is a MetricStrategy over a
// MetricFnCache that is created on the way over the receiver's own GetMetricOf.
func c20FreshStrategy(g *core.FuncInfo, a assignment) bool {
	if a.RHS == nil {
		return false
	}
	src := c20StrategySource(g, c19Resolve(g, a.RHS, a.Pt), a.Pt, 3)
	if src == nil {
		return false
	}
	src = core.StripConv(g.Info(), src)
	// the source: the cache's bound GetMetricOf, or the cache itself (handed over as an interface value)
	cacheExpr := src
	if mv, isSel := ast.Unparen(src).(*ast.SelectorExpr); isSel {
		if g.P.ObjName(g.ObjOf(mv)) == c19AncPkg+".MetricCache.GetMetricOf" {
			cacheExpr = mv.X
		}
	}
	nc := isCallTo(g, c19Resolve(g, cacheExpr, a.Pt), c19AncPkg+".NewMetricFnCache")
	if nc == nil || len(nc.Args) != 2 {
		return false
	}
	m, isSel := ast.Unparen(core.StripConv(g.Info(), nc.Args[0])).(*ast.SelectorExpr)
	return isSel && g.P.ObjName(g.ObjOf(m)) == c20QiT+".GetMetricOf" && varOf(g, m.X) != nil && varOf(g, m.X) == g.Recv()
}
