package rules

import (
	"go/ast"
	"go/token"
	"go/types"
	"sort"
	"strconv"
	"strings"

	"lachk/core"
)

// Ownership of the branch table (clause C06.branches).
//
// The merged view gathers, per creator, the branches listed in Engine.bi.BranchIDByCreators[creator], and the
// fork scan pairs exactly these branches. The table is changed in place while an event is indexed (a new
// branch id is appended to the creator's list) and the change of a dropped event is undone only by
// forgetting the object (DropNotFlushed sets bi = nil, the next use decodes the flushed record). That works
// only when the live table shares no storage with anything else that survives the drop. The clause decides
// this exclusivity with a bounded storage-origin analysis (candidate for promotion to core):
//
//	origins(e) = the storage an expression may share: a set of access paths `parameter.field.field…`,
//	`global.field…` (empty set: freshly allocated or nil), computed over assignments of locals (all
//	definitions, stores through the local, copy() into it), struct copies field by field (a field that
//	is re-assigned on every path to the use takes the new value's origins, every other field keeps the
//	origins of the copied struct), append/make/new/conversions/composite literals to the nesting depth of
//	the type (appending the elements of a [][]T shares the inner slices), and callee summaries (the
//	origins of the returned expressions with the parameters replaced by the arguments' origins).
//
// Every store of a reference (module-wide) whose written location or stored value has a type of the branch
// table (the table pointer/struct or one of its slice types) is judged: a location inside the live table
// (path through Engine.bi) may receive only fresh storage or storage of the live table itself; any other
// retained location (field of a parameter / global) must not receive storage of the live table. When the
// location or the value is a parameter that may itself be a branch table the judgement is made at the call
// sites (bounded depth).
const (
	c06BiFld   = "vecengine.Engine.bi"
	c06BiType  = "vecengine.BranchesInfo"
	c06MaxPath = 5
)

type c06Org struct {
	base string         // "param", "global", "unknown"
	fn   *core.FuncInfo // param: the function
	idx  int            // param: index (-1 receiver)
	v    *types.Var     // param / global variable
	name string         // global name / reason for unknown
	path []string       // canonical names of the fields selected from the base
}

func (o c06Org) key() string {
	s := o.base + ":" + o.name
	if o.base == "param" {
		s = "param:" + o.fn.Name + "#" + c06Itoa(o.idx)
	}
	return s + "/" + strings.Join(o.path, "/")
}

func c06Itoa(i int) string { return strconv.Itoa(i) }

func (o c06Org) live() bool {
	for _, p := range o.path {
		if p == c06BiFld {
			return true
		}
	}
	return false
}

func (o c06Org) sameBase(p c06Org) bool {
	if o.base != p.base {
		return false
	}
	if o.base == "param" {
		return o.fn == p.fn && o.idx == p.idx
	}
	return o.name == p.name
}

func (o c06Org) String() string {
	var s, of string
	switch o.base {
	case "param":
		s = o.v.Name()
		if o.idx < 0 {
			of = " (receiver of " + short(o.fn.Name) + ")"
		} else {
			of = " (parameter of " + short(o.fn.Name) + ")"
		}
	case "global":
		s = o.name
		of = " (package variable)"
	default:
		return "unknown storage (" + o.name + ")"
	}
	for _, p := range o.path {
		s += "." + p[strings.LastIndex(p, ".")+1:]
	}
	return "`" + s + "`" + of
}

func (o c06Org) extend(flds ...string) c06Org {
	if o.base == "unknown" {
		return o
	}
	n := c06Org{base: o.base, fn: o.fn, idx: o.idx, v: o.v, name: o.name}
	n.path = append(append([]string(nil), o.path...), flds...)
	if len(n.path) > c06MaxPath {
		n.path = n.path[:c06MaxPath]
	}
	return n
}

type c06Orgs map[string]c06Org

func (s c06Orgs) add(o c06Org) { s[o.key()] = o }
func (s c06Orgs) addAll(t c06Orgs) {
	for k, o := range t {
		s[k] = o
	}
}
func (s c06Orgs) sorted() []c06Org {
	keys := make([]string, 0, len(s))
	for k := range s {
		keys = append(keys, k)
	}
	sort.Strings(keys)
	out := make([]c06Org, 0, len(s))
	for _, k := range keys {
		out = append(out, s[k])
	}
	return out
}
func (s c06Orgs) extend(flds ...string) c06Orgs {
	out := c06Orgs{}
	for _, o := range s {
		out.add(o.extend(flds...))
	}
	return out
}
func (s c06Orgs) anyLive() bool {
	for _, o := range s {
		if o.live() {
			return true
		}
	}
	return false
}

func c06Unknown(why string) c06Orgs {
	return c06Orgs{"unknown:" + why + "/": c06Org{base: "unknown", name: why}}
}

// c06HasRefs: can a value of the type share storage (pointer, slice, map, chan, func, interface inside)?
func c06HasRefs(t types.Type) bool {
	return c06hasRefs(t, map[types.Type]bool{})
}

func c06hasRefs(t types.Type, seen map[types.Type]bool) bool {
	if t == nil {
		return true
	}
	if seen[t] {
		return false
	}
	seen[t] = true
	switch u := t.Underlying().(type) {
	case *types.Basic:
		return u.Kind() == types.UnsafePointer
	case *types.Array:
		return c06hasRefs(u.Elem(), seen)
	case *types.Struct:
		for i := 0; i < u.NumFields(); i++ {
			if c06hasRefs(u.Field(i).Type(), seen) {
				return true
			}
		}
		return false
	case *types.Tuple:
		for i := 0; i < u.Len(); i++ {
			if c06hasRefs(u.At(i).Type(), seen) {
				return true
			}
		}
		return false
	}
	return true
}

func c06ElemHasRefs(t types.Type) bool {
	if t == nil {
		return true
	}
	switch u := t.Underlying().(type) {
	case *types.Slice:
		return c06HasRefs(u.Elem())
	case *types.Array:
		return c06HasRefs(u.Elem())
	case *types.Pointer:
		return c06ElemHasRefs(u.Elem())
	case *types.Map:
		return c06HasRefs(u.Elem()) || c06HasRefs(u.Key())
	}
	return true
}

// c06Own is one run of the analysis.
type c06Own struct {
	p        *core.Prog
	sums     map[string]c06Orgs
	inSum    map[string]bool
	visiting map[string]bool
	callers  map[*core.FuncInfo][]*core.CallSite
	biTypes  []types.Type // the table struct and the types of its reference fields
}

// declFunc: the function (f or an enclosing one) in whose body v is declared; nil for package-level objects.
func c06DeclFunc(f *core.FuncInfo, v *types.Var) *core.FuncInfo {
	for g := f; g != nil; g = g.Parent {
		lo, hi := g.Body.Pos(), g.Body.End()
		if g.Decl != nil {
			lo = g.Decl.Pos()
		} else if g.Lit != nil {
			lo = g.Lit.Pos()
		}
		if lo <= v.Pos() && v.Pos() < hi {
			return g
		}
	}
	return nil
}

func c06ParamIndex(g *core.FuncInfo, v *types.Var) (int, bool) {
	if r := g.Recv(); r != nil && r == v {
		return -1, true
	}
	n := 0
	for _, fl := range g.Type.Params.List {
		if len(fl.Names) == 0 {
			n++
		} else {
			n += len(fl.Names)
		}
	}
	for i := 0; i < n; i++ {
		if g.Param(i) == v {
			return i, true
		}
	}
	return 0, false
}

func c06IsGlobal(v *types.Var) bool {
	return v != nil && !v.IsField() && v.Pkg() != nil && v.Parent() == v.Pkg().Scope()
}

// selFields: the canonical names of the fields a field selection walks through (embedded ones included).
func (a *c06Own) selFields(sel *types.Selection) []string {
	var out []string
	t := sel.Recv()
	for _, i := range sel.Index() {
		if pt, ok := t.Underlying().(*types.Pointer); ok {
			t = pt.Elem()
		}
		st, ok := t.Underlying().(*types.Struct)
		if !ok || i >= st.NumFields() {
			break
		}
		fl := st.Field(i)
		if n := a.p.FieldName(fl); n != "" {
			out = append(out, n)
		} else {
			out = append(out, "?."+fl.Name())
		}
		t = fl.Type()
	}
	return out
}

// of: the storage origins of expression e evaluated in f at point use (use may be invalid).
func (a *c06Own) of(f *core.FuncInfo, e ast.Expr, use core.Point, depth int) c06Orgs {
	if e == nil {
		return c06Orgs{}
	}
	if t := f.Info().TypeOf(e); t != nil {
		if _, isTuple := t.(*types.Tuple); !isTuple && !c06HasRefs(t) {
			return c06Orgs{}
		}
	}
	return a.ofAny(f, e, use, depth)
}

func (a *c06Own) ofAny(f *core.FuncInfo, e ast.Expr, use core.Point, depth int) c06Orgs {
	e = ast.Unparen(e)
	switch x := e.(type) {
	case *ast.Ident:
		if core.IsNil(f.Info(), x) {
			return c06Orgs{}
		}
		v, _ := f.Info().ObjectOf(x).(*types.Var)
		if v == nil {
			return c06Orgs{} // function / constant / type
		}
		return a.ofVar(f, v, use, depth, false)
	case *ast.SelectorExpr:
		if sel, ok := f.Info().Selections[x]; ok {
			if sel.Kind() != types.FieldVal {
				return c06Orgs{} // method value
			}
			flds := a.selFields(sel)
			if v := varOfRaw(f, x.X); v != nil && !c06IsGlobal(v) && len(sel.Index()) == 1 {
				if g := c06DeclFunc(f, v); g != nil {
					if _, isParam := c06ParamIndex(g, v); !isParam {
						return a.ofField(f, g, v, sel.Obj().(*types.Var), flds[0], use, depth)
					}
				}
			}
			return a.ofAny(f, x.X, use, depth).extend(flds...)
		}
		if v, ok := f.Info().Uses[x.Sel].(*types.Var); ok && c06IsGlobal(v) {
			return a.ofVar(f, v, use, depth, false)
		}
		return c06Orgs{}
	case *ast.StarExpr:
		return a.ofAny(f, x.X, use, depth)
	case *ast.UnaryExpr:
		if x.Op == token.AND {
			return a.ofAny(f, x.X, use, depth)
		}
		if x.Op == token.ARROW {
			return c06Unknown("value received from a channel")
		}
		return c06Orgs{}
	case *ast.IndexExpr:
		if tv, ok := f.Info().Types[x.X]; ok && !tv.IsValue() {
			return c06Orgs{} // generic instantiation
		}
		return a.ofAny(f, x.X, use, depth)
	case *ast.SliceExpr:
		return a.ofAny(f, x.X, use, depth)
	case *ast.TypeAssertExpr:
		return a.ofAny(f, x.X, use, depth)
	case *ast.CompositeLit:
		out := c06Orgs{}
		for _, el := range x.Elts {
			if kv, ok := el.(*ast.KeyValueExpr); ok {
				el = kv.Value
			}
			out.addAll(a.of(f, el, use, depth))
		}
		return out
	case *ast.CallExpr:
		return a.ofCall(f, x, 0, use, depth)
	case *ast.FuncLit, *ast.BasicLit, *ast.BinaryExpr:
		return c06Orgs{}
	}
	return c06Unknown("expression " + exprStr(e))
}

// c06Store is a store through a local: `v.F… = rhs`, `v[i] = rhs`, `*v = rhs`, copy(v…, src).
type c06Store struct {
	f     *core.FuncInfo
	first *types.Var // the field selected directly from the variable (nil: element / pointee)
	exact bool       // the target is exactly v.F
	rhs   ast.Expr
	pt    core.Point
}

// c06Root strips selections, indexing, slicing and dereferences: the root expression and the first field
// selected from it.
func c06Root(f *core.FuncInfo, e ast.Expr) (root ast.Expr, first *types.Var, depth int) {
	e = ast.Unparen(e)
	for {
		switch x := e.(type) {
		case *ast.SelectorExpr:
			sel, ok := f.Info().Selections[x]
			if !ok || sel.Kind() != types.FieldVal {
				return e, first, depth
			}
			first, _ = sel.Obj().(*types.Var)
			if len(sel.Index()) != 1 {
				first = nil
			}
			e, depth = ast.Unparen(x.X), depth+1
			continue
		case *ast.IndexExpr:
			first = nil
			e, depth = ast.Unparen(x.X), depth+1
			continue
		case *ast.SliceExpr:
			e = ast.Unparen(x.X)
			continue
		case *ast.StarExpr:
			first = nil
			e, depth = ast.Unparen(x.X), depth+1
			continue
		}
		return e, first, depth
	}
}

func (a *c06Own) storesThrough(g *core.FuncInfo, v *types.Var) []c06Store {
	var out []c06Store
	for _, h := range append([]*core.FuncInfo{g}, allLits(g)...) {
		for _, as := range assignments(h) {
			root, first, d := c06Root(h, as.LHS)
			if d == 0 || varOfRaw(h, root) != v || as.RHS == nil {
				continue
			}
			st := c06Store{f: h, first: first, rhs: as.RHS}
			if sel, ok := ast.Unparen(as.LHS).(*ast.SelectorExpr); ok && d == 1 && first != nil && varOfRaw(h, sel.X) == v {
				st.exact = true
			}
			if h == g {
				st.pt = as.Pt
			}
			out = append(out, st)
		}
		for _, cs := range h.CallsTo("builtin.copy") {
			if len(cs.Call.Args) != 2 {
				continue
			}
			root, first, _ := c06Root(h, cs.Call.Args[0])
			if varOfRaw(h, root) != v || !c06ElemHasRefs(h.Info().TypeOf(cs.Call.Args[0])) {
				continue
			}
			out = append(out, c06Store{f: h, first: first, rhs: cs.Call.Args[1]})
		}
	}
	return out
}

// defsOf: the origins of the whole-variable definitions of the local v (declared in g).
func (a *c06Own) defsOf(g *core.FuncInfo, v *types.Var, onlyField *types.Var, depth int) c06Orgs {
	out := c06Orgs{}
	for _, h := range append([]*core.FuncInfo{g}, allLits(g)...) {
		for _, as := range assignments(h) {
			if varOfRaw(h, as.LHS) != v {
				continue
			}
			pt := core.Point{}
			if h == g {
				pt = as.Pt
			}
			switch st := as.Stmt.(type) {
			case *ast.RangeStmt:
				if st.Value != nil && varOfRaw(h, st.Value) == v {
					out.addAll(a.ofAny(h, st.X, pt, depth))
				}
				continue
			case *ast.IncDecStmt:
				continue
			case *ast.AssignStmt:
				if len(st.Lhs) != len(st.Rhs) && len(st.Rhs) == 1 {
					k := 0
					for i, l := range st.Lhs {
						if l == as.LHS {
							k = i
						}
					}
					switch r := ast.Unparen(st.Rhs[0]).(type) {
					case *ast.CallExpr:
						out.addAll(a.ofCall(h, r, k, pt, depth))
					case *ast.TypeAssertExpr:
						if k == 0 {
							out.addAll(a.ofAny(h, r.X, pt, depth))
						}
					case *ast.IndexExpr:
						if k == 0 {
							out.addAll(a.ofAny(h, r.X, pt, depth))
						}
					case *ast.UnaryExpr:
						if k == 0 {
							out.addAll(c06Unknown("value received from a channel"))
						}
					}
					continue
				}
			}
			if as.RHS == nil {
				continue // var x T
			}
			rhs := ast.Unparen(as.RHS)
			// a composite literal gives each field its own value
			if onlyField != nil {
				lit := rhs
				if u, ok := lit.(*ast.UnaryExpr); ok && u.Op == token.AND {
					lit = ast.Unparen(u.X)
				}
				if cl, ok := lit.(*ast.CompositeLit); ok {
					keyed := len(cl.Elts) == 0
					for _, el := range cl.Elts {
						kv, isKV := el.(*ast.KeyValueExpr)
						if !isKV {
							continue
						}
						keyed = true
						if id, isID := kv.Key.(*ast.Ident); isID && h.Info().ObjectOf(id) == types.Object(onlyField) {
							out.addAll(a.of(h, kv.Value, pt, depth))
						}
					}
					if keyed {
						continue
					}
				}
			}
			o := a.of(h, rhs, pt, depth)
			if onlyField != nil {
				o = o.extend(a.p.FieldName(onlyField))
			}
			out.addAll(o)
		}
	}
	return out
}

// ofVar: origins of the value of variable v read in f at use.
func (a *c06Own) ofVar(f *core.FuncInfo, v *types.Var, use core.Point, depth int, defsOnly bool) c06Orgs {
	if c06IsGlobal(v) {
		n := a.p.ObjName(v)
		return c06Orgs{"global:" + n + "/": c06Org{base: "global", name: n, v: v}}
	}
	g := c06DeclFunc(f, v)
	if g == nil {
		return c06Unknown("variable " + v.Name())
	}
	if i, ok := c06ParamIndex(g, v); ok {
		o := c06Org{base: "param", fn: g, idx: i, v: v}
		return c06Orgs{o.key(): o}
	}
	key := "v:" + g.Name + ":" + v.Name() + "@" + c06Itoa(int(v.Pos()))
	if a.visiting[key] {
		return c06Orgs{}
	}
	a.visiting[key] = true
	defer delete(a.visiting, key)
	if g != f {
		use = core.Point{}
	}
	stores := a.storesThrough(g, v)
	if defsOnly || len(stores) == 0 {
		return a.defsOf(g, v, nil, depth)
	}
	// a struct (or pointer to a struct) that is also written field by field: field-wise
	t := v.Type()
	if pt, ok := t.Underlying().(*types.Pointer); ok {
		t = pt.Elem()
	}
	st, isStruct := t.Underlying().(*types.Struct)
	out := c06Orgs{}
	if !isStruct {
		out.addAll(a.defsOf(g, v, nil, depth))
		for _, s := range stores {
			out.addAll(a.of(s.f, s.rhs, s.pt, depth))
		}
		return out
	}
	for i := 0; i < st.NumFields(); i++ {
		if fl := st.Field(i); c06HasRefs(fl.Type()) {
			out.addAll(a.ofFieldIn(g, v, fl, a.fieldName(fl), stores, use, depth))
		}
	}
	for _, s := range stores {
		if s.first == nil {
			out.addAll(a.of(s.f, s.rhs, s.pt, depth))
		}
	}
	return out
}

func (a *c06Own) fieldName(fl *types.Var) string {
	if n := a.p.FieldName(fl); n != "" {
		return n
	}
	return "?." + fl.Name()
}

// ofField: origins of v.F for the local v (declared in g), read in f at use.
func (a *c06Own) ofField(f, g *core.FuncInfo, v, fl *types.Var, name string, use core.Point, depth int) c06Orgs {
	if !c06HasRefs(fl.Type()) {
		return c06Orgs{}
	}
	key := "f:" + g.Name + ":" + v.Name() + "@" + c06Itoa(int(v.Pos())) + ":" + name
	if a.visiting[key] {
		return c06Orgs{}
	}
	a.visiting[key] = true
	defer delete(a.visiting, key)
	if g != f {
		use = core.Point{}
	}
	return a.ofFieldIn(g, v, fl, name, a.storesThrough(g, v), use, depth)
}

func (a *c06Own) ofFieldIn(g *core.FuncInfo, v, fl *types.Var, name string, stores []c06Store, use core.Point, depth int) c06Orgs {
	out := c06Orgs{}
	var overriding []core.Point
	for _, s := range stores {
		if s.first != fl {
			if s.first == nil {
				out.addAll(a.of(s.f, s.rhs, s.pt, depth)) // *v = rhs, v[i] = rhs
			}
			continue
		}
		out.addAll(a.of(s.f, s.rhs, s.pt, depth))
		if s.exact && s.pt.Valid() && !mentionsObj(s.f, s.rhs, v) {
			overriding = append(overriding, s.pt)
		}
	}
	if len(overriding) > 0 && use.Valid() {
		if ok, _ := g.MustPassBefore(overriding, use); ok {
			return out
		}
	}
	out.addAll(a.defsOf(g, v, fl, depth))
	return out
}

// ofCall: origins of result k of a call.
func (a *c06Own) ofCall(f *core.FuncInfo, call *ast.CallExpr, k int, use core.Point, depth int) c06Orgs {
	obj, conv := a.p.ResolveCallee(f.Info(), call)
	if conv {
		if len(call.Args) == 1 {
			return a.ofAny(f, call.Args[0], use, depth)
		}
		return c06Orgs{}
	}
	switch fn := obj.(type) {
	case *types.Builtin:
		switch fn.Name() {
		case "append":
			out := c06Orgs{}
			if len(call.Args) == 0 {
				return out
			}
			out.addAll(a.of(f, call.Args[0], use, depth))
			if c06ElemHasRefs(f.Info().TypeOf(call.Args[0])) {
				for _, x := range call.Args[1:] {
					out.addAll(a.of(f, x, use, depth))
				}
			}
			return out
		}
		return c06Orgs{}
	case *types.Func:
		g := a.p.FuncOf(fn)
		if g == nil {
			if sig, _ := fn.Type().(*types.Signature); sig != nil && sig.Recv() != nil {
				if _, isIface := sig.Recv().Type().Underlying().(*types.Interface); isIface {
					return c06Unknown("result of the dynamic call " + a.p.ObjName(fn))
				}
			}
			if hasSuffix(a.p.ObjName(fn), "slices.Clone") && len(call.Args) == 1 && c06ElemHasRefs(f.Info().TypeOf(call.Args[0])) {
				return a.of(f, call.Args[0], use, depth)
			}
			return c06Orgs{} // a function outside the module: its result is its own
		}
		return a.mapSummary(f, call, g, k, use, depth)
	case *types.Var:
		if lit, ok := ast.Unparen(c06SingleDef(f, fn)).(*ast.FuncLit); ok {
			if g := a.p.LitInfo(lit); g != nil {
				return a.mapSummary(f, call, g, k, use, depth)
			}
		}
		return c06Unknown("result of the dynamic call " + a.p.ObjName(fn))
	}
	if lit, ok := ast.Unparen(call.Fun).(*ast.FuncLit); ok {
		if g := a.p.LitInfo(lit); g != nil {
			return a.mapSummary(f, call, g, k, use, depth)
		}
	}
	return c06Unknown("result of the call " + exprStr(call.Fun))
}

func c06SingleDef(f *core.FuncInfo, v *types.Var) ast.Expr {
	if d := singleDef(f, v); d != nil {
		return d
	}
	return &ast.BadExpr{}
}

// argOf: the argument expressions bound to parameter idx of g at the call (-1: the receiver).
func c06ArgsOf(g *core.FuncInfo, call *ast.CallExpr, idx int) []ast.Expr {
	if idx < 0 {
		if sel, ok := ast.Unparen(call.Fun).(*ast.SelectorExpr); ok {
			return []ast.Expr{sel.X}
		}
		return nil
	}
	variadic := false
	n := 0
	for _, fl := range g.Type.Params.List {
		if _, ok := fl.Type.(*ast.Ellipsis); ok {
			variadic = true
		}
		if len(fl.Names) == 0 {
			n++
		} else {
			n += len(fl.Names)
		}
	}
	if variadic && idx == n-1 && !call.Ellipsis.IsValid() {
		if idx < len(call.Args) {
			return call.Args[idx:]
		}
		return nil
	}
	if idx < len(call.Args) {
		return []ast.Expr{call.Args[idx]}
	}
	return nil
}

// subst replaces the origins that are parameters of g by the origins of the arguments of the call (in f).
func (a *c06Own) subst(s c06Orgs, f *core.FuncInfo, call *ast.CallExpr, g *core.FuncInfo, use core.Point, depth int) c06Orgs {
	out := c06Orgs{}
	for _, o := range s.sorted() {
		if o.base != "param" || o.fn != g {
			out.add(o)
			continue
		}
		for _, arg := range c06ArgsOf(g, call, o.idx) {
			for _, p := range a.ofAny(f, arg, use, depth) {
				out.add(p.extend(o.path...))
			}
		}
	}
	return out
}

func (a *c06Own) mapSummary(f *core.FuncInfo, call *ast.CallExpr, g *core.FuncInfo, k int, use core.Point, depth int) c06Orgs {
	if depth <= 0 {
		return c06Unknown("result of " + short(g.Name) + " (call depth)")
	}
	return a.subst(a.summary(g, k, depth-1), f, call, g, use, depth-1)
}

// summary: the origins of result k of g in terms of g's parameters.
func (a *c06Own) summary(g *core.FuncInfo, k int, depth int) c06Orgs {
	key := g.Name + "#" + c06Itoa(k)
	if s, ok := a.sums[key]; ok {
		return s
	}
	if a.inSum[key] {
		return c06Orgs{} // recursion: the other returns decide
	}
	a.inSum[key] = true
	defer delete(a.inSum, key)
	out := c06Orgs{}
	nres := 0
	var named []*types.Var
	if g.Type.Results != nil {
		for _, fl := range g.Type.Results.List {
			if len(fl.Names) == 0 {
				nres++
				named = append(named, nil)
			}
			for _, nm := range fl.Names {
				nres++
				v, _ := g.Info().Defs[nm].(*types.Var)
				named = append(named, v)
			}
		}
	}
	if k >= nres {
		return out
	}
	saved := a.visiting
	a.visiting = map[string]bool{}
	for _, rp := range g.ReturnPoints() {
		r, ok := rp.Node().(*ast.ReturnStmt)
		if !ok {
			continue
		}
		switch {
		case len(r.Results) == nres:
			out.addAll(a.of(g, r.Results[k], rp, depth))
		case len(r.Results) == 1:
			if call, isCall := ast.Unparen(r.Results[0]).(*ast.CallExpr); isCall {
				out.addAll(a.ofCall(g, call, k, rp, depth))
			}
		case len(r.Results) == 0 && named[k] != nil:
			if c06HasRefs(named[k].Type()) {
				out.addAll(a.localResult(g, named[k], rp, depth))
			}
		}
	}
	a.visiting = saved
	a.sums[key] = out
	return out
}

// localResult: a named result read at a bare return.
func (a *c06Own) localResult(g *core.FuncInfo, v *types.Var, use core.Point, depth int) c06Orgs {
	out := c06Orgs{}
	stores := a.storesThrough(g, v)
	out.addAll(a.defsOf(g, v, nil, depth))
	for _, s := range stores {
		out.addAll(a.of(s.f, s.rhs, s.pt, depth))
	}
	return out
}

// ---------------------------------------------------------------------------
// the clause

// related: is the type the branch table, a pointer/slice/map of it, or the type of one of its reference fields?
func (a *c06Own) related(t types.Type) bool {
	for d := 0; t != nil && d < 4; d++ {
		for _, b := range a.biTypes {
			if types.Identical(t, b) {
				return true
			}
		}
		switch u := t.Underlying().(type) {
		case *types.Pointer:
			t = u.Elem()
		case *types.Slice:
			t = u.Elem()
		case *types.Array:
			t = u.Elem()
		case *types.Map:
			t = u.Elem()
		default:
			return false
		}
	}
	return false
}

func (a *c06Own) callersOf(g *core.FuncInfo) []*core.CallSite {
	if a.callers == nil {
		a.callers = map[*core.FuncInfo][]*core.CallSite{}
		for _, h := range a.p.Funcs() {
			for _, cs := range h.Calls() {
				if fn, ok := cs.Callee.(*types.Func); ok {
					if t := a.p.FuncOf(fn); t != nil {
						a.callers[t] = append(a.callers[t], cs)
					}
				}
			}
		}
	}
	return a.callers[g]
}

func c06Compatible(o c06Org, loc c06Orgs) bool {
	for _, l := range loc {
		if !o.sameBase(l) {
			continue
		}
		n := len(o.path)
		if len(l.path) < n {
			n = len(l.path)
		}
		same := true
		for i := 0; i < n; i++ {
			if o.path[i] != l.path[i] {
				same = false
			}
		}
		if same {
			return true
		}
	}
	return false
}

type c06Verdict struct {
	kind   string // "pass", "into" (foreign storage into the live table), "leak" (live storage retained elsewhere), "unknown"
	detail string
	via    string
}

// judge decides one store: loc are the origins of the written location, val of the stored value.
func (a *c06Own) judge(g *core.FuncInfo, loc, val c06Orgs, depth int, via string) []c06Verdict {
	var foreign []c06Org
	for _, o := range val.sorted() {
		if !c06Compatible(o, loc) {
			foreign = append(foreign, o)
		}
	}
	if len(foreign) == 0 {
		return nil
	}
	locLive := loc.anyLive()
	// a parameter that may itself be a branch table: decided at the call sites
	lift := false
	for _, o := range append(loc.sorted(), foreign...) {
		if o.base == "param" && o.fn == g && !o.live() && a.related(o.v.Type()) {
			lift = true
		}
	}
	if lift && depth > 0 && g.Obj != nil {
		if sites := a.callersOf(g); len(sites) > 0 {
			var out []c06Verdict
			for _, cs := range sites {
				l2 := a.subst(loc, cs.F, cs.Call, g, cs.Pt, 3)
				v2 := a.subst(val, cs.F, cs.Call, g, cs.Pt, 3)
				out = append(out, a.judge(cs.F, l2, v2, depth-1, via+" called from "+short(cs.F.Name)+" ("+a.p.Pos(cs.Pos())+")")...)
			}
			return out
		}
	}
	var out []c06Verdict
	switch {
	case locLive:
		for _, o := range foreign {
			switch {
			case o.live():
			case o.base == "unknown":
				out = append(out, c06Verdict{"unknown", o.String(), via})
			default:
				out = append(out, c06Verdict{"into", o.String(), via})
			}
		}
	default:
		valLive := false
		for _, o := range foreign {
			valLive = valLive || o.live()
		}
		if !valLive {
			return nil
		}
		for _, l := range loc.sorted() {
			switch l.base {
			case "unknown":
				out = append(out, c06Verdict{"unknown", l.String(), via})
			default:
				out = append(out, c06Verdict{"leak", l.String(), via})
			}
		}
	}
	return out
}

func c06Branches(c *core.Ctx) {
	c.Fld(c06BiFld)
	tn := c.P.LookupType(c06BiType)
	c.Need(tn != nil, "the branch table type "+c06BiType)
	st, isStruct := tn.Type().Underlying().(*types.Struct)
	c.Need(isStruct, "the branch table is a struct")
	a := &c06Own{p: c.P, sums: map[string]c06Orgs{}, inSum: map[string]bool{}, visiting: map[string]bool{}}
	a.biTypes = []types.Type{tn.Type()}
	for i := 0; i < st.NumFields(); i++ {
		if t := st.Field(i).Type(); c06HasRefs(t) {
			a.biTypes = append(a.biTypes, t)
		}
	}
	nLoad, nJudged := 0, 0
	for _, g := range c.P.Funcs() {
		for _, as := range assignments(g) {
			if as.RHS == nil {
				continue
			}
			if _, isRange := as.Stmt.(*ast.RangeStmt); isRange {
				continue
			}
			lhs := ast.Unparen(as.LHS)
			lt := g.Info().TypeOf(lhs)
			// the stored value (one result of a multi-value right-hand side)
			k := -1
			if st, ok := as.Stmt.(*ast.AssignStmt); ok && len(st.Lhs) != len(st.Rhs) {
				for i, l := range st.Lhs {
					if l == as.LHS {
						k = i
					}
				}
			}
			if lt == nil || !c06HasRefs(lt) {
				continue
			}
			var loc c06Orgs
			isTable := false
			switch x := lhs.(type) {
			case *ast.Ident:
				v, _ := g.Info().ObjectOf(x).(*types.Var)
				if !c06IsGlobal(v) || !a.related(lt) {
					continue
				}
				loc = a.ofVar(g, v, as.Pt, 3, false)
			case *ast.SelectorExpr:
				sel, ok := g.Info().Selections[x]
				if !ok || sel.Kind() != types.FieldVal {
					continue
				}
				isTable = a.fieldName(sel.Obj().(*types.Var)) == c06BiFld
				if !a.related(lt) && !a.related(g.Info().TypeOf(x.X)) {
					continue
				}
				if v := varOfRaw(g, x.X); v != nil && !c06IsGlobal(v) {
					if d := c06DeclFunc(g, v); d != nil {
						if _, isParam := c06ParamIndex(d, v); !isParam {
							if _, isPtr := v.Type().Underlying().(*types.Pointer); !isPtr {
								continue // a field of a local struct value: the local's own storage
							}
							loc = a.ofVar(g, v, as.Pt, 3, true).extend(a.selFields(sel)...)
							break
						}
					}
				}
				loc = a.ofAny(g, x.X, as.Pt, 3).extend(a.selFields(sel)...)
			case *ast.IndexExpr:
				if !a.related(g.Info().TypeOf(x.X)) {
					continue
				}
				loc = a.ofAny(g, x.X, as.Pt, 3)
			case *ast.StarExpr:
				if !a.related(lt) {
					continue
				}
				loc = a.ofAny(g, x.X, as.Pt, 3)
			default:
				continue
			}
			var val c06Orgs
			if k >= 0 {
				switch r := ast.Unparen(as.RHS).(type) {
				case *ast.CallExpr:
					val = a.ofCall(g, r, k, as.Pt, 3)
				case *ast.TypeAssertExpr:
					if k == 0 {
						val = a.ofAny(g, r.X, as.Pt, 3)
					}
				case *ast.IndexExpr:
					if k == 0 {
						val = a.ofAny(g, r.X, as.Pt, 3)
					}
				}
			} else {
				val = a.of(g, as.RHS, as.Pt, 3)
			}
			if isTable && !core.IsNil(g.Info(), as.RHS) {
				nLoad++
			}
			if !loc.anyLive() && !val.anyLive() && !isTable {
				// neither side is known to be the live table here: only a parameter can make it one
				param := false
				for _, o := range loc {
					param = param || (o.base == "param" && o.fn == g && a.related(o.v.Type()))
				}
				for _, o := range val {
					param = param || (o.base == "param" && o.fn == g && a.related(o.v.Type()))
				}
				if !param {
					continue
				}
			}
			verdicts := a.judge(g, loc, val, 2, "")
			pos := as.Stmt.Pos()
			where := short(g.Name)
			if len(verdicts) == 0 {
				if loc.anyLive() || val.anyLive() {
					nJudged++
					c.Pass(where+"|the branch table shares no storage with another retained object", "ownership (storage origins)", "`"+exprStr(lhs)+" = …` keeps the live table exclusive")
				}
				continue
			}
			nJudged++
			for _, v := range verdicts {
				switch v.kind {
				case "into":
					c.Fail(where+"|the live branch table receives only fresh storage or its own", "ownership (storage origins)", pos,
						"`"+exprStr(lhs)+" = "+exprStr(as.RHS)+"` in "+where+v.via+" puts storage of "+v.detail+" into the branch table that indexing changes in place: the per-creator branch lists (or the whole table) are shared with an object that survives DropNotFlushed, so a branch id appended for a dropped event stays listed under its creator and the merged clock gathers / the fork scan pairs a branch of another validator (false fork report, lost highest sequence)")
				case "leak":
					c.Fail(where+"|no other retained object keeps storage of the live branch table", "ownership (storage origins)", pos,
						"`"+exprStr(lhs)+" = "+exprStr(as.RHS)+"` in "+where+v.via+" keeps storage of the live branch table (Engine.bi) in "+v.detail+": indexing changes the table in place (a branch id is appended to its creator's list), so what is kept there is changed by events that are later dropped; when it is used to restore or answer, the merged clock gathers a branch under the wrong validator (false fork report, lost highest sequence)")
				default:
					c.Undecided(where+"|storage stored into / taken from the branch table is known", "ownership (storage origins)", pos,
						"`"+exprStr(lhs)+" = "+exprStr(as.RHS)+"` in "+where+v.via+": "+v.detail+" cannot be followed")
				}
			}
		}
	}
	c.ExpectAtLeast("stores that load the branch table (Engine.bi = …)", nLoad, 1)
	c.ExpectAtLeast("judged stores that involve the live branch table", nJudged, 1)
}
