package rules

import (
	"go/ast"
	"go/token"

	"lachk/core"
)

// c26Conflict decides the conflict scan of handleRoute as a decision table over scenarios. The scan is
// any loop (range or counted, element as range value, C[i] or a local holding it) over what
// ReadTablesList returned. For one element `old` the semantic atoms are
//
//	sameReq     old.Req == req                      sameTable   old.Table == route.Table
//	conflict    tablesConflicting(old.Table, route.Table)   (either argument order)
//	oldInNew    strings.HasPrefix(route.Table, old.Table)   newInOld  strings.HasPrefix(old.Table, route.Table)
//
// and each row fixes some of them and asks which exits of the iteration remain reachable over branch
// edges that are feasible under that valuation. How the tests are nested, ordered, negated or spread
// over if / else / switch does not matter.
func c26Conflict(c *core.Ctx, f *core.FuncInfo) {
	req, route := f.Param(1), f.Param(2)
	c.Need(req != nil && route != nil, "handleRoute(db, req, route)")
	writes := f.CallsTo(mdP + "WriteTablesList")
	c.Need(len(writes) == 1, "handleRoute records with one WriteTablesList")
	resolve := func(e ast.Expr) ast.Expr { return resolveLocal(f, e) }

	// the scan: the loop over the list read from this database
	fromRead := func(coll ast.Expr) bool {
		if coll == nil {
			return false
		}
		if isCallTo(f, coll, mdP+"ReadTablesList") != nil {
			return true
		}
		lv := varOf(f, coll)
		if lv == nil {
			return false
		}
		for _, a := range assignsToVar(f, lv) {
			if a.RHS != nil && isCallTo(f, a.RHS, mdP+"ReadTablesList") != nil {
				return true
			}
		}
		return false
	}
	var it *core.Iteration
	nLoops, okSrc := 0, false
	for _, lp := range c26Loops(f) {
		nLoops++
		cand, isIt := core.IterationOf(f, lp, resolve)
		if !isIt {
			continue
		}
		if src := fromRead(cand.Coll); it == nil || (src && !okSrc) {
			it, okSrc = cand, src
		}
	}
	c.Need(it != nil, "handleRoute scans the recorded requests")
	ok, _ := mustPassBlockBefore(f, it.Done, writes[0].Pt)
	c.Check(ok && c26FullIteration(it), "request recorded only after the complete conflict scan", "T2 Dominates (loop exit)", writes[0].Pos(), "WriteTablesList is dominated by the exit of the loop over all recorded requests", "a request can be recorded before every existing record was checked for conflicts")
	c.Check(okSrc, "scan covers the database's recorded requests", "provenance", it.Stmt.Pos(), "the loop ranges over ReadTablesList(db, key)", "the conflict scan does not range over the recorded requests")

	// roles of expressions
	oldField := func(e ast.Expr, fld string) bool {
		r, pth := fieldPath(f, e)
		return len(pth) == 1 && pth[0] == mdP+"TableRecord."+fld && it.IsElem(r, resolve)
	}
	isOldTable := func(e ast.Expr) bool { return oldField(e, "Table") }
	isOldReq := func(e ast.Expr) bool { return oldField(e, "Req") }
	isNewTable := func(e ast.Expr) bool {
		r, pth := fieldPath(f, e)
		return len(pth) == 1 && pth[0] == mdP+"Route.Table" && varOf(f, resolve(r)) == route
	}
	isReq := func(e ast.Expr) bool { return varOf(f, resolve(e)) == req }
	pair := func(a, b ast.Expr, x, y func(ast.Expr) bool) bool { return (x(a) && y(b)) || (x(b) && y(a)) }
	atoms := func(sc c26Scenario) func(ast.Expr) c26Tri {
		return func(e ast.Expr) c26Tri {
			if call, isCall := ast.Unparen(e).(*ast.CallExpr); isCall {
				if len(call.Args) != 2 {
					return c26Unknown
				}
				switch calleeName(f, call) {
				case mdP + "tablesConflicting":
					if pair(call.Args[0], call.Args[1], isOldTable, isNewTable) {
						return sc["conflict"]
					}
				case "strings.HasPrefix":
					if isNewTable(call.Args[0]) && isOldTable(call.Args[1]) {
						return sc["oldInNew"]
					}
					if isOldTable(call.Args[0]) && isNewTable(call.Args[1]) {
						return sc["newInOld"]
					}
				}
				return c26Unknown
			}
			cm, k := core.NormCmp(core.Fact{Expr: e, Truth: true})
			if !k || cm.R == nil || (cm.Op != token.EQL && cm.Op != token.NEQ) {
				return c26Unknown
			}
			t := c26Unknown
			switch {
			case pair(cm.L, cm.R, isOldReq, isReq):
				t = sc["sameReq"]
			case pair(cm.L, cm.R, isOldTable, isNewTable):
				t = sc["sameTable"]
			}
			if cm.Op == token.NEQ {
				t = t.not()
			}
			return t
		}
	}
	isErr := func(r *ast.ReturnStmt) bool {
		return len(r.Results) == 1 && !core.IsNil(f.Info(), r.Results[0]) && !mentionsCall(f, r.Results[0], mdP+"WriteTablesList")
	}
	notErr := func(r *ast.ReturnStmt) bool { return !isErr(r) }
	isNilRet := func(r *ast.ReturnStmt) bool { return len(r.Results) == 1 && core.IsNil(f.Info(), r.Results[0]) }

	// overlapping table of another request => refused (both directions of the overlap)
	okC, why := true, ""
	for _, sc := range []c26Scenario{
		{"sameReq": c26False, "conflict": c26True, "oldInNew": c26True},
		{"sameReq": c26False, "conflict": c26True, "newInOld": c26True},
	} {
		if path, found := c26IterationReaches(it, atoms(sc), true, notErr); found {
			okC, why = false, f.DescribePath(path)
			break
		}
	}
	c.Check(okC, "overlapping table => refused", "T8 DecisionTable", it.Stmt.Pos(), "for every recorded request of another name whose table is a prefix of, or prefixed by, the routed table, the iteration is left only through an error return",
		"a request whose table overlaps the table recorded for another request can pass the scan (two stores then see each other's keys): "+why)

	// same request, different table => refused
	path, found := c26IterationReaches(it, atoms(c26Scenario{"sameReq": c26True, "sameTable": c26False}), true, notErr)
	c.Check(!found, "re-assigning a request's table => refused", "T8 DecisionTable", it.Stmt.Pos(), "a recorded request that is now routed to a different table leaves the iteration only through an error return",
		"a request can be re-routed to a different table of the same database: "+f.DescribePath(path))

	// acceptance from inside the scan needs the same request and the same table
	okA, whyA := true, ""
	for _, sc := range []c26Scenario{{"sameReq": c26False}, {"sameTable": c26False}} {
		if path, found := c26IterationReaches(it, atoms(sc), false, isNilRet); found {
			okA, whyA = false, f.DescribePath(path)
			break
		}
	}
	c.Check(okA, "re-opening accepted only for the same request and table", "T4 GuardedBy", it.Stmt.Pos(), "an early nil return needs old.Req == req and old.Table == route.Table", "a request can be accepted early although request or table differ from the record: "+whyA)

	// same request, same table => never refused (re-opening yields the same store)
	path, found = c26IterationReaches(it, atoms(c26Scenario{"sameReq": c26True, "sameTable": c26True, "conflict": c26True, "oldInNew": c26True, "newInOld": c26True}), false, isErr)
	c.Check(!found, "re-opening a recorded request is not refused", "T8 DecisionTable", it.Stmt.Pos(), "the record of the same request with the same table never leads to an error return",
		"re-opening a request with its recorded table can be refused (a table always overlaps itself): "+f.DescribePath(path))

	// tablesConflicting is true whenever one argument is a prefix of the other
	tc := c.Fn(mdP + "tablesConflicting")
	a, b := tc.Param(0), tc.Param(1)
	c.Need(a != nil && b != nil, "tablesConflicting(a, b)")
	okSym, whySym := len(tc.ReturnPoints()) > 0, ""
	for _, sc := range []c26Scenario{{"ab": c26True}, {"ba": c26True}} {
		sc := sc
		atom := func(e ast.Expr) c26Tri {
			call, isCall := ast.Unparen(e).(*ast.CallExpr)
			if !isCall || len(call.Args) != 2 || calleeName(tc, call) != "strings.HasPrefix" {
				return c26Unknown
			}
			x, y := varOf(tc, resolveLocal(tc, call.Args[0])), varOf(tc, resolveLocal(tc, call.Args[1]))
			switch {
			case x == a && y == b:
				return sc["ab"]
			case x == b && y == a:
				return sc["ba"]
			}
			return c26Unknown
		}
		path, found := (core.PathQuery{F: tc, From: tc.Entry(), AvoidEdge: c26Infeasible(tc, atom), Target: func(pt core.Point) bool {
			r, isRet := pt.Node().(*ast.ReturnStmt)
			return isRet && (len(r.Results) != 1 || c26Eval(tc, r.Results[0], atom) != c26True)
		}}).Find()
		if found {
			okSym, whySym = false, tc.DescribePath(path)
			break
		}
	}
	c.Check(okSym, "conflict test is the symmetric prefix test", "T13/T8", tc.Pos(), "whenever a is a prefix of b or b is a prefix of a, every exit returns true", "tablesConflicting can return false although one table is a prefix of the other: nested key spaces can be handed out ("+whySym+")")
}
