package rules

import (
	"go/ast"
	"go/token"
	"go/types"
	"strings"

	"lachk/core"
)

var c01Pkgs = map[string]bool{"abft": true, "abft/election": true, "vecengine": true, "vecfc": true, "inter/pos": true, "lachesis": true, "utils/adapters": true}

var c01Roots = []string{
	"abft.Orderer.Process", "abft.Orderer.Build", "abft.Orderer.Bootstrap", "abft.Orderer.Reset",
	"abft.Lachesis.applyAtropos", "abft.Lachesis.confirmEvents",
	"abft.IndexedLachesis.Process", "abft.IndexedLachesis.Build", "abft.IndexedLachesis.Bootstrap",
	"abft/election.Election.ProcessRoot", "abft/election.Election.Reset", "abft/election.New",
	"vecengine.Engine.Add", "vecengine.Engine.Flush", "vecengine.Engine.DropNotFlushed", "vecengine.Engine.Reset", "vecengine.Engine.GetMergedHighestBefore",
	"vecfc.Index.ForklessCause", "vecfc.Index.Reset", "vecfc.Index.GetMergedHighestBefore",
	"abft.Store.GetFrameRoots", "abft.Store.AddRoot",
	"inter/pos.ValidatorsBuilder.Build", "inter/pos.ValidatorsBigBuilder.Build", "inter/pos.Validators.DecodeRLP", "inter/pos.ArrayToValidators", "inter/pos.EqualWeightValidators",
	"inter/pos.Validators.NewCounter", "inter/pos.WeightCounter.Count", "inter/pos.WeightCounter.CountByIdx", "inter/pos.WeightCounter.HasQuorum",
}

func init() {
	register("C01", "other", "T11 Determinism effects + T10 MapOrder over the consensus call graph, provenance (canonical iteration order), T3/T4 (re-vote after every decision)",
		"Decides necessary conditions of order-independent agreement: (det) no function reachable from the consensus entry points inside the consensus packages (abft, election, vecengine, vecfc, pos, lachesis, adapters) draws randomness or time, starts goroutines or selects, or ranges over a map in a way that lets the iteration order reach a result — two instances fed the same events cannot diverge through these effects; the debug helpers that do range over maps are shown unreachable rather than trusted; (canon) the Atropos choice and the cheater list iterate the validator set through its canonical sorted view; (revote; decided on inlined views of handleElection and Bootstrap in which only onFrameDecided and the replay routines — located by handing Store.GetFrameRoots elements to ProcessRoot — stay calls, the values of their results being followed through assignments and tests) after every decided, non-sealing frame the known roots are re-processed before the next root is handed to the election, Bootstrap ends with that re-processing, and the re-processing loop stops only when no further frame is decided or the epoch is sealed; between a call that reports 'sealed' (onFrameDecided, bootstrapElection) and the next live vote of the same root the 'not sealed' edge of that very result is taken; (slots) live voting and registration enumerate the same frame slots selfParentFrame+1..root.Frame() (bounds compared up to arithmetic rewriting), each vote / table record / cached-list entry is made in its own iteration for the slot (iteration's frame, root.Creator(), root.ID()), so the roots table and the cached per-frame lists that GetFrameRoots answers from hold the same slots; (forkpairs, rootorder) the two arrival-ordered lists that consensus scans are scanned position-independently: both operands of the branch-overlap test in fork detection are current elements of loops over a creator's whole branch list (followed through helper parameters), and every loop of the election over a frame's root list runs over the whole list and evaluates the forkless-cause test of each element in its own iteration. Agreement itself (same blocks for every DAG and delivery order) is a runtime fact and is not decided.",
		[]string{"storage (kvdb interfaces) is a deterministic ordered map: the traversal stops at kvdb and at application callbacks", "reachability follows static calls and interface calls resolved to module methods; function-valued fields are covered by listing their targets as entry points"},
		runC01)
}

func runC01(c *core.Ctx) {
	p := c.P
	c.Clause("C01.det", func() {
		var roots []*core.FuncInfo
		missing := 0
		for _, r := range c01Roots {
			if f := p.Func(r); f != nil {
				roots = append(roots, f)
			} else {
				missing++
				c.Note("entry point %s not present in this tree", r)
			}
		}
		c.Check(len(roots) >= 24, "entry points resolve", "resolve", 0, "consensus entry points resolved", "too many consensus entry points do not resolve (renamed?): the determinism scan would be vacuous")
		reach := core.ReachableScoped(p, roots, func(f *core.FuncInfo) bool { return c01Pkgs[core.RelPkg(f.Pkg.PkgPath)] })
		nF, nR := 0, 0
		inReach := map[string]bool{}
		for _, f := range reach {
			inReach[f.Name] = true
			all := append([]*core.FuncInfo{f}, allLits(f)...)
			for _, g := range all {
				nF++
				if eff := core.NondetEffects(g); len(eff) > 0 {
					c.Fail(short(g.Name)+"|no randomness/time/goroutines", "T11 Determinism effects", g.Pos(), "consensus code reachable from "+"the entry points has a non-deterministic effect: "+strings.Join(eff, "; "))
				}
				for _, mr := range core.MapRanges(g) {
					nR++
					key := core.RelPkg(g.Pkg.PkgPath) + "." + short(g.Name) + "|range over " + exprStr(mr.Stmt.X)
					c.Check(!mr.Sensitive(), key, "T10 MapOrder", mr.Stmt.Pos(), "iteration order cannot reach the result", "order-sensitive map range in consensus code: "+strings.Join(mr.Reasons, "; "))
				}
			}
		}
		c.Pass("no randomness/time/goroutines/select in reachable consensus code", "T11 Determinism effects", "scanned the reachable functions and their literals")
		// vacuity guards only (not today's counts): the traversal went well beyond the entry points, and
		// the map-range recogniser sees the ranges that consensus code has
		c.ExpectAtLeast("reachable consensus functions (incl. literals)", nF, 2*len(roots))
		c.ExpectAtLeast("map ranges in reachable consensus code", nR, 1)
		c.Extra["c01_reachable_functions"] = nF
		// debug helpers with order-sensitive ranges must be unreachable
		nDbg := 0
		for _, f := range p.FuncsInPkg("abft/election") {
			sens := false
			for _, mr := range core.MapRanges(f) {
				if mr.Sensitive() {
					sens = true
				}
			}
			if sens {
				nDbg++
				c.Check(!inReach[f.Name], "election."+short(f.Name)+" (order-sensitive) is not reachable from consensus", "T11 reachability", f.Pos(), "not in the call graph of the entry points", "an order-sensitive debug helper is reachable from the consensus entry points")
			}
		}
		c.Note("order-sensitive functions in abft/election outside the consensus call graph: %d", nDbg)
	})

	c.Clause("C01.canon", func() {
		type site struct {
			fn, what string
			// choice: positions at which the order of iteration becomes the result (appends to the cheater
			// list; returns of a chosen Atropos)
			choice func(f *core.FuncInfo) []token.Pos
		}
		cheaterAppends := func(f *core.FuncInfo) []token.Pos {
			var out []token.Pos
			for _, a := range assignments(f) {
				if ap := isCallTo(f, a.RHS, "builtin.append"); ap != nil && a.RHS != nil {
					if t, ok := f.Info().TypeOf(a.LHS).Underlying().(*types.Slice); ok && strings.HasSuffix(t.Elem().String(), "idx.ValidatorID") {
						out = append(out, a.Stmt.Pos())
					}
				}
			}
			return out
		}
		chosenReturns := func(f *core.FuncInfo) []token.Pos {
			var out []token.Pos
			for _, rp := range f.ReturnPoints() {
				r := rp.Node().(*ast.ReturnStmt)
				if len(r.Results) == 2 && !core.IsNil(f.Info(), r.Results[0]) {
					out = append(out, r.Pos())
				}
			}
			return out
		}
		for _, s := range []site{{"abft.Lachesis.applyAtropos", "cheater list", cheaterAppends}, {"abft/election.Election.chooseAtropos", "Atropos choice", chosenReturns}} {
			f := c.Fn(s.fn)
			if s.what == "cheater list" {
				// the list may be built in a helper whose result applyAtropos puts into the block
				view, _, _ := c03ListBuilder(f)
				f = view.G
			}
			// the loops whose iteration order reaches the result: those around a choice site; if the
			// choice is made outside every loop, all loops of the function
			var loops []ast.Stmt
			seen := map[ast.Stmt]bool{}
			for _, pos := range s.choice(f) {
				if l := enclosingLoop(f, pos); l != nil && !seen[l] {
					seen[l] = true
					loops = append(loops, l)
				}
			}
			if len(loops) == 0 {
				f.InspectOwn(func(nd ast.Node) bool {
					switch nd.(type) {
					case *ast.RangeStmt, *ast.ForStmt:
						loops = append(loops, nd.(ast.Stmt))
					}
					return true
				})
			}
			for _, l := range loops {
				ok := false
				if it, isIt := c01IterationOf(f, l); isIt && it.FromZero {
					// over the canonical id slice (ranged, or indexed 0..len-1), or over the validator
					// indexes 0..Len()-1 (index = position in the canonical order)
					if it.Coll != nil && isCallTo(f, it.Coll, "inter/pos.Validators.SortedIDs", "inter/pos.Validators.IDs") != nil {
						ok = true
					}
					if it.Coll == nil && it.Bound != nil && isCallTo(f, core.StripConv(f.Info(), it.Bound), "inter/pos.Validators.Len") != nil {
						ok = true
					}
				}
				c.Check(ok, s.what+" iterates the canonical validator order", "provenance", l.Pos(), "iterates Validators.SortedIDs()/IDs() (the cached canonical order) or the validator indexes 0..Len()-1, in index order", "the "+s.what+" does not iterate the validator set's canonical order")
			}
			c.ExpectAtLeast("loops in "+short(s.fn), len(loops), 1)
		}
		// IDs/SortedIDs return the cached canonical slice
		for _, m := range []string{"IDs", "SortedIDs"} {
			f := c.Fn("inter/pos.Validators." + m)
			ok := false
			for _, rp := range f.ReturnPoints() {
				r := rp.Node().(*ast.ReturnStmt)
				if len(r.Results) == 1 {
					if _, path := fieldPath(f, r.Results[0]); len(path) >= 1 && path[len(path)-1] == "inter/pos.cache.ids" {
						ok = true
					}
				}
			}
			c.Check(ok, "Validators."+m+" returns the canonical id list", "provenance", f.Pos(), "returns cache.ids (built from the sorted array; comparator decided under C12)", "Validators."+m+" does not return the cached canonical list")
		}
	})

	c01Revote(c)

	c01ArrivalOrder(c)
}
