package rules

import (
	"fmt"
	"go/ast"
	"go/token"
	"go/types"
	"sort"
	"strings"

	"lachk/core"
)

var _ = fmt.Sprint
var _ ast.Node
var _ token.Pos
var _ types.Object
var _ = sort.Strings
var _ = strings.TrimSpace

// c01Slots: a root that moves up several frames occupies one slot per frame. Registration (AddRoot)
// and voting (handleElection) must enumerate the same slots — frames selfParentFrame+1 .. root.Frame()
// — and each vote must be cast for the slot of its own iteration. If the live vote uses another
// frame than the stored slot, an instance that replays the stored roots (after a decision or a
// restart) votes differently from one that saw the root live: the outcome depends on delivery order.
func c01Slots(c *core.Ctx) {
	c.Clause("C01.slots", func() {
		type site struct {
			fn, callee string
		}
		check := func(f *core.FuncInfo, spfParam, root *types.Var, what string) (*ast.ForStmt, *types.Var) {
			var loop *ast.ForStmt
			f.InspectOwn(func(n ast.Node) bool {
				if fs, ok := n.(*ast.ForStmt); ok && loop == nil {
					loop = fs
				}
				return true
			})
			c.Need(loop != nil && loop.Init != nil && loop.Cond != nil && loop.Post != nil, short(f.Name)+" iterates the root's frames with a counted loop")
			as, _ := loop.Init.(*ast.AssignStmt)
			c.Need(as != nil && len(as.Lhs) == 1 && len(as.Rhs) == 1, "loop init")
			fv := varOf(f, as.Lhs[0])
			namer := func(e ast.Expr) string {
				if varOf(f, e) == spfParam {
					return "spf"
				}
				if varOf(f, e) == fv {
					return "f"
				}
				if call, ok := ast.Unparen(e).(*ast.CallExpr); ok && methodNamed(calleeName(f, call), "Frame") {
					if sel, k := call.Fun.(*ast.SelectorExpr); k && varOf(f, sel.X) == root {
						return "rootFrame"
					}
				}
				return ""
			}
			l := core.Linearize(f.Info(), as.Rhs[0], namer)
			okInit := len(l.Coef) == 1 && coefIs(l, "spf", 1) && l.C.Int64() == 1
			lc, k := core.NormLinCmp(f.Info(), core.Fact{Expr: loop.Cond, Truth: true}, namer)
			okCond := k && lc.Equal(core.ParseLinCmp("f - rootFrame <= 0"))
			inc, isInc := loop.Post.(*ast.IncDecStmt)
			okPost := isInc && inc.Tok == token.INC && varOf(f, inc.X) == fv
			c.Check(okInit && okCond && okPost, what+" enumerates frames selfParentFrame+1 .. root.Frame()", "T16b SiblingAgreement (loop bounds)", loop.Pos(), "for f := selfParentFrame+1; f <= root.Frame(); f++", what+" does not enumerate exactly the frames above the self-parent's frame up to the root's frame")
			return loop, fv
		}
		// voting
		he := c.Fn("abft.Orderer.handleElection")
		loop, fv := check(he, he.Param(0), he.Param(1), "voting")
		root := he.Param(1)
		for _, cs := range he.CallsTo("abft/election.Election.ProcessRoot") {
			okIn := enclosingLoop(he, cs.Pos()) == ast.Stmt(loop)
			cl, _ := ast.Unparen(cs.Call.Args[0]).(*ast.CompositeLit)
			okID, okFrame, okVal := false, false, false
			if cl != nil {
				var visit func(cl *ast.CompositeLit)
				visit = func(cl *ast.CompositeLit) {
					for _, el := range cl.Elts {
						kv, ok := el.(*ast.KeyValueExpr)
						if !ok {
							continue
						}
						key, _ := kv.Key.(*ast.Ident)
						if key == nil {
							continue
						}
						isRootCall := func(e ast.Expr, m string) bool {
							call, ok := ast.Unparen(e).(*ast.CallExpr)
							if !ok || !methodNamed(calleeName(he, call), m) {
								return false
							}
							sel, k := call.Fun.(*ast.SelectorExpr)
							return k && varOf(he, sel.X) == root
						}
						switch key.Name {
						case "ID":
							okID = isRootCall(kv.Value, "ID")
						case "Frame":
							okFrame = varOf(he, kv.Value) == fv
						case "Validator":
							okVal = isRootCall(kv.Value, "Creator")
						case "Slot":
							if inner, ok := ast.Unparen(kv.Value).(*ast.CompositeLit); ok {
								visit(inner)
							}
						}
					}
				}
				visit(cl)
			}
			c.Check(okIn && okID && okFrame && okVal, "each vote is cast for the slot of its own iteration", "T16b SiblingAgreement (provenance)", cs.Pos(),
				"ProcessRoot(RootAndSlot{ID: root.ID(), Slot{Frame: f, Validator: root.Creator()}}) with f the loop variable",
				"the live vote is not cast for the slot (frame f, creator) that is registered for the root: replayed and live votes differ, so instances that received events in different orders decide differently or fail")
		}
		c.ExpectAtLeast("live ProcessRoot sites", len(he.CallsTo("abft/election.Election.ProcessRoot")), 1)
		// registration
		ar := c.Fn("abft.Store.AddRoot")
		rloop, rfv := check(ar, ar.Param(0), ar.Param(1), "registration")
		for _, cs := range ar.CallsTo("abft.Store.addRoot") {
			ok := enclosingLoop(ar, cs.Pos()) == ast.Stmt(rloop) && varOf(ar, cs.Call.Args[0]) == ar.Param(1) && varOf(ar, cs.Call.Args[1]) == rfv
			c.Check(ok, "each frame of the root is registered", "T16b SiblingAgreement (provenance)", cs.Pos(), "addRoot(root, f) with f the loop variable", "a root is not registered under each of its frames")
		}
		// the caller passes the same self-parent frame to both
		chk := c.Fn("abft.Orderer.checkAndSaveEvent")
		proc := c.Fn("abft.Orderer.Process")
		okSame := false
		var spfVar *types.Var
		for _, cs := range chk.CallsTo("abft.Store.AddRoot") {
			spfVar = varOf(chk, cs.Call.Args[0])
		}
		if spfVar != nil {
			for _, rp := range chk.ReturnPoints() {
				r := rp.Node().(*ast.ReturnStmt)
				if len(r.Results) == 2 && varOf(chk, r.Results[1]) == spfVar {
					okSame = true
				}
			}
		}
		if okSame {
			okSame = false
			for _, cs := range proc.CallsTo("abft.Orderer.handleElection") {
				v := varOf(proc, cs.Call.Args[0])
				for _, a := range assignments(proc) {
					if as, isAs := a.Stmt.(*ast.AssignStmt); isAs && len(as.Lhs) == 2 && varOf(proc, as.Lhs[1]) == v && isCallTo(proc, as.Rhs[0], "abft.Orderer.checkAndSaveEvent") != nil {
						okSame = true
					}
				}
			}
		}
		c.Check(okSame, "registration and voting start from the same self-parent frame", "provenance", proc.Pos(), "the self-parent frame used by AddRoot is what checkAndSaveEvent returns and handleElection receives", "registration and voting use different lower bounds")
	})
}
