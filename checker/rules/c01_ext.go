package rules

import (
	"go/ast"
	"go/token"
	"go/types"
	"math/big"

	"golang.org/x/tools/go/cfg"

	"lachk/core"
)

const (
	c01RootsTable = "abft.Store.epochTable.Roots"
	c01RootsCache = "abft.Store.cache.FrameRoots"
)

// c01RecvField: canonical name of the field on which the method is called ("" if not a field).
func c01RecvField(cs *core.CallSite) string {
	r := cs.Recv()
	if r == nil {
		return ""
	}
	_, pth := fieldPath(cs.F, r)
	if len(pth) == 0 {
		return ""
	}
	return pth[len(pth)-1]
}

func c01IsRootsPut(cs *core.CallSite) bool {
	return cs.Name == kvPut && c01RecvField(cs) == c01RootsTable
}

// a per-slot look at the cached list of the slot's frame: the lookup that precedes the append, or an
// invalidation
func c01IsCacheTouch(cs *core.CallSite) bool {
	return (methodNamed(cs.Name, "Get") || methodNamed(cs.Name, "Remove")) && c01RecvField(cs) == c01RootsCache
}

func c01IsCacheAdd(cs *core.CallSite) bool {
	return methodNamed(cs.Name, "Add") && c01RecvField(cs) == c01RootsCache
}

// c01SlotNamer names the atoms of the slot arithmetic by role, through objects: the self-parent frame
// parameter, the loop variable and root.Frame() (also when kept in a single-definition local).
func c01SlotNamer(f *core.FuncInfo, cl *c01Counted, spf, root *types.Var) core.AtomNamer {
	return func(e ast.Expr) string {
		e = resolveLocal(f, e)
		if v := canonVar(f, varOf(f, e)); v != nil {
			if v == spf {
				return "spf"
			}
			if cl != nil && v == cl.Var {
				return "f"
			}
		}
		if root != nil && c01MethodOn(f, e, "Frame") == root {
			return "rootFrame"
		}
		return ""
	}
}

// c01SlotRange decides that the loop cl, whose iteration with variable value v stands for the frame
// slot frameExpr(v) = v + k, enumerates exactly the slots selfParentFrame+1 .. root.Frame().
func c01SlotRange(c *core.Ctx, f *core.FuncInfo, cl *c01Counted, spf, root *types.Var, frameExpr ast.Expr, what string) {
	namer := c01SlotNamer(f, cl, spf, root)
	fl := core.Linearize(f.Info(), resolveLocal(f, frameExpr), namer)
	okF := len(fl.Coef) == 1 && coefIs(fl, "f", 1) && fl.C.IsInt64()
	okInit, okCond := false, false
	if okF {
		k := fl.C.Int64()
		il := core.Linearize(f.Info(), resolveLocal(f, cl.Init), namer)
		okInit = len(il.Coef) == 1 && coefIs(il, "spf", 1) && il.C.IsInt64() && il.C.Int64() == 1-k
		lc, isCmp := core.NormLinCmp(f.Info(), core.Fact{Expr: cl.Loop.Cond, Truth: true}, namer)
		want := core.ParseLinCmp("f - rootFrame <= 0")
		want.Form.C = big.NewInt(k)
		okCond = isCmp && lc.Equal(want)
	}
	c.Check(okF && okInit && okCond, what+" enumerates frames selfParentFrame+1 .. root.Frame()", "T16b SiblingAgreement (loop bounds)", cl.Loop.Pos(),
		"the counted loop's slots run from selfParentFrame+1 to root.Frame() inclusive (bounds compared up to arithmetic rewriting)",
		what+" does not enumerate exactly the frames above the self-parent's frame up to the root's frame: a root that moves up several frames votes in / is registered for other slots than its own")
}

// c01SlotRecord: the (ID, validator, frame) of the RootAndSlot value x of eff.G in AddRoot's terms.
type c01Record struct {
	id, validator *types.Var // the caller's variable whose .ID() / .Creator() is stored
	frame         ast.Expr   // caller-side frame expression
	ok            bool
}

func c01RecordOf(eff c01Effect, x ast.Expr) c01Record {
	if eff.G != eff.Caller {
		// the helper was handed the record (or a struct holding it): judge the caller's value
		if arg, ok := eff.callerExpr(x); ok && arg != nil && c01StructFields(eff.Caller, arg) != nil {
			return c01RecordOf(eff.direct(), arg)
		}
	}
	fields := c01StructFields(eff.G, x)
	if fields == nil {
		return c01Record{}
	}
	r := c01Record{id: eff.callerRecv(fields["ID"], "ID"), validator: eff.callerRecv(fields["Slot.Validator"], "Creator")}
	r.frame, r.ok = eff.callerExpr(fields["Slot.Frame"])
	r.ok = r.ok && r.id != nil && r.validator != nil && r.frame != nil
	return r
}

// c01Registration is the shape of Store.AddRoot that C01.slots and C02.roots decide.
type c01Registration struct {
	ar        *core.FuncInfo
	spf, root *types.Var
	loop      *c01Counted
	loopWhy   string
	loopPos   token.Pos
	puts      []c01Effect // writes of the roots table (direct or one helper down)
	putMust   []core.Point
	touches   []c01Effect // lookups / invalidations of the cached root list
	touchMust []core.Point
}

func c01AnalyseRegistration(c *core.Ctx) *c01Registration {
	// decided on the inlined view of AddRoot (the key builder stays a call: it is the anchor through
	// which the written record is read), so that the record may be built in AddRoot or in the helper that
	// writes it, and the cache may be reached through accessor helpers
	ar := c01View(c.Fn("abft.Store.AddRoot"), "abft.rootRecordKey")
	r := &c01Registration{ar: ar, spf: ar.Param(0), root: ar.Param(1), loopPos: ar.Pos()}
	r.puts = c01Effects(ar, c01IsRootsPut)
	r.touches = c01Effects(ar, c01IsCacheTouch)
	r.putMust = ar.SitesMust(c01IsRootsPut, 2)
	r.touchMust = ar.SitesMust(c01IsCacheTouch, 2)
	// the slot loop: the loop around the registration effects; if they were moved out of every loop,
	// the first loop of AddRoot (so that the per-slot obligation can name it)
	var loop ast.Stmt
	for _, e := range append(append([]c01Effect(nil), r.puts...), r.touches...) {
		if l := c01LoopAround(ar, e.At.Call); l != nil && loop == nil {
			loop = l
		}
	}
	if loop == nil {
		ar.InspectOwn(func(n ast.Node) bool {
			switch n.(type) {
			case *ast.ForStmt, *ast.RangeStmt:
				if loop == nil {
					loop = n.(ast.Stmt)
				}
			}
			return true
		})
	}
	if loop == nil {
		r.loopWhy = "AddRoot has no loop over the root's frames"
		return r
	}
	r.loopPos = loop.Pos()
	r.loop, r.loopWhy = c01CountedLoop(ar, loop)
	return r
}

// c01Slots: a root that moves up several frames occupies one slot per frame. Registration (AddRoot)
// and voting (handleElection) must enumerate the same slots — frames selfParentFrame+1 .. root.Frame()
// — and each vote must be cast for the slot of its own iteration. If the live vote uses another
// frame than the stored slot, an instance that replays the stored roots (after a decision or a
// restart) votes differently from one that saw the root live: the outcome depends on delivery order.
// Registration has two sinks that GetFrameRoots reads — the roots table and, when present, the cached
// list of the frame — and each slot must reach both, otherwise instances whose cache state differs
// (size, eviction, restart) replay different root sets.
func c01Slots(c *core.Ctx) {
	c.Clause("C01.slots", func() {
		// voting
		// the live vote: a ProcessRoot call of handleElection's inlined view that does not vote with a stored
		// root (the replay of stored roots votes too, but is not the live vote); helpers that are handed
		// the root and the frame are folded into the view
		hd := c01DriverView(c.Fn("abft.Orderer.handleElection"), c01ReplayRoutines(c.P))
		he := hd.v
		spf, root := he.Param(0), he.Param(1)
		var votes []c01Effect
		for _, cs := range hd.lives {
			votes = append(votes, c01Effect{Caller: he, At: cs, G: he, Eff: cs})
		}
		for _, e := range votes {
			cs := e.Eff
			c.Need(len(cs.Call.Args) == 1, "ProcessRoot takes the root and slot")
			cl, why := c01CountedLoop(he, c01LoopAround(he, e.At.Call))
			if cl == nil {
				c.Undecided("voting enumerates frames selfParentFrame+1 .. root.Frame()", "T16b SiblingAgreement (loop bounds)", cs.Pos(), "the live vote is not cast inside a counted loop over the root's frames: "+why)
				continue
			}
			rec := c01RecordOf(e, cs.Call.Args[0])
			okID := rec.id == root && root != nil
			okVal := rec.validator == root && root != nil
			frameExpr := rec.frame
			okFrame := false
			if frameExpr != nil {
				fl := core.Linearize(he.Info(), resolveLocal(he, frameExpr), c01SlotNamer(he, cl, spf, root))
				okFrame = len(fl.Coef) == 1 && coefIs(fl, "f", 1)
			}
			c.Check(okID && okVal && okFrame, "each vote is cast for the slot of its own iteration", "T16b SiblingAgreement (provenance)", cs.Pos(),
				"ProcessRoot gets {ID: root.ID(), Slot{Frame: the iteration's frame, Validator: root.Creator()}} (locals and field order looked through)",
				"the live vote is not cast for the slot (frame f, creator) that is registered for the root: replayed and live votes differ, so instances that received events in different orders decide differently or fail")
			if okFrame {
				c01SlotRange(c, he, cl, spf, root, frameExpr, "voting")
			}
		}
		c.ExpectAtLeast("live ProcessRoot sites", len(votes), 1)

		// registration
		reg := c01AnalyseRegistration(c)
		ar := reg.ar
		c.Need(len(reg.puts) >= 1, "AddRoot writes the roots table itself or through one helper")
		if reg.loop == nil {
			c.Undecided("registration enumerates frames selfParentFrame+1 .. root.Frame()", "T16b SiblingAgreement (loop bounds)", reg.loopPos, "AddRoot does not register the slots in a counted loop over the root's frames: "+reg.loopWhy)
		} else {
			for _, e := range reg.puts {
				rec := c01PutRecord(e)
				okRec := rec.ok && rec.id == reg.root && rec.validator == reg.root
				okIter, wit := c01EveryIteration(ar, reg.loop.Head, reg.loop.Done, reg.putMust)
				c.Check(okRec && okIter, "each frame of the root is registered", "T16b SiblingAgreement (provenance) + T3 per iteration", e.At.Pos(),
					"every iteration of the slot loop writes the record (iteration's frame, root.Creator(), root.ID()) to the roots table",
					"a root is not registered under each of its frames in the roots table ("+ar.DescribePath(wit)+"): replaying the stored roots gives other votes than the live ones")
				if rec.ok {
					c01SlotRange(c, ar, reg.loop, reg.spf, reg.root, rec.frame, "registration")
				}
			}
			c01CachedList(c, reg)
		}

		// the caller passes the same self-parent frame to both
		chk := c.Fn("abft.Orderer.checkAndSaveEvent")
		proc := c.Fn("abft.Orderer.Process")
		okSame := false
		var spfVar *types.Var
		for _, cs := range chk.CallsTo("abft.Store.AddRoot") {
			if len(cs.Call.Args) >= 1 {
				spfVar = canonVar(chk, varOf(chk, cs.Call.Args[0]))
			}
		}
		// the result that carries the frame is identified by its role — the result position through
		// which checkAndSaveEvent hands out the variable it registered with — not by a fixed index, so
		// the order of the (frame, error) results is free
		for _, i := range c01ResultsReturning(chk, spfVar) {
			for _, cs := range proc.CallsTo("abft.Orderer.handleElection") {
				if len(cs.Call.Args) < 1 {
					continue
				}
				v := canonVar(proc, varOf(proc, cs.Call.Args[0]))
				if v == nil {
					continue
				}
				for _, call := range proc.CallsTo("abft.Orderer.checkAndSaveEvent") {
					if w := c01ResultVar(proc, call.Call, i); w != nil && canonVar(proc, w) == v {
						okSame = true
					}
				}
			}
		}
		c.Check(okSame, "registration and voting start from the same self-parent frame", "provenance", proc.Pos(), "the self-parent frame used by AddRoot is what checkAndSaveEvent returns and handleElection receives", "registration and voting use different lower bounds")
	})
}

// c01PutRecord: the record whose key is written by the roots-table Put of e.
func c01PutRecord(e c01Effect) c01Record {
	if len(e.Eff.Call.Args) < 1 {
		return c01Record{}
	}
	key := c01ValueOf(e.G, e.Eff.Call.Args[0])
	if call, ok := key.(*ast.CallExpr); ok && calleeName(e.G, call) == "abft.rootRecordKey" && len(call.Args) == 1 {
		return c01RecordOf(e, call.Args[0])
	}
	return c01Record{}
}

// c01CachedList: GetFrameRoots answers from the cached list of a frame when there is one, so every
// registered slot must also reach that list (or invalidate it) — per slot, keyed by the slot's frame.
func c01CachedList(c *core.Ctx, reg *c01Registration) {
	ar := reg.ar
	const key = "the cached root list of each slot's frame is kept in step with the roots table"
	const rule = "T16b SiblingAgreement (two sinks) + T3 per iteration"
	const bad = "a slot is written to the roots table but the cached list of its frame is not updated for it: GetFrameRoots answers from the cache, so an instance whose cache holds that frame misses the root's vote while an instance that reloads the frame from the table (smaller cache, eviction, restart) counts it — same events, different blocks"
	if len(reg.touches) == 0 {
		c.Fail(key, rule, reg.loopPos, "AddRoot never looks at the cached root lists: "+bad)
		return
	}
	okIter, wit := c01EveryIteration(ar, reg.loop.Head, reg.loop.Done, reg.touchMust)
	if !okIter {
		c.Fail(key, rule, reg.loopPos, "not every iteration of the slot loop reaches the cache update ("+ar.DescribePath(wit)+"): "+bad)
		return
	}
	namer := c01SlotNamer(ar, reg.loop, reg.spf, reg.root)
	sameFrame := func(a, b ast.Expr) bool {
		if a == nil || b == nil {
			return false
		}
		la := core.Linearize(ar.Info(), resolveLocal(ar, a), namer)
		lb := core.Linearize(ar.Info(), resolveLocal(ar, b), namer)
		return coefIs(la, "f", 1) && la.String() == lb.String()
	}
	// the frame under which the slot is written to the table
	var dbFrame ast.Expr
	for _, p := range reg.puts {
		if rec := c01PutRecord(p); rec.ok {
			dbFrame = rec.frame
		}
	}
	ok, why := true, ""
	for _, t := range reg.touches {
		if dbFrame == nil && len(t.Eff.Call.Args) >= 1 {
			// the table record is judged by its own obligation; here the slot's frame is then the looked-up key
			dbFrame, _ = t.callerExpr(t.Eff.Call.Args[0])
		}
		g := t.G
		if len(t.Eff.Call.Args) < 1 {
			ok, why = false, "cache lookup without a key"
			continue
		}
		kf, isParam := t.callerExpr(t.Eff.Call.Args[0])
		if !isParam || !sameFrame(kf, dbFrame) {
			ok, why = false, "the cached list looked up is not the one of the slot's frame"
			continue
		}
		if methodNamed(t.Eff.Name, "Remove") {
			continue // invalidation: the next GetFrameRoots reloads the frame from the table
		}
		// a hit must lead to an Add of the extended list under the same key
		hit := c01ResultVar(g, t.Eff.Call, 1)
		adds := g.CallsMatching(c01IsCacheAdd)
		if hit == nil || len(adds) == 0 {
			ok, why = false, "the lookup's hit flag is not kept or no list is stored back"
			continue
		}
		// (the hit flag may be handed on by an accessor folded into the view: its value is followed)
		q := c01EnvQuery{F: g, From: t.Eff.Pt, FromAfter: true, Init: map[*types.Var]c01Abs{hit: c01AbsTrue}, Avoid: core.PointSet(core.Points(adds)...), AvoidEdge: g.GuardEdges(c01BoolFact(g, hit, false)), TargetExit: true}
		if g == ar {
			q.TargetBlock = func(b *cfg.Block) bool { return b == reg.loop.Head || b == reg.loop.Done }
		}
		if p, found := q.Find(); found {
			ok, why = false, "after a cache hit the list is not stored back on every path ("+g.DescribePath(p)+")"
			continue
		}
		for _, a := range adds {
			if len(a.Call.Args) < 2 {
				ok, why = false, "unexpected Add arity"
				continue
			}
			af, isP := t.callerExpr(a.Call.Args[0])
			if !isP || !sameFrame(af, dbFrame) {
				ok, why = false, "the extended list is stored under another frame than the slot's"
			}
			// the stored list was extended by the slot's record
			lv := varOf(g, a.Call.Args[1])
			okApp := false
			cands := []ast.Expr{a.Call.Args[1]}
			for _, as := range assignsToVar(g, lv) {
				if as.RHS != nil {
					if o, _ := g.MustPassBefore([]core.Point{as.Pt}, a.Pt); o {
						cands = append(cands, as.RHS)
					}
				}
			}
			for _, x := range cands {
				ap := isCallTo(g, x, "builtin.append")
				if ap == nil {
					continue
				}
				for _, el := range ap.Args[1:] {
					rec := c01RecordOf(t, el)
					if rec.ok && rec.id == reg.root && rec.validator == reg.root && sameFrame(rec.frame, dbFrame) {
						okApp = true
					}
				}
			}
			if !okApp {
				ok, why = false, "the list stored back is not the cached list extended by the slot's record"
			}
		}
	}
	c.Check(ok, key, rule, reg.loopPos, "every iteration looks up the cached list of the slot's frame and, on a hit, stores it back extended by the same (frame, creator, id) record that goes to the table", why+": "+bad)
}
