// Package rules holds the per-property rule instances.
package rules

import (
	"lachk/core"
)

// Property is the set of clauses of one property.
type Property struct {
	Meta core.PropMeta
	Run  func(c *core.Ctx)
	// Thorough adds the thorough-tier work (whole-module reach, 386 pass, controls).
	ThoroughRun func(c *core.Ctx, repo string)
}

// Registry maps property ids to their rules.
var Registry = map[string]Property{}

func register(id, level, templates, explanation string, assumptions []string, run func(c *core.Ctx)) {
	Registry[id] = Property{
		Meta: core.PropMeta{ID: id, Level: level, Templates: templates, Explanation: explanation, Assumptions: assumptions, TrustedBase: trustedBase},
		Run:  run,
	}
}

var trustedBase = []string{
	"Go type checker (go/types) and golang.org/x/tools v0.29.0 go/packages, go/cfg",
	"documented contracts of sync, sync/atomic, time, encoding/binary, math/big, container/list, gods red-black tree, goleveldb, pebble, go-ethereum rlp",
	"the frozen rule tables in /verif/checker/rules (written from the property statements, reviewed against the code)",
}
