package rules

import (
	"go/ast"
	"go/types"

	"lachk/core"
)

// Frames of C22.snapshot: the reader of a snapshot may be assembled in a constructor helper that receives
// the copied overlay tree and the parent snapshot as parameters. The questions "is this tree fresh", "is
// it filled from the live overlay", "is this store a snapshot of the underlying store" are asked about the
// value, so a parameter is followed back to the argument expression at the helper's call sites and the
// question is decided in the caller's frame (bounded depth).

// c22Frame is a variable (with the expression that denoted it) in the function where its value is made.
type c22Frame struct {
	G *core.FuncInfo
	V *types.Var // nil when the expression is not a (possibly aliased) variable
	E ast.Expr
}

// c22ParamIndex: the position of v among g's parameters (-1 if v is not a parameter of g).
func c22ParamIndex(g *core.FuncInfo, v *types.Var) int {
	if g.Obj == nil || v == nil {
		return -1
	}
	sig, _ := g.Obj.Type().(*types.Signature)
	if sig == nil {
		return -1
	}
	for i := 0; i < sig.Params().Len(); i++ {
		if g.Param(i) == v {
			return i
		}
	}
	return -1
}

// c22ArgFrames lifts the expression e of g to the frames in which its value is created: e itself when it
// is a local of g, and — when e is (an alias of) a parameter of g that g never re-assigns — the argument
// at every call of g made by one of the hosts, lifted in turn.
func c22ArgFrames(hosts []*core.FuncInfo, g *core.FuncInfo, e ast.Expr, depth int) []c22Frame {
	v := canonVar(g, varOf(g, e))
	here := []c22Frame{{G: g, V: v, E: e}}
	if depth <= 0 {
		return here
	}
	// the value is the single result of a module function (written in place, or held in a
	// single-definition local): it is made at that function's returns
	call, _ := ast.Unparen(e).(*ast.CallExpr)
	if call == nil && v != nil {
		if d := singleDef(g, v); d != nil {
			call, _ = ast.Unparen(d).(*ast.CallExpr)
		}
	}
	if call != nil {
		fn, _ := g.ObjOf(call.Fun).(*types.Func)
		if h := g.P.FuncOf(fn); h != nil && h != g {
			var out []c22Frame
			for _, rp := range h.ReturnPoints() {
				r, _ := rp.Node().(*ast.ReturnStmt)
				if r == nil || len(r.Results) != 1 {
					return here
				}
				out = append(out, c22ArgFrames(hosts, h, r.Results[0], depth-1)...)
			}
			if len(out) > 0 {
				return out
			}
		}
		return here
	}
	if v == nil || c22ParamIndex(g, v) < 0 || len(assignsToVar(g, v)) > 0 {
		return here
	}
	var out []c22Frame
	for _, h := range hosts {
		if h == g {
			continue
		}
		for _, cs := range h.Calls() {
			if c22Callee(cs) != g {
				continue
			}
			arg, ok := c22ParamArgs(cs, g)[v]
			if !ok {
				return here
			}
			out = append(out, c22ArgFrames(hosts, h, arg, depth-1)...)
		}
	}
	if len(out) == 0 {
		return here
	}
	return out
}

// c22AllFrames: there is at least one frame and pred holds in each.
func c22AllFrames(frames []c22Frame, pred func(c22Frame) bool) bool {
	if len(frames) == 0 {
		return false
	}
	for _, fr := range frames {
		if fr.V == nil || !pred(fr) {
			return false
		}
	}
	return true
}
