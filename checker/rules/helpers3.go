package rules

import (
	"go/ast"

	"golang.org/x/tools/go/cfg"

	"lachk/core"
)

// rejectedWhen decides "condition X leads to rejection and nothing else does the accepting": it is the
// two-sided form of a decision-table row.
//
//	(a) some branch edge carries the fact X, and from every such edge only rejecting returns are reachable;
//	(b) acceptance needs ¬X: outside loops every non-rejecting return is reachable only over an edge that
//	    implies ¬X; inside a loop every path from the loop body's entry to the next iteration or to a
//	    non-rejecting return takes such an edge (so the test is made for every element).
//
// (b) is what catches a guard weakened by an extra conjunct (`if other && X`), which (a) alone accepts.
func rejectedWhen(f *core.FuncInfo, isX func(core.Fact) bool, rejecting func(*ast.ReturnStmt) bool) (bool, string) {
	edges := edgesWithFact(f, isX)
	if len(edges) == 0 {
		return false, "no branch tests this condition"
	}
	for _, e := range edges {
		if ok, wit := edgeLeadsOnlyTo(f, e.B, e.Succ, rejecting); !ok {
			return false, "acceptance is reachable after the condition fired: " + f.DescribePath(wit)
		}
	}
	notX := func(ft core.Fact) bool { return isX(core.Fact{Expr: ft.Expr, Truth: !ft.Truth}) }
	notXEdges := f.GuardEdges(notX)
	accepting := func(pt core.Point) bool {
		r, ok := pt.Node().(*ast.ReturnStmt)
		return ok && !rejecting(r)
	}
	first := edges[0]
	loop := enclosingLoop(f, posOf(core.Point{B: first.B, I: len(first.B.Nodes) - 1}))
	if loop == nil {
		path, found := core.PathQuery{F: f, From: f.Entry(), Target: accepting, AvoidEdge: notXEdges}.Find()
		if found {
			return false, "acceptance is reachable without the condition having been tested false: " + f.DescribePath(path)
		}
		return true, ""
	}
	head, _ := f.LoopOf(loop)
	if head == nil || len(head.Succs) == 0 {
		return false, "cannot locate the loop that contains the test"
	}
	body := head.Succs[0]
	path, found := core.PathQuery{F: f, From: blockEntry(body), Target: accepting, AvoidEdge: notXEdges,
		TargetBlock: func(b *cfg.Block) bool { return b == head }}.Find()
	if found {
		return false, "an element can pass (next iteration or acceptance) without the condition having been tested false: " + f.DescribePath(path)
	}
	return true, ""
}
