package rules

import (
	"go/ast"
	"go/types"

	"lachk/core"
)

// The overlay loop of flush (C22.flush), wherever it lives.
//
// flush hands every overlay entry to a batch in a loop driven by an iterator of the overlay tree. The
// loop may stand in flush itself or in a function flush calls — a method of the same store, or a plain
// function that receives the tree (and the batch) as parameters. The loop is recognised by what it
// iterates: the Next() calls of an iterator made by Iterator() of the overlay tree field, or of a
// parameter that is bound to that field at the call in flush.

type c22FlushLoop struct {
	Host    *core.FuncInfo // function containing the loop
	Loop    *ast.ForStmt
	Call    *core.CallSite // the call in flush that runs the loop (nil when Host is flush itself)
	Overlay bool           // the loop advances an iterator of the overlay tree with Next()
}

// c22OverlayLoops lists the for loops of g whose condition is Next() of an iterator of a tree accepted
// by isTree.
func c22OverlayLoops(g *core.FuncInfo, isTree func(ast.Expr) bool) []*ast.ForStmt {
	var out []*ast.ForStmt
	g.InspectOwn(func(n ast.Node) bool {
		fs, ok := n.(*ast.ForStmt)
		if !ok || fs.Cond == nil {
			return true
		}
		next := isCallTo(g, fs.Cond, rbtP+"Iterator.Next")
		if next == nil {
			return true
		}
		sel, ok := ast.Unparen(next.Fun).(*ast.SelectorExpr)
		if !ok {
			return true
		}
		// the iterator is held by value and advanced through its address: it.Next() on a local
		// whose single definition is tree.Iterator()
		mk := isCallTo(g, sel.X, rbtP+"Tree.Iterator")
		if mk == nil {
			return true
		}
		if msel, ok := ast.Unparen(mk.Fun).(*ast.SelectorExpr); ok && isTree(msel.X) {
			out = append(out, fs)
		}
		return true
	})
	return out
}

// c22FindFlushLoop locates the overlay loop of f: in f, else in a module function f calls (on the same
// store, or with the overlay tree as an argument). When no such loop exists, the first for loop of f is
// returned with Overlay == false (so that the defect is reported at it); nil when f has no loop at all.
func c22FindFlushLoop(f *core.FuncInfo) *c22FlushLoop {
	modF := flRead + ".modified"
	fieldTree := func(g *core.FuncInfo) func(ast.Expr) bool {
		return func(e ast.Expr) bool { return fieldNameOf(g, resolveLocal(g, e)) == modF }
	}
	if ls := c22OverlayLoops(f, fieldTree(f)); len(ls) > 0 {
		return &c22FlushLoop{Host: f, Loop: ls[0], Overlay: true}
	}
	for _, cs := range f.Calls() {
		if cs.InGo || cs.InDefer {
			continue
		}
		g := c22Callee(cs)
		if g == nil {
			continue
		}
		treeParam := map[*types.Var]bool{}
		for pv, arg := range c22ParamArgs(cs, g) {
			if fieldTree(f)(arg) && len(assignsToVar(g, pv)) == 0 {
				treeParam[pv] = true
			}
		}
		same := g.RecvTypeName() != "" && c22SameObject(f, cs, g)
		isTree := func(e ast.Expr) bool {
			if same && fieldTree(g)(e) {
				return true
			}
			v := varOf(g, resolveLocal(g, e))
			return v != nil && (treeParam[v] || treeParam[canonVar(g, v)])
		}
		if ls := c22OverlayLoops(g, isTree); len(ls) > 0 {
			return &c22FlushLoop{Host: g, Loop: ls[0], Call: cs, Overlay: true}
		}
	}
	var first *ast.ForStmt
	f.InspectOwn(func(n ast.Node) bool {
		if fs, ok := n.(*ast.ForStmt); ok && first == nil {
			first = fs
		}
		return true
	})
	if first == nil {
		return nil
	}
	return &c22FlushLoop{Host: f, Loop: first}
}

// After: is the point pt of flush reached only after the overlay loop ran to its end? In flush itself
// that is dominance by the loop's exit block; for a loop in a callee it is "after the call returned
// without error" (the callee's succeeding returns are checked to lie behind the loop's exit by the caller
// of this method).
func (fl *c22FlushLoop) After(f *core.FuncInfo, pt core.Point) bool {
	if fl.Call == nil {
		done, _ := loopDone(f, fl.Loop)
		if done == nil {
			return false
		}
		ok, _ := mustPassBlockBefore(f, done, pt)
		return ok
	}
	if c25ReturnsError(fl.Host) {
		return afterSuccess(f, fl.Call, pt)
	}
	ok, _ := f.MustPassBefore([]core.Point{fl.Call.Pt}, pt)
	return ok
}
