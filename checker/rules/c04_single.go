package rules

import (
	"go/ast"
	"go/token"
	"go/types"

	"lachk/core"
)

// c04Single (clause C04.single): one function produces both the frame assigned by Build and the frame
// compared with the claimed one, and its only quorum test is the forkless-cause quorum over the roots of
// the frame. The functions are located by c04Locate; the search function may return (self-parent frame,
// frame) or the frame alone, and may take its mode as a boolean or get start and bound from the callers.
func c04Single(c *core.Ctx) {
	p := c.P
	an := c04Locate(c)
	for _, pr := range an.problems {
		c.Need(false, pr)
	}
	calc, fq := an.search, an.quorum
	c.Need(an.build != nil, "a function of abft hands the result of the frame search to SetFrame")
	c.Need(an.check != nil, "a function of abft compares the result of the frame search with the claimed frame")
	build, chk := an.build.f, an.check.f
	frameRes := an.nres - 1
	c.Need(an.nres == 1 || an.nres == 2, short(calc.Name)+" returns the frame (optionally preceded by the self-parent's frame)")
	// resultVar: the variable that receives the frame result of the search call in the statement that makes it
	isSearchDef := func(f *core.FuncInfo, a assignment, cl *c04Caller, v *types.Var) bool {
		if a.RHS == nil || ast.Unparen(a.RHS) != ast.Expr(cl.cs.Call) {
			return false
		}
		switch st := a.Stmt.(type) {
		case *ast.AssignStmt:
			if an.nres == 1 {
				return len(st.Lhs) == len(st.Rhs)
			}
			return len(st.Rhs) == 1 && len(st.Lhs) == an.nres && varOf(f, st.Lhs[frameRes]) == v && ast.Unparen(a.LHS) == ast.Unparen(st.Lhs[frameRes])
		case *ast.ValueSpec:
			if an.nres == 1 {
				return len(st.Names) == len(st.Values)
			}
			return len(st.Values) == 1 && len(st.Names) == an.nres && f.Info().Defs[st.Names[frameRes]] == types.Object(v)
		}
		return false
	}
	modeArgOK := func(cl *c04Caller, want bool) bool {
		if an.modeP == nil {
			return true
		}
		return an.modeIdx < len(cl.cs.Call.Args) && c04ConstBool(cl.f, cl.cs.Call.Args[an.modeIdx], want)
	}

	// Build: SetFrame(value from the search, build mode)
	sf := build.CallsMatching(func(cs *core.CallSite) bool { return methodNamed(cs.Name, "SetFrame") })
	c.Need(len(sf) == 1 && len(sf[0].Call.Args) == 1, "Orderer.Build sets the frame once")
	okB, whyB := false, "Build's frame does not come from calcFrameIdx"
	if arg := ast.Unparen(sf[0].Call.Args[0]); arg == ast.Expr(an.build.cs.Call) && an.nres == 1 {
		okB = true
	} else if fv := varOf(build, arg); fv != nil {
		okB = true
		uses := []core.Point{sf[0].Pt}
		if ok, _, _, wit := c04LastDefX(build, fv, uses, c04NoEdge, func(a assignment) bool { return isSearchDef(build, a, an.build, fv) }, false, true); !ok {
			okB, whyB = false, "the frame set by Build is not always the result of the frame search: "+wit
		}
	}
	if okB && (an.build.ev == nil || an.build.ev != canonVar(build, varOf(build, sf[0].Recv()))) {
		okB, whyB = false, "the frame is computed for another event than the one it is set on"
	}
	if okB && !modeArgOK(an.build, false) {
		okB, whyB = false, "Build does not run the frame search in build mode"
	}
	c.Check(okB, "Build assigns calcFrameIdx(e, build mode)", "T6 single producer", sf[0].Pos(), "the frame set by Build is the frame result of the frame search for the built event, in build mode", whyB)

	// processing: compares e.Frame() with the search result (check mode)
	var fi *types.Var
	for _, a := range assignments(chk) {
		if a.RHS != nil && ast.Unparen(a.RHS) == ast.Expr(an.check.cs.Call) {
			if v := varOf(chk, a.LHS); v != nil && isSearchDef(chk, a, an.check, v) {
				fi = v
			}
		}
	}
	c.Need(fi != nil && an.check.ev != nil, "checkAndSaveEvent computes the frame with calcFrameIdx(e, true)")
	c.Need(modeArgOK(an.check, true), "checkAndSaveEvent computes the frame with calcFrameIdx(e, true)")
	wrongFrame := func(ft core.Fact) bool {
		cm, k := core.NormCmp(ft)
		if !k || cm.R == nil || cm.Op != token.NEQ {
			return false
		}
		is := func(a, b ast.Expr) bool {
			call := c04MethodOn(chk, a, "Frame", an.check.ev)
			return call != nil && len(call.Args) == 0 && varOf(chk, b) == fi
		}
		return is(cm.L, cm.R) || is(cm.R, cm.L)
	}
	edges := edgesWithFact(chk, wrongFrame)
	okR, whyR := len(edges) >= 1, "an event with a wrong claimed frame can be accepted"
	for _, e := range edges {
		if o, _ := edgeLeadsOnlyTo(chk, e.B, e.Succ, func(r *ast.ReturnStmt) bool {
			// the value given for the function's error result (identified by its type: it may be the
			// first or the last result; a function returning only the error is the n == 1 case)
			x, known := c07ReturnedErr(chk, r)
			if !known {
				return false
			}
			v, ok := chk.ObjOf(ast.Unparen(x)).(*types.Var)
			return ok && p.ObjName(v) == "abft.ErrWrongFrame"
		}); !o {
			okR = false
		}
		// the compared value is the search result on every path
		use := core.Point{B: e.B, I: len(e.B.Nodes) - 1}
		if ok, _, _, wit := c04LastDefX(chk, fi, []core.Point{use}, c04NoEdge, func(a assignment) bool { return isSearchDef(chk, a, an.check, fi) }, false, true); !ok && okR {
			okR, whyR = false, "the frame compared with the claimed one is not always computed by the frame search for this event (a remembered or default value can be compared instead, so an event with a wrong claimed frame can be accepted): "+wit
		}
	}
	c.Check(okR, "claimed frame != computed frame => ErrWrongFrame", "T8 DecisionTable", chk.Pos(), "e.Frame() != frameIdx leads only to returning ErrWrongFrame, and frameIdx is the result of the frame search on every path", whyR)
	// the root is registered only when the frames agree
	for _, ar := range chk.CallsTo("abft.Store.AddRoot") {
		ok, wit := chk.GuardedBy(ar.Pt, func(ft core.Fact) bool { return wrongFrame(core.Fact{Expr: ft.Expr, Truth: !ft.Truth}) })
		c.Check(ok, "root registered only after the frame check", "T4 GuardedBy", ar.Pos(), "AddRoot is reached only on the claimed == computed edge", "a root can be registered for an event that is then rejected: "+chk.DescribePath(wit))
	}
	c.ExpectAtLeast("AddRoot sites", len(chk.CallsTo("abft.Store.AddRoot")), 1)
	// the search function's only quorum test
	nq := 0
	for _, cs := range calc.Calls() {
		if cs.Callee == types.Object(fq.Obj) {
			nq++
		}
	}
	c.Check(nq == 1, "one quorum test", "T6 WhoMayCall", calc.Pos(), "calcFrameIdx decides each step with forklessCausedByQuorumOn", "calcFrameIdx does not use exactly one forklessCausedByQuorumOn test")
	for _, cl := range an.callers {
		if cl != an.build && cl != an.check {
			c.Fail("calcFrameIdx called in "+short(cl.f.Name), "T6 WhoMayCall", cl.cs.Pos(), "a second consumer of the frame computation")
		}
	}
	// quorum function: asks ForklessCause(event, root) for the roots; the statement may sit in a helper or
	// in a callback the function binds (inlined view, operands read back through the bindings)
	okQ := false
	for _, s := range c05Sites(fq, 3, c04InAbft, c04IsForklessCause) {
		afr, ax := s.Arg(0)
		if !c05MethodOnRootVar(afr, ax, "ID", fq.Param(0)) {
			continue
		}
		rfr, rx := s.Arg(1)
		_, pth := fieldPath(rfr.F, rx)
		if len(pth) >= 1 && pth[len(pth)-1] == "abft/election.RootAndSlot.ID" {
			okQ = true
		}
	}
	c.Check(okQ, "quorum test asks ForklessCause(event, root)", "provenance", fq.Pos(), "ForklessCause(e.ID(), root.ID) over GetFrameRoots(f)", "the quorum test does not ask whether the event is forkless-caused by the frame's roots")
	// every result is the counter's HasQuorum(): returned directly (or through a local or a helper whose
	// results are of this kind), or the constant true on a path that has just seen HasQuorum() true
	// (counting only adds weight, so it stays true)
	posRet, whyRet := fq.Pos(), "the result is not the counter's quorum test"
	nDirect := 0
	var retsOK func(g *core.FuncInfo, depth int) bool
	retsOK = func(g *core.FuncInfo, depth int) bool {
		isHasQ := func(x ast.Expr) bool {
			return isCallTo(g, resolveLocal(g, x), "inter/pos.WeightCounter.HasQuorum") != nil
		}
		sawQuorum := func(ft core.Fact) bool {
			cm, k := core.NormCmp(ft)
			return k && cm.R == nil && cm.Op == token.EQL && isHasQ(cm.L)
		}
		rets := g.ReturnPoints()
		if len(rets) == 0 {
			return false
		}
		for _, rp := range rets {
			r, _ := rp.Node().(*ast.ReturnStmt)
			if r == nil || len(r.Results) != 1 {
				posRet = posOf(rp)
				return false
			}
			if isHasQ(r.Results[0]) {
				nDirect++
				continue
			}
			if c04ConstBool(g, r.Results[0], true) {
				ok, wit := g.GuardedBy(rp, sawQuorum)
				if ok {
					continue
				}
				posRet, whyRet = r.Pos(), "true is returned on a path that has not seen HasQuorum() true: "+g.DescribePath(wit)
				return false
			}
			if call, isCall := resolveLocal(g, r.Results[0]).(*ast.CallExpr); isCall && depth > 0 {
				if cs := c05CallSiteOf(g, call); cs != nil {
					if hh := c05Callee(cs); hh != nil && hh != g && retsOK(hh, depth-1) {
						continue
					}
				}
			}
			if posRet == fq.Pos() {
				posRet = r.Pos()
			}
			return false
		}
		return true
	}
	okRet := retsOK(fq, 2)
	c.Check(okRet && nDirect >= 1, "quorum test returns HasQuorum()", "provenance", posRet, "every result is the weight counter's HasQuorum() (or true right after it was seen true)", whyRet)
}
