package rules

import (
	"go/ast"
	"go/types"

	"lachk/core"
)

// The order of a session's responses on the wire rests on one mechanism: every response of a session is
// queued on the same FIFO task queue, and that queue is drained by one goroutine. C17.sender decides
// the three structural facts this needs: (1) the queue a response is handed to is selected by the
// sender index stored in the session's state and by nothing else; (2) that index is written only while
// the session is being created (on the not-found edge of the session lookup), so it is the same for
// every request of the session; (3) every sender pool of the seeder is started with exactly one worker.

// c17SessionLookup finds the comma-ok lookup of the requested session in the request handler: the frame
// it is in, the found-flag and the point of the lookup.
func c17SessionLookup(c *core.Ctx, sc *c17Scope, sessionsF string) (lf *c17Frame, okVar *types.Var, lookupPt core.Point) {
	for _, fr := range sc.Frames {
		for _, a := range fr.Assignments() {
			as, isAs := a.Stmt.(*ast.AssignStmt)
			if !isAs || len(as.Lhs) != 2 || len(as.Rhs) != 1 || !c17IndexOfField(fr.F, as.Rhs[0], sessionsF) {
				continue
			}
			lf, okVar, lookupPt = fr, varOf(fr.F, as.Lhs[1]), a.Pt
		}
	}
	c.Need(lf != nil && okVar != nil, "comma-ok lookup of the requested session in the request handler")
	c.Need(len(assignsToVar(lf.F, okVar)) == 1 && lf.In(okVar.Pos()), "the found-flag of the lookup is a variable of the handler defined by the lookup only")
	return lf, okVar, lookupPt
}

// c17NotFound builds the matcher "the found-flag of the lookup is false".
func c17NotFound(okVar *types.Var) func(*core.FuncInfo) func(core.Fact) bool {
	return func(g *core.FuncInfo) func(core.Fact) bool {
		return func(ft core.Fact) bool {
			e, truth, ok := c17BoolFact(g.Info(), ft)
			return ok && !truth && varOf(g, e) == okVar
		}
	}
}

// c17ValueIs decides that the expression e, read in frame fr, denotes a value accepted by pred:
// conversions and single-definition locals are looked through; a parameter of a helper frame that is
// never reassigned stands for the argument passed at every call site through which the frame is entered
// (bounded depth). pred gets the resolved expression and the frame whose function it belongs to.
func (sc *c17Scope) c17ValueIs(fr *c17Frame, e ast.Expr, pred func(*c17Frame, ast.Expr) bool, depth int) bool {
	f := fr.F
	e = c17Through(f)(core.StripConv(f.Info(), e))
	e = core.StripConv(f.Info(), e)
	if pred(fr, e) {
		return true
	}
	v := varOf(f, e)
	i := c18ParamIndex(f, v)
	if i < 0 || depth <= 0 || fr.Root || len(fr.Callers) == 0 || len(assignsToVar(f, v)) > 0 {
		return false
	}
	for _, l := range allLits(f) {
		if len(assignsToVar(l, v)) > 0 {
			return false
		}
	}
	for _, cl := range fr.Callers {
		if cl.Detached || i >= len(cl.Site.Call.Args) || cl.Site.Call.Ellipsis.IsValid() {
			return false
		}
		if !sc.c17ValueIs(cl.Parent, cl.Site.Call.Args[i], pred, depth-1) {
			return false
		}
	}
	return true
}

func c17SenderClause(c *core.Ctx, sessionsF string, sends func(*c17Frame) []core.Point) {
	const sendersF = seedT + ".senders"
	const senderIF = seedP + "sessionState.senderI"
	const startN = "utils/workers.Workers.Start"
	const seedPkg = "gossip/basestream/basestreamseeder"

	c.Clause("C17.sender", func() {
		sc := c17RequestScope(c)
		isSenderI := func(fr *c17Frame, e ast.Expr) bool { return fieldNameOf(fr.F, e) == senderIF }
		isSenderQueue := func(fr *c17Frame, e ast.Expr) bool {
			ix, ok := ast.Unparen(e).(*ast.IndexExpr)
			if !ok {
				return false
			}
			isPool := func(g *c17Frame, x ast.Expr) bool { return fieldNameOf(g.F, x) == sendersF }
			return sc.c17ValueIs(fr, ix.X, isPool, 3) && sc.c17ValueIs(fr, ix.Index, isSenderI, 3)
		}
		// (1) the queue of every response is senders[session.senderI]
		nSends := 0
		for _, fr := range sc.Frames {
			for _, cs := range fr.Calls() {
				if !core.PointSet(sends(fr)...)(cs.Pt) {
					continue
				}
				nSends++
				sel, ok := ast.Unparen(cs.Call.Fun).(*ast.SelectorExpr)
				c.Check(ok && sc.c17ValueIs(fr, sel.X, isSenderQueue, 3), "readerLoop|a session's responses go to the session's own sender", "provenance", cs.Pos(),
					"the task queue a response is handed to is senders[i] with i read from the session's stored sender index (through locals defined once, or helper parameters bound to it at every call)",
					"the sender a response is queued on is not determined by the session's stored sender index alone: two responses of one session can be handed to different sender goroutines and reach the peer out of order (or after the response marked done)")
			}
		}
		c.ExpectAtLeast("response enqueue sites", nSends, 1)

		// (2) the stored sender index is assigned only while the session is created
		lf, okVar, lookupPt := c17SessionLookup(c, sc, sessionsF)
		notFound := c17NotFound(okVar)
		inScope := map[core.Point]bool{}
		nSets := 0
		for _, fr := range sc.Frames {
			lo, hi := fr.Range()
			for _, st := range c17FieldSets(fr.F, senderIF, lo, hi) {
				if !fr.In(st.Pos) {
					continue
				}
				inScope[st.Pt] = true
				nSets++
				ok, why := sc.Guarded(fr, st.Pt, notFound, false)
				after := fr != lf || fr.reaches(lookupPt, st.Pt)
				c.Check(ok && after, "readerLoop|sender index is fixed when the session is created", "T4 GuardedBy", st.Pos,
					"the session's sender index is assigned only on the edge where the requested session was not found",
					"the sender index of an existing session can change between its responses (earlier responses still wait in the old sender's queue): "+why)
			}
		}
		c.ExpectAtLeast("assignments of the session's sender index", nSets, 1)
		var all []*core.FuncInfo
		for _, g := range c.P.FuncsInPkg(seedPkg) {
			all = append(all, g)
			all = append(all, allLits(g)...)
		}
		for _, g := range all {
			if g.Body == nil {
				continue
			}
			for _, st := range c17FieldSets(g, senderIF, g.Body.Pos(), g.Body.End()) {
				if inScope[st.Pt] {
					continue
				}
				c.Check(false, "readerLoop|sender index is fixed when the session is created", "T4 GuardedBy", st.Pos, "",
					"the session's sender index is assigned in "+short(g.Name)+", outside the creation of the session in the request handler")
			}
		}

		// (3) one worker per sender queue
		nStarts := 0
		for _, g := range all {
			for _, cs := range g.CallsTo(startN) {
				nStarts++
				c.Check(len(cs.Call.Args) == 1 && core.IsConstInt(g.Info(), cs.Call.Args[0], 1), "sender queues are drained by one goroutine each", "provenance", cs.Pos(),
					"every sender pool of the seeder is started with the constant worker count 1", "a sender queue can be drained by several goroutines: responses queued in order are sent concurrently")
			}
		}
		c.ExpectAtLeast("sender pool starts", nStarts, 1)
	})
}
