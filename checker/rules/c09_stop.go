package rules

import (
	"go/ast"
	"go/constant"
	"go/types"

	"golang.org/x/tools/go/cfg"

	"lachk/core"
)

// ---------------------------------------------------------------------------
// C09.stop: once a call reports "sealed", nothing of the old epoch's election runs any more.
//
// The clause is decided over the call structure rather than over two named functions: a function
// *reports sealing* when its first result is a boolean and it calls onFrameDecided or another reporting
// function (onFrameDecided itself is the base case, decided by C09.seal). Every function that calls a
// reporting function (a *driver*: handleElection, bootstrapElection, a helper extracted from either,
// Bootstrap) owes: the flag of each such call is looked at before any further election work in that
// function, the sealed edge reaches no further election work, and — when the driver itself reports
// sealing — the sealed edge returns true (or the flag is returned as it is / by a tail call).

// c09firstResultBool: is the function's first result a boolean?
func c09firstResultBool(g *core.FuncInfo) bool {
	if g == nil || g.Obj == nil {
		return false
	}
	sig, ok := g.Obj.Type().(*types.Signature)
	if !ok || sig.Results().Len() == 0 {
		return false
	}
	b, ok := sig.Results().At(0).Type().Underlying().(*types.Basic)
	return ok && b.Info()&types.IsBoolean != 0
}

func c09calleeInfo(cs *core.CallSite) *core.FuncInfo {
	if fn, ok := cs.Callee.(*types.Func); ok {
		return cs.F.P.FuncOf(fn)
	}
	return nil
}

// c09flagUse says how the boolean first result of the call is consumed in f: held in a variable
// (`v, err := call` / `v, err = call`), handed on by a tail call (`return call`), or dropped.
func c09flagUse(f *core.FuncInfo, call *ast.CallExpr) (v *types.Var, errVar *types.Var, tail bool) {
	f.InspectOwn(func(n ast.Node) bool {
		switch s := n.(type) {
		case *ast.AssignStmt:
			if len(s.Rhs) == 1 && ast.Unparen(s.Rhs[0]) == ast.Expr(call) && len(s.Lhs) >= 1 {
				v = varOfRaw(f, s.Lhs[0])
				if len(s.Lhs) >= 2 {
					errVar = varOfRaw(f, s.Lhs[len(s.Lhs)-1])
				}
			}
		case *ast.ValueSpec:
			if len(s.Values) == 1 && ast.Unparen(s.Values[0]) == ast.Expr(call) && len(s.Names) >= 1 {
				v, _ = f.Info().ObjectOf(s.Names[0]).(*types.Var)
				if len(s.Names) >= 2 {
					errVar, _ = f.Info().ObjectOf(s.Names[len(s.Names)-1]).(*types.Var)
				}
			}
		case *ast.ReturnStmt:
			if len(s.Results) == 1 && ast.Unparen(s.Results[0]) == ast.Expr(call) {
				tail = true
			}
		}
		return true
	})
	if v != nil && v.Name() == "_" {
		v = nil
	}
	return
}

func c09Stop(c *core.Ctx) {
	p := c.P
	base := c.Fn("abft.Orderer.onFrameDecided")
	c.Need(c09firstResultBool(base), "onFrameDecided's first result is the sealed flag")
	var all []*core.FuncInfo
	for _, g := range p.FuncsInPkg("abft") {
		all = append(all, g)
		all = append(all, allLits(g)...)
	}
	// the functions that report sealing
	reports := map[*core.FuncInfo]bool{base: true}
	for changed, round := true, 0; changed && round < 6; round++ {
		changed = false
		for _, g := range all {
			if reports[g] || !c09firstResultBool(g) {
				continue
			}
			for _, cs := range g.Calls() {
				if ci := c09calleeInfo(cs); ci != nil && reports[ci] {
					reports[g], changed = true, true
					break
				}
			}
		}
	}
	isWork := func(cs *core.CallSite) bool {
		if cs.Name == "abft/election.Election.ProcessRoot" || cs.Name == "abft.Orderer.processKnownRoots" {
			return true
		}
		ci := c09calleeInfo(cs)
		return ci != nil && reports[ci]
	}
	nContinuing, nTests := 0, 0
	for _, f := range all {
		if f == base {
			continue
		}
		var flagCalls []*core.CallSite
		for _, cs := range f.Calls() {
			if ci := c09calleeInfo(cs); ci != nil && reports[ci] && !cs.InGo && !cs.InDefer {
				flagCalls = append(flagCalls, cs)
			}
		}
		if len(flagCalls) == 0 {
			continue
		}
		name := short(f.Name)
		more := core.Points(f.CallsMatching(isWork))
		type use struct {
			cs     *core.CallSite
			v, ev  *types.Var
			tail   bool
			edges  []condEdge
			tests  []core.Point
			goesOn bool
		}
		var uses []use
		for _, cs := range flagCalls {
			u := use{cs: cs}
			u.v, u.ev, u.tail = c09flagUse(f, cs.Call)
			for _, m := range more {
				if f.CanReach(cs.Pt, m) {
					u.goesOn = true
				}
			}
			if u.v != nil {
				v := u.v
				// the flag is true on this edge: `if sealed`, `if sealed == true`, `switch { case sealed: }`, or
				// a boolean local computed from it
				u.edges = edgesWithFact(f, c09lift(f, c33boolFact(f, v, true)))
				for _, e := range u.edges {
					u.tests = append(u.tests, core.Point{B: e.B, I: len(e.B.Nodes) - 1})
				}
				// the false edge of the same test is a look at the flag as well
				for _, e := range edgesWithFact(f, c09lift(f, c33boolFact(f, v, false))) {
					u.tests = append(u.tests, core.Point{B: e.B, I: len(e.B.Nodes) - 1})
				}
			}
			uses = append(uses, u)
		}
		continuing := false
		for _, u := range uses {
			if !u.goesOn {
				continue
			}
			continuing = true
			c.Check(u.v != nil, name+"|sealed result of "+short(u.cs.Name)+" is captured", "provenance", u.cs.Pos(), "the sealed flag of "+short(u.cs.Name)+" is kept", "the sealed result of "+short(u.cs.Name)+" is discarded although the election continues in "+name)
		}
		if continuing {
			nContinuing++
		}
		seen := map[condEdge]bool{}
		// the variable whose value true the edge witnesses (nil when two different flags share the edge)
		flagOf := map[condEdge]*types.Var{}
		for _, u := range uses {
			for _, e := range u.edges {
				if w, has := flagOf[e]; has && w != u.v {
					flagOf[e] = nil
				} else {
					flagOf[e] = u.v
				}
			}
		}
		for _, u := range uses {
			for _, e := range u.edges {
				if seen[e] {
					continue
				}
				seen[e] = true
				nTests++
				start := blockEntry(e.B.Succs[e.Succ])
				found := c09reachesWhileTrue(f, start, flagOf[e], more)
				c.Check(!found, name+"|nothing of the old epoch after sealing", "T4 GuardedBy", posOf(core.Point{B: e.B, I: len(e.B.Nodes) - 1}), "from the sealed edge no further ProcessRoot / onFrameDecided / processKnownRoots is reachable in this call", "after the epoch was sealed the old epoch's election continues (a further block of the old epoch can be emitted)")
			}
		}
		for _, u := range uses {
			// from the call, before reaching any further election work, a sealed test is passed
			okT := true
			for _, m := range more {
				if f.CanReach(u.cs.Pt, m) {
					if o, _ := f.MustPassBetween(u.cs.Pt, u.tests, m); !o || len(u.tests) == 0 {
						okT = false
					}
				}
			}
			c.Check(okT, name+"|sealed flag of "+short(u.cs.Name)+" is tested before the election continues", "T2 Dominates", u.cs.Pos(), "every path to further election work passes the sealed test", "the election continues without looking at the sealed flag")
		}
		if !reports[f] {
			continue
		}
		// f reports sealing itself: a seal seen here is handed to the caller
		for _, u := range uses {
			if u.tail {
				c.Pass(name+"|reports sealing of "+short(u.cs.Name)+" to its caller", "T8", "the flag is returned by a tail call")
				continue
			}
			if u.v == nil {
				c.Fail(name+"|reports sealing of "+short(u.cs.Name)+" to its caller", "T8", u.cs.Pos(), name+" drops the sealed flag of "+short(u.cs.Name)+": a seal during re-processing is not reported, the caller goes on with the old epoch's election")
				continue
			}
			v := u.v
			isFlag := c09lift(f, c33boolFact(f, v, true))
			yieldsSealed := func(r *ast.ReturnStmt) bool {
				if len(r.Results) == 0 {
					return false
				}
				if cv, isC := core.ConstVal(f.Info(), r.Results[0]); isC && cv.Kind() == constant.Bool {
					return constant.BoolVal(cv)
				}
				return isFlag(core.Fact{Expr: r.Results[0], Truth: true})
			}
			okProp := true
			var wit []core.Point
			for _, e := range u.edges {
				if o, w := edgeLeadsOnlyTo(f, e.B, e.Succ, yieldsSealed); !o {
					okProp, wit = false, w
				}
			}
			// and no return is reached from the call without looking at the flag, unless the flag itself is
			// returned or an error is (callers stop on an error)
			var avoid []core.Point
			avoid = append(avoid, u.tests...)
			for _, rp := range f.ReturnPoints() {
				if r := rp.Node().(*ast.ReturnStmt); len(r.Results) > 0 && isFlag(core.Fact{Expr: r.Results[0], Truth: true}) {
					avoid = append(avoid, rp)
				}
			}
			var errEdge func(b *cfg.Block, s int) bool
			if u.ev != nil {
				errEdge = f.GuardEdges(varNilFact(f, u.ev, false))
			}
			w2, blind := core.PathQuery{F: f, From: u.cs.Pt, FromAfter: true, Avoid: core.PointSet(avoid...), AvoidEdge: errEdge, TargetExit: true}.Find()
			if blind {
				okProp, wit = false, w2
			}
			c.Check(okProp, name+"|reports sealing of "+short(u.cs.Name)+" to its caller", "T8", u.cs.Pos(), "the sealed edge returns (true, ·) and no successful return ignores the flag", "a seal during re-processing is not reported to the caller, which goes on with the old epoch's election; path "+f.DescribePath(wit))
		}
	}
	c.ExpectAtLeast("functions that continue the election after a seal-reporting call", nContinuing, 1)
	c.ExpectAtLeast("tests of a sealed flag", nTests, 1)
}

// c09reachesWhileTrue: can one of the target points be reached from `start`, given that the boolean
// variable v is true at `start`? As long as v has not been assigned again, an edge on which v is false
// cannot be taken (`if !sealed {…}; if sealed {return}` never falls through the second test when it
// skipped the first block); after an assignment to v anything goes. With v == nil, or when a nested
// literal writes v, the search is unrestricted.
func c09reachesWhileTrue(f *core.FuncInfo, start core.Point, v *types.Var, targets []core.Point) bool {
	isT := core.PointSet(targets...)
	if isT(start) {
		return true
	}
	free := v == nil
	if !free {
		for _, l := range allLits(f) {
			for _, a := range assignments(l) {
				if varOfRaw(l, a.LHS) == v {
					free = true
				}
			}
		}
	}
	if free {
		_, found := core.PathQuery{F: f, From: start, Target: isT}.Find()
		return found
	}
	falseEdges := f.GuardEdges(c09lift(f, c33boolFact(f, v, false)))
	var again []core.Point
	for _, a := range assignsToVar(f, v) {
		if !isT(a.Pt) {
			again = append(again, a.Pt)
		}
	}
	if _, found := (core.PathQuery{F: f, From: start, Target: isT, Avoid: core.PointSet(again...), AvoidEdge: falseEdges}).Find(); found {
		return true
	}
	for _, a := range again {
		if _, r := (core.PathQuery{F: f, From: start, Target: core.PointSet(a), AvoidEdge: falseEdges}).Find(); !r {
			continue
		}
		if _, found := (core.PathQuery{F: f, From: a, FromAfter: true, Target: isT}).Find(); found {
			return true
		}
	}
	return false
}
