package rules

import (
	"go/ast"
	"go/types"

	"lachk/core"
)

// c02Forwarding: the function literal does nothing but return the result of one static call of a module
// function (`func(e dag.Event) bool { return p.confirmIfNew(e, frame, cb) }`); returns the callee as a
// view whose parameters translate to the literal's (and the captured) variables.
func c02Forwarding(l *core.FuncInfo) (c01Effect, bool) {
	if l == nil || l.Body == nil || len(l.Body.List) != 1 {
		return c01Effect{}, false
	}
	ret, ok := l.Body.List[0].(*ast.ReturnStmt)
	if !ok || len(ret.Results) != 1 {
		return c01Effect{}, false
	}
	call, ok := ast.Unparen(ret.Results[0]).(*ast.CallExpr)
	if !ok {
		return c01Effect{}, false
	}
	cs := c01CallSiteOf(l, call)
	if cs == nil {
		return c01Effect{}, false
	}
	fn, ok := cs.Callee.(*types.Func)
	if !ok {
		return c01Effect{}, false
	}
	g := l.P.FuncOf(fn)
	if g == nil || g == l {
		return c01Effect{}, false
	}
	return c01Effect{Caller: l, At: cs, G: g, Eff: cs}, true
}

// c02MarkCodec: "not yet delivered" is encoded as mark == 0, so the stored mark must be an injective,
// full-width encoding of the block's frame: a truncated encoding maps some later frame to 0 and every
// event of that block is delivered again.
func c02MarkCodec(c *core.Ctx) {
	c.Clause("C02.markcodec", func() {
		set := c.Fn("abft.Store.SetEventConfirmedOn")
		get := c.Fn("abft.Store.GetEventConfirmedOn")
		tableF := "abft.Store.epochTable.ConfirmedEvent"
		onTable := func(cs *core.CallSite) bool { return c01RecvField(cs) == tableF }
		// x.<method>() on the given parameter, the method being exactly `callee` (locals looked through)
		encOf := func(f *core.FuncInfo, e ast.Expr, callee string, of *types.Var) bool {
			call, ok := c01ValueOf(f, e).(*ast.CallExpr)
			if !ok || calleeName(f, call) != callee || of == nil {
				return false
			}
			sel, ok := ast.Unparen(call.Fun).(*ast.SelectorExpr)
			return ok && canonVar(f, varOf(f, sel.X)) == of
		}
		puts := set.CallsTo(kvPut)
		okW := len(puts) == 1 && onTable(puts[0]) && len(puts[0].Call.Args) == 2 && encOf(set, puts[0].Call.Args[1], "inter/idx.Frame.Bytes", set.Param(1))
		c.Check(okW, "mark is written as the full-width encoding of the frame", "T14 CodecPair", set.Pos(), "ConfirmedEvent.Put(key, on.Bytes())", "the confirmed mark is not the frame's fixed-width encoding: a truncated encoding stores 0 for some frame and its events look undelivered")
		gets := get.CallsTo(kvGet)
		okR := len(gets) == 1 && onTable(gets[0])
		var buf *types.Var
		if okR {
			buf = c01ResultVar(get, gets[0].Call, 0)
		}
		okDec := false
		nonZeroRet := 0
		for _, rp := range get.ReturnPoints() {
			r := rp.Node().(*ast.ReturnStmt)
			if len(r.Results) != 1 || core.IsConstInt(get.Info(), r.Results[0], 0) {
				continue
			}
			nonZeroRet++
			if call := isCallTo(get, r.Results[0], "inter/idx.BytesToFrame"); call != nil && len(call.Args) == 1 && buf != nil && canonVar(get, varOf(get, call.Args[0])) == buf {
				okDec = true
			}
		}
		c.Check(okR && okDec && nonZeroRet == 1, "mark is read with the matching decoder", "T14 CodecPair", get.Pos(), "idx.BytesToFrame(ConfirmedEvent.Get(key))", "the confirmed mark is not decoded with the inverse of Frame.Bytes()")
		// absent => 0 and only absent => constant 0. "Absent" is buf == nil; since the writer stores the
		// fixed-width (never empty) encoding, len(buf) == 0 says the same.
		absent := func(ft core.Fact) bool {
			if varNilFact(get, buf, true)(ft) {
				return true
			}
			if !okW || buf == nil {
				return false
			}
			lc, k := core.NormLinCmp(get.Info(), ft, func(e ast.Expr) string {
				if call := isCallTo(get, e, "builtin.len"); call != nil && len(call.Args) == 1 && canonVar(get, varOf(get, call.Args[0])) == buf {
					return "len"
				}
				return ""
			})
			return k && (lc.Equal(core.ParseLinCmp("len == 0")) || lc.Equal(core.ParseLinCmp("len <= 0")))
		}
		okAbs := false
		for _, rp := range get.ReturnPoints() {
			r := rp.Node().(*ast.ReturnStmt)
			if len(r.Results) == 1 && core.IsConstInt(get.Info(), r.Results[0], 0) {
				if g, _ := get.GuardedBy(rp, absent); g {
					okAbs = true
				} else {
					okAbs = false
					break
				}
			}
		}
		c.Check(okAbs, "0 is returned exactly for an absent mark", "T8", get.Pos(), "'return 0' only on the edge where no record was found", "an existing mark can be reported as 0 (not delivered)")
		// same key on both sides: the event id's bytes
		keyOf := func(f *core.FuncInfo, cs *core.CallSite) bool {
			return len(cs.Call.Args) >= 1 && f.Param(0) != nil && c01MethodOn(f, cs.Call.Args[0], "Bytes") == f.Param(0)
		}
		c.Check(len(puts) == 1 && len(gets) == 1 && keyOf(set, puts[0]) && keyOf(get, gets[0]), "mark is keyed by the event id on both sides", "T14 CodecPair", set.Pos(), "key = e.Bytes()", "writer and reader of the confirmed mark use different keys")
	})
}

// c02RootsPersisted: a root that moves up several frames occupies one slot per frame, and the election
// of a restarted node is rebuilt from the roots table alone (Bootstrap -> processKnownRoots ->
// GetFrameRoots). Every slot that the live election saw must therefore be in the table: a slot that
// exists only in memory makes the rebuilt election count other votes, so it can decide a frame the live
// one had not decided — inside Bootstrap, before the application's callbacks are installed — and that
// block never reaches the application: block frames are no longer consecutive and every later block
// carries the swallowed block's events. Decided on Store.AddRoot: each iteration of the slot loop
// writes the roots-table record of its own slot (directly or in a helper that always does).
func c02RootsPersisted(c *core.Ctx) {
	c.Clause("C02.roots", func() {
		reg := c01AnalyseRegistration(c)
		ar := reg.ar
		const key = "every frame slot of a root is persisted in the roots table"
		const rule = "T3 PostDominates (per iteration) + provenance"
		const bad = "a restarted node rebuilds the election from the roots table; without the record of every slot it votes differently from the live election and can decide a frame during Bootstrap, before the block callbacks exist: that block is never delivered and the following blocks are shifted by one frame"
		if len(reg.puts) == 0 {
			c.Fail(key, rule, ar.Pos(), "AddRoot does not write the roots table (directly or through one helper): "+bad)
			return
		}
		if reg.loop == nil {
			c.Undecided(key, rule, reg.loopPos, "AddRoot does not register the slots in a counted loop over the root's frames ("+reg.loopWhy+")")
			return
		}
		okIter, wit := c01EveryIteration(ar, reg.loop.Head, reg.loop.Done, reg.putMust)
		if !okIter {
			c.Fail(key, rule, reg.loopPos, "an iteration of the slot loop in AddRoot can finish without writing the roots table ("+ar.DescribePath(wit)+"), the table is written for fewer slots than the cache and the live election see: "+bad)
			return
		}
		ok := true
		for _, e := range reg.puts {
			rec := c01PutRecord(e)
			if !(rec.ok && rec.id == reg.root && rec.validator == reg.root) {
				ok = false
				continue
			}
			fl := core.Linearize(ar.Info(), resolveLocal(ar, rec.frame), c01SlotNamer(ar, reg.loop, reg.spf, reg.root))
			if !(len(fl.Coef) == 1 && coefIs(fl, "f", 1)) {
				ok = false
			}
		}
		c.Check(ok, key, rule, reg.loopPos, "every iteration of AddRoot's slot loop writes the record (iteration's frame, root.Creator(), root.ID()) to the roots table", "the record written per slot is not keyed by the iteration's frame and the root's creator and id: "+bad)
	})
}
