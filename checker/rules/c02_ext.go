package rules

import (
	"fmt"
	"go/ast"
	"go/token"
	"go/types"
	"sort"
	"strings"

	"lachk/core"
)

var _ = fmt.Sprint
var _ ast.Node
var _ token.Pos
var _ types.Object
var _ = sort.Strings
var _ = strings.TrimSpace

// c02MarkCodec: "not yet delivered" is encoded as mark == 0, so the stored mark must be an injective,
// full-width encoding of the block's frame: a truncated encoding maps some later frame to 0 and every
// event of that block is delivered again.
func c02MarkCodec(c *core.Ctx) {
	c.Clause("C02.markcodec", func() {
		set := c.Fn("abft.Store.SetEventConfirmedOn")
		get := c.Fn("abft.Store.GetEventConfirmedOn")
		tableF := "abft.Store.epochTable.ConfirmedEvent"
		puts := set.CallsTo(kvPut)
		okW := len(puts) == 1
		if okW {
			_, pth := fieldPath(set, puts[0].Recv())
			okW = len(pth) >= 1 && pth[len(pth)-1] == tableF
			call, isC := ast.Unparen(puts[0].Call.Args[1]).(*ast.CallExpr)
			okW = okW && isC && calleeName(set, call) == "inter/idx.Frame.Bytes"
			if okW {
				sel, k := call.Fun.(*ast.SelectorExpr)
				okW = k && varOf(set, sel.X) == set.Param(1)
			}
		}
		c.Check(okW, "mark is written as the full-width encoding of the frame", "T14 CodecPair", set.Pos(), "ConfirmedEvent.Put(key, on.Bytes())", "the confirmed mark is not the frame's fixed-width encoding: a truncated encoding stores 0 for some frame and its events look undelivered")
		gets := get.CallsTo(kvGet)
		okR := len(gets) == 1
		var buf *types.Var
		if okR {
			_, pth := fieldPath(get, gets[0].Recv())
			okR = len(pth) >= 1 && pth[len(pth)-1] == tableF
			get.InspectOwn(func(n ast.Node) bool {
				if as, ok := n.(*ast.AssignStmt); ok && len(as.Rhs) == 1 && ast.Unparen(as.Rhs[0]) == ast.Expr(gets[0].Call) {
					buf = varOf(get, as.Lhs[0])
				}
				return true
			})
		}
		okDec := false
		nonZeroRet := 0
		for _, rp := range get.ReturnPoints() {
			r := rp.Node().(*ast.ReturnStmt)
			if len(r.Results) != 1 || core.IsConstInt(get.Info(), r.Results[0], 0) {
				continue
			}
			nonZeroRet++
			if call := isCallTo(get, r.Results[0], "inter/idx.BytesToFrame"); call != nil && varOf(get, call.Args[0]) == buf && buf != nil {
				okDec = true
			}
		}
		c.Check(okR && okDec && nonZeroRet == 1, "mark is read with the matching decoder", "T14 CodecPair", get.Pos(), "idx.BytesToFrame(ConfirmedEvent.Get(key))", "the confirmed mark is not decoded with the inverse of Frame.Bytes()")
		// absent => 0 and only absent => constant 0
		okAbs := false
		for _, rp := range get.ReturnPoints() {
			r := rp.Node().(*ast.ReturnStmt)
			if len(r.Results) == 1 && core.IsConstInt(get.Info(), r.Results[0], 0) {
				if g, _ := get.GuardedBy(rp, varNilFact(get, buf, true)); g {
					okAbs = true
				} else {
					okAbs = false
					break
				}
			}
		}
		c.Check(okAbs, "0 is returned exactly for an absent mark", "T8", get.Pos(), "'return 0' only on the buf == nil edge", "an existing mark can be reported as 0 (not delivered)")
		// same key on both sides
		keyOf := func(f *core.FuncInfo, cs *core.CallSite) bool {
			v := varOf(f, cs.Call.Args[0])
			if v == nil {
				return false
			}
			for _, a := range assignsToVar(f, v) {
				if call, ok := ast.Unparen(a.RHS).(*ast.CallExpr); ok && a.RHS != nil && methodNamed(calleeName(f, call), "Bytes") {
					if sel, k := call.Fun.(*ast.SelectorExpr); k && varOf(f, sel.X) == f.Param(0) {
						return true
					}
				}
			}
			return false
		}
		c.Check(len(puts) == 1 && len(gets) == 1 && keyOf(set, puts[0]) && keyOf(get, gets[0]), "mark is keyed by the event id on both sides", "T14 CodecPair", set.Pos(), "key = e.Bytes()", "writer and reader of the confirmed mark use different keys")
	})
}
