package rules

// Positive controls added with the clauses of the second campaign (see controls.go for the conventions).
// This file is initialised after controls.go and controls2.go (file-name order), so it appends.
func init() {
	Controls["C08"] = append(Controls["C08"],
		Control{"election reset before the new epoch state is persisted", "abft/bootstrap.go", `(\tp\.store\.applyGenesis\(epoch, validators\)\n)(.*?)\tp\.election\.Reset\(validators, FirstFrame\)\n`, "\tp.election.Reset(p.store.GetValidators(), FirstFrame)\n$1$2", "C08.election"})
	Controls["C10"] = append(Controls["C10"],
		Control{"frame search starts one above the self-parent", "abft/event_processing.go", `for f = selfParentFrame;`, "for f = selfParentFrame + 1;", "C10.frame"})
	Controls["C15"] = append(Controls["C15"],
		Control{"ordered drain starts at the received position", "gossip/dagprocessor/processor.go", `for i := processed;`, "for i := int(res.pos);", "C15.order"})
	Controls["C23"] = append(Controls["C23"],
		Control{"flush skips the final write", "kvdb/flushable/flushable.go", `return batch\.Write\(\)`, "if batch.ValueSize() == 0 { return nil }; return batch.Write()", "C23.flushable.flush"},
		Control{"snapshot drops tombstones", "kvdb/flushable/flushable.go", `modifiedCopy\.Put\(it\.Key\(\), it\.Value\(\)\)`, "if it.Value() != nil { modifiedCopy.Put(it.Key(), it.Value()) }", "C23.flushable.snapshot"})
	Controls["C10"] = append(Controls["C10"],
		Control{"cached root list updated for the top frame only", "abft/store_roots.go", `s\.cache\.FrameRoots\.Get\(frame\); ok \{`, "s.cache.FrameRoots.Get(frame); ok && frame == root.Frame() {", "C10.slots"})
	Controls["C20"] = append(Controls["C20"],
		Control{"median taken over an ascending order", "emitter/ancestor/quorum_indexer.go", `return a\.seq > b\.seq`, "return a.seq < b.seq", "C20.median"})
	Controls["C21"] = append(Controls["C21"],
		Control{"age computed in wrapping nanosecond arithmetic", "emitter/doublesign/synced_heuristic.go", `return s\.Now\.Sub\(t\)`, "return time.Duration(s.Now.UnixNano() - t.UnixNano())", "C21.since"})
	Controls["C23"] = append(Controls["C23"],
		Control{"batch value cloned with append (nil for empty)", "kvdb/flushable/flushable.go", `common\.CopyBytes\(value\)\}\)`, "append([]byte(nil), value...)})", "C23.flushable.presence"},
		Control{"snapshot copies tombstones as typed nil", "kvdb/flushable/flushable.go", `modifiedCopy\.Put\(it\.Key\(\), it\.Value\(\)\)`, "v, _ := it.Value().([]byte); modifiedCopy.Put(it.Key(), common.CopyBytes(v))", "C23.flushable.presence"})
	Controls["C05"] = append(Controls["C05"],
		Control{"branch table written back only once a fork exists", "vecengine/index.go", `(func \(vi \*Engine\) Flush\(\) \{\n\t)if vi\.bi != nil \{`, "${1}if vi.bi != nil && vi.AtLeastOneFork() {", "written back before"})
	Controls["C07"] = append(Controls["C07"],
		Control{"temporary-ID counter restarted on epoch load", "abft/indexed_lachesis.go", `p\.dagIndexer\.Reset\(p\.store\.GetValidators\(\), p\.store\.epochTable\.VectorIndex, p\.input\.GetEvent\)`, "p.uniqueDirtyID = uniqueID{new(big.Int)}", "never restarted"})
	Controls["C17"] = append(Controls["C17"],
		Control{"response queued on a sender not fixed by the session", "gossip/basestream/basestreamseeder/seeder.go", `s\.senders\[session\.senderI\]\.Enqueue`, "s.senders[int(i)%len(s.senders)].Enqueue", "session's own sender"})
	Controls["C24"] = append(Controls["C24"],
		Control{"prefix increment loses the overflow exit", "kvdb/table/table.go", `\tif len\(endBn\.Bytes\(\)\) > len\(prefix\) \{\n\t\t// overflow\n\t\treturn nil\n\t\}\n`, "", "C24.inc"})
	Controls["C09"] = append(Controls["C09"],
		Control{"reset epoch starts with a decided frame", "abft/apply_genesis.go", `ds\.LastDecidedFrame = FirstFrame - 1`, "ds.LastDecidedFrame = FirstFrame", "C09.sibling"})
	// round 4
	Controls["C05"] = append(Controls["C05"],
		Control{"fork check looks up the observer's branch", "vecfc/forkless_cause.go", `vi\.Engine\.GetEventBranchID\(bID\)`, "vi.Engine.GetEventBranchID(aID)", "C05.bfork"})
	Controls["C15"] = append(Controls["C15"],
		Control{"far-future test through a signed 32-bit difference", "gossip/dagprocessor/processor.go", `event\.Lamport\(\) > highestLamport\+maxLamportDiff`, "int32(event.Lamport()-highestLamport) > int32(maxLamportDiff)", "C15.future"})
	Controls["C16"] = append(Controls["C16"],
		Control{"re-fetch requester taken from another announcement", "gossip/itemsfetcher/fetcher.go", `requestFns\[announce\.peer\] = announce\.fetchItems`, "requestFns[announce.peer] = oldest.fetchItems", "C16.peer"})
	Controls["C18"] = append(Controls["C18"],
		Control{"sweep result discarded", "gossip/basestream/basestreamleecher/basepeerleecher/session.go", `d\.processingChunks = d\.sweepProcessedChunks\(\)`, "d.sweepProcessedChunks()", "leave the processing list"})
	Controls["C23"] = append(Controls["C23"],
		Control{"snapshot shares the live overlay tree", "kvdb/flushable/flushable.go", `modifiedCopy := rbt\.NewWithStringComparator\(\)`, "modifiedCopy := w.modified", "C23.flushable.snapshot.own"})
	// round 8: a named condition is read through its definition (core/namedcond.go) — and a wrong one is still caught
	Controls["C30"] = append(Controls["C30"],
		Control{"admission test named and reduced to the count bound", "utils/datasemaphore/semaphore.go", `if tmp\.Num > s\.maxProcessing\.Num \|\| tmp\.Size > s\.maxProcessing\.Size \{`, "over := tmp.Num > s.maxProcessing.Num\n\tif over {", "commit guarded by Metric.Size<=max"})
	Controls["C33"] = append(Controls["C33"],
		Control{"over-weight Add keeps the stale entry", "utils/simplewlru/simplewlru.go", `(func \(c \*Cache\) Add\(key, value interface\{\}, weight uint\) \(evicted int\) \{\n)`, "${1}\tif weight > c.maxWeight {\n\t\treturn 0\n\t}\n", "C33.cache"})
}
