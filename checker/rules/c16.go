package rules

import (
	"go/ast"
	"go/token"
	"go/types"

	"golang.org/x/tools/go/cfg"

	"lachk/core"
)

const fetT = "gossip/itemsfetcher.Fetcher"

func init() {
	register("C16", "other", "T3 PostDominates with predicate refinement (timer invariant), provenance (requester/ids), T7 Pairing (forget)",
		"Decides the structural invariant behind 'does not forget pending items': whenever the announce set can be non-empty when a handler of the fetcher loop finishes, the fetch timer has been re-armed — processNotification reaches rescheduleFetch after adding an announcement unless a test built only from 'the fetcher was idle at entry' and 'the announce set is non-empty now' fails; the timer case always ends with rescheduleFetch; rescheduleFetch resets the timer whenever the announce set is non-empty. Also: the requester invoked for an id is the fetchItems callback of an announcement stored for that id, and requested ids come only from OnlyInterested results; received / no-longer-interesting ids are forgotten, forgetting removes the announcements, and the eviction callback removes the fetching entry. The time bounds themselves (timing) are not decided.",
		[]string{"time.Timer contract (Reset re-arms)", "callbacks OnlyInterested/Suspend are opaque", "the fetcher state is confined to the loop goroutine"},
		runC16)
}

// allDisjunctsMatch: on edge (b,succ) the branch condition's truth is a disjunction of alternatives;
// the edge is acceptable if every alternative contains a fact accepted by match.
func allDisjunctsMatch(f *core.FuncInfo, match func(core.Fact) bool) func(*cfg.Block, int) bool {
	return func(b *cfg.Block, s int) bool {
		cond := f.BranchCond(b)
		if cond == nil || s > 1 {
			return false
		}
		for _, alt := range core.Disjuncts(cond, s == 0) {
			ok := false
			for _, ft := range alt {
				if match(ft) {
					ok = true
				}
			}
			if !ok {
				return false
			}
		}
		return true
	}
}

func runC16(c *core.Ctx) {
	p := c.P
	annF := fetT + ".announces"
	fetchingF := fetT + ".fetching"

	isAnnLen := func(f *core.FuncInfo, e ast.Expr) bool {
		call := isCallTo(f, e, "utils/wlru.Cache.Len")
		if call == nil {
			return false
		}
		sel, ok := call.Fun.(*ast.SelectorExpr)
		return ok && fieldNameOf(f, sel.X) == annF
	}
	isFetchingLen := func(f *core.FuncInfo, e ast.Expr) bool {
		call := isCallTo(f, e, "builtin.len")
		return call != nil && len(call.Args) == 1 && fieldNameOf(f, call.Args[0]) == fetchingF
	}

	c.Clause("C16.timer", func() {
		pn := c.Fn(fetT + ".processNotification")
		adds := pn.CallsMatching(func(cs *core.CallSite) bool {
			return cs.Name == "utils/wlru.Cache.Add" && fieldNameOf(pn, cs.Recv()) == annF
		})
		c.ExpectAtLeast("announces.Add sites in processNotification", len(adds), 1)
		res := core.Points(pn.CallsTo(fetT + ".rescheduleFetch"))
		c.Need(len(res) >= 1, "processNotification calls rescheduleFetch")
		// "idle at entry" variables: defined before any Add as "X is zero" with X = announces.Len() or
		// len(fetching), in any spelling (X == 0, 0 == X, X < 1, !(X > 0) …)
		idle := map[*types.Var]bool{}
		for _, a := range assignments(pn) {
			v := varOf(pn, a.LHS)
			if v == nil || a.RHS == nil {
				continue
			}
			def := core.Fact{Expr: a.RHS, Truth: true}
			if !(c16SizeFact(pn, def, func(e ast.Expr) bool { return isAnnLen(pn, e) }, true) ||
				c16SizeFact(pn, def, func(e ast.Expr) bool { return isFetchingLen(pn, e) }, true)) {
				continue
			}
			before := true
			for _, ad := range adds {
				if pn.CanReach(ad.Pt, a.Pt) {
					before = false
				}
			}
			if before && len(assignsToVar(pn, v)) == 1 {
				idle[v] = true
			}
		}
		allowed := func(ft core.Fact) bool {
			// not idle at entry
			if cm, ok := core.NormCmp(ft); ok && cm.R == nil && cm.Op == token.NEQ && idle[varOf(pn, cm.L)] {
				return true
			}
			// announce set empty now
			return c16SizeFact(pn, ft, func(e ast.Expr) bool { return c16AnnLenNow(pn, e, annF) }, true)
		}
		for _, ad := range adds {
			path, found := core.PathQuery{F: pn, From: ad.Pt, FromAfter: true, Avoid: core.PointSet(res...), AvoidEdge: allDisjunctsMatch(pn, allowed), TargetExit: true}.Find()
			c.Check(!found, "processNotification|announce => timer armed", "T3 PostDominates (refined)", ad.Pos(),
				"after an announcement is stored, rescheduleFetch is skipped only when the fetcher was not idle at entry (timer already armed) or the announce set is empty",
				"an announcement can be stored while the fetch timer stays unarmed (e.g. when the test depends on the fetching set, which stays empty while suspended): the item is never requested; path "+pn.DescribePath(path))
		}
		// the timer case of loop ends with rescheduleFetch
		lp := c.Fn(fetT + ".loop")
		var timerBody *cfg.Block
		for _, b := range lp.CFG().Blocks {
			if b.Kind == cfg.KindSelectCaseBody && b.Live {
				cc, _ := b.Stmt.(*ast.CommClause)
				if cc != nil && cc.Comm != nil {
					isTimer := false
					ast.Inspect(cc.Comm, func(n ast.Node) bool {
						if sel, ok := n.(*ast.SelectorExpr); ok {
							if v, ok := lp.Info().ObjectOf(sel.Sel).(*types.Var); ok && p.ObjName(v) == "time.Timer.C" {
								isTimer = true
							}
						}
						return true
					})
					if isTimer {
						timerBody = b
					}
				}
			}
		}
		c.Need(timerBody != nil, "loop has a select case on the fetch timer channel")
		lres := core.Points(lp.CallsTo(fetT + ".rescheduleFetch"))
		path, found := core.PathQuery{F: lp, From: blockEntry(timerBody), Avoid: core.PointSet(lres...), Target: func(pt core.Point) bool {
			return pt.B.Kind == cfg.KindSelectDone || (pt.B.Kind == cfg.KindForBody && pt.I == 0 && pt.B != timerBody)
		}, AvoidEdge: func(b *cfg.Block, s int) bool { return false }}.Find()
		// blocks may be empty: search on block level as well
		if !found {
			seen := map[*cfg.Block]bool{}
			var dfs func(b *cfg.Block) bool
			avoid := core.PointSet(lres...)
			dfs = func(b *cfg.Block) bool {
				if seen[b] {
					return false
				}
				seen[b] = true
				for i := range b.Nodes {
					if avoid(core.Point{B: b, I: i}) {
						return false
					}
				}
				if b.Kind == cfg.KindSelectDone {
					return true
				}
				for _, s := range b.Succs {
					if dfs(s) {
						return true
					}
				}
				return false
			}
			found = dfs(timerBody)
		}
		c.Check(!found, "loop|timer case ends with rescheduleFetch", "T3 PostDominates", posOf(blockEntry(timerBody)), "every path through the timer case reaches rescheduleFetch before the next select", "the timer case can finish without re-arming the timer: "+lp.DescribePath(path))
		// rescheduleFetch resets the timer unless the announce set is empty
		rf := c.Fn(fetT + ".rescheduleFetch")
		resets := core.Points(rf.CallsTo("time.Timer.Reset"))
		c.Need(len(resets) >= 1, "rescheduleFetch calls Timer.Reset")
		emptyNow := func(ft core.Fact) bool {
			return c16SizeFact(rf, ft, func(e ast.Expr) bool { return c16AnnLenNow(rf, e, annF) }, true)
		}
		path, found = core.PathQuery{F: rf, From: rf.Entry(), Avoid: core.PointSet(resets...), AvoidEdge: allDisjunctsMatch(rf, emptyNow), TargetExit: true}.Find()
		c.Check(!found, "rescheduleFetch|resets the timer when announcements are pending", "T3 PostDominates (refined)", rf.Pos(), "every return passes Timer.Reset or the announce-set-empty edge", "rescheduleFetch can return without arming the timer although announcements are pending: "+rf.DescribePath(path))
		// the timer passed around is the loop's timer
		okT := false
		for _, cs := range lp.CallsTo(fetT+".processNotification", fetT+".rescheduleFetch") {
			last := cs.Call.Args[len(cs.Call.Args)-1]
			if v := varOf(lp, last); v != nil {
				for _, a := range assignsToVar(lp, v) {
					if a.RHS != nil && isCallTo(lp, a.RHS, "time.NewTimer") != nil {
						okT = true
					}
				}
			}
		}
		c.Check(okT, "loop|handlers get the loop's timer", "provenance", lp.Pos(), "the timer waited on is the one handed to processNotification/rescheduleFetch", "the handlers re-arm a different timer than the one the loop waits on")
	})

	c.Clause("C16.peer", func() {
		pn := c.Fn(fetT + ".processNotification")
		notif := pn.Param(0)
		// ids are filtered by OnlyInterested before the loop
		var filt []assignment
		for _, a := range assignments(pn) {
			root, path := fieldPath(pn, a.LHS)
			if len(path) == 1 && path[0] == "gossip/itemsfetcher.announcesBatch.ids" && varOf(pn, root) == notif && a.RHS != nil && isCallTo(pn, a.RHS, "gossip/itemsfetcher.Callback.OnlyInterested") != nil {
				filt = append(filt, a)
			}
		}
		c.Check(len(filt) == 1, "processNotification|ids filtered by OnlyInterested", "provenance", pn.Pos(), "notification.ids = OnlyInterested(notification.ids)", "the announced ids are not filtered by OnlyInterested")
		// the enqueued closure calls notification.fetchItems with ids collected from notification.ids
		lits := pn.Lits()
		okReq := false
		for _, l := range lits {
			for _, cs := range l.Calls() {
				v, ok := cs.Callee.(*types.Var)
				if !ok {
					continue
				}
				as := assignsToVar(pn, v)
				if len(as) == 1 && as[0].RHS != nil {
					root, path := fieldPath(pn, as[0].RHS)
					if len(path) >= 1 && path[len(path)-1] == "gossip/itemsfetcher.announceData.fetchItems" && varOf(pn, root) == notif {
						okReq = true
						if len(filt) == 1 {
							if ok, _ := pn.MustPassBefore([]core.Point{filt[0].Pt}, as[0].Pt); !ok {
								okReq = false
							}
						}
					}
				}
			}
		}
		c.Check(okReq, "processNotification|requester is the announcing peer's", "provenance", pn.Pos(), "the first request for an id goes through the fetchItems of the notification that announced it, after filtering", "the first request is not sent through the announcing peer's requester")
		// re-fetch: requester comes from an announcement returned by getAnnounces(id) for the same id
		lp := c.Fn(fetT + ".loop")
		okRe := false
		var annVar, annsVar *types.Var
		for _, a := range assignments(lp) {
			ix, ok := ast.Unparen(a.LHS).(*ast.IndexExpr)
			if !ok || a.RHS == nil {
				continue
			}
			if mv := varOf(lp, ix.X); mv != nil {
				root, path := fieldPath(lp, a.RHS)
				if len(path) == 1 && path[0] == "gossip/itemsfetcher.announceData.fetchItems" {
					annVar = varOf(lp, root)
					// key is announce.peer
					r2, p2 := fieldPath(lp, ix.Index)
					if len(p2) == 1 && p2[0] == "gossip/itemsfetcher.announceData.peer" && varOf(lp, r2) == annVar && annVar != nil {
						okRe = true
					}
				}
			}
		}
		if okRe {
			okRe = false
			for _, a := range assignsToVar(lp, annVar) {
				if ix, ok := ast.Unparen(a.RHS).(*ast.IndexExpr); ok && a.RHS != nil {
					annsVar = varOf(lp, ix.X)
				}
			}
			if annsVar != nil {
				for _, a := range assignsToVar(lp, annsVar) {
					if call := isCallTo(lp, a.RHS, fetT+".getAnnounces"); call != nil && a.RHS != nil {
						// same id as the one queued
						idv := varOf(lp, call.Args[0])
						for _, b := range assignments(lp) {
							if ix, ok := ast.Unparen(b.LHS).(*ast.IndexExpr); ok && b.RHS != nil {
								if ap := isCallTo(lp, b.RHS, "builtin.append"); ap != nil && len(ap.Args) == 2 && varOf(lp, ap.Args[1]) == idv && idv != nil {
									r2, p2 := fieldPath(lp, ix.Index)
									if len(p2) == 1 && varOf(lp, r2) == annVar {
										okRe = true
									}
								}
							}
						}
					}
				}
			}
		}
		c.Check(okRe, "loop|re-fetch asks a peer that announced the item", "provenance", lp.Pos(), "the re-fetch requester and peer come from one announcement of getAnnounces(id) for the id being queued", "a re-fetch can be sent to a peer that did not announce the item")
		// re-fetched ids come from OnlyInterested
		okInt := false
		lp.InspectOwn(func(n ast.Node) bool {
			rs, ok := n.(*ast.RangeStmt)
			if !ok {
				return true
			}
			if v := varOf(lp, rs.X); v != nil {
				for _, a := range assignsToVar(lp, v) {
					if a.RHS != nil && isCallTo(lp, a.RHS, "gossip/itemsfetcher.Callback.OnlyInterested") != nil {
						// the loop body contains the getAnnounces call
						if mentionsCall(lp, rs.Body, fetT+".getAnnounces") {
							okInt = true
						}
					}
				}
			}
			return true
		})
		c.Check(okInt, "loop|re-fetch only interesting ids", "provenance", lp.Pos(), "the re-fetch loop ranges over the result of OnlyInterested", "ids are re-fetched without having been reported interesting")
	})

	c.Clause("C16.forget", func() {
		fh := c.Fn(fetT + ".forgetHash")
		rm := fh.CallsMatching(func(cs *core.CallSite) bool {
			return cs.Name == "utils/wlru.Cache.Remove" && fieldNameOf(fh, cs.Recv()) == annF
		})
		okRm := len(rm) == 1 && varOf(fh, rm[0].Call.Args[0]) == fh.Param(0)
		c.Check(okRm, "forgetHash removes the announcements", "T7 Pairing", fh.Pos(), "announces.Remove(id)", "forgetHash does not remove the id from the announce set")
		// eviction callback deletes fetching[id]
		nw := c.Fn("gossip/itemsfetcher.New")
		okEv := false
		for _, cs := range nw.CallsTo("utils/wlru.NewWithEvict") {
			if lit := litArg(nw, cs.Call, 2); lit != nil {
				for _, d := range lit.CallsTo("builtin.delete") {
					if fieldNameOf(lit, d.Call.Args[0]) == fetchingF {
						okEv = true
					}
				}
			}
		}
		c.Check(okEv, "eviction drops the fetching entry", "T7 Pairing", nw.Pos(), "the announce cache's eviction callback deletes fetching[id] (fetching ⊆ announces)", "entries can stay in the fetching map after their announcements are gone")
		// received items are forgotten
		lp := c.Fn(fetT + ".loop")
		nForget := 0
		okRecv := false
		lp.InspectOwn(func(n ast.Node) bool {
			cc, ok := n.(*ast.CommClause)
			if !ok || cc.Comm == nil {
				return true
			}
			recv := false
			ast.Inspect(cc.Comm, func(m ast.Node) bool {
				if sel, ok := m.(*ast.SelectorExpr); ok && fieldNameOf(lp, sel) == fetT+".receivedItems" {
					recv = true
				}
				return true
			})
			if recv {
				for _, st := range cc.Body {
					rs, ok := st.(*ast.RangeStmt)
					if !ok {
						continue
					}
					// every id of the received batch reaches forgetHash(id): no iteration skips it
					var fh []core.Point
					for _, cs := range lp.CallsTo(fetT + ".forgetHash") {
						if rs.Body.Pos() <= cs.Pos() && cs.Pos() < rs.Body.End() && len(cs.Call.Args) == 1 && varOf(lp, cs.Call.Args[0]) == varOf(lp, rs.Value) {
							fh = append(fh, cs.Pt)
						}
					}
					head, _ := lp.LoopOf(rs)
					_, complete := loopDone(lp, rs)
					if len(fh) > 0 && head != nil && complete {
						_, skip := core.PathQuery{F: lp, From: blockEntry(head.Succs[0]), Avoid: core.PointSet(fh...), TargetBlock: func(b *cfg.Block) bool { return b == head }}.Find()
						okRecv = !skip
					}
				}
			}
			return true
		})
		c.Check(okRecv, "received ids are forgotten", "T7 Pairing", lp.Pos(), "the receivedItems case calls forgetHash for every id", "received items stay scheduled")
		nForget = len(lp.CallsTo(fetT + ".forgetHash"))
		c.ExpectAtLeast("forgetHash sites in loop", nForget, 3)
		// not interesting => forgotten: a forgetHash call guarded by !notArrivedMap[id]-shape (membership in the interesting set is false)
		okNI := false
		for _, cs := range lp.CallsTo(fetT + ".forgetHash") {
			if ok, _ := lp.GuardedBy(cs.Pt, func(ft core.Fact) bool {
				cm, k := core.NormCmp(ft)
				if !k || cm.R != nil || cm.Op != token.NEQ {
					return false
				}
				ix, isIx := ast.Unparen(cm.L).(*ast.IndexExpr)
				if !isIx {
					return false
				}
				_, isMap := lp.Info().TypeOf(ix.X).Underlying().(*types.Map)
				return isMap
			}); ok {
				okNI = true
			}
		}
		c.Check(okNI, "no-longer-interesting ids are forgotten", "T7 Pairing", lp.Pos(), "ids missing from the interesting set are passed to forgetHash", "ids that stopped being interesting are kept and re-requested")
	})
}

// c16SizeFact: does the fact say that the non-negative integer quantity recognised by atom is zero
// (zero=true) or non-zero (zero=false)? Decided on the linear normal form, so operand order and the
// spelling of the test do not matter: n == 0, 0 == n, n <= 0, n < 1, !(n > 0), !(n != 0) are one fact.
// (Candidate for core: a "size is zero" fact matcher.)
func c16SizeFact(f *core.FuncInfo, ft core.Fact, atom func(ast.Expr) bool, zero bool) bool {
	namer := func(e ast.Expr) string {
		if atom(core.StripConv(f.Info(), e)) {
			return "n"
		}
		return ""
	}
	lc, ok := core.NormLinCmp(f.Info(), ft, namer)
	if !ok {
		return false
	}
	if zero {
		return lc.Equal(core.ParseLinCmp("n == 0")) || lc.Equal(core.ParseLinCmp("n <= 0"))
	}
	return lc.Equal(core.ParseLinCmp("n != 0")) || lc.Equal(core.ParseLinCmp("1 - n <= 0"))
}

// c16AnnLenNow: e denotes the current size of the announce set at the place where it is used: either
// the call <annField>.Len() itself, or a single-definition local holding that call's result when
// nothing that can change the announce set (Add/Remove/RemoveOldest/Purge on it, directly or in a
// callee) lies between the definition and the use.
func c16AnnLenNow(f *core.FuncInfo, e ast.Expr, annField string) bool {
	isLen := func(x ast.Expr) bool {
		call, ok := ast.Unparen(x).(*ast.CallExpr)
		if !ok || calleeName(f, call) != "utils/wlru.Cache.Len" {
			return false
		}
		sel, ok := ast.Unparen(call.Fun).(*ast.SelectorExpr)
		return ok && fieldNameOf(f, sel.X) == annField
	}
	e = ast.Unparen(e)
	if isLen(e) {
		return true
	}
	id, ok := e.(*ast.Ident)
	if !ok {
		return false
	}
	v, _ := f.Info().ObjectOf(id).(*types.Var)
	d := singleDef(f, v)
	if d == nil || !isLen(d) {
		return false
	}
	as := assignsToVar(f, v)
	use, okUse := f.PointOf(id)
	if len(as) != 1 || !okUse {
		return false
	}
	muts := f.SitesMay(func(cs *core.CallSite) bool {
		switch cs.Name {
		case "utils/wlru.Cache.Add", "utils/wlru.Cache.Remove", "utils/wlru.Cache.RemoveOldest", "utils/wlru.Cache.Purge":
			return fieldNameOf(cs.F, cs.Recv()) == annField
		}
		return false
	}, 3)
	for _, m := range muts {
		if (m == as[0].Pt || f.CanReach(as[0].Pt, m)) && (m == use || f.CanReach(m, use)) {
			return false
		}
	}
	return true
}
