package rules

import (
	"go/ast"
	"go/token"
	"go/types"

	"golang.org/x/tools/go/cfg"

	"lachk/core"
)

const fetT = "gossip/itemsfetcher.Fetcher"

func init() {
	register("C16", "other", "T3 PostDominates with predicate refinement (timer invariant), provenance (requester/ids), T7 Pairing (forget)",
		"Decides, on the inlined views of processNotification, loop and rescheduleFetch (helpers of the package expanded, so the facts do not depend on how the handlers are cut into functions), the structural invariant behind 'does not forget pending items': whenever the announce set can be non-empty when a handler of the fetcher loop finishes, the fetch timer has been re-armed — processNotification reaches rescheduleFetch after adding an announcement unless a test built only from 'the fetcher was idle at entry' and 'the announce set is non-empty now' fails; the timer case always ends with rescheduleFetch; rescheduleFetch resets the timer whenever the announce set is non-empty. Also: the requester invoked for an id is the fetchItems callback of an announcement stored for that id, and requested ids come only from OnlyInterested results; received / no-longer-interesting ids are forgotten, forgetting removes the announcements, and the eviction callback removes the fetching entry. The time bounds themselves (timing) are not decided.",
		[]string{"time.Timer contract (Reset re-arms)", "callbacks OnlyInterested/Suspend are opaque", "the fetcher state is confined to the loop goroutine"},
		runC16)
}

func runC16(c *core.Ctx) {
	p := c.P
	annF := fetT + ".announces"
	fetchingF := fetT + ".fetching"
	pnName, rfName, loopName, fhName := fetT+".processNotification", fetT+".rescheduleFetch", fetT+".loop", fetT+".forgetHash"
	fetchItemsF := "gossip/itemsfetcher.announceData.fetchItems"
	cbInterested := "gossip/itemsfetcher.Callback.OnlyInterested"

	isAnnLen := func(f *core.FuncInfo, e ast.Expr) bool {
		call := isCallTo(f, e, "utils/wlru.Cache.Len")
		if call == nil {
			return false
		}
		sel, ok := call.Fun.(*ast.SelectorExpr)
		return ok && fieldNameOf(f, sel.X) == annF
	}
	isFetchingLen := func(f *core.FuncInfo, e ast.Expr) bool {
		call := isCallTo(f, e, "builtin.len")
		return call != nil && len(call.Args) == 1 && fieldNameOf(f, call.Args[0]) == fetchingF
	}
	onAnnounces := func(n *c14Node, name string) bool { return n.CS.Name == name && n.recvField() == annF }
	emptyNow := func(ft c14Fact) bool {
		f := ft.Fr.Fn
		return c16SizeFact(f, ft.Fact, func(e ast.Expr) bool { return c16AnnLenNow(f, e, annF) }, true)
	}

	c.Clause("C16.timer", func() {
		pn := c.Fn(pnName)
		rf := c.Fn(rfName)
		lp := c.Fn(loopName)
		isRF := func(g *core.FuncInfo) bool { return g == rf }
		// processNotification with its helpers expanded; rescheduleFetch stays one opaque step
		w := c14NewView(pn, 3, isRF)
		adds := w.calls(func(n *c14Node) bool { return onAnnounces(n, "utils/wlru.Cache.Add") })
		c.ExpectAtLeast("announces.Add sites in processNotification", len(adds), 1)
		res := w.callsTo(rfName)
		c.Need(len(res) >= 1, "processNotification calls rescheduleFetch")
		c.Need(w.reachable(adds...) && w.reachable(w.Exit), "the stores and the return of processNotification are reachable in the inlined view")
		// "idle at entry" variables: defined before any Add as "X is zero" with X = announces.Len() or
		// len(fetching), in any spelling (X == 0, 0 == X, X < 1, !(X > 0) …)
		var idle []c14Val
		for _, fr := range w.Frames {
			f := fr.Fn
			for _, a := range assignments(f) {
				v := varOf(f, a.LHS)
				if v == nil || a.RHS == nil || len(assignsToVar(f, v)) != 1 {
					continue
				}
				def := core.Fact{Expr: a.RHS, Truth: true}
				if !(c16SizeFact(f, def, func(e ast.Expr) bool { return isAnnLen(f, e) }, true) ||
					c16SizeFact(f, def, func(e ast.Expr) bool { return isFetchingLen(f, e) }, true)) {
					continue
				}
				before := true
				for _, st := range w.stmts(fr, a.Pt) {
					for _, ad := range adds {
						if w.canReach(ad, st) {
							before = false
						}
					}
				}
				if before {
					idle = append(idle, c14Val{Fr: fr, V: v})
				}
			}
		}
		notIdle := c14BoolFact(func(v c14Val) bool {
			for _, i := range idle {
				if v.same(i) {
					return true
				}
			}
			return false
		}, false)
		// not idle at entry, or the announce set is empty now
		allowed := w.edgesWith(func(ft c14Fact) bool { return notIdle(ft) || emptyNow(ft) })
		for _, ad := range adds {
			path, found := w.find(c14Query{From: []*c14Node{ad}, After: true, Target: c14IsExit, Avoid: c14NodeSet(res...), AvoidEdge: allowed})
			c.Check(!found, "processNotification|announce => timer armed", "T3 PostDominates (refined)", ad.pos(),
				"after an announcement is stored, rescheduleFetch is skipped only when the fetcher was not idle at entry (timer already armed) or the announce set is empty",
				"an announcement can be stored while the fetch timer stays unarmed (e.g. when the test depends on the fetching set, which stays empty while suspended): the item is never requested; path "+w.describe(path))
		}
		// the timer case of loop ends with rescheduleFetch
		wl := c14NewView(lp, 3, isRF)
		var timerBody *cfg.Block
		var timerExpr ast.Expr
		for _, b := range lp.CFG().Blocks {
			if b.Kind == cfg.KindSelectCaseBody && b.Live {
				cc, _ := b.Stmt.(*ast.CommClause)
				if cc != nil && cc.Comm != nil {
					ast.Inspect(cc.Comm, func(n ast.Node) bool {
						if sel, ok := n.(*ast.SelectorExpr); ok {
							if v, ok := lp.Info().ObjectOf(sel.Sel).(*types.Var); ok && p.ObjName(v) == "time.Timer.C" {
								timerBody, timerExpr = b, sel.X
							}
						}
						return true
					})
				}
			}
		}
		c.Need(timerBody != nil && wl.Root.blocks[timerBody] != nil, "loop has a select case on the fetch timer channel")
		lres := wl.callsTo(rfName)
		_, ends := wl.find(c14Query{From: []*c14Node{wl.Root.blocks[timerBody]}, Target: c16CaseOver(wl, timerBody)})
		c.Need(ends, "the end of the timer case is reachable in the inlined view")
		path, found := wl.find(c14Query{From: []*c14Node{wl.Root.blocks[timerBody]}, Avoid: c14NodeSet(lres...), Target: c16CaseOver(wl, timerBody)})
		c.Check(!found, "loop|timer case ends with rescheduleFetch", "T3 PostDominates", posOf(blockEntry(timerBody)), "every path through the timer case reaches rescheduleFetch before the next select", "the timer case can finish without re-arming the timer: "+wl.describe(path))
		// rescheduleFetch resets the timer unless the announce set is empty
		wr := c14NewView(rf, 3, nil)
		resets := wr.callsTo("time.Timer.Reset")
		c.Need(len(resets) >= 1 && wr.reachable(wr.Exit), "rescheduleFetch calls Timer.Reset and returns")
		path, found = wr.find(c14Query{From: []*c14Node{wr.Entry}, Target: c14IsExit, Avoid: c14NodeSet(resets...), AvoidEdge: wr.edgesWith(emptyNow)})
		c.Check(!found, "rescheduleFetch|resets the timer when announcements are pending", "T3 PostDominates (refined)", rf.Pos(), "every return passes Timer.Reset or the announce-set-empty edge", "rescheduleFetch can return without arming the timer although announcements are pending: "+wr.describe(path))
		// the timer that the handlers re-arm is the one the loop waits on (and it is the loop's own timer)
		wf := c14NewView(lp, 4, nil)
		timer := wf.Root.val(timerExpr)
		okT := timer.V != nil
		if okT {
			okT = false
			for _, a := range assignsToVar(timer.Fr.Fn, timer.V) {
				if a.RHS != nil && isCallTo(timer.Fr.Fn, a.RHS, "time.NewTimer") != nil {
					okT = true
				}
			}
		}
		all := wf.callsTo("time.Timer.Reset")
		if len(all) == 0 {
			okT = false
		}
		for _, rn := range all {
			if !rn.Fr.val(rn.CS.Recv()).same(timer) {
				okT = false
			}
		}
		c.Check(okT, "loop|handlers get the loop's timer", "provenance", lp.Pos(), "every Timer.Reset that the loop's handlers perform is on the timer created by the loop and waited on in its select", "the handlers re-arm a different timer than the one the loop waits on")
	})

	c.Clause("C16.peer", func() {
		pn := c.Fn(pnName)
		lp := c.Fn(loopName)
		w := c14NewView(pn, 3, nil)
		notif := c14Val{Fr: w.Root, V: pn.Param(0)}
		c.Need(notif.V != nil, "processNotification(notification, …)")
		// The ids that are stored (and from them requested) are the result of OnlyInterested: the iteration
		// that stores the announcements runs over the filtered batch, which is either notification.ids after
		// `notification.ids = OnlyInterested(…)` or a local that only ever holds an OnlyInterested result.
		idsF := "gossip/itemsfetcher.announcesBatch.ids"
		var fieldFilt []*c14Node
		nFieldFilt := 0
		for _, fr := range w.Frames {
			for _, a := range assignments(fr.Fn) {
				root, path := fr.fieldPath(a.LHS)
				if len(path) == 1 && path[0] == idsF && root.same(notif) && a.RHS != nil && isCallTo(fr.Fn, a.RHS, cbInterested) != nil {
					nFieldFilt++
					fieldFilt = append(fieldFilt, w.stmts(fr, a.Pt)...)
				}
			}
		}
		var filt []*c14Node // where the filtering happens
		filtered := func(fr *c14Frame, coll ast.Expr, head *c14Node) bool {
			if val := fr.val(coll); val.V != nil {
				as := assignsToVar(val.Fr.Fn, val.V)
				ok := len(as) > 0
				var at []*c14Node
				for _, a := range as {
					if a.RHS == nil || isCallTo(val.Fr.Fn, a.RHS, cbInterested) == nil {
						ok = false
					}
					at = append(at, w.stmts(val.Fr, a.Pt)...)
				}
				if ok {
					filt = append(filt, at...)
					return true
				}
			}
			root, path := fr.fieldPath(coll)
			if len(path) == 1 && path[0] == idsF && root.same(notif) && nFieldFilt == 1 && head != nil {
				if ok, _ := w.mustPassBefore(fieldFilt, head); ok {
					filt = append(filt, fieldFilt...)
					return true
				}
			}
			return false
		}
		stores := w.calls(func(n *c14Node) bool { return onAnnounces(n, "utils/wlru.Cache.Add") })
		okFilt := len(stores) > 0
		for _, ad := range stores {
			// the innermost loop around the store: in its own function, or around the call that leads to it
			var it *core.Iteration
			var itFr *c14Frame
			for fr, pos := ad.Fr, ad.CS.Pos(); fr != nil; pos, fr = fr.Site.Pos(), fr.Parent {
				if loop := enclosingLoop(fr.Fn, pos); loop != nil {
					if i, ok := core.IterationOf(fr.Fn, loop, nil); ok {
						it, itFr = i, fr
					}
					break
				}
				if fr.Site == nil {
					break
				}
			}
			if it == nil || it.Coll == nil || it.Head == nil || !filtered(itFr, it.Coll, itFr.blocks[it.Head]) {
				okFilt = false
			}
		}
		c.Check(okFilt, "processNotification|ids filtered by OnlyInterested", "provenance", pn.Pos(), "announcements are stored for the ids of the batch that OnlyInterested returned", "the announced ids are not filtered by OnlyInterested")
		nFilt := 0
		if okFilt && len(filt) > 0 {
			nFilt = 1
		}
		// the enqueued closure calls notification.fetchItems (after the filtering); the closure may be built
		// in a helper that receives the requester as an argument
		okReq, nReq := false, 0
		for _, fr := range w.Frames {
			for _, l := range allLits(fr.Fn) {
				for _, cs := range l.Calls() {
					if _, isVar := cs.Callee.(*types.Var); !isVar {
						continue
					}
					root, path := fr.fieldPath(cs.Call.Fun)
					if len(path) < 1 || path[len(path)-1] != fetchItemsF {
						continue
					}
					nReq++
					good := root.same(notif) && nFilt == 1
					if pt, ok := fr.Fn.PointOf(l.Lit); ok && good {
						created := w.stmts(fr, pt)
						if len(created) == 0 {
							good = false
						}
						for _, cr := range created {
							if o, _ := w.mustPassBefore(filt, cr); !o {
								good = false
							}
						}
					} else {
						good = false
					}
					if nReq == 1 {
						okReq = good
					} else {
						okReq = okReq && good
					}
				}
			}
		}
		c.Check(okReq, "processNotification|requester is the announcing peer's", "provenance", pn.Pos(), "the first request for an id goes through the fetchItems of the notification that announced it, after filtering", "the first request is not sent through the announcing peer's requester")
		// re-fetch: requester comes from an announcement returned by getAnnounces(id) for the same id; the
		// code may live in the loop itself or in a helper that the loop runs
		wf := c14NewView(lp, 4, nil)
		okInt := false
		for g := range wf.funcs() {
			if c16RefetchInterested(g, cbInterested) {
				okInt = true
			}
		}
		okRe, whyRe, posRe := c16RefetchFromAnnouncer(wf, annF)
		if !posRe.IsValid() {
			posRe = lp.Pos()
		}
		c.Check(okRe, "loop|re-fetch asks a peer that announced the item", "provenance", posRe, "the re-fetch requester and peer come from one announcement of getAnnounces(id) for the id being queued", "a re-fetch can be sent to a peer that did not announce the item: "+whyRe)
		// re-fetched ids come from OnlyInterested
		c.Check(okInt, "loop|re-fetch only interesting ids", "provenance", lp.Pos(), "the re-fetch loop ranges over the result of OnlyInterested", "ids are re-fetched without having been reported interesting")
	})

	c.Clause("C16.forget", func() {
		fh := c.Fn(fhName)
		rm := fh.CallsMatching(func(cs *core.CallSite) bool {
			return cs.Name == "utils/wlru.Cache.Remove" && fieldNameOf(fh, cs.Recv()) == annF
		})
		okRm := len(rm) == 1 && varOf(fh, rm[0].Call.Args[0]) == fh.Param(0)
		c.Check(okRm, "forgetHash removes the announcements", "T7 Pairing", fh.Pos(), "announces.Remove(id)", "forgetHash does not remove the id from the announce set")
		// eviction callback deletes fetching[id]
		nw := c.Fn("gossip/itemsfetcher.New")
		okEv := false
		for _, cs := range nw.CallsTo("utils/wlru.NewWithEvict") {
			if lit := litArg(nw, cs.Call, 2); lit != nil {
				for _, d := range lit.CallsTo("builtin.delete") {
					if fieldNameOf(lit, d.Call.Args[0]) == fetchingF {
						okEv = true
					}
				}
			}
		}
		c.Check(okEv, "eviction drops the fetching entry", "T7 Pairing", nw.Pos(), "the announce cache's eviction callback deletes fetching[id] (fetching ⊆ announces)", "entries can stay in the fetching map after their announcements are gone")
		// received items are forgotten
		lp := c.Fn(loopName)
		// the loop and the helpers it runs
		wf := c14NewView(lp, 4, nil)
		forgets := wf.callsTo(fhName)
		var recvBody *cfg.Block
		var batchVar *types.Var
		for _, b := range lp.CFG().Blocks {
			cc, _ := b.Stmt.(*ast.CommClause)
			if b.Kind != cfg.KindSelectCaseBody || !b.Live || cc == nil || cc.Comm == nil {
				continue
			}
			ast.Inspect(cc.Comm, func(m ast.Node) bool {
				if sel, ok := m.(*ast.SelectorExpr); ok && fieldNameOf(lp, sel) == fetT+".receivedItems" {
					recvBody = b
					if as, ok := cc.Comm.(*ast.AssignStmt); ok && len(as.Lhs) >= 1 {
						batchVar = varOf(lp, as.Lhs[0])
					}
				}
				return true
			})
		}
		c.Need(recvBody != nil && batchVar != nil && wf.Root.blocks[recvBody] != nil, "loop has a select case receiving a batch from receivedItems")
		// every path through the case runs an iteration over the received batch (range or counted loop, in
		// the case itself or in a helper that gets the batch) whose every round passes forgetHash(element)
		okRecv := false
		batch := c14Val{Fr: wf.Root, V: batchVar}
		for _, fn := range forgets {
			g := fn.Fr.Fn
			loop := enclosingLoop(g, fn.CS.Pos())
			if loop == nil || len(fn.CS.Call.Args) != 1 {
				continue
			}
			resolve := func(e ast.Expr) ast.Expr { return resolveLocal(g, e) }
			it, ok := core.IterationOf(g, loop, resolve)
			if !ok || !it.Complete || !it.FromZero || it.Coll == nil || it.Head == nil || fn.Fr.blocks[it.Head] == nil {
				continue
			}
			// the collection is the received batch (the variable, or its defining receive expression when
			// the iteration view has looked through the local)
			coll := fn.Fr.val(it.Coll)
			if d := singleDef(lp, batchVar); !coll.same(batch) && !(d != nil && coll.Fr == wf.Root && coll.E == ast.Unparen(d)) {
				continue
			}
			if !it.IsElem(fn.CS.Call.Args[0], resolve) {
				continue
			}
			if every, _ := it.EveryIterationPasses([]core.Point{fn.CS.Pt}, false); !every {
				continue
			}
			if _, skip := wf.find(c14Query{From: []*c14Node{wf.Root.blocks[recvBody]}, Target: c16CaseOver(wf, recvBody), Avoid: c14NodeSet(fn.Fr.blocks[it.Head])}); !skip {
				okRecv = true
			}
		}
		c.Check(okRecv, "received ids are forgotten", "T7 Pairing", posOf(blockEntry(recvBody)), "the receivedItems case calls forgetHash for every id", "received items stay scheduled")
		sites := map[*core.CallSite]bool{}
		for _, n := range forgets {
			sites[n.CS] = true
		}
		c.ExpectAtLeast("forgetHash sites in loop", len(sites), 3)
		// not interesting => forgotten: a forgetHash call reachable only on the edge where membership of the
		// id in a set (map lookup) is false
		okNI := false
		for _, fn := range forgets {
			if ok, _ := wf.guarded(fn, func(ft c14Fact) bool {
				cm, k := core.NormCmp(ft.Fact)
				if !k || cm.R != nil || cm.Op != token.NEQ {
					return false
				}
				ix, isIx := ast.Unparen(cm.L).(*ast.IndexExpr)
				if !isIx {
					return false
				}
				t := ft.Fr.Fn.Info().TypeOf(ix.X)
				if t == nil {
					return false
				}
				_, isMap := t.Underlying().(*types.Map)
				return isMap
			}); ok {
				okNI = true
			}
		}
		c.Check(okNI, "no-longer-interesting ids are forgotten", "T7 Pairing", lp.Pos(), "ids missing from the interesting set are passed to forgetHash", "ids that stopped being interesting are kept and re-requested")
	})
}

// c16CaseOver: in the view w of a function whose body is `for { select { … } }`, the nodes at which the
// select case starting with block body is over: control is behind the select statement, back at the
// enclosing loop, or out of the function.
func c16CaseOver(w *c14View, body *cfg.Block) func(*c14Node) bool {
	outer := enclosingLoop(w.Root.Fn, body.Stmt.Pos())
	return func(n *c14Node) bool {
		if n.Kind == c14Exit {
			return true
		}
		if n.Kind != c14Block || n.Fr != w.Root || n.Block == body {
			return false
		}
		switch n.Block.Kind {
		case cfg.KindSelectDone:
			// the select statement that has this case (not one nested in the case's body)
			return n.Block.Stmt != nil && n.Block.Stmt.Pos() <= body.Stmt.Pos() && body.Stmt.End() <= n.Block.Stmt.End()
		case cfg.KindForBody, cfg.KindForLoop, cfg.KindForPost:
			return outer != nil && n.Block.Stmt == outer
		}
		return false
	}
}

// c16RefetchFromAnnouncer: the re-fetch groups the ids by the peer of an announcement a and stores
// a.fetchItems as the requester of that group, where a is an element of the result of getAnnounces(id)
// for the id that is queued.
//
// Decided as provenance on the inlined view wf of the loop, so it does not depend on how the per-peer
// groups are represented (parallel maps keyed by peer, one map of a small struct filled by an accessor,
// …) nor on which function holds the code: in the code that the timer case runs,
//   - every read of announceData.peer and announceData.fetchItems is a read of one and the same
//     announcement value a (the key of the group and the requester stored for it belong together),
//   - every definition of a is an element of a list L, and every definition of L is a call with the
//     single argument id of a function of the package that reads the announce set (getAnnounces),
//   - that id is what gets queued (appended to a list) in the same code.
func c16RefetchFromAnnouncer(wf *c14View, annF string) (bool, string, token.Pos) {
	const peerF, fnF = "gossip/itemsfetcher.announceData.peer", "gossip/itemsfetcher.announceData.fetchItems"
	lp := wf.Root.Fn
	p := lp.P
	// the timer case and the frames it runs
	var body *cfg.Block
	for _, b := range lp.CFG().Blocks {
		cc, _ := b.Stmt.(*ast.CommClause)
		if b.Kind != cfg.KindSelectCaseBody || !b.Live || cc == nil || cc.Comm == nil {
			continue
		}
		ast.Inspect(cc.Comm, func(n ast.Node) bool {
			if sel, ok := n.(*ast.SelectorExpr); ok {
				if v, ok := lp.Info().ObjectOf(sel.Sel).(*types.Var); ok && p.ObjName(v) == "time.Timer.C" {
					body = b
				}
			}
			return true
		})
	}
	if body == nil || wf.Root.blocks[body] == nil {
		return false, "the loop has no select case on the fetch timer channel", token.NoPos
	}
	cc := body.Stmt.(*ast.CommClause)
	over := c16CaseOver(wf, body)
	frames := map[*c14Frame]bool{}
	seen := map[*c14Node]bool{}
	work := []*c14Node{wf.Root.blocks[body]}
	for len(work) > 0 {
		n := work[0]
		work = work[1:]
		if seen[n] || over(n) {
			continue
		}
		seen[n] = true
		frames[n.Fr] = true
		for _, e := range n.Out {
			work = append(work, e.To)
		}
	}
	inCase := func(fr *c14Frame, n ast.Node) bool {
		return fr != wf.Root || (cc.Pos() <= n.Pos() && n.End() <= cc.End())
	}
	type read struct {
		field string
		root  c14Val
		plain bool
		pos   token.Pos
	}
	var reads []read
	var appended []c14Val
	for _, fr := range wf.Frames {
		if !frames[fr] {
			continue
		}
		fr := fr
		ast.Inspect(fr.Fn.Body, func(n ast.Node) bool {
			if n == nil || !inCase(fr, n) {
				return n != nil
			}
			switch x := n.(type) {
			case *ast.SelectorExpr:
				if fld := c14FieldOfSel(fr.Fn, x); fld == peerF || fld == fnF {
					root, path := fr.fieldPath(x)
					reads = append(reads, read{fld, root, len(path) == 1 && root.V != nil, x.Pos()})
				}
			case *ast.CallExpr:
				if calleeName(fr.Fn, x) == "builtin.append" && len(x.Args) == 2 && !x.Ellipsis.IsValid() {
					appended = append(appended, fr.val(x.Args[1]))
				}
			}
			return true
		})
	}
	var a c14Val
	nPeer, nFn := 0, 0
	for _, r := range reads {
		if !r.plain {
			return false, "the peer / requester is read from something else than a looked-up announcement", r.pos
		}
		if a.V == nil {
			a = r.root
		} else if !a.same(r.root) {
			return false, "the peer that keys a request and the requester stored for it are taken from different announcements", r.pos
		}
		if r.field == peerF {
			nPeer++
		} else {
			nFn++
		}
	}
	if nPeer == 0 || nFn == 0 {
		return false, "the timer case does not take both the peer and the requester from an announcement", cc.Pos()
	}
	// a is an element of the announcements looked up for one id
	g := a.Fr.Fn
	as := assignsToVar(g, a.V)
	if len(as) == 0 {
		return false, "the announcement is not a local of the re-fetch code", a.V.Pos()
	}
	readsAnnounces := func(cs *core.CallSite) bool {
		return (cs.Name == "utils/wlru.Cache.Get" || cs.Name == "utils/wlru.Cache.Peek") && fieldNameOf(cs.F, cs.Recv()) == annF
	}
	var id c14Val
	for _, d := range as {
		var coll ast.Expr
		if rs, isRange := d.Stmt.(*ast.RangeStmt); isRange && rs.Value != nil && varOf(g, rs.Value) == a.V {
			coll = rs.X
		} else if d.RHS != nil {
			if ix, isIx := ast.Unparen(d.RHS).(*ast.IndexExpr); isIx {
				coll = ix.X
			}
		}
		lv := c14Val{}
		if coll != nil {
			lv = a.Fr.val(coll)
		}
		if lv.V == nil {
			return false, "the announcement is not an element of a looked-up list of announcements", d.Stmt.Pos()
		}
		ls := assignsToVar(lv.Fr.Fn, lv.V)
		if len(ls) == 0 {
			return false, "the list of announcements is not the result of a lookup in the announce set", d.Stmt.Pos()
		}
		for _, l := range ls {
			var call *ast.CallExpr
			if l.RHS != nil {
				call, _ = ast.Unparen(l.RHS).(*ast.CallExpr)
			}
			if call == nil || len(call.Args) != 1 {
				return false, "the list of announcements is not the result of a lookup in the announce set", l.Stmt.Pos()
			}
			obj, _ := p.ResolveCallee(lv.Fr.Fn.Info(), call)
			fn, _ := obj.(*types.Func)
			h := p.FuncOf(fn)
			if h == nil || h.Pkg != lp.Pkg || (len(h.CallsMatching(readsAnnounces)) == 0 && len(h.SitesMay(readsAnnounces, 2)) == 0) {
				return false, "the list of announcements is not the result of a lookup in the announce set", l.Stmt.Pos()
			}
			k := lv.Fr.val(call.Args[0])
			if id.Fr == nil {
				id = k
			} else if !id.same(k) {
				return false, "the announcements are looked up for different ids", l.Stmt.Pos()
			}
		}
	}
	for _, q := range appended {
		if q.same(id) {
			return true, "", token.NoPos
		}
	}
	return false, "the id whose announcements were looked up is not the id that is queued for the chosen peer", a.V.Pos()
}

// c16RefetchInterested: g ranges over a result of OnlyInterested and looks the announcements of each
// such id up in the body of that loop.
func c16RefetchInterested(g *core.FuncInfo, cbInterested string) bool {
	ok := false
	g.InspectOwn(func(n ast.Node) bool {
		rs, isRange := n.(*ast.RangeStmt)
		if !isRange {
			return true
		}
		if v := varOf(g, rs.X); v != nil {
			for _, a := range assignsToVar(g, v) {
				if a.RHS != nil && isCallTo(g, a.RHS, cbInterested) != nil && mentionsCall(g, rs.Body, fetT+".getAnnounces") {
					ok = true
				}
			}
		}
		return true
	})
	return ok
}

// c16SizeFact: does the fact say that the non-negative integer quantity recognised by atom is zero
// (zero=true) or non-zero (zero=false)? Decided on the linear normal form, so operand order and the
// spelling of the test do not matter: n == 0, 0 == n, n <= 0, n < 1, !(n > 0), !(n != 0) are one fact.
// (Candidate for core: a "size is zero" fact matcher.)
func c16SizeFact(f *core.FuncInfo, ft core.Fact, atom func(ast.Expr) bool, zero bool) bool {
	namer := func(e ast.Expr) string {
		if atom(core.StripConv(f.Info(), e)) {
			return "n"
		}
		return ""
	}
	lc, ok := core.NormLinCmp(f.Info(), ft, namer)
	if !ok {
		return false
	}
	if zero {
		return lc.Equal(core.ParseLinCmp("n == 0")) || lc.Equal(core.ParseLinCmp("n <= 0"))
	}
	return lc.Equal(core.ParseLinCmp("n != 0")) || lc.Equal(core.ParseLinCmp("1 - n <= 0"))
}

// c16AnnLenNow: e denotes the current size of the announce set at the place where it is used: either
// the call <annField>.Len() itself, or a single-definition local holding that call's result when
// nothing that can change the announce set (Add/Remove/RemoveOldest/Purge on it, directly or in a
// callee) lies between the definition and the use.
func c16AnnLenNow(f *core.FuncInfo, e ast.Expr, annField string) bool {
	isLen := func(x ast.Expr) bool {
		call, ok := ast.Unparen(x).(*ast.CallExpr)
		if !ok || calleeName(f, call) != "utils/wlru.Cache.Len" {
			return false
		}
		sel, ok := ast.Unparen(call.Fun).(*ast.SelectorExpr)
		return ok && fieldNameOf(f, sel.X) == annField
	}
	e = ast.Unparen(e)
	if isLen(e) {
		return true
	}
	id, ok := e.(*ast.Ident)
	if !ok {
		return false
	}
	v, _ := f.Info().ObjectOf(id).(*types.Var)
	d := singleDef(f, v)
	if d == nil || !isLen(d) {
		return false
	}
	as := assignsToVar(f, v)
	use, okUse := f.PointOf(id)
	if len(as) != 1 || !okUse {
		return false
	}
	muts := f.SitesMay(func(cs *core.CallSite) bool {
		switch cs.Name {
		case "utils/wlru.Cache.Add", "utils/wlru.Cache.Remove", "utils/wlru.Cache.RemoveOldest", "utils/wlru.Cache.Purge":
			return fieldNameOf(cs.F, cs.Recv()) == annField
		}
		return false
	}, 3)
	for _, m := range muts {
		if (m == as[0].Pt || f.CanReach(as[0].Pt, m)) && (m == use || f.CanReach(m, use)) {
			return false
		}
	}
	return true
}
